package main

// Gen/QueryBatchFacts.lean: which guards the downstream decode path has (queryer/fetch.go sendRequest,
// queryer/multiop_queryer.go queryBatch, executor/depth_executor_query.go executeRequests,
// executor/depth_executor_parse.go parseRespones, executor/result.go FindInsertionPoints).
// Model/QueryBatch.lean and Model/InsertionPoints.lean are parametrised by them; the C09/C10 theorems
// carry them as hypotheses discharged by `decide` against this file.

import (
	"fmt"
	"go/ast"
	"path/filepath"
	"strings"
)

func init() { extraGens["QueryBatchFacts"] = genQueryBatchFacts }

// fltReturnsError: the block ends with `return X, <non-nil>`
func fltReturnsError(b *ast.BlockStmt) bool {
	if b == nil || len(b.List) == 0 {
		return false
	}
	r, ok := b.List[len(b.List)-1].(*ast.ReturnStmt)
	if !ok || len(r.Results) == 0 {
		return false
	}
	last := norm(r.Results[len(r.Results)-1])
	return last != "nil"
}

func fltEndsWithContinue(b *ast.BlockStmt) bool {
	if b == nil || len(b.List) == 0 {
		return false
	}
	br, ok := b.List[len(b.List)-1].(*ast.BranchStmt)
	return ok && br.Tok.String() == "continue"
}

func genQueryBatchFacts(repo string) string {
	type facts struct {
		recognised, status, length, data, collect, errorsAbort, execLen, nodeMissing, nodeNotMap, rootList, safeID bool
	}
	var F facts
	foundFetch, foundRange, foundAssign, foundQuery, foundNodeLookup, foundNodeCast, foundRootLoop, foundIDCmp := false, false, false, false, false, false, false, false

	// sendRequest: status check
	if fd := findFunc(parseFile(filepath.Join(repo, "queryer", "fetch.go")), "sendRequest", "MultiOpQueryer"); fd != nil && fd.Body != nil {
		for _, st := range fd.Body.List {
			if ifs, ok := st.(*ast.IfStmt); ok && norm(ifs.Cond) == "resp.StatusCode < 200 || resp.StatusCode > 299" && fltReturnsError(ifs.Body) {
				F.status = true
			}
		}
	}
	// queryBatch
	if fd := findFunc(parseFile(filepath.Join(repo, "queryer", "multiop_queryer.go")), "queryBatch", "MultiOpQueryer"); fd != nil && fd.Body != nil {
		fetchIdx, rangeIdx := -1, -1
		for idx, st := range fd.Body.List {
			if fltRhsCall(st) == "q.fetch" && strings.HasPrefix(norm(st), "resps, err :=") {
				fetchIdx = idx
				foundFetch = true
			}
			if rs, ok := st.(*ast.RangeStmt); ok && norm(rs.X) == "resps" && fetchIdx >= 0 && rangeIdx < 0 {
				rangeIdx = idx
				foundRange = true
				sawErrors, sawData, collects := false, false, false
				for _, bst := range rs.Body.List {
					switch s := bst.(type) {
					case *ast.IfStmt:
						cond := norm(s.Cond)
						switch {
						case cond == "len(resp.Errors) != 0" && !sawData && !foundAssign:
							if fltReturnsError(s.Body) && strings.Contains(norm(s.Body), "return nil, resp.Errors") {
								sawErrors = true
							} else if fltEndsWithContinue(s.Body) && strings.Contains(norm(s.Body), "errs = append(errs, resp.Errors...)") {
								sawErrors, collects = true, true
							}
						case cond == "resp.Data == nil" && !foundAssign:
							if fltReturnsError(s.Body) && !collects {
								sawData = true
							} else if fltEndsWithContinue(s.Body) && strings.Contains(norm(s.Body), "errs = append(errs,") && collects {
								sawData = true
							}
						}
					case *ast.AssignStmt:
						if norm(s) == "results[toFetchIndexes[i]] = resp.Data" {
							foundAssign = true
						}
					}
				}
				F.errorsAbort, F.data, F.collect = sawErrors, sawData, collects
			}
		}
		if fetchIdx >= 0 && rangeIdx > fetchIdx {
			for _, st := range fd.Body.List[fetchIdx+1 : rangeIdx] {
				if ifs, ok := st.(*ast.IfStmt); ok && fltReturnsError(ifs.Body) {
					c := norm(ifs.Cond)
					if c == "len(resps) != len(inputsToFetch)" || c == "len(inputsToFetch) != len(resps)" {
						F.length = true
					}
				}
			}
			// collecting only counts if the collected errors are returned after the loop
			if F.collect {
				ret := false
				for _, st := range fd.Body.List[rangeIdx+1:] {
					if ifs, ok := st.(*ast.IfStmt); ok && norm(ifs.Cond) == "len(errs) != 0" && strings.Contains(norm(ifs.Body), "return nil, errs") {
						ret = true
					}
				}
				if !ret {
					F.collect, F.errorsAbort = false, false
				}
			}
		}
	}
	// executeRequests: count check between q.Query and the construction of qResps
	if fd := findFunc(parseFile(filepath.Join(repo, "executor", "depth_executor_query.go")), "executeRequests", "DepthExecutor"); fd != nil && fd.Body != nil {
		qIdx := -1
		for idx, st := range fd.Body.List {
			if fltRhsCall(st) == "q.Query" {
				qIdx = idx
				foundQuery = true
			}
			if ifs, ok := st.(*ast.IfStmt); ok && qIdx >= 0 && norm(ifs.Cond) == "len(resps) != len(batchRequest)" && fltReturnsError(ifs.Body) {
				F.execLen = true
			}
			if strings.HasPrefix(norm(st), "qResps :=") {
				break
			}
		}
	}
	// parseRespones: node unwrapping
	if fd := findFunc(parseFile(filepath.Join(repo, "executor", "depth_executor_parse.go")), "parseRespones", "DepthExecutor"); fd != nil && fd.Body != nil {
		ast.Inspect(fd.Body, func(n ast.Node) bool {
			blk, ok := n.(*ast.BlockStmt)
			if !ok {
				return true
			}
			for i, st := range blk.List {
				txt := norm(st)
				if strings.HasPrefix(txt, "qr, ok := queryResult[common.NodeFieldName]") {
					foundNodeLookup = true
					if i+1 < len(blk.List) {
						if ifs, ok := blk.List[i+1].(*ast.IfStmt); ok && norm(ifs.Cond) == "!ok" && fltReturnsError(ifs.Body) {
							F.nodeMissing = true
						}
					}
				}
				if strings.HasPrefix(txt, "qrMap, ok := qr.(map[string]interface{})") {
					foundNodeCast = true
					if i+1 < len(blk.List) {
						if ifs, ok := blk.List[i+1].(*ast.IfStmt); ok && norm(ifs.Cond) == "!ok" && fltReturnsError(ifs.Body) {
							F.nodeNotMap = true
						}
					}
				}
			}
			return true
		})
	}
	// FindInsertionPoints: the loop that indexes rootList by branch number
	if fd := findFunc(parseFile(filepath.Join(repo, "executor", "result.go")), "FindInsertionPoints", ""); fd != nil && fd.Body != nil {
		ast.Inspect(fd.Body, func(n ast.Node) bool {
			rs, ok := n.(*ast.RangeStmt)
			if !ok || norm(rs.X) != "oldBranch" || !strings.Contains(norm(rs.Body), "rootList[i]") {
				return true
			}
			foundRootLoop = true
			if len(rs.Body.List) > 0 {
				if ifs, ok := rs.Body.List[0].(*ast.IfStmt); ok && fltReturnsError(ifs.Body) {
					c := norm(ifs.Cond)
					if c == "i >= len(rootList)" || c == "len(rootList) <= i" {
						F.rootList = true
					}
				}
			}
			return true
		})
	}
	// getLeftEntityPosition: how two decoded ids are compared
	if fd := findFunc(parseFile(filepath.Join(repo, "executor", "utils.go")), "getLeftEntityPosition", ""); fd != nil && fd.Body != nil {
		ast.Inspect(fd.Body, func(n ast.Node) bool {
			ifs, ok := n.(*ast.IfStmt)
			if !ok || ifs.Init == nil || !strings.HasPrefix(norm(ifs.Init), "lID, ok := lMap[common.IDFieldName]") {
				return true
			}
			foundIDCmp = true
			switch norm(ifs.Cond) {
			case "ok && reflect.DeepEqual(lID, id)", "ok && reflect.DeepEqual(id, lID)":
				F.safeID = true
			}
			return true
		})
	}
	F.recognised = foundIDCmp && foundFetch && foundRange && foundAssign && foundQuery && foundNodeLookup && foundNodeCast && foundRootLoop
	var b strings.Builder
	b.WriteString("-- GENERATED by harness/cmd/extract from /repo/queryer/multiop_queryer.go, queryer/fetch.go, executor/depth_executor_query.go, executor/depth_executor_parse.go, executor/result.go, executor/utils.go — do not edit.\n")
	b.WriteString(`namespace PebblesVerif.Gen.QueryBatchFacts
structure Facts where
  recognised : Bool
  statusCheck : Bool
  lengthCheck : Bool
  dataCheck : Bool
  collectAllErrors : Bool
  errorsAbort : Bool
  executorLenCheck : Bool
  nodeMissingIsError : Bool
  nodeNotMapIsError : Bool
  rootListGuard : Bool
  safeIdCompare : Bool
  deriving DecidableEq, Repr
/-- the shape of the decode path the property theorems of C09/C10 need -/
def expected : Facts :=
  { recognised := true, statusCheck := true, lengthCheck := true, dataCheck := true, collectAllErrors := true,
    errorsAbort := true, executorLenCheck := true, nodeMissingIsError := true, nodeNotMapIsError := true,
    rootListGuard := true, safeIdCompare := true }
`)
	fmt.Fprintf(&b, "def facts : Facts :=\n  { recognised := %s, statusCheck := %s, lengthCheck := %s, dataCheck := %s, collectAllErrors := %s,\n"+
		"    errorsAbort := %s, executorLenCheck := %s, nodeMissingIsError := %s, nodeNotMapIsError := %s,\n    rootListGuard := %s, safeIdCompare := %s }\n",
		leanBool(F.recognised), leanBool(F.status), leanBool(F.length), leanBool(F.data), leanBool(F.collect),
		leanBool(F.errorsAbort), leanBool(F.execLen), leanBool(F.nodeMissing), leanBool(F.nodeNotMap), leanBool(F.rootList), leanBool(F.safeID))
	b.WriteString("end PebblesVerif.Gen.QueryBatchFacts\n")
	return b.String()
}
