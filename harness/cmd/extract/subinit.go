package main

// Facts about the ESTABLISHMENT phase of queryer.Subscribe (C18, Model/SubInit.lean): how errCh
// is made, closed and received from; what the reader goroutine does, statement by statement,
// until its read loop, and what it does when one of these statements fails; what the closer
// goroutine waits for; what the reader's deferred block does. `releases` (Lean:
// initFailureReleasesGoroutines) is true iff a failed establishment closes a channel that BOTH
// goroutines select on, so that they end without the caller (who discards the entry).
// Calls of verifhook.At are ignored.

import (
	"fmt"
	"go/ast"
	"go/token"
	"strings"
)

type subInitFacts struct {
	errChan    []string
	failBody   []string
	initSteps  []string
	closerBody []string
	readerExit []string
	releases   bool
}

func isRecvFrom(e ast.Expr, ch string) bool {
	u, ok := e.(*ast.UnaryExpr)
	return ok && u.Op == token.ARROW && norm(u.X) == ch
}

func countNodes(n ast.Node, pred func(ast.Node) bool) int {
	k := 0
	ast.Inspect(n, func(m ast.Node) bool {
		if m != nil && pred(m) {
			k++
		}
		return true
	})
	return k
}

func isCallOf(n ast.Node, text string) bool {
	c, ok := n.(*ast.CallExpr)
	return ok && norm(c) == text
}

// classifyFailBranch names the body of an `if err != nil { … }` of the establishment sequence.
func classifyFailBranch(b *ast.BlockStmt) string {
	var parts []string
	for _, st := range b.List {
		if isHook(st) {
			continue
		}
		parts = append(parts, norm(st))
	}
	switch strings.Join(parts, "; ") {
	case "fail(err); return":
		return "err => fail; return"
	case "errCh <- err; return":
		return "err => send errCh; return"
	}
	return "err => other: " + strings.Join(parts, "; ")
}

func stringsEq(a, b []string) bool {
	if len(a) != len(b) {
		return false
	}
	for i := range a {
		if a[i] != b[i] {
			return false
		}
	}
	return true
}

func extractSubInit(subFn *ast.FuncDecl) subInitFacts {
	var f subInitFacts
	if subFn == nil {
		return f
	}
	// ---- errCh / failedCh / fail, at the top level of Subscribe
	failedMade := false
	var gos []*ast.FuncLit
	recvs := 0
	for _, st := range subFn.Body.List {
		switch s := st.(type) {
		case *ast.GoStmt:
			if fl, ok := s.Call.Fun.(*ast.FuncLit); ok {
				gos = append(gos, fl)
			}
			continue
		case *ast.AssignStmt:
			n := norm(s)
			switch {
			case n == "errCh := make(chan error)":
				f.errChan = append(f.errChan, "unbuffered")
			case strings.HasPrefix(n, "errCh := make(chan error,"):
				f.errChan = append(f.errChan, "buffered")
			case n == "failedCh := make(chan struct{})":
				failedMade = true
			case strings.HasPrefix(n, "fail := func(err error)"):
				if fl, ok := s.Rhs[0].(*ast.FuncLit); ok {
					for _, b := range fl.Body.List {
						if isHook(b) {
							continue
						}
						switch norm(b) {
						case "close(failedCh)":
							f.failBody = append(f.failBody, "close failedCh")
						case "errCh <- err":
							f.failBody = append(f.failBody, "send errCh")
						default:
							f.failBody = append(f.failBody, "other: "+norm(b))
						}
					}
				}
				continue
			}
		case *ast.DeferStmt:
			if norm(s.Call) == "close(errCh)" {
				f.errChan = append(f.errChan, "defer close errCh")
			}
		}
		if _, isAssignOfFunc := st.(*ast.AssignStmt); isAssignOfFunc && strings.Contains(norm(st), ":= func(") {
			continue // closures (send, fail) are not executed here
		}
		recvs += countNodes(st, func(m ast.Node) bool {
			e, ok := m.(ast.Expr)
			return ok && isRecvFrom(e, "errCh")
		})
	}
	f.errChan = append(f.errChan, fmt.Sprintf("receives %d", recvs))
	f.errChan = append(f.errChan, fmt.Sprintf("closes %d", countNodes(subFn.Body, func(m ast.Node) bool { return isCallOf(m, "close(errCh)") })))
	closesFailed := countNodes(subFn.Body, func(m ast.Node) bool { return isCallOf(m, "close(failedCh)") })
	if len(gos) != 2 {
		f.initSteps = append(f.initSteps, fmt.Sprintf("other: %d goroutines", len(gos)))
		return f
	}
	// ---- the closer goroutine
	for _, st := range gos[0].Body.List {
		if isHook(st) {
			continue
		}
		switch s := st.(type) {
		case *ast.DeferStmt:
			continue
		case *ast.ExprStmt:
			switch {
			case isRecvFrom(s.X, "closeCh"):
				f.closerBody = append(f.closerBody, "recv closeCh")
			case norm(s.X) == "conn.Close()":
				f.closerBody = append(f.closerBody, "conn.Close")
			default:
				f.closerBody = append(f.closerBody, "other: "+norm(s))
			}
		case *ast.SelectStmt:
			var arms []string
			for _, c := range s.Body.List {
				cc := c.(*ast.CommClause)
				arm := "default"
				if es, ok := cc.Comm.(*ast.ExprStmt); ok {
					if u, ok := es.X.(*ast.UnaryExpr); ok && u.Op == token.ARROW {
						arm = norm(u.X)
					} else {
						arm = "other: " + norm(es)
					}
				} else if cc.Comm != nil {
					arm = "other: " + norm(cc.Comm)
				}
				if len(cc.Body) != 0 {
					arm += " => other"
				}
				arms = append(arms, arm)
			}
			sortStrings(arms)
			f.closerBody = append(f.closerBody, "select "+strings.Join(arms, " | "))
		default:
			f.closerBody = append(f.closerBody, "other: "+norm(st))
		}
	}
	// ---- the reader goroutine: deferred block, then the establishment sequence up to the loop
	for _, st := range gos[1].Body.List {
		if isHook(st) {
			continue
		}
		if ds, ok := st.(*ast.DeferStmt); ok {
			fl, ok := ds.Call.Fun.(*ast.FuncLit)
			if !ok || !strings.Contains(norm(fl.Body), "conn.Close()") {
				continue
			}
			for _, b := range fl.Body.List {
				if isHook(b) {
					continue
				}
				nb := norm(b)
				switch {
				case nb == "defer func() { recover() }()":
					f.readerExit = append(f.readerExit, "defer recover")
				case nb == "conn.Close()":
					f.readerExit = append(f.readerExit, "conn.Close")
				case nb == "send(nil)":
					f.readerExit = append(f.readerExit, "send(nil)")
				case nb == "resCh <- nil":
					f.readerExit = append(f.readerExit, "resCh <- nil")
				case nb == "select { case <-failedCh: return default: }":
					f.readerExit = append(f.readerExit, "select failedCh => return | default")
				default:
					f.readerExit = append(f.readerExit, "other: "+nb)
				}
			}
			continue
		}
		done := false
		switch s := st.(type) {
		case *ast.ForStmt:
			f.initSteps = append(f.initSteps, "loop")
			done = true
		case *ast.AssignStmt:
			n := norm(s)
			switch {
			case strings.Contains(n, "json.Marshal(") && strings.Contains(n, "requests.SubConnectionInit"):
				f.initSteps = append(f.initSteps, "marshal init")
			case strings.Contains(n, "json.Marshal(") && strings.Contains(n, "requests.SubStart"):
				f.initSteps = append(f.initSteps, "marshal start")
			default:
				f.initSteps = append(f.initSteps, "other: "+n)
			}
		case *ast.IfStmt:
			if norm(s.Cond) != "err != nil" || s.Else != nil {
				f.initSteps = append(f.initSteps, "other: "+norm(s))
				break
			}
			switch norm(s.Init) {
			case "":
			case "err := wsutil.WriteClientText(conn, bInitMsg)":
				f.initSteps = append(f.initSteps, "write init")
			case "err := wsutil.WriteClientText(conn, bRequestMsg)":
				f.initSteps = append(f.initSteps, "write start")
			default:
				f.initSteps = append(f.initSteps, "other: "+norm(s.Init))
			}
			f.initSteps = append(f.initSteps, classifyFailBranch(s.Body))
		case *ast.SendStmt:
			if norm(s) == "errCh <- nil" {
				f.initSteps = append(f.initSteps, "send errCh nil")
			} else {
				f.initSteps = append(f.initSteps, "other: "+norm(s))
			}
		default:
			f.initSteps = append(f.initSteps, "other: "+norm(st))
		}
		if done {
			break
		}
	}
	// ---- does a failed establishment release both goroutines?
	allFail, nFail := true, 0
	for _, s := range f.initSteps {
		if strings.HasPrefix(s, "err => ") {
			nFail++
			if s != "err => fail; return" {
				allFail = false
			}
		}
	}
	f.releases = failedMade && closesFailed == 1 &&
		stringsEq(f.failBody, []string{"close failedCh", "send errCh"}) &&
		allFail && nFail > 0 &&
		stringsEq(f.closerBody, []string{"select closeCh | failedCh", "conn.Close"}) &&
		stringsEq(f.readerExit, []string{"defer recover", "conn.Close", "select failedCh => return | default", "send(nil)"})
	return f
}
