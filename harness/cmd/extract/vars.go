package main

import (
	"go/ast"
	"go/token"
	"path/filepath"
	"strings"
)

// Gen/Vars.lean: how client variables travel into the sub-requests.
//
//   - format.walkArgumentList (the `$v: T` declarations of a sub-request) and
//     planner.getVariablesList (which client values are forwarded) look at the ARGUMENTS of
//     every field; whether they also walk the field's DIRECTIVES (`f @include(if: $b)`) is read
//     here. Without it a variable used only in a directive is undeclared and not forwarded.
//   - gateway.go / subscription.go: whether, between operation selection and planning, the
//     variable defaults DECLARED by the client (`query($v: Int = 5)`) are filled into the
//     request's variables for every variable the client sent no value for (an explicit null is
//     a value). Sub-requests declare their variables without defaults, so a default can only
//     travel as a value.
//
// Model/Format.lean and Model/Exec.lean branch on these facts; Props/C02.lean opens with
// `facts = expected`.
func init() { extraGens["Vars"] = genVars }

// rangeOverDirectives finds `for _, d := range <x>.Directives { … }` directly or nested in a
// function body and reports whether its body reads d.Arguments (and, if wantDefs, also
// d.Definition.Arguments, i.e. the declared types).
func rangeOverDirectives(fd *ast.FuncDecl, wantDefs bool) bool {
	if fd == nil || fd.Body == nil {
		return false
	}
	found := false
	ast.Inspect(fd.Body, func(n ast.Node) bool {
		r, ok := n.(*ast.RangeStmt)
		if !ok || !strings.HasSuffix(norm(r.X), ".Directives") {
			return true
		}
		v, ok := r.Value.(*ast.Ident)
		if !ok || v.Name == "_" {
			return true
		}
		args, defs := false, false
		ast.Inspect(r.Body, func(m ast.Node) bool {
			if s, ok := m.(*ast.SelectorExpr); ok {
				switch norm(s) {
				case v.Name + ".Arguments":
					args = true
				case v.Name + ".Definition.Arguments":
					defs = true
				}
			}
			return true
		})
		if args && (defs || !wantDefs) {
			found = true
		}
		return true
	})
	return found
}

// defaultsHelperShape recognises the helper that fills in the declared defaults:
//
//	for _, vd := range operation.VariableDefinitions {
//	    if vd.DefaultValue == nil { continue }
//	    if _, ok := request.Variables[vd.Variable]; ok { continue }      // a provided value (null included) stays
//	    value, err := vd.DefaultValue.Value(nil); if err != nil { continue }
//	    if request.Variables == nil { request.Variables = make(…) }
//	    request.Variables[vd.Variable] = value
//	}
func defaultsHelperShape(fd *ast.FuncDecl) bool {
	if fd == nil || fd.Body == nil || fd.Type.Params == nil {
		return false
	}
	var names []string
	for _, p := range fd.Type.Params.List {
		for _, n := range p.Names {
			names = append(names, n.Name)
		}
	}
	if len(names) != 2 || len(fd.Body.List) != 1 {
		return false
	}
	op, req := names[0], names[1]
	r, ok := fd.Body.List[0].(*ast.RangeStmt)
	if !ok || norm(r.X) != op+".VariableDefinitions" {
		return false
	}
	v, ok := r.Value.(*ast.Ident)
	if !ok {
		return false
	}
	vd := v.Name
	var seq []string
	for _, st := range r.Body.List {
		switch s := st.(type) {
		case *ast.IfStmt:
			init := ""
			if s.Init != nil {
				init = norm(s.Init) + "; "
			}
			tail := "?"
			if fltEndsWithContinue(s.Body) && len(s.Body.List) == 1 {
				tail = "continue"
			} else if len(s.Body.List) == 1 {
				tail = norm(s.Body.List[0])
			}
			if s.Else != nil {
				tail = "?"
			}
			seq = append(seq, "if "+init+norm(s.Cond)+" { "+tail+" }")
		default:
			seq = append(seq, norm(st))
		}
	}
	want := []string{
		"if " + vd + ".DefaultValue == nil { continue }",
		"if _, ok := " + req + ".Variables[" + vd + ".Variable]; ok { continue }",
		"value, err := " + vd + ".DefaultValue.Value(nil)",
		"if err != nil { continue }",
		"if " + req + ".Variables == nil { " + req + ".Variables = make(map[string]interface{}) }",
		req + ".Variables[" + vd + ".Variable] = value",
	}
	if len(seq) != len(want) {
		return false
	}
	for i := range want {
		if i == len(want)-1 && seq[i] == req+".Variables["+vd+".Variable] = emptyListsNotNil(value)" {
			continue // the default `[]` is kept as a list (fact emptyListDefaultsKept)
		}
		if seq[i] != want[i] {
			return false
		}
	}
	return true
}

// emptyListDefaultsKept: the helper stores `emptyListsNotNil(value)`: (*ast.Value).Value returns a
// nil slice for an EMPTY list literal, which encoding/json writes as null.
func emptyListDefaultsKept(repo string) bool {
	f := parseFile(filepath.Join(repo, "gateway.go"))
	fd := findFunc(f, "applyDeclaredDefaults", "")
	if fd == nil || fd.Body == nil || findFunc(f, "emptyListsNotNil", "") == nil {
		return false
	}
	kept := false
	ast.Inspect(fd.Body, func(n ast.Node) bool {
		if as, ok := n.(*ast.AssignStmt); ok && len(as.Rhs) == 1 && norm(as.Rhs[0]) == "emptyListsNotNil(value)" {
			kept = true
		}
		return true
	})
	return kept
}

// callBetween: inside fd, `helper(operation, request)` is called after the operation has been
// selected (the `operation == nil` test) and before the call whose function text is `before`.
func callBetween(fd *ast.FuncDecl, helper, before string) bool {
	if fd == nil || fd.Body == nil {
		return false
	}
	var nilTest, call, next token.Pos
	calls := 0 // the helper is called ONCE (for the selected operation), not also for other operations
	ast.Inspect(fd.Body, func(n ast.Node) bool {
		if c, ok := n.(*ast.CallExpr); ok && norm(c.Fun) == helper {
			calls++
		}
		return true
	})
	if calls != 1 {
		return false
	}
	ast.Inspect(fd.Body, func(n ast.Node) bool {
		switch x := n.(type) {
		case *ast.IfStmt:
			if norm(x.Cond) == "operation == nil" && nilTest == 0 {
				nilTest = x.End()
			}
		case *ast.CallExpr:
			switch norm(x.Fun) {
			case helper:
				if len(x.Args) == 2 && norm(x.Args[0]) == "operation" && norm(x.Args[1]) == "request" && call == 0 {
					call = x.Pos()
				}
			case before:
				if next == 0 {
					next = x.Pos()
				}
			}
		}
		return true
	})
	return nilTest != 0 && call != 0 && next != 0 && nilTest < call && call < next
}

func genVars(repo string) string {
	walk := findFunc(parseFile(filepath.Join(repo, "format", "format.go")), "walkArgumentList", "Formatter")
	list := findFunc(parseFile(filepath.Join(repo, "planner", "plan.go")), "getVariablesList", "")
	gw := parseFile(filepath.Join(repo, "gateway.go"))
	sub := parseFile(filepath.Join(repo, "subscription.go"))
	qh := findFunc(gw, "queryHandler", "Gateway")
	sh := findFunc(sub, "subscriptionHandler", "Gateway")
	recognised := walk != nil && list != nil && qh != nil && sh != nil

	dirsHeader := rangeOverDirectives(walk, true)
	dirsList := rangeOverDirectives(list, false)

	// the helper may live in either file of the root package
	const helperName = "applyDeclaredDefaults"
	helper := findFunc(gw, helperName, "")
	if helper == nil {
		helper = findFunc(sub, helperName, "")
	}
	helperOK := defaultsHelperShape(helper)
	defaultsQuery := helperOK && callBetween(qh, helperName, "g.planner.Plan")
	defaultsSub := helperOK && callBetween(sh, helperName, "g.newSubscriptionEntry")

	return "/-! GENERATED by harness/cmd/extract from format/format.go, planner/plan.go, gateway.go, subscription.go — do not edit. -/\n" +
		"namespace PebblesVerif.Gen.Vars\n\n" +
		"/-- walkArgumentList, getVariablesList, queryHandler and subscriptionHandler were found -/\n" +
		"def recognised : Bool := " + leanBool(recognised) + "\n\n" +
		"/-- format.walkArgumentList also walks `field.Directives` (arguments and their declared types) -/\n" +
		"def directivesWalkedInHeader : Bool := " + leanBool(dirsHeader) + "\n\n" +
		"/-- planner.getVariablesList also walks `field.Directives` -/\n" +
		"def directivesWalkedInVariablesList : Bool := " + leanBool(dirsList) + "\n\n" +
		"/-- queryHandler fills the declared defaults of the selected operation into the request's\n" +
		"    variables (helper of the recognised shape, called between operation selection and planning) -/\n" +
		"def declaredDefaultsApplied : Bool := " + leanBool(defaultsQuery) + "\n\n" +
		"/-- the `start` arm of subscriptionHandler does the same before newSubscriptionEntry -/\n" +
		"def declaredDefaultsAppliedSubscription : Bool := " + leanBool(defaultsSub) + "\n\n" +
		"/-- applyDeclaredDefaults keeps an empty-list default (also nested) as `[]` (`emptyListsNotNil`);\n" +
		"    without it gqlparser's nil slice is sent as null -/\n" +
		"def emptyListDefaultsKept : Bool := " + leanBool(emptyListDefaultsKept(repo)) + "\n\n" +
		"/-- format.go records variable types through `setVariableType` (the strictest type of all positions\n" +
		"    wins) and nowhere by plain map assignment -/\n" +
		"def strictestTypeWins : Bool := " + leanBool(strictestTypeWins(repo)) + "\n\n" +
		"end PebblesVerif.Gen.Vars\n"
}


// strictestTypeWins: format/format.go declares `setVariableType` with the expected guard and no
// function of the file assigns `res[…] = …` directly any more (except inside setVariableType).
func strictestTypeWins(repo string) bool {
	f := parseFile(filepath.Join(repo, "format", "format.go"))
	if f == nil {
		return false
	}
	fd := findFunc(f, "setVariableType", "")
	if fd == nil || fd.Body == nil || len(fd.Body.List) != 2 {
		return false
	}
	guard, ok := fd.Body.List[0].(*ast.IfStmt)
	if !ok || !strings.Contains(norm(guard.Cond), `strings.Count(old, "!") >= strings.Count(typ, "!")`) ||
		!strings.Contains(norm(guard.Cond), `strings.ReplaceAll(old, "!", "") == strings.ReplaceAll(typ, "!", "")`) {
		return false
	}
	direct := false
	for _, d := range f.Decls {
		fn, ok := d.(*ast.FuncDecl)
		if !ok || fn.Body == nil || fn.Name.Name == "setVariableType" {
			continue
		}
		ast.Inspect(fn.Body, func(n ast.Node) bool {
			if as, ok := n.(*ast.AssignStmt); ok && len(as.Lhs) == 1 {
				if ix, ok := as.Lhs[0].(*ast.IndexExpr); ok && norm(ix.X) == "res" {
					direct = true
				}
			}
			return true
		})
	}
	return !direct
}
