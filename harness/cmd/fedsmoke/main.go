// fedsmoke: quick manual smoke test of the fed package (not part of any check).
package main

import (
	"fmt"
	"os"
	"strconv"

	"github.com/vektah/gqlparser/v2"
	"verif/harness/fed"
	"verif/harness/hx"
)

func main() {
	seed := uint64(1)
	if len(os.Args) > 1 {
		n, _ := strconv.Atoi(os.Args[1])
		seed = uint64(n)
	}
	r := hx.NewRand(seed)
	ok, bad := 0, 0
	drv, derr := hx.StartDriver("/verif/lean/.lake/build/bin/pvdriver")
	if derr != nil {
		fmt.Println("no driver", derr)
	}
	specOK, specBad := 0, 0
	for k := 0; k < 200; k++ {
		rr := r.Fork()
		o := fed.DefaultGen()
		o.Abstract = k%2 == 0 && os.Getenv("SMOKE_ABS") != ""
		spec := fed.Generate(rr, o)
		data := fed.GenData(rr, spec, fed.DefaultData())
		f, err := fed.Build(spec, data)
		if err != nil {
			fmt.Println("BUILD:", err)
			bad++
			continue
		}
		mr, err := f.Merged()
		if err != nil {
			fmt.Println("MERGE:", err)
			for i := range f.Services {
				fmt.Println(f.Services[i].SDL)
			}
			bad++
			continue
		}
		gw, err := f.NewGateway(fed.GatewayConfig{})
		if err != nil {
			fmt.Println("GATEWAY:", err)
			bad++
			continue
		}
		for j := 0; j < 5; j++ {
			so := fed.SafeOps()
			so.InlineFrags, so.NamedFrags = os.Getenv("SMOKE_FRAGS") != "", os.Getenv("SMOKE_FRAGS") != ""
			op := fed.GenOp(rr, mr.Schema, data, "query", so)
			doc, gerr := gqlparser.LoadQuery(mr.Schema, op.Query)
			if gerr != nil {
				fmt.Println("INVALID OP:", gerr, "\n", op.Query)
				bad++
				continue
			}
			opd := doc.Operations[0]
			ev := &fed.Eval{Schema: mr.Schema, Data: data.Clone(), Vars: op.Variables}
			want := ev.Execute(opd)
			if drv != nil {
				res, err := drv.Call(map[string]interface{}{"op": "spec.eval", "schema": hx.SchemaToJSON(mr.Schema), "data": data.ToJSON(), "operation": hx.OpToJSON(opd), "variables": op.Variables})
				if err != nil {
					fmt.Println("driver:", err)
				} else if hx.Canon(res["data"]) == hx.Canon(want) {
					specOK++
				} else {
					specBad++
					if specBad < 4 {
						fmt.Println("SPEC DIFF\n", op.Query, hx.Canon(op.Variables), "\n go  ", hx.Canon(want), "\n lean", hx.Canon(res["data"]))
					}
				}
			}
			f.ResetLogs()
			resp := fed.Do(gw, op.Query, op.Variables, op.OpName)
			if hx.Canon(resp.Data) == hx.Canon(want) && len(resp.Errors) == 0 {
				ok++
			} else {
				bad++
				if len(op.Query) < 400 {
					fmt.Println("DIFF", op.Features, "\n", op.Query, "\nwant", hx.Canon(want), "\ngot ", string(resp.Raw))
					if os.Getenv("SMOKE_V") != "" {
						for i := range f.Services {
							fmt.Println("--svc", i, "\n"+f.Services[i].SDL)
						}
						for _, c := range f.AllCalls() {
							fmt.Println("  call svc", c.Service, c.Query, hx.Canon(c.Variables), c.Invalid)
						}
					}
				}
			}
		}
	}
	fmt.Println("ok", ok, "bad", bad, "spec-agree", specOK, "spec-differ", specBad)
}
