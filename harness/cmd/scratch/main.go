package main

import (
	"encoding/json"
	"fmt"
	"os"

	"verif/harness/fed"
)

type cse struct {
	Query  string                 `json:"query"`
	Vars   map[string]interface{} `json:"variables"`
	OpName *string                `json:"operationName"`
	Fed    struct {
		Spec *fed.Spec `json:"spec"`
		Data *fed.Data `json:"data"`
	} `json:"fed"`
}

func main() {
	b, _ := os.ReadFile(os.Args[1])
	var rec struct {
		Failure struct {
			Case cse `json:"case"`
		} `json:"failure"`
	}
	if err := json.Unmarshal(b, &rec); err != nil {
		panic(err)
	}
	cs := rec.Failure.Case
	if cs.Fed.Data.Counters == nil {
		cs.Fed.Data.Counters = map[string]int{}
	}
	f, err := fed.Build(cs.Fed.Spec, cs.Fed.Data)
	if err != nil {
		panic(err)
	}
	for _, s := range f.Services {
		if len(os.Args) > 2 {
			fmt.Println("SDL", s.URL, s.SDL)
		}
	}
	gw, err := f.NewGateway(fed.GatewayConfig{})
	if err != nil {
		panic(err)
	}
	f.ResetLogs()
	resp := fed.Do(gw, cs.Query, cs.Vars, cs.OpName)
	fmt.Println("RESPONSE", string(resp.Raw))
	for _, c := range f.AllCalls() {
		v, _ := json.Marshal(c.Variables)
		fmt.Println("CALL", f.Services[c.Service].URL, c.Query, string(v), "INVALID:", c.Invalid)
	}
}
