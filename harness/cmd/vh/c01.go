package main

import (
	"encoding/json"
	"fmt"
	"os"
	"path/filepath"
	"sort"
	"strings"
	"time"

	pebbles "github.com/buildbuildio/pebbles"
	"github.com/buildbuildio/pebbles/merger"

	"github.com/buildbuildio/pebbles/common"
	"github.com/buildbuildio/pebbles/executor"
	"github.com/buildbuildio/pebbles/planner"
	"github.com/vektah/gqlparser/v2/ast"

	"verif/harness/fed"
	"verif/harness/hx"
)

func init() {
	register("C01", runC01)
	registerReplay("C01", func(ctx *Ctx, raw json.RawMessage) error {
		var cs coreCase
		if err := json.Unmarshal(raw, &cs); err != nil {
			return err
		}
		c01Check(ctx, 0, cs)
		return nil
	})
}

// c01Outcome is what one run through the real gateway looks like, canonically.
type c01Outcome struct {
	Data   interface{} `json:"data"`
	Errors []string    `json:"errors,omitempty"`
	Calls  []string    `json:"calls"`
}

func errMsgs(errs []interface{}) []string {
	var out []string
	for _, e := range errs {
		if m, ok := e.(map[string]interface{}); ok {
			out = append(out, fmt.Sprint(m["message"]))
		}
	}
	sort.Strings(out)
	return out
}

// c01Check: impl vs reference (the property), impl vs model (plan, sub-requests, data).
func c01Check(ctx *Ctx, idx int, cs coreCase) {
	cf, err := buildCoreFedCase(cs)
	if err != nil {
		ctx.Rep.Count("federation rejected")
		return
	}
	key := hx.Canon(cs)
	full := withDump(cs, cf) // failure records carry the federation itself
	_, op, err := loadOp(cf.Merged.Schema, cs.Query, cs.OpName)
	if err != nil {
		ctx.Rep.Count("operation invalid (generator)")
		return
	}
	ctx.Rep.Case(key, len(cf.F.Services) >= 2)
	doc0, _, _ := loadOp(cf.Merged.Schema, cs.Query, cs.OpName)
	of := analyseOp(cf.Merged.Schema, doc0, op)
	df := analyseData(cf.F.Data)
	ctx.Rep.Count(fmt.Sprintf("services=%d", len(cf.F.Services)))
	for _, ft := range cs.Features {
		ctx.Rep.Count("feature:" + ft)
	}
	// reference: single server over merged schema and the union data
	ev := &fed.Eval{Schema: cf.Merged.Schema, Data: cf.F.Data.Clone(), Vars: cs.Vars}
	want := ev.Execute(op)
	// real gateway
	gw, err := cf.F.NewGateway(fed.GatewayConfig{})
	if err != nil {
		ctx.Rep.Count("gateway rejected federation")
		return
	}
	// the real planner rewrites the operation's AST in place: give it its own copy
	_, opForPlanner, _ := loadOp(cf.Merged.Schema, cs.Query, cs.OpName)
	rp, perr := realPlan(cf, opForPlanner, cs)
	shadow := rp != nil && planHasShadowedStitchPath(rp.RootSteps)
	fail := func(mode, detail string, impl, model interface{}) {
		cls := classify(of, df, shadow, mode)
		if cs.Pinned {
			cls = "" // recorded as passing: not an instance of any open finding
		}
		if cls != "" {
			pinWitness("C01", cls, full)
			ctx.Rep.Count("known:" + cls + " [" + mode + "]") // how often each open finding was met, per failure mode
		}
		ctx.Rep.Fail(hx.Failure{Kind: "property-fails", Class: cls, Detail: detail + " [" + mode + "]", Case: full, Impl: impl, Model: model, Index: idx})
	}
	cf.F.ResetLogs()
	resp := fed.Do(gw, cs.Query, cs.Vars, cs.OpName)
	var calls []string
	for _, c := range cf.F.AllCalls() {
		calls = append(calls, subRequestKey(cf.F.Services[c.Service].URL, c.Query, c.Variables))
		if c.Invalid != "" {
			fail(failureMode(c.Invalid, nil, false), "a sub-request does not validate against the schema of the service it was sent to: "+c.Invalid, c.Query, nil)
			return
		}
		if bad := foreignLookupID(cf, c); bad != "" {
			fail("lookup-with-foreign-id", "a follow-up lookup node(id: $id) was sent with "+bad+", which is not the id of any entity", map[string]interface{}{"query": c.Query, "variables": c.Variables}, nil)
			return
		}
	}
	sort.Strings(calls)
	got := c01Outcome{Data: resp.Data, Errors: errMsgs(resp.Errors), Calls: calls}
	if len(ctx.Rep.Samples) < 3 && len(calls) >= 2 {
		ctx.Rep.Sample(map[string]interface{}{"case": cs, "response": json.RawMessage(resp.Raw), "sub_requests": len(calls)})
	}
	if len(calls) >= 2 {
		ctx.Rep.Count("multi-step plan")
	}
	// ---- the property: data equals the single-server answer, errors empty (modulo pruning)
	if len(resp.Errors) > 0 || hx.Canon(prune(toGeneric(resp.Data))) != hx.Canon(prune(toGeneric(want))) {
		fail(failureMode("", got.Errors, true), "gateway answer differs from the single-server answer over the merged schema", got, map[string]interface{}{"reference": want})
		return
	}
	// ---- configurations that must not change results: node-hiding merger, id-to-type hint,
	// caching planner, small downstream batches, permuted service list
	for _, alt := range c01Configs(cf, cs, idx) {
		gw2, err := cf.F.NewGateway(alt.cfg)
		if err != nil && alt.name == "service-listed-twice" {
			ctx.Rep.Count("config:service-listed-twice refused at start")
			continue
		}
		if err != nil {
			ctx.Rep.Fail(hx.Failure{Kind: "property-fails", Detail: "configuration " + alt.name + ": the gateway no longer starts: " + err.Error(), Case: full, Index: idx})
			return
		}
		if alt.name == "cached-planner" && cs.Sibling != "" {
			// another operation of the SAME document first: the cache must not confuse them
			sib := "Sibling"
			fed.Do(gw2, cs.Query, nil, &sib)
		}
		for rep := 0; rep < alt.reps; rep++ {
			r2 := fed.Do(gw2, cs.Query, cs.Vars, cs.OpName)
			if len(r2.Errors) > 0 || hx.Canon(toGeneric(r2.Data)) != hx.Canon(toGeneric(resp.Data)) {
				fail("wrong-data", "configuration "+alt.name+" changes the response", map[string]interface{}{"default": json.RawMessage(resp.Raw), alt.name: json.RawMessage(r2.Raw)}, nil)
				return
			}
		}
		ctx.Rep.Count("config:" + alt.name)
	}
	if ctx.Driver == nil {
		return
	}
	// ---- correspondence: plan
	dreq := driverCtx(cf, op, cs)
	dreq["op"] = "core.plan"
	mplan, err := ctx.Driver.Call(dreq)
	if err != nil && mplan == nil {
		ctx.Rep.Fail(hx.Failure{Kind: "harness-error", Detail: err.Error(), Case: full, Index: idx})
		return
	}
	if f, isFault := mplan["fault"]; isFault {
		if msg, _ := mplan["msg"].(string); strings.HasPrefix(msg, "not-modelled") {
			ctx.Rep.Count("outside model scope: " + msg)
			return
		}
		ctx.Rep.Fail(hx.Failure{Kind: "model-mismatch", Detail: fmt.Sprintf("model planner reports %v %v, the real planner produced a plan", f, mplan["msg"]), Case: full, Model: mplan, Index: idx})
		return
	}
	if perr != nil {
		ctx.Rep.Fail(hx.Failure{Kind: "model-mismatch", Detail: "real planner error, model planned: " + perr.Error(), Case: full, Index: idx})
		return
	}
	if !modelsAgree(ctx, mplan, full, idx) {
		return
	}
	var realSteps []interface{}
	for _, s := range rp.RootSteps {
		realSteps = append(realSteps, realStepToJSON(s))
	}
	var modelSteps []interface{}
	if ms, ok := mplan["steps"].([]interface{}); ok {
		for _, s := range ms {
			modelSteps = append(modelSteps, normModelStep(s))
		}
	}
	realSteps, modelSteps = sortSteps(realSteps), sortSteps(modelSteps)
	ctx.Rep.Traces++
	if hx.Canon(toGeneric(realSteps)) != hx.Canon(modelSteps) {
		ctx.Rep.Fail(hx.Failure{Kind: "model-mismatch", Detail: "plan steps differ between planner.SequentialPlanner and Model.plan", Case: full,
			Impl: toGeneric(realSteps), Model: modelSteps, Index: idx})
		return
	}
	if hx.Canon(scrubToJSON(rp.ScrubFields)) != hx.Canon(modelScrubToJSON(mplan["scrub"])) {
		ctx.Rep.Fail(hx.Failure{Kind: "model-mismatch", Detail: "scrub fields differ between the real planner and the model", Case: full,
			Impl: scrubToJSON(rp.ScrubFields), Model: modelScrubToJSON(mplan["scrub"]), Index: idx})
		return
	}
	// ---- correspondence: execution (data and the multiset of sub-requests)
	dreq["op"] = "core.gateway"
	mres, err := ctx.Driver.Call(dreq)
	if err != nil && mres == nil {
		ctx.Rep.Fail(hx.Failure{Kind: "harness-error", Detail: err.Error(), Case: full, Index: idx})
		return
	}
	var mcalls []string
	if cl, ok := mres["calls"].([]interface{}); ok {
		for _, c := range cl {
			cm := c.(map[string]interface{})
			for _, rq := range cm["batch"].([]interface{}) {
				mcalls = append(mcalls, modelSubRequestKey(cm["url"].(string), rq.(map[string]interface{})))
			}
		}
	}
	sort.Strings(mcalls)
	if hx.Canon(mres["data"]) != hx.Canon(toGeneric(resp.Data)) {
		ctx.Rep.Fail(hx.Failure{Kind: "model-mismatch", Detail: "response data differs between the real gateway and Model.gateway", Case: full, Impl: got, Model: mres["data"], Index: idx})
		return
	}
	if strings.Join(mcalls, "\n") != strings.Join(calls, "\n") {
		ctx.Rep.Fail(hx.Failure{Kind: "model-mismatch", Detail: "the multiset of sub-requests differs between the real gateway and Model.gateway", Case: full, Impl: calls, Model: mcalls, Index: idx})
	}
}

type c01Alt struct {
	name string
	cfg  fed.GatewayConfig
	reps int
}

// idTypeHint is a sound GetParentTypeFromIDFunc for generated plain ids ("N0_3" ↦ "N0").
func idTypeHint(id interface{}) (string, bool) {
	s, ok := id.(string)
	if !ok {
		return "", false
	}
	i := strings.LastIndex(s, "_")
	if i <= 0 {
		return "", false
	}
	return s[:i], true
}

func c01Configs(cf *coreFed, cs coreCase, idx int) []c01Alt {
	alts := []c01Alt{
		{"id-hint", fed.GatewayConfig{Options: []pebbles.GatewayOption{pebbles.WithGetParentTypeFromIDFunc(idTypeHint)}}, 1},
		{"cached-planner", fed.GatewayConfig{Options: []pebbles.GatewayOption{pebbles.WithPlanner(planner.NewCachedPlanner(time.Hour))}}, 2},
		{"max-batch-" + fmt.Sprint(1+idx%3), fed.GatewayConfig{MaxBatch: 1 + idx%3}, 1},
	}
	if !strings.Contains(cs.Query, "node(") {
		alts = append(alts, c01Alt{"node-hiding-merger", fed.GatewayConfig{Options: []pebbles.GatewayOption{pebbles.WithMerger(merger.SanitizeNodeMergerFunc(nil))}}, 1})
	}
	if n := len(cf.F.Services); n > 1 {
		ord := make([]int, n)
		for i := range ord {
			ord[i] = (i + 1 + idx%(n-1)) % n
		}
		alts = append(alts, c01Alt{"rotated-service-list", fed.GatewayConfig{URLOrder: ord}, 1})
		// one service listed twice, in front: the tree refuses to start (its root fields collide with
		// themselves); a gateway that does start has to route every field as before
		dup := []int{idx % n}
		for i := 0; i < n; i++ {
			dup = append(dup, i)
		}
		alts = append(alts, c01Alt{"service-listed-twice", fed.GatewayConfig{URLOrder: dup}, 1})
	}
	return alts
}

func displayNameOf(f *ast.Field) string {
	if f.Alias != "" {
		return f.Alias
	}
	return f.Name
}

// directField: the field with that response name AT THIS LEVEL (through inline fragments and the
// planner's node(id:$id) wrapper) — what a correct lookup would find.
func directField(point string, ss ast.SelectionSet) *ast.Field {
	fields := common.SelectionSetToFields(ss, nil)
	if len(fields) == 1 && fields[0].Name == "node" && fields[0].Alias == "" {
		fields = common.SelectionSetToFields(fields[0].SelectionSet, nil)
	}
	for _, f := range fields {
		if displayNameOf(f) == point {
			return f
		}
	}
	return nil
}

func planHasShadowedStitchPath(steps []*planner.QueryPlanStep) bool {
	for _, s := range steps {
		for _, d := range s.Then {
			root := s.SelectionSet
			for i := len(s.InsertionPoint); i < len(d.InsertionPoint); i++ {
				point := d.InsertionPoint[i]
				dfs := executor.FindSelection(point, root)
				if dfs != directField(point, root) {
					return true
				}
				if dfs == nil {
					break
				}
				root = dfs.SelectionSet
			}
		}
		if planHasShadowedStitchPath(s.Then) {
			return true
		}
	}
	return false
}

func genCoreCase(r *hx.Rand, abstract, wild bool, kind string) (coreCase, bool) {
	seed := r.U64() % 1000000
	cf, err := buildCoreFed(seed, abstract, false)
	if err != nil {
		return coreCase{}, false
	}
	oo := fed.SafeOps()
	if wild {
		oo = fed.WildOps()
	}
	if kind == "mutation" && cf.Merged.Schema.Mutation == nil {
		kind = "query"
	}
	oo.IDVar, oo.VarReuse = true, true
	op := fed.GenOp(r, cf.Merged.Schema, cf.F.Data, kind, oo)
	if op == nil {
		return coreCase{}, false
	}
	cs := coreCase{FedSeed: seed, Abstract: abstract, Query: op.Query, Vars: op.Variables, OpName: op.OpName, Kind: kind, Features: op.Features}
	// sometimes a document with two operations, selected by operationName
	if !wild && r.Chance(1, 4) && op.OpName == nil && !strings.Contains(op.Query, "Sibling") {
		so := fed.SafeOps()
		so.NamedFrags, so.Variables, so.MaxDepth = false, false, 2
		sib := fed.GenOp(r, cf.Merged.Schema, cf.F.Data, "query", so)
		if sib != nil && sib.OpName == nil && strings.HasPrefix(strings.TrimSpace(sib.Query), "{") == strings.HasPrefix(strings.TrimSpace(sib.Query), "{") {
			main := namedOperation(op.Query, kind, "Main")
			sibQ := namedOperation(sib.Query, "query", "Sibling")
			if main != "" && sibQ != "" {
				name := "Main"
				cs.Query, cs.OpName, cs.Sibling = sibQ+"\n"+main, &name, "Sibling"
				cs.Features = append(cs.Features, "two-operations")
			}
		}
	}
	return cs, true
}

// namedOperation gives a generated single-operation document the operation name `name`
// ("" if the text already carries a name).
func namedOperation(q, kind, name string) string {
	t := strings.TrimSpace(q)
	switch {
	case strings.HasPrefix(t, "{"):
		return kind + " " + name + " " + t
	case strings.HasPrefix(t, kind+" {"), strings.HasPrefix(t, kind+"("), strings.HasPrefix(t, kind+" ("):
		return kind + " " + name + strings.TrimPrefix(t, kind)
	}
	return ""
}

// genC01UnderscorePaths: directed stream — two stitch paths whose response keys contain
// underscores and read the same once joined with "_" ([a_b, c] and [a, b_c]); any bookkeeping keyed
// by a joined path must keep them apart.
func genC01UnderscorePaths(r *hx.Rand) (coreCase, bool) {
	base := func(t string) string { return strings.Trim(t, "[]!") }
	for try := 0; try < 40; try++ {
		seed := r.U64() % 1000000
		cf, err := buildCoreFed(seed, false, false)
		if err != nil {
			continue
		}
		sp := cf.F.Spec
		for _, q := range sp.Query {
			T := sp.Type(base(q.Type))
			if T == nil || !T.Node || len(q.Args) > 0 {
				continue
			}
			for _, g := range T.Fields {
				U := sp.Type(base(g.Type))
				if U == nil || !U.Node || len(g.Args) > 0 {
					continue
				}
				for _, lf := range U.Fields {
					if lf.Name == "id" || len(lf.Args) > 0 || sp.Type(base(lf.Type)) != nil || sp.Abstract(base(lf.Type)) != nil || lf.Owner == g.Owner {
						continue
					}
					query := fmt.Sprintf("{ a_b: %s { c: %s { %s } } a: %s { b_c: %s { %s } } }", q.Name, g.Name, lf.Name, q.Name, g.Name, lf.Name)
					return coreCase{FedSeed: seed, Query: query, Kind: "query", Features: []string{"alias", "directed:underscore-paths"}}, true
				}
			}
		}
	}
	return coreCase{}, false
}

func runC01(ctx *Ctx) error {
	ctx.Rep.Rule = "case = (generated federation of 1..3 services with an entity graph, valid client operation, variables) through the real NewGateway+Handler over in-process fake services; " +
		"oracle = single-server evaluation over the merged schema and the union data (modulo empty-object pruning); correspondence = plan steps, scrub table, sub-requests and data vs the Lean model; " +
		"distinct = distinct case; non-trivial = federation with ≥2 services"
	cases := 400
	if ctx.Thorough() {
		cases = 12000
	}
	if p := os.Getenv("VH_C01_PIN"); p != "" {
		return c01WritePinned(ctx, p, 14)
	}
	// corpus: the inputs of the repaired defects come first (they must keep passing)
	for i, cs := range c01Corpus() {
		c01Check(ctx, i, cs)
	}
	for k := 0; k < cases; k++ {
		r := ctx.Rand.Fork()
		kind := "query"
		if r.Chance(1, 6) {
			kind = "mutation"
		}
		cs, ok := genCoreCase(r, false, false, kind)
		if !ok {
			ctx.Rep.Count("generator rejected")
			continue
		}
		c01Check(ctx, 100+k, cs)
	}
	for k, cs := range spreadInterfaceCases() {
		ctx.Rep.Count("stream:interface-spread (pinned)")
		c01Check(ctx, 60000+k, cs)
	}
	for k, cs := range c01LoadPinned() {
		cs.Pinned = true
		ctx.Rep.Count("stream:pinned (inside an open finding's input class, answered correctly)")
		if c01Trial(ctx, cs) {
			again := 0
			for t := 0; t < 3; t++ {
				if c01Trial(ctx, cs) {
					again++
				}
			}
			if again < 3 {
				ctx.Rep.Count("pinned: a failure did not reproduce in three further runs (not reported)")
				continue
			}
		}
		c01Check(ctx, 70000+k, cs)
	}
	nu := 8
	if ctx.Thorough() {
		nu = 60
	}
	for k := 0; k < nu; k++ {
		if cs, ok := genC01UnderscorePaths(ctx.Rand.Fork()); ok {
			ctx.Rep.Count("stream:underscore-paths")
			c01Check(ctx, 50000+k, cs)
		}
	}
	// one stream per feature outside the safe profile: safe + exactly that feature. A failure must
	// fall in a documented class (input predicate ∧ failure mode); anything else is a violation.
	per := cases / 16
	for si, st := range coreStreams {
		for k := 0; k < per; k++ {
			r := ctx.Rand.Fork()
			cs, ok := genStreamCase(r, st)
			if !ok {
				continue
			}
			ctx.Rep.Count("stream:" + st.name)
			c01Check(ctx, 100000*(si+1)+k, cs)
		}
	}
	return nil
}

type coreStream struct {
	name     string
	abstract bool
	wildData func(*fed.DataOptions)
	ops      func(*fed.OpOptions)
}

var coreStreams = []coreStream{
	{name: "directives", ops: func(o *fed.OpOptions) { o.Directives = true }},
	{name: "root-typename", ops: func(o *fed.OpOptions) { o.RootTypename = true }},
	{name: "alias-helpers", ops: func(o *fed.OpOptions) { o.AliasHelpers = true }},
	{name: "alias-collide", ops: func(o *fed.OpOptions) { o.AliasCollide = true }},
	{name: "multi-spread", ops: func(o *fed.OpOptions) { o.MultiSpread = true }},
	{name: "node-root", ops: func(o *fed.OpOptions) { o.NodeRoot = true }},
	{name: "node-root-plain", ops: func(o *fed.OpOptions) { o.NodeRoot, o.NodeRootPlain = true, true }},
	{name: "abstract", abstract: true, ops: func(o *fed.OpOptions) { o.AbstractFrags = true }},
	{name: "var-defaults", ops: func(o *fed.OpOptions) { o.VarDefaults = true }},
	{name: "hash-ids", wildData: func(d *fed.DataOptions) { d.IDs = fed.IDWild }},
	{name: "null-object-elements", wildData: func(d *fed.DataOptions) { d.NullObjElems = true }},
}

func genStreamCase(r *hx.Rand, st coreStream) (coreCase, bool) {
	rr := hx.NewRand(r.U64())
	o := fed.DefaultGen()
	o.Abstract = st.abstract
	spec := fed.Generate(rr, o)
	do := fed.DefaultData()
	if st.wildData != nil {
		st.wildData(&do)
	}
	data := fed.GenData(rr, spec, do)
	f, err := fed.Build(spec, data)
	if err != nil {
		return coreCase{}, false
	}
	mr, err := f.Merged()
	if err != nil {
		return coreCase{}, false
	}
	oo := fed.SafeOps()
	if st.ops != nil {
		st.ops(&oo)
	}
	op := fed.GenOp(rr, mr.Schema, data, "query", oo)
	if op == nil {
		return coreCase{}, false
	}
	return coreCase{Query: op.Query, Vars: op.Variables, OpName: op.OpName, Kind: "query", Features: op.Features, Fed: &fedDump{Spec: spec, Data: data}}, true
}

// ---------------------------------------------------------------------------------------------
// pinned cases: operations INSIDE the input class of an open finding which the tree answers
// correctly. An open finding excuses its failure modes on its whole input class; a pinned case is
// excused nothing. corpus/C01/pinned.json is written by a maintenance run (VH_C01_PIN=<file>): each
// candidate passed 30 fresh runs of the whole C01 oracle before it was kept. In a check run a
// pinned case that fails is run three more times and reported only if it fails every time.

// c01Trial runs the property oracle of c01Check (no model correspondence) on a scratch report.
func c01Trial(ctx *Ctx, cs coreCase) (failed bool) {
	tmp := *ctx
	tmp.Driver = nil
	tmp.Rep = hx.NewReport(ctx.Prop, ctx.Tier, ctx.Seed)
	c01Check(&tmp, 0, cs)
	return len(tmp.Rep.Failures) > 0
}

func c01PinnedPath() string {
	dir := os.Getenv("VERIF_DIR")
	if dir == "" {
		dir = "."
	}
	return filepath.Join(dir, "corpus", "C01", "pinned.json")
}

func c01LoadPinned() []coreCase {
	b, err := os.ReadFile(c01PinnedPath())
	if err != nil {
		return nil
	}
	var out []coreCase
	if json.Unmarshal(b, &out) != nil {
		return nil
	}
	return out
}

// c01WritePinned: maintenance action, never part of a check run.
func c01WritePinned(ctx *Ctx, path string, perStream int) error {
	var out []coreCase
	for _, st := range coreStreams {
		kept := 0
		// most cases for the streams whose class is still an OPEN finding (the wide ones first)
		perStream := map[string]int{"abstract": 5 * perStream, "directives": 2 * perStream, "alias-helpers": 2 * perStream, "alias-collide": 2 * perStream}[st.name]
		if perStream == 0 {
			perStream = 5
		}
		for try := 0; try < perStream*40 && kept < perStream; try++ {
			cs, ok := genStreamCase(ctx.Rand.Fork(), st)
			if !ok || len(cs.Query) > 600 {
				continue
			}
			cf, err := buildCoreFedCase(cs)
			if err != nil {
				continue
			}
			doc, op, err := loadOp(cf.Merged.Schema, cs.Query, cs.OpName)
			if err != nil {
				continue
			}
			of, df := analyseOp(cf.Merged.Schema, doc, op), analyseData(cf.F.Data)
			// outcomes of node(id:) roots depend on map iteration order (finding C13-node-root-scrub-order)
			if of.NodeRoot || of.PlainNodeRoot || of.RootTypename {
				continue
			}
			in := false
			for _, c := range c01Classes {
				if c.in(of, df, false) || c.in(of, df, true) {
					in = true
				}
			}
			if !in {
				continue
			}
			good := true
			for t := 0; t < 30 && good; t++ {
				good = !c01Trial(ctx, cs)
			}
			if !good {
				continue
			}
			cs.Pinned = true
			cs.Features = append(cs.Features, "pinned:"+st.name)
			out = append(out, cs)
			kept++
		}
		fmt.Fprintf(os.Stderr, "pinned %d cases of stream %s\n", kept, st.name)
	}
	b, err := json.Marshal(out)
	if err != nil {
		return err
	}
	return os.WriteFile(path, b, 0o644)
}

// pinWitness writes the first witness of a class into corpus/<prop>/<class>.json when VERIF_PIN is
// set (a maintenance action, never part of a check run).
func pinWitness(prop, class string, cs coreCase) {
	if os.Getenv("VERIF_PIN") == "" || len(cs.Query) > 400 {
		return
	}
	dir := os.Getenv("VERIF_DIR")
	if dir == "" {
		dir = "."
	}
	path := filepath.Join(dir, "corpus", prop, class+".json")
	if _, err := os.Stat(path); err == nil {
		return
	}
	os.MkdirAll(filepath.Dir(path), 0o755)
	b, _ := json.MarshalIndent(map[string]interface{}{"note": "pinned witness of open finding " + class, "case": cs}, "", " ")
	os.WriteFile(path, b, 0o644)
}

// c01Corpus: pinned witnesses of repaired defects (seed-independent federations).
func c01Corpus() []coreCase { return loadCorpus("C01") }

// modelsAgree: the driver plans with the value-level sanitiser model (the one the theorems are
// about) and, where a named fragment is expanded more than once, with the model that carries the
// in-place rewriting of the shared fragment definition; on every operation WITHOUT repeated
// expansion both are run and must produce the same plan and scrub table.
func modelsAgree(ctx *Ctx, mplan map[string]interface{}, full interface{}, idx int) bool {
	if ms, _ := mplan["multiSpread"].(bool); ms {
		ctx.Rep.Count("model: sharing sanitiser (a fragment expanded more than once)")
	}
	if ok, present := mplan["sharedAgrees"].(bool); present && !ok {
		ctx.Rep.Fail(hx.Failure{Kind: "model-mismatch", Detail: "Model.plan and Model.planShared disagree on an operation in which no fragment is expanded twice", Case: full, Model: mplan, Index: idx})
		return false
	}
	return true
}
