package main

import (
	"encoding/json"
	"fmt"
	"sort"
	"strings"

	"github.com/buildbuildio/pebbles/common"
	"github.com/buildbuildio/pebbles/planner"
	"github.com/vektah/gqlparser/v2"
	"github.com/vektah/gqlparser/v2/ast"

	"verif/harness/fed"
	"verif/harness/hx"
)

func init() {
	register("C02", runC02)
	registerReplay("C02", func(ctx *Ctx, raw json.RawMessage) error {
		var cs coreCase
		if err := json.Unmarshal(raw, &cs); err != nil {
			return err
		}
		if cs.Kind == c02SubKind {
			c02SubCheck(ctx, 0, cs)
			return nil
		}
		c02Check(ctx, 0, cs)
		return nil
	})
}

// clientField is one (parent type, field) pair the client selected, with the service(s) declaring it.
type clientField struct {
	Parent string
	Name   string
}

func collectClientFields(schema *ast.Schema, parent string, ss ast.SelectionSet, out map[clientField]bool) {
	for _, s := range ss {
		switch s := s.(type) {
		case *ast.Field:
			if !strings.HasPrefix(s.Name, "__") {
				out[clientField{parent, s.Name}] = true
			}
			if s.Definition != nil && s.SelectionSet != nil {
				collectClientFields(schema, s.Definition.Type.Name(), s.SelectionSet, out)
			}
		case *ast.InlineFragment:
			p := s.TypeCondition
			if p == "" {
				p = parent
			}
			collectClientFields(schema, p, s.SelectionSet, out)
		case *ast.FragmentSpread:
			if s.Definition != nil {
				collectClientFields(schema, s.Definition.TypeCondition, s.Definition.SelectionSet, out)
			}
		}
	}
}

// stepFields collects the (parent type, field) pairs a validated sub-request selects.
func stepFields(parent string, ss ast.SelectionSet, out map[clientField]bool) {
	for _, s := range ss {
		switch s := s.(type) {
		case *ast.Field:
			if !strings.HasPrefix(s.Name, "__") {
				out[clientField{parent, s.Name}] = true
			}
			if s.Definition != nil && s.SelectionSet != nil {
				stepFields(s.Definition.Type.Name(), s.SelectionSet, out)
			}
		case *ast.InlineFragment:
			p := s.TypeCondition
			if p == "" {
				p = parent
			}
			stepFields(p, s.SelectionSet, out)
		}
	}
}

// concreteFields: selecting a field on an interface selects it on every possible type — both the
// client's selections and a sub-request's are compared at the level of object types, so that
// `feed { rating }` (Media.rating) and `feed { ... on Book { rating } ... on Film { rating } }` agree.
//
// optional (may be nil) receives the expanded entries (T, f) of an interface I for which some service
// declares I but not T: a field of that service returning I can never yield a T, so a plan that
// does not ask for T.f below it is complete. (Which service resolves which selection is not
// tracked here; C01 compares the data.)
func concreteFields(schema *ast.Schema, in map[clientField]bool, services []*fed.Service, optional map[clientField]bool) map[clientField]bool {
	out := map[clientField]bool{}
	for f := range in {
		d := schema.Types[f.Parent]
		if d != nil && (d.Kind == ast.Interface || d.Kind == ast.Union) {
			for _, pt := range schema.GetPossibleTypes(d) {
				if pt.Fields.ForName(f.Name) == nil {
					continue
				}
				cfld := clientField{pt.Name, f.Name}
				if !in[cfld] && optional != nil {
					for _, sv := range services {
						if sv.Schema.Types[f.Parent] != nil && sv.Schema.Types[pt.Name] == nil {
							optional[cfld] = true
						}
					}
				}
				out[cfld] = true
			}
			continue
		}
		out[f] = true
	}
	return out
}

// c02IfaceCorrespondence: Model/IfaceSplit.lean against the real plan. When the client selects plain
// fields (no fragment, no __typename) on an interface-typed field and the step sent to a service
// carries inline fragments below it, these come from formatSelectionSetForInterface: their type
// conditions, in order, must be the model's fragmentTypes for that service.
func c02IfaceCorrespondence(ctx *Ctx, idx int, full coreCase, cf *coreFed, op *ast.OperationDefinition, rp *planner.QueryPlan) {
	if ctx.Driver == nil {
		return
	}
	plain := true
	var scan func(ss ast.SelectionSet)
	scan = func(ss ast.SelectionSet) {
		for _, sel := range ss {
			switch x := sel.(type) {
			case *ast.Field:
				if x.Name == "__typename" {
					plain = false
				}
				scan(x.SelectionSet)
			default:
				plain = false
			}
		}
	}
	scan(op.SelectionSet)
	if !plain {
		return
	}
	schema := cf.Merged.Schema
	var inputs []interface{}
	for _, sv := range cf.F.Services {
		types := []string{}
		for name, d := range sv.Schema.Types {
			if d.Kind != ast.Object || strings.HasPrefix(name, "__") {
				continue
			}
			entry := false
			for _, itf := range d.Interfaces {
				if itf == "Node" {
					entry = true
				}
			}
			isRoot := name == "Query" || name == "Mutation" || name == "Subscription"
			for _, f := range d.Fields {
				if strings.HasPrefix(f.Name, "__") || f.Name == "id" || (isRoot && f.Name == "node") {
					continue
				}
				entry = true
			}
			if entry {
				types = append(types, name)
			}
		}
		sort.Strings(types)
		inputs = append(inputs, map[string]interface{}{"url": sv.URL, "types": types})
	}
	walkSteps(rp.RootSteps, func(st *planner.QueryPlanStep) {
		var walk func(parent string, ss ast.SelectionSet)
		walk = func(parent string, ss ast.SelectionSet) {
			for _, sel := range ss {
				switch x := sel.(type) {
				case *ast.InlineFragment:
					p := x.TypeCondition
					if p == "" {
						p = parent
					}
					walk(p, x.SelectionSet)
				case *ast.Field:
					pd := schema.Types[parent]
					if pd == nil {
						continue
					}
					fd := pd.Fields.ForName(x.Name)
					if fd == nil {
						continue
					}
					tn := fd.Type.Name()
					td := schema.Types[tn]
					if td != nil && td.Kind == ast.Interface {
						var conds []string
						for _, c := range x.SelectionSet {
							if fr, ok := c.(*ast.InlineFragment); ok {
								conds = append(conds, fr.TypeCondition)
							}
						}
						if len(conds) > 0 {
							defs := []string{}
							for _, pt := range schema.PossibleTypes[tn] {
								defs = append(defs, pt.Name)
							}
							res, err := ctx.Driver.Call(map[string]interface{}{"op": "c02.ifaceFragments", "inputs": inputs, "defs": defs, "loc": st.URL})
							if err != nil {
								ctx.Rep.Fail(hx.Failure{Kind: "harness-error", Detail: err.Error(), Case: full, Index: idx})
								return
							}
							ctx.Rep.Traces++
							ctx.Rep.Count("iface-fragments compared with Model.IfaceSplit")
							if hx.Canon(res["fragments"]) != hx.Canon(conds) {
								ctx.Rep.Fail(hx.Failure{Kind: "model-mismatch", Detail: fmt.Sprintf("fragments of the spread interface %s below %s.%s in the sub-request for %s differ from Model.IfaceSplit.fragmentTypes", tn, parent, x.Name, st.URL),
									Case: full, Index: idx, Impl: map[string]interface{}{"fragments": conds, "query": st.QueryString}, Model: res})
							}
						}
					}
					walk(tn, x.SelectionSet)
				}
			}
		}
		walk(st.ParentType, st.SelectionSet)
	})
}

func walkSteps(steps []*planner.QueryPlanStep, f func(*planner.QueryPlanStep)) {
	for _, s := range steps {
		f(s)
		walkSteps(s.Then, f)
	}
}

// c02Check: per translation, independent of data. Oracle from the statement:
//
//	(1) each sub-request parses and validates against ITS service's schema (gqlparser: unknown
//	    type/field/argument, undeclared variable, variable type vs position are validation rules);
//	(2) every client variable a sub-request uses is forwarded (VariablesList ⊇ used variables), and
//	    every sub-request actually SENT carries, for each client variable it declares, the value
//	    the client sent (an explicit null is a value) or — no value sent — the default the client
//	    declared (as a value, or as the same default in the sub-request's own declaration);
//	(3) every client-selected field is selected by some sub-request sent to a service that declares it;
//	(4) sub-requests add only id/__typename (and the node wrapper), registered for removal unless client-selected.
func c02Check(ctx *Ctx, idx int, cs coreCase) {
	cf, err := buildCoreFedCase(cs)
	if err != nil {
		ctx.Rep.Count("federation rejected")
		return
	}
	_, op, err := loadOp(cf.Merged.Schema, cs.Query, cs.OpName)
	if err != nil {
		ctx.Rep.Count("operation invalid (generator)")
		return
	}
	full := withDump(cs, cf)
	ctx.Rep.Case(hx.Canon(cs), len(cf.F.Services) >= 2)
	for _, ft := range cs.Features {
		ctx.Rep.Count("feature:" + ft)
	}
	client := map[clientField]bool{}
	root := map[ast.Operation]string{ast.Query: "Query", ast.Mutation: "Mutation", ast.Subscription: "Subscription"}[op.Operation]
	collectClientFields(cf.Merged.Schema, root, op.SelectionSet, client)
	optional := map[clientField]bool{}
	client = concreteFields(cf.Merged.Schema, client, cf.F.Services, optional)
	_, opForPlanner, _ := loadOp(cf.Merged.Schema, cs.Query, cs.OpName)
	rp, perr := realPlan(cf, opForPlanner, cs)
	if perr != nil {
		ctx.Rep.Fail(hx.Failure{Kind: "property-fails", Detail: "a valid operation could not be planned: " + perr.Error(), Case: full, Index: idx})
		return
	}
	c02IfaceCorrespondence(ctx, idx, full, cf, op, rp)
	svcByURL := map[string]*fed.Service{}
	for _, s := range cf.F.Services {
		svcByURL[s.URL] = s
	}
	covered := map[clientField]bool{}
	nsteps := 0
	fail := ""
	var failImpl interface{}
	walkSteps(rp.RootSteps, func(s *planner.QueryPlanStep) {
		nsteps++
		if fail != "" {
			return
		}
		if s.URL == common.InternalServiceName {
			return // introspection fields are answered by the gateway itself
		}
		svc := svcByURL[s.URL]
		if svc == nil {
			fail, failImpl = "a step is addressed to an unknown service "+s.URL, s.QueryString
			return
		}
		doc, gerr := gqlparser.LoadQuery(svc.Schema, s.QueryString)
		if gerr != nil {
			fail, failImpl = "sub-request does not validate against the schema of "+s.URL+": "+gerr.Error(), s.QueryString
			return
		}
		if len(doc.Operations) != 1 {
			fail, failImpl = "sub-request carries several operations", s.QueryString
			return
		}
		sop := doc.Operations[0]
		// (2) used client variables are forwarded; `id` is supplied by the executor
		for _, vd := range sop.VariableDefinitions {
			if vd.Variable == "id" && len(s.InsertionPoint) > 0 {
				continue
			}
			found := false
			for _, v := range s.VariablesList {
				if v == vd.Variable {
					found = true
				}
			}
			if !found {
				fail, failImpl = "variable $"+vd.Variable+" is declared by the sub-request but not in its VariablesList (its value would not be forwarded)", s.QueryString
				return
			}
		}
		sroot := map[ast.Operation]string{ast.Query: "Query", ast.Mutation: "Mutation", ast.Subscription: "Subscription"}[sop.Operation]
		sf := map[clientField]bool{}
		stepFields(sroot, sop.SelectionSet, sf)
		sf = concreteFields(cf.Merged.Schema, sf, nil, nil)
		for f := range sf {
			covered[f] = true
			if !client[f] && f.Name != "id" && !(f.Parent == "Query" && f.Name == "node") {
				fail, failImpl = fmt.Sprintf("sub-request selects %s.%s which the client did not ask for and which is not a helper", f.Parent, f.Name), s.QueryString
				return
			}
		}
	})
	if fail == "" {
		var missing []string
		for f := range client {
			if f.Name == "id" || (f.Parent == "Query" && f.Name == "node") {
				continue
			}
			if !covered[f] && !optional[f] {
				missing = append(missing, f.Parent+"."+f.Name)
			}
		}
		sort.Strings(missing)
		if len(missing) > 0 {
			fail, failImpl = "client-selected fields are in no sub-request: "+strings.Join(missing, ", "), nil
		}
	}
	ctx.Rep.Count(fmt.Sprintf("steps=%d", nsteps))
	if nsteps >= 2 {
		ctx.Rep.Sample(map[string]interface{}{"query": cs.Query, "steps": nsteps})
	}
	if fail != "" {
		ctx.Rep.Fail(hx.Failure{Kind: "property-fails", Class: c02Class(cs, fail), Detail: fail, Case: full, Impl: failImpl, Index: idx})
		return
	}
	// (2c) the values travel: every sub-request actually SENT carries the client's value (an
	// explicit null is a value) for each client variable it declares
	if gw, gerr := cf.F.NewGateway(fed.GatewayConfig{}); gerr == nil {
		cf.F.ResetLogs()
		fed.Do(gw, cs.Query, cs.Vars, cs.OpName)
		for _, c := range cf.F.AllCalls() {
			if bad := foreignLookupID(cf, c); bad != "" {
				ctx.Rep.Fail(hx.Failure{Kind: "property-fails", Detail: "a follow-up lookup node(id: $id) was sent with " + bad + ": the executor's own variable took a client value", Case: full, Impl: map[string]interface{}{"query": c.Query, "variables": c.Variables}, Index: idx})
				return
			}
			doc, perr := gqlparser.LoadQuery(cf.F.Services[c.Service].Schema, c.Query)
			if perr != nil || len(doc.Operations) != 1 {
				continue
			}
			for _, vd := range doc.Operations[0].VariableDefinitions {
				cvd := op.VariableDefinitions.ForName(vd.Variable)
				if cvd == nil {
					continue
				}
				if vd.Variable == "id" && strings.Contains(c.Query, "node(id: $id)") {
					continue // the executor's own $id
				}
				want, provided := cs.Vars[vd.Variable]
				if !provided {
					// (2b) no value sent: a default the client declared must travel, as a value or as
					// the same default in the sub-request's own declaration
					if cvd.DefaultValue == nil {
						continue
					}
					dflt, derr := cvd.DefaultValue.Value(nil)
					if derr != nil {
						continue
					}
					dflt = emptyListsAsLists(dflt) // gqlparser hands an EMPTY list literal back as a nil slice (JSON null): the declared default is `[]`
					if got, sent := c.Variables[vd.Variable]; sent {
						if hx.Canon(toGeneric(got)) != hx.Canon(toGeneric(dflt)) {
							ctx.Rep.Fail(hx.Failure{Kind: "property-fails", Class: c02Class(cs, "client-declared default"), Detail: fmt.Sprintf("client-declared default %s of $%s: the sub-request was sent with another value (sent: %v)", cvd.DefaultValue.String(), vd.Variable, hx.Canon(c.Variables)), Case: full, Impl: c.Query, Index: idx})
							return
						}
						continue
					}
					if vd.DefaultValue == nil || vd.DefaultValue.String() != cvd.DefaultValue.String() {
						ctx.Rep.Fail(hx.Failure{Kind: "property-fails", Class: c02Class(cs, "client-declared default"), Detail: fmt.Sprintf("client-declared default %s of $%s is neither in the sub-request's declaration nor forwarded as a value (sent: %v)", cvd.DefaultValue.String(), vd.Variable, hx.Canon(c.Variables)), Case: full, Impl: c.Query, Index: idx})
						return
					}
					continue
				}
				got, sent := c.Variables[vd.Variable]
				if !sent || hx.Canon(got) != hx.Canon(want) {
					ctx.Rep.Fail(hx.Failure{Kind: "property-fails", Class: c02Class(cs, fmt.Sprintf("declares $%s", vd.Variable)), Detail: fmt.Sprintf("a sub-request declares $%s but was sent without the client's value %s for it (sent: %v)", vd.Variable, hx.Canon(want), hx.Canon(c.Variables)), Case: full, Impl: c.Query, Index: idx})
					return
				}
			}
		}
	}
	// correspondence: the model's plan (shared with C01)
	if ctx.Driver == nil {
		return
	}
	dreq := driverCtx(cf, op, cs)
	dreq["op"] = "core.plan"
	mplan, derr := ctx.Driver.Call(dreq)
	if derr != nil && mplan == nil {
		ctx.Rep.Fail(hx.Failure{Kind: "harness-error", Detail: derr.Error(), Case: full, Index: idx})
		return
	}
	if _, isFault := mplan["fault"]; isFault {
		if msg, _ := mplan["msg"].(string); strings.HasPrefix(msg, "not-modelled") {
			ctx.Rep.Count("outside model scope")
			return
		}
		ctx.Rep.Fail(hx.Failure{Kind: "model-mismatch", Detail: fmt.Sprintf("model planner fault %v, real planner planned", mplan["msg"]), Case: full, Model: mplan, Index: idx})
		return
	}
	if !modelsAgree(ctx, mplan, full, idx) {
		return
	}
	var realSteps, modelSteps []interface{}
	for _, s := range rp.RootSteps {
		realSteps = append(realSteps, realStepToJSON(s))
	}
	if ms, ok := mplan["steps"].([]interface{}); ok {
		for _, s := range ms {
			modelSteps = append(modelSteps, normModelStep(s))
		}
	}
	ctx.Rep.Traces++
	if hx.Canon(toGeneric(sortSteps(realSteps))) != hx.Canon(sortSteps(modelSteps)) {
		ctx.Rep.Fail(hx.Failure{Kind: "model-mismatch", Detail: "plan steps differ between planner.SequentialPlanner and Model.plan", Case: full, Impl: toGeneric(realSteps), Model: modelSteps, Index: idx})
	}
}

func hasFeature(cs coreCase, f string) bool {
	for _, x := range cs.Features {
		if x == f {
			return true
		}
	}
	return false
}

// c02Class: known-finding classes = input class ∧ failure mode
func c02Class(cs coreCase, fail string) string {
	switch {
	case strings.Contains(cs.Query, "$id:") && (strings.Contains(fail, "Variable \"$id\"") || strings.Contains(fail, "declares $id")):
		return "variable-named-id"
	}
	return ""
}

func runC02(ctx *Ctx) error {
	ctx.Rep.Rule = "case = (generated federation, valid client operation) through the real SequentialPlanner on the really merged schema; oracle per translation (no data): " +
		"every step's query string validates against its own service's schema with gqlparser, used variables are forwarded, client fields are covered at a declaring service, extra fields are helpers only; " +
		"distinct = distinct case; non-trivial = ≥2 services"
	cases := 1200
	if ctx.Thorough() {
		cases = 40000
	}
	for i, cs := range loadCorpus("C02") {
		c02Check(ctx, i, cs)
	}
	for i, cs := range spreadInterfaceCases() {
		ctx.Rep.Count("stream:interface-spread (pinned)")
		c02Check(ctx, 30+i, cs)
	}
	// the other place where operations are selected: the `start` arm of the websocket handler
	for i, cs := range c02SubCases() {
		c02SubCheck(ctx, 50+i, cs)
	}
	for k := 0; k < cases; k++ {
		r := ctx.Rand.Fork()
		kind := "query"
		if r.Chance(1, 5) {
			kind = "mutation"
		}
		cs, ok := genCoreCase(r, false, false, kind)
		if !ok {
			ctx.Rep.Count("generator rejected")
			continue
		}
		c02Check(ctx, 100+k, cs)
	}
	// client-declared variable defaults and @skip/@include, by literal and by variable: no excuse,
	// every failure is a violation
	for k := 0; k < cases/6; k++ {
		r := ctx.Rand.Fork()
		seed := r.U64() % 1000000
		cf, err := buildCoreFed(seed, false, false)
		if err != nil {
			continue
		}
		oo := fed.SafeOps()
		oo.VarDefaults, oo.Directives = true, true
		op := fed.GenOp(r, cf.Merged.Schema, cf.F.Data, "query", oo)
		if op == nil {
			continue
		}
		ctx.Rep.Count("wild-stream")
		c02Check(ctx, 900000+k, coreCase{FedSeed: seed, Query: op.Query, Vars: op.Variables, OpName: op.OpName, Kind: "query", Features: op.Features})
	}
	return nil
}

// emptyListsAsLists: the value a default literal denotes, independent of gqlparser's nil-slice
// representation of empty lists.
func emptyListsAsLists(v interface{}) interface{} {
	switch x := v.(type) {
	case []interface{}:
		out := make([]interface{}, len(x))
		for i, e := range x {
			out[i] = emptyListsAsLists(e)
		}
		return out
	case map[string]interface{}:
		out := map[string]interface{}{}
		for k, e := range x {
			out[k] = emptyListsAsLists(e)
		}
		return out
	}
	return v
}
