package main

import (
	"fmt"
	"time"

	pebbles "github.com/buildbuildio/pebbles"

	"verif/harness/fed"
	"verif/harness/hx"
)

// Directed cases of C02 through the REAL websocket handler (subscriptionHandler, `start` arm):
// a subscription whose variable declares a default. The root subscription request the gateway
// sends upstream must carry the client's value (an explicit null is a value) or, when the client
// sent none, the default it declared — the upstream declaration has no default, so the default can
// only travel as a value. (Queries and mutations are covered by c02Check's step (2b)/(2c); this
// is the other place where an operation is selected.)

const c02SubKind = "subscription-start"

func c02SubFed() (*fed.Spec, *fed.Data) {
	spec := &fed.Spec{
		NumServices: 1,
		Query:       []fed.FieldSpec{{Name: "q0", Type: "String", Owner: 0}},
		Subs:        []fed.FieldSpec{{Name: "s0", Type: "String", Args: []fed.ArgSpec{{Name: "a0", Type: "Int"}, {Name: "a1", Type: "String"}}, Owner: 0}},
		NoNodeField: map[int]bool{},
	}
	data := &fed.Data{Entities: map[string]*fed.Object{}, Roots: map[string]map[string]fed.Val{
		"Query": {}, "Mutation": {}, "Subscription": {"s0": {Kind: "scalar", Scalar: "tick"}}}, Counters: map[string]int{}}
	return spec, data
}

func c02SubCases() []coreCase {
	spec, data := c02SubFed()
	q := `subscription($v: Int = 5, $w: String = "x") { s0(a0: $v, a1: $w) }`
	mk := func(vars map[string]interface{}) coreCase {
		return coreCase{Query: q, Vars: vars, Kind: c02SubKind, Features: []string{"var-default", "directed:subscription-start"}, Fed: &fedDump{Spec: spec, Data: data}}
	}
	// a document with several operations: only the SELECTED operation's declarations count
	two := `subscription A($v: Int = 1, $w: String = "a") { s0(a0: $v, a1: $w) } subscription B($v: Int = 5, $w: String) { s0(a0: $v, a1: $w) }`
	mk2 := func(name string, vars map[string]interface{}) coreCase {
		return coreCase{Query: two, Vars: vars, OpName: &name, Kind: c02SubKind, Features: []string{"var-default", "directed:subscription-start", "multi-operation document"}, Fed: &fedDump{Spec: spec, Data: data}}
	}
	return []coreCase{
		mk2("B", nil),
		mk2("B", map[string]interface{}{"w": "z"}),
		mk2("A", nil),
		mk2("A", map[string]interface{}{"v": 9}),
		mk(nil),
		mk(map[string]interface{}{}),
		mk(map[string]interface{}{"v": nil}),
		mk(map[string]interface{}{"v": 2, "w": "y"}),
		mk(map[string]interface{}{"w": nil}),
	}
}

// c02SubCheck starts one subscription over a real websocket connection and inspects the root
// subscription request recorded by the queryer.
func c02SubCheck(ctx *Ctx, idx int, cs coreCase) {
	cf, err := buildCoreFedCase(cs)
	if err != nil {
		ctx.Rep.Fail(hx.Failure{Kind: "harness-error", Detail: "subscription federation: " + err.Error(), Case: cs, Index: idx})
		return
	}
	_, op, err := loadOp(cf.Merged.Schema, cs.Query, cs.OpName)
	if err != nil {
		ctx.Rep.Fail(hx.Failure{Kind: "harness-error", Detail: "subscription operation: " + err.Error(), Case: cs, Index: idx})
		return
	}
	ctx.Rep.Case(hx.Canon(cs), true)
	ctx.Rep.Count("directed:subscription-start (real websocket handler)")
	log := &fed.SubLog{}
	gw, err := cf.F.NewGateway(fed.GatewayConfig{Options: []pebbles.GatewayOption{cf.F.SubQueryerFactory(log, 0)}})
	if err != nil {
		ctx.Rep.Fail(hx.Failure{Kind: "harness-error", Detail: "gateway: " + err.Error(), Case: cs, Index: idx})
		return
	}
	gs := fed.ServeGateway(gw.Handler)
	defer gs.Close()
	cl, err := fed.DialWS(gs.WSURL())
	if err != nil {
		ctx.Rep.Fail(hx.Failure{Kind: "harness-error", Detail: "dial: " + err.Error(), Case: cs, Index: idx})
		return
	}
	defer cl.Abort()
	cl.Init()
	if err := cl.Start("1", cs.Query, cs.Vars, cs.OpName); err != nil {
		ctx.Rep.Fail(hx.Failure{Kind: "harness-error", Detail: "start: " + err.Error(), Case: cs, Index: idx})
		return
	}
	var reqs []fed.SubReq
	for t := 0; t < 400 && len(reqs) == 0; t++ {
		reqs = log.Take()
		if len(reqs) == 0 {
			time.Sleep(5 * time.Millisecond)
		}
	}
	if len(reqs) != 1 {
		ctx.Rep.Fail(hx.Failure{Kind: "property-fails", Detail: fmt.Sprintf("a valid subscription was started but %d root subscription requests reached the owner", len(reqs)), Case: cs, Index: idx})
		return
	}
	sent := reqs[0].Request.Variables
	for _, vd := range op.VariableDefinitions {
		want, provided := cs.Vars[vd.Variable]
		how := "the client's value"
		if !provided {
			if vd.DefaultValue == nil {
				// neither sent nor defaulted by the selected operation: no value may be made up for it
				if got, ok := sent[vd.Variable]; ok && got != nil {
					ctx.Rep.Fail(hx.Failure{Kind: "property-fails", Detail: fmt.Sprintf("subscription start: $%s was neither sent by the client nor given a default by the selected operation, but the root subscription request carries %s for it", vd.Variable, hx.Canon(toGeneric(got))),
						Case: cs, Impl: map[string]interface{}{"query": reqs[0].Request.Query, "variables": sent}, Index: idx})
					return
				}
				continue
			}
			d, derr := vd.DefaultValue.Value(nil)
			if derr != nil {
				continue
			}
			want, how = d, "the default "+vd.DefaultValue.String()+" the client declared"
		}
		got, ok := sent[vd.Variable]
		if !ok || hx.Canon(toGeneric(got)) != hx.Canon(toGeneric(want)) {
			ctx.Rep.Fail(hx.Failure{Kind: "property-fails", Detail: fmt.Sprintf("subscription start: the root subscription request uses $%s but was sent without %s for it (sent: %s)", vd.Variable, how, hx.Canon(toGeneric(sent))),
				Case: cs, Impl: map[string]interface{}{"query": reqs[0].Request.Query, "variables": sent}, Index: idx})
			return
		}
	}
	ctx.Rep.Traces++
}
