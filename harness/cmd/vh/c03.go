package main

// C03 — the merged schema is exactly the union of the service schemas.

import (
	"encoding/json"
	"fmt"
	"sort"
	"strings"

	"github.com/buildbuildio/pebbles/merger"
	"github.com/vektah/gqlparser/v2/ast"

	"verif/harness/hx"
)

func init() {
	register("C03", func(ctx *Ctx) error { return runMergerFamily(ctx, "C03") })
	registerReplay("C03", func(ctx *Ctx, raw json.RawMessage) error { return replayMerger(ctx, "C03", raw) })
}

// mgEval: one case through the real merger under every permutation (≤ 4 services: all), each
// compared with the Lean model. Returns the outcomes (nil if an input is not a valid schema).
func mgEval(ctx *Ctx, prop string, idx int, c mgCase) []mgOutcome {
	perms := mgCasePerms(c, hx.NewRand(uint64(idx)*7919+ctx.Seed))
	outs := make([]mgOutcome, 0, len(perms))
	for _, p := range perms {
		o := runMerger(c, p)
		if o.Outcome == "invalid-input" {
			ctx.Rep.Count("generator produced an invalid service schema (skipped)")
			ctx.Rep.Note("invalid generated input: " + o.Err)
			return nil
		}
		outs = append(outs, o)
		if msg, model := compareModel(ctx, c, o); msg != "" {
			ctx.Rep.Fail(hx.Failure{Kind: "model-mismatch", Detail: fmt.Sprintf("perm %v: %s", p, msg), Case: c, Impl: stripOutcome(o), Model: model, Index: idx})
			break
		}
	}
	mgReuse(ctx, idx, c)
	return outs
}

// mgReuse: the SAME loaded schema values take part in two merges (a gateway that re-merges, or two
// gateways built over one introspection result). The second merge — of the first service alone —
// must expose exactly what that service declares: a merge may not write into its inputs.
func mgReuse(ctx *Ctx, idx int, c mgCase) {
	if len(c.SDL) < 2 {
		return
	}
	perm := make([]int, len(c.SDL))
	for i := range perm {
		perm[i] = i
	}
	in, err := mgLoadInputs(c, perm)
	if err != nil {
		return
	}
	var m merger.Merger = merger.ExtendMergerFunc(nil)
	if c.Mode == "sanitize" {
		m = merger.SanitizeNodeMergerFunc(nil)
	}
	merge := func(l []*merger.MergeInput) (items []string, outcome string) {
		defer func() {
			if p := recover(); p != nil {
				outcome = "panic"
			}
		}()
		res, err := m.Merge(l)
		if err != nil {
			return nil, "error"
		}
		return mgSchemaItems(res.Schema), "ok"
	}
	before, ok0 := merge(in[:1])
	if _, ok := merge(in); ok != "ok" || ok0 != "ok" {
		return
	}
	ctx.Rep.Count("reuse: the first service merged alone before and after a full merge of the same schema values")
	after, ok1 := merge(in[:1])
	if ok1 != "ok" || !mgEqStrs(before, after) {
		onlyBefore, onlyAfter := mgDiffStrs(before, after)
		ctx.Rep.Fail(hx.Failure{Kind: "property-fails", Detail: fmt.Sprintf("merging service 0 alone AFTER a full merge of the same schema values gives another schema than before it (%s): gained %v, lost %v — the merge wrote into its input", ok1, clipList(onlyAfter, 4), clipList(onlyBefore, 4)), Case: c, Index: idx})
	}
}

func clipList(xs []string, n int) []string {
	if len(xs) > n {
		return append(append([]string{}, xs[:n]...), fmt.Sprintf("… %d more", len(xs)-n))
	}
	return xs
}

func stripOutcome(o mgOutcome) interface{} {
	return map[string]interface{}{"perm": o.Perm, "outcome": o.Outcome, "kind": o.Kind, "err": o.Err}
}

// runMergerFamily: the common driver of C03, C04, C05 (each applies its own oracle).
func runMergerFamily(ctx *Ctx, prop string) error {
	ctx.Rep.Rule = "case = a set of 1–5 service schemas (SDL, loaded with gqlparser.LoadSchema) × merger (extend | node-hiding), run through the real " +
		"merger.*.Merge under every permutation of the service list (all for ≤ 4 services) and through the Lean model; distinct = distinct SDL set; " +
		"non-trivial = ≥ 2 services sharing at least one non-builtin type name"
	idx := 0
	run := func(c mgCase) {
		mgCheck(ctx, prop, idx, c)
		idx++
	}
	for _, c := range mergerCorpus() {
		run(c)
	}
	// the three properties of the family draw different streams from the same seed
	for k := 0; k < int(prop[2]-'0'); k++ {
		ctx.Rand.U64()
	}
	n := 800
	if ctx.Thorough() {
		n = 12000
	}
	for k := 0; k < n; k++ {
		r := ctx.Rand.Fork()
		inject := ""
		switch {
		case k%3 == 1:
			inject = c05Kinds[(k/3)%len(c05Kinds)]
		case k%20 == 5:
			inject = extraKinds[(k/20)%len(extraKinds)]
		}
		run(mgGenCase(r, inject))
	}
	return nil
}

func replayMerger(ctx *Ctx, prop string, raw json.RawMessage) error {
	var c mgCase
	if err := json.Unmarshal(raw, &c); err != nil {
		return err
	}
	mgCheck(ctx, prop, 0, c)
	return nil
}

func sharesType(c mgCase, items [][]string) bool {
	seen := map[string]int{}
	for _, it := range items {
		for _, x := range it {
			if strings.HasPrefix(x, "T|") {
				seen[x]++
			}
		}
	}
	for _, n := range seen {
		if n > 1 {
			return true
		}
	}
	return false
}

func mgCheck(ctx *Ctx, prop string, idx int, c mgCase) {
	items, schemas, err := mgInputItems(c)
	if err != nil {
		ctx.Rep.Count("generator produced an invalid service schema (skipped)")
		ctx.Rep.Note("invalid generated input: " + err.Error())
		return
	}
	outs := mgEval(ctx, prop, idx, c)
	if outs == nil {
		return
	}
	ctx.Rep.Case(c.key(), len(c.SDL) >= 2 && sharesType(c, items))
	mgCountCase(ctx, c, outs)
	ctx.Rep.Sample(map[string]interface{}{"sdl": c.SDL, "mode": c.Mode, "inject": c.Inject, "outcome": stripOutcome(outs[0])})
	var fails []hx.Failure
	switch prop {
	case "C03":
		fails = c03Oracle(c, items, schemas, outs)
	case "C04":
		fails = c04Oracle(c, items, schemas, outs)
	case "C05":
		fails = c05Oracle(c, items, schemas, outs)
	}
	for _, f := range fails {
		f.Case, f.Index = c, idx
		ctx.Rep.Fail(f)
	}
}

// ---------------------------------------------------------------------------------------------
// oracle, written from the statement

func mgItemSet(xs []string) map[string]bool {
	m := map[string]bool{}
	for _, x := range xs {
		m[x] = true
	}
	return m
}

func mgPrefixOf(it string) string { return it[:strings.Index(it, "|")] }

// nodeDefsDiffer: two services declare `Node` with different field sets (input class of C03-node-def-differs)
func nodeDefsDiffer(items [][]string) bool {
	var seen []string
	for _, it := range items {
		var fs []string
		has := false
		for _, x := range it {
			if x == "T|Node|INTERFACE" {
				has = true
			}
			if strings.HasPrefix(x, "F|Node|") {
				fs = append(fs, x)
			}
		}
		if has {
			seen = append(seen, strings.Join(fs, ";"))
		}
	}
	for _, s := range seen {
		if s != seen[0] {
			return true
		}
	}
	return false
}

// directiveDefsDiffer: two services define one directive name differently
func directiveDefsDiffer(items [][]string) bool {
	sig := map[string]string{}
	for _, it := range items {
		for _, x := range it {
			if strings.HasPrefix(x, "D|") {
				name := strings.Split(x, "|")[1]
				parts := strings.Split(x, "|")
				core := strings.Join(parts[:4], "|") // without the repeatable flag
				if s, ok := sig[name]; ok && s != core {
					return true
				}
				sig[name] = core
			}
		}
	}
	return false
}

// directiveConflicts: names of directives two services define differently (repeatable flag aside)
func directiveConflicts(items [][]string) map[string]bool {
	sig := map[string]string{}
	out := map[string]bool{}
	for _, it := range items {
		for _, x := range it {
			if strings.HasPrefix(x, "D|") {
				parts := strings.Split(x, "|")
				core := strings.Join(parts[:4], "|")
				if s, ok := sig[parts[1]]; ok && s != core {
					out[parts[1]] = true
				}
				sig[parts[1]] = core
			}
		}
	}
	return out
}

func mgHasRepeatable(items [][]string) bool {
	for _, it := range items {
		for _, x := range it {
			if strings.HasPrefix(x, "D|") && strings.HasSuffix(x, "|true") {
				return true
			}
		}
	}
	return false
}

func mgAllHavePrefix(xs []string, pfx ...string) bool {
	for _, x := range xs {
		ok := false
		for _, p := range pfx {
			ok = ok || strings.HasPrefix(x, p)
		}
		if !ok {
			return false
		}
	}
	return len(xs) > 0
}

func c03Oracle(c mgCase, items [][]string, schemas []*ast.Schema, outs []mgOutcome) []hx.Failure {
	var fs mgFailSet
	union := map[string]bool{}
	for _, it := range items {
		for _, x := range mgCoreItems(it) {
			union[x] = true
		}
	}
	for _, o := range outs {
		if o.Outcome == "panic" {
			fs.add("panic", hx.Failure{Kind: "property-fails", Detail: fmt.Sprintf("perm %v: the merger panicked: %s", o.Perm, o.Err), Impl: stripOutcome(o)})
			continue
		}
		if o.Outcome != "ok" {
			continue // the statement speaks about sets that merge successfully
		}
		res := mgItemSet(mgCoreItems(o.Items))
		// superset
		var missing []string
		for _, i := range o.Perm {
			for _, x := range mgCoreItems(items[i]) {
				if c.Mode == "sanitize" && (strings.HasPrefix(x, "F|Query|node|") || strings.HasPrefix(x, "A|Query|node|")) {
					continue // the node-hiding merger removes the relay entry point by design
				}
				if !res[x] {
					missing = append(missing, x)
				}
			}
		}
		missing = mgDedupSorted(hx.SortedStrings(missing))
		var invented []string
		for x := range res {
			if !union[x] {
				invented = append(invented, x)
			}
		}
		sort.Strings(invented)
		// classify item by item against the documented classes of the open findings
		conflictingDirs := directiveConflicts(items)
		classOf := func(x string, isMissing bool) string {
			parts := strings.Split(x, "|")
			switch {
			case (parts[0] == "F" || parts[0] == "A") && parts[1] == "Node" && nodeDefsDiffer(items) && isMissing:
				return "C03-node-def-differs"
			case parts[0] == "D" && conflictingDirs[parts[1]] && isMissing:
				return "C03-directive-conflict"
			case parts[0] == "D" && isMissing && strings.HasSuffix(x, "|true"):
				return "C03-repeatable-lost"
			case parts[0] == "D" && !isMissing && strings.HasSuffix(x, "|false") && union[strings.TrimSuffix(x, "false")+"true"]:
				return "C03-repeatable-lost" // the same directive, printed without `repeatable`
			}
			return ""
		}
		group := func(xs []string, isMissing bool) map[string][]string {
			g := map[string][]string{}
			for _, x := range xs {
				g[classOf(x, isMissing)] = append(g[classOf(x, isMissing)], x)
			}
			return g
		}
		for cl, xs := range group(missing, true) {
			fs.add("missing:"+cl, hx.Failure{Kind: "property-fails", Class: cl, Detail: fmt.Sprintf("perm %v: declared by a service but missing from (or changed in) the merged schema: %v", o.Perm, xs), Impl: stripOutcome(o)})
		}
		for cl, xs := range group(invented, false) {
			fs.add("invented:"+cl, hx.Failure{Kind: "property-fails", Class: cl, Detail: fmt.Sprintf("perm %v: in the merged schema but declared by no service: %v", o.Perm, xs), Impl: stripOutcome(o)})
		}
		// Node types: once, with the union of the fields
		nodeFields := map[string]map[string]bool{}
		for _, i := range o.Perm {
			for n, d := range schemas[i].Types {
				if d.Kind == ast.Object && !d.BuiltIn && implementsNodeGo(d) {
					if nodeFields[n] == nil {
						nodeFields[n] = map[string]bool{}
					}
				}
			}
		}
		for _, i := range o.Perm {
			for n, d := range schemas[i].Types {
				if nodeFields[n] != nil {
					for _, f := range d.Fields {
						nodeFields[n][f.Name] = true
					}
				}
			}
		}
		for n, want := range nodeFields {
			d := o.schema.Types[n]
			if d == nil {
				fs.add("node-union", hx.Failure{Kind: "property-fails", Detail: fmt.Sprintf("perm %v: Node type %s is missing from the merged schema", o.Perm, n)})
				continue
			}
			got := map[string]int{}
			for _, f := range d.Fields {
				got[f.Name]++
			}
			for f := range want {
				if got[f] != 1 {
					fs.add("node-union", hx.Failure{Kind: "property-fails", Detail: fmt.Sprintf("perm %v: Node type %s: field %s occurs %d times in the merged type (want once)", o.Perm, n, f, got[f])})
				}
			}
			for f := range got {
				if !want[f] {
					fs.add("node-union", hx.Failure{Kind: "property-fails", Detail: fmt.Sprintf("perm %v: Node type %s: field %s declared by no service", o.Perm, n, f)})
				}
			}
		}
		// an operation valid for one service stays valid: every root field of every service is selectable
		// (covered by the superset check on F|Query|…, F|Mutation|…, F|Subscription|… and their arguments)
	}
	return fs.list
}

func mgAllRepeatable(xs []string) bool {
	for _, x := range xs {
		if !strings.HasSuffix(x, "|true") {
			return false
		}
	}
	return len(xs) > 0
}

func implementsNodeGo(d *ast.Definition) bool {
	for _, i := range d.Interfaces {
		if i == "Node" {
			return true
		}
	}
	return false
}

// ---------------------------------------------------------------------------------------------
// corpus: the defects found while building the model, the authors' own shapes, boundaries

func mergerCorpus() []mgCase {
	N := "interface Node { id: ID! }\n"
	mk := func(mode string, sdl ...string) mgCase {
		c := mgCase{Mode: mode, SDL: sdl}
		for i := range sdl {
			c.URLs = append(c.URLs, fmt.Sprintf("http://s%d/", i))
		}
		return c
	}
	return []mgCase{
		mk("extend", N+"type A implements Node { id: ID! a: Int } type Query { node(id: ID!): Node a: A }", "type Query { b: Int }"),
		mk("sanitize", N+"type A implements Node { id: ID! a: Int } type Query { node(id: ID!): Node a: A }", "type Query { b: Int }"),
		mk("extend", "type T {x: Int y: Int} type Query {a: T}", "type T {x: Int y: Int} type Query {b: T}", "type T {z: Int} type Query {c: T}"),
		mk("extend", "type T {x: Int} type Query {a: T}", "type T {x: String} type Query {b: T}"),
		mk("extend", "type T {id: ID! x: Int} type Query {a: T}", "type T {x: Int} type Query {b: T}"),
		mk("extend", "type T {id: ID! x: Int} type Query {a: T}", "type T {y: Int} type Query {b: T}"),
		mk("extend", N+"type A implements Node {id: ID! a: Int} type Query { getNode(id: ID!): Node node(id: ID!): Node }"),
		mk("extend", N+"type A implements Node {id: ID! a: Int friend(id: ID!): Node} type Query { node(id: ID!): Node a: A }", N+"type A implements Node {id: ID! b: Int} type Query { node(id: ID!): Node }"),
		mk("sanitize", "type Mutation { a: Int }"),
		mk("sanitize", "type Mutation { a: Int }", "type Mutation { b: Int }"),
		mk("extend", "schema { query: RootQ } type RootQ { a: Int }"),
		mk("extend", "union U type Query { a: Int }"),
		mk("extend", "enum E {A B} type Query { a: E }", "enum E {B C} type Query { b: E }"),
		mk("extend", "scalar S type Query { a: S }", `"""the S""" scalar S type Query { b: S }`),
		mk("extend", `"""one""" type T {x: Int} type Query {a: T}`, `"""two""" type T {x: Int} type Query {b: T}`),
		mk("extend", N+"interface User { id: ID! name: String! } type B implements User & Node { id: ID! name: String! } type Query { users: [User!]! node(id: ID!): Node }",
			N+"interface User { id: ID! files: [String!]! } type B implements User & Node { id: ID! files: [String!]! } type Query { node(id: ID!): Node }"),
		mk("extend", N+"type Dog implements Node { id: ID! name: String! } union Animal = Dog type Query { node(id: ID!): Node animals: [Animal]! }",
			N+"type Dog implements Node { id: ID! age: Int! } union Animal = Dog type Query { node(id: ID!): Node }"),
		mk("extend", "type Query { a(x: Int = 1, y: [String!]): Int }", "type Query { b: Int } type Mutation { m(i: In): Int } input In { v: Int = 3 w: String }"),
		mk("extend", "type T {x(a: Int, b: Int): Int} type Query {a: T}", "type T {x(b: Int, a: Int): Int} type Query {b: T}"),
	}
}
