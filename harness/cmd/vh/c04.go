package main

// C04 — the routing table names a real owner for every routable field.

import (
	"encoding/json"
	"fmt"
	"sort"
	"strings"

	"github.com/vektah/gqlparser/v2/ast"

	"verif/harness/hx"
)

func init() {
	register("C04", func(ctx *Ctx) error { return runMergerFamily(ctx, "C04") })
	registerReplay("C04", func(ctx *Ctx, raw json.RawMessage) error { return replayMerger(ctx, "C04", raw) })
}

func isRootNameGo(n string) bool { return n == "Query" || n == "Mutation" || n == "Subscription" }

// the Relay entry point: `node(id: ID!): Node` on a root type — planned by id, not by location
func isRelayNodeField(T string, f *ast.FieldDefinition) bool {
	return isRootNameGo(T) && f.Name == "node" && len(f.Arguments) == 1 && f.Arguments[0].Name == "id" &&
		f.Arguments[0].Type.String() == "ID!" && f.Type.String() == "Node"
}

func declaresGo(s *ast.Schema, T, f string) bool {
	d := s.Types[T]
	return d != nil && d.Fields.ForName(f) != nil
}

func c04Oracle(c mgCase, items [][]string, schemas []*ast.Schema, outs []mgOutcome) []hx.Failure {
	var fs mgFailSet
	bad := func(o mgOutcome, format string, a ...interface{}) {
		fs.add(strings.SplitN(format, "%", 2)[0], hx.Failure{Kind: "property-fails", Detail: fmt.Sprintf("perm %v: ", o.Perm) + fmt.Sprintf(format, a...), Impl: stripOutcome(o)})
	}
	for _, o := range outs {
		if o.Outcome == "panic" {
			bad(o, "the merger panicked: %s", o.Err)
		}
		if o.Outcome != "ok" {
			continue
		}
		svcOf := map[string]int{}
		for _, i := range o.Perm {
			svcOf[c.URLs[i]] = i
		}
		names := make([]string, 0)
		for n, d := range o.schema.Types {
			if !d.BuiltIn && d.Kind == ast.Object {
				names = append(names, n)
			}
		}
		sort.Strings(names)
		contributed := map[string]bool{}
		for _, T := range names {
			d := o.schema.Types[T]
			for _, f := range d.Fields {
				if len(f.Name) >= 2 && f.Name[:2] == "__" || f.Name == "id" || isRelayNodeField(T, f) {
					continue
				}
				u, ok := o.tm.Get(T, f.Name)
				if !ok {
					bad(o, "no route for %s.%s", T, f.Name)
					continue
				}
				i, known := svcOf[u]
				if !known {
					bad(o, "%s.%s is routed to %q, which is not a service", T, f.Name, u)
					continue
				}
				if !declaresGo(schemas[i], T, f.Name) {
					bad(o, "%s.%s is routed to %s, whose schema does not declare it", T, f.Name, u)
				}
				if isRootNameGo(T) {
					var decl []int
					for _, j := range o.Perm {
						if declaresGo(schemas[j], T, f.Name) {
							decl = append(decl, j)
						}
					}
					if len(decl) != 1 || decl[0] != i {
						bad(o, "root field %s.%s declared by services %v, routed to service %d", T, f.Name, decl, i)
					}
					contributed[u] = true
					// what the planner asks at the root
					if g := implGetURL(o, [][]string{{T, f.Name, "%#!"}}); g[0] != "ok:"+u {
						bad(o, "PlanningContext.GetURL(%s, %s) = %s, owner is %s", T, f.Name, g[0], u)
					}
					// … and below the root of ANY operation (a payload field may return a root type):
					// the parent step's service is the fallback, the owner must still win
					for _, kind := range []ast.Operation{ast.Query, ast.Mutation, ast.Subscription} {
						if g := implGetURLOp(o, kind, T, f.Name, "http://parent-step.invalid/"); g != "ok:"+u {
							bad(o, "PlanningContext.GetURL(%s, %s) while planning a %s with another service as fallback = %s, owner is %s", T, f.Name, kind, g, u)
						}
					}
				}
			}
			isNode, ok := o.tm.GetTypeIsImplementsNode(T)
			if implementsNodeGo(d) != (ok && isNode) {
				bad(o, "%s implements Node = %v, table says %v (known to the table: %v)", T, implementsNodeGo(d), isNode, ok)
			}
		}
		// the table knows nothing the merged schema does not have
		for T, p := range o.tm {
			d := o.schema.Types[T]
			if d == nil || d.Kind != ast.Object {
				bad(o, "table has a row for %s, which is not an object type of the merged schema", T)
				continue
			}
			for f := range p.Fields {
				if d.Fields.ForName(f) == nil && !(c.Mode == "sanitize" && T == "Query" && f == "node") {
					bad(o, "table routes %s.%s, which the merged schema does not have", T, f)
				}
			}
			ft, _ := o.tm.GetForType(T)
			want := map[string]bool{}
			for _, u := range p.Fields {
				want[u] = true
			}
			if !sort.StringsAreSorted(ft) || len(ft) != len(want) {
				bad(o, "GetForType(%s) = %v, row urls %v", T, ft, want)
			}
			for _, u := range ft {
				if !want[u] {
					bad(o, "GetForType(%s) = %v, row urls %v", T, ft, want)
				}
			}
		}
		// routed services = services that contributed fields
		routed := map[string]bool{}
		for _, p := range o.tm {
			for _, u := range p.Fields {
				routed[u] = true
			}
		}
		got := map[string]int{}
		for _, u := range o.tm.GetURLs() {
			got[u]++
		}
		for u, n := range got {
			if n != 1 || !routed[u] {
				bad(o, "GetURLs lists %s %d times (routes some field: %v)", u, n, routed[u])
			}
			if _, known := svcOf[u]; !known {
				bad(o, "GetURLs lists %q, which is not a service", u)
			}
		}
		for u := range routed {
			if got[u] == 0 {
				bad(o, "%s routes a field but is not in GetURLs", u)
			}
		}
		for u := range contributed {
			if got[u] == 0 {
				bad(o, "%s declares a root field but is not in GetURLs", u)
			}
		}
	}
	return fs.list
}
