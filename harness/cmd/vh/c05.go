package main

// C05 — conflicting service schemas are rejected, independent of service order.

import (
	"encoding/json"
	"fmt"
	"strings"

	pebbles "github.com/buildbuildio/pebbles"
	"github.com/buildbuildio/pebbles/merger"
	"github.com/vektah/gqlparser/v2/ast"

	"verif/harness/hx"
)

func init() {
	register("C05", func(ctx *Ctx) error { return runMergerFamily(ctx, "C05") })
	registerReplay("C05", func(ctx *Ctx, raw json.RawMessage) error { return replayMerger(ctx, "C05", raw) })
}

type fixedIntrospector struct{ schemas []*ast.Schema }

func (f fixedIntrospector) IntrospectRemoteSchemas(...string) ([]*ast.Schema, error) {
	return f.schemas, nil
}

// gatewayStartup: the real NewGateway over the same schemas (identity order)
func gatewayStartup(c mgCase) (outcome string) {
	id := make([]int, len(c.SDL))
	for i := range id {
		id[i] = i
	}
	in, err := mgLoadInputs(c, id)
	if err != nil {
		return "invalid-input"
	}
	defer func() {
		if p := recover(); p != nil {
			outcome = "panic"
		}
	}()
	schemas := make([]*ast.Schema, len(in))
	for i, x := range in {
		schemas[i] = x.Schema
	}
	opts := []pebbles.GatewayOption{pebbles.WithRemoteSchemaIntrospector(fixedIntrospector{schemas})}
	if c.Mode == "sanitize" {
		opts = append(opts, pebbles.WithMerger(merger.SanitizeNodeMergerFunc(nil)))
	}
	if _, err := pebbles.NewGateway(c.URLs, opts...); err != nil {
		return "error"
	}
	return "ok"
}

// fieldSetsByType: per composite non-Node non-root type name, the non-id field-name set of every declaring service
func fieldSetsByType(schemas []*ast.Schema) map[string][]map[string]bool {
	out := map[string][]map[string]bool{}
	for _, s := range schemas {
		for n, d := range s.Types {
			if d.BuiltIn || strings.HasPrefix(n, "__") || isRootNameGo(n) || n == "Node" || implementsNodeGo(d) {
				continue
			}
			if d.Kind != ast.Object && d.Kind != ast.Interface && d.Kind != ast.InputObject {
				continue
			}
			fs := map[string]bool{}
			for _, f := range d.Fields {
				if !strings.HasPrefix(f.Name, "__") && f.Name != "id" {
					fs[f.Name] = true
				}
			}
			out[n] = append(out[n], fs)
		}
	}
	return out
}

// mixedSharedType: a composite non-Node type declared by ≥ 3 services whose declarations are
// neither all identical nor pairwise disjoint (input class of the open finding C05-order-nway)
func mixedSharedType(schemas []*ast.Schema) bool {
	for _, sets := range fieldSetsByType(schemas) {
		if len(sets) < 3 {
			continue
		}
		allSame, allDisjoint := true, true
		for i := range sets {
			for j := i + 1; j < len(sets); j++ {
				same := len(sets[i]) == len(sets[j])
				for f := range sets[i] {
					if sets[j][f] {
						allDisjoint = false
					} else {
						same = false
					}
				}
				allSame = allSame && same
			}
		}
		if !allSame && !allDisjoint {
			return true
		}
	}
	return false
}

func c05Oracle(c mgCase, items [][]string, schemas []*ast.Schema, outs []mgOutcome) []hx.Failure {
	var fs mgFailSet
	conflict := false
	for _, k := range c05Kinds {
		conflict = conflict || k == c.Inject
	}
	var accepted, rejected []mgOutcome
	for _, o := range outs {
		switch o.Outcome {
		case "panic":
			fs.add("panic", hx.Failure{Kind: "property-fails", Detail: fmt.Sprintf("perm %v: the merger panicked instead of failing with an error: %s", o.Perm, o.Err), Impl: stripOutcome(o)})
		case "ok":
			accepted = append(accepted, o)
			if conflict {
				fs.add("conflict-accepted", hx.Failure{Kind: "property-fails", Detail: fmt.Sprintf("perm %v: services that cannot be combined (%s) were accepted", o.Perm, c.Inject), Impl: stripOutcome(o)})
			}
		case "error":
			rejected = append(rejected, o)
		}
	}
	if len(accepted) > 0 && len(rejected) > 0 {
		f := hx.Failure{Kind: "property-fails", Detail: fmt.Sprintf("acceptance depends on the order of the service list: accepted as %v, rejected as %v (%s)", accepted[0].Perm, rejected[0].Perm, rejected[0].Err),
			Impl: []interface{}{stripOutcome(accepted[0]), stripOutcome(rejected[0])}}
		// every rejection must fail in the documented way of an open finding whose input class holds
		mixed := len(c.SDL) >= 3 && mixedSharedType(schemas)
		nodeDiff := nodeDefsDiffer(items)
		explained, anyCopy := true, false
		for _, o := range rejected {
			switch {
			case mixed && o.Kind == "not-complete-copy":
				anyCopy = true
			case nodeDiff && o.Kind == "reload-error" && strings.Contains(o.Err, "to implement Node it must have a field"):
			default:
				explained = false
			}
		}
		switch {
		case explained && anyCopy:
			f.Class = "C05-order-nway"
		case explained:
			f.Class = "C05-node-def-differs"
		}
		fs.add("order-accept", f)
	}
	// the resulting types, fields and Node-field routes do not depend on the order
	view := func(o mgOutcome) []string {
		var v []string
		for _, it := range o.Items {
			if p := mgPrefixOf(it); p == "T" || p == "F" || p == "A" {
				v = append(v, it)
			}
		}
		for T, p := range o.tm {
			if p.IsImplementsNode {
				for f, u := range p.Fields {
					v = append(v, "R|"+T+"|"+f+"|"+u)
				}
			}
		}
		return mgDedupSorted(hx.SortedStrings(v))
	}
	for k := 1; k < len(accepted); k++ {
		a, b := view(accepted[0]), view(accepted[k])
		if !mgEqStrs(a, b) {
			da, db := mgDiffStrs(a, b)
			f := hx.Failure{Kind: "property-fails", Detail: fmt.Sprintf("the merged schema depends on the order of the service list: only as %v: %v; only as %v: %v", accepted[0].Perm, da, accepted[k].Perm, db)}
			if nodeDefsDiffer(items) && mgAllHavePrefix(append(append([]string{}, da...), db...), "F|Node|", "A|Node|") {
				f.Class = "C05-node-def-differs"
			}
			fs.add("order-result", f)
			break
		}
	}
	// the gateway start-up sees the same verdict as Merge
	if o := mgIdentityOutcome(outs); o != nil {
		g := gatewayStartup(c)
		want := o.Outcome
		if g != want {
			fs.add("gateway", hx.Failure{Kind: "property-fails", Detail: fmt.Sprintf("NewGateway: %s, Merge on the same list: %s", g, want)})
		}
	}
	return fs.list
}
