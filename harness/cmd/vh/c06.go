package main

import (
	"encoding/json"
	"fmt"
	"sort"
	"strings"
	"time"

	"github.com/buildbuildio/pebbles"
	"github.com/buildbuildio/pebbles/planner"

	"github.com/vektah/gqlparser/v2/ast"
	"github.com/vektah/gqlparser/v2/parser"

	"verif/harness/fed"
	"verif/harness/hx"
)

func init() {
	register("C06", runC06)
	registerReplay("C06", func(ctx *Ctx, raw json.RawMessage) error {
		var cs c06Case
		if err := json.Unmarshal(raw, &cs); err != nil {
			return err
		}
		c06Check(ctx, 0, cs)
		return nil
	})
}

type c06Case struct {
	coreCase
	MaxBatch  int      `json:"max_batch"`
	FaultAt   string   `json:"fault_at,omitempty"`   // "" | "child" | "sibling": where a downstream failure is injected
	FaultKind string   `json:"fault_kind,omitempty"` // errors | status | transport
	Repeat    int      `json:"repeat"`               // the same client request sent this many times
	Config    string   `json:"config,omitempty"`     // "" | id-hint | cached-planner | cached-planner+id-hint: optional gateway features
	Seq       []string `json:"seq,omitempty"`        // two-mutation documents: the operationName of each round (same gateway, same document text)
}

// rootSelections: response key → field name of the (flattened) root selection set of an operation.
func rootSelections(op *ast.OperationDefinition) map[string]string {
	out := map[string]string{}
	var walk func(ss ast.SelectionSet)
	walk = func(ss ast.SelectionSet) {
		for _, s := range ss {
			switch s := s.(type) {
			case *ast.Field:
				k := s.Alias
				if k == "" {
					k = s.Name
				}
				out[k] = s.Name
			case *ast.InlineFragment:
				walk(s.SelectionSet)
			case *ast.FragmentSpread:
				if s.Definition != nil {
					walk(s.Definition.SelectionSet)
				}
			}
		}
	}
	walk(op.SelectionSet)
	return out
}

// c06Check. Oracle from the statement: for a mutation operation, per client request every selected
// root field (one per response key) is executed exactly once, at the service that declares it, in
// an operation with the `mutation` keyword; every other sub-request is a `query`.
func c06Check(ctx *Ctx, idx int, cs c06Case) {
	cf, err := buildCoreFedCase(cs.coreCase)
	if err != nil {
		ctx.Rep.Count("federation rejected")
		return
	}
	_, op, err := loadOp(cf.Merged.Schema, cs.Query, cs.OpName)
	if err != nil || op.Operation != ast.Mutation {
		ctx.Rep.Count("not a valid mutation (generator)")
		return
	}
	full := cs
	full.coreCase = withDump(cs.coreCase, cf)
	ctx.Rep.Case(hx.Canon(cs), len(cf.F.Services) >= 2)
	ctx.Rep.Count(fmt.Sprintf("max_batch=%d", cs.MaxBatch))
	ctx.Rep.Count("fault:" + cs.FaultAt + "/" + cs.FaultKind)
	owner := map[string]int{}
	for _, f := range cf.F.Spec.Mutation {
		owner[f.Name] = f.Owner
	}
	// fault injection: failures elsewhere in the plan must not duplicate or suppress a mutation
	for _, s := range cf.F.Services {
		svc := s
		svc.Fault = func(c *fed.Call) *fed.FaultAction {
			isChild := strings.Contains(c.Query, "node(")
			switch cs.FaultAt {
			case "child":
				if isChild {
					return c06Fault(cs.FaultKind)
				}
			case "sibling":
				// the highest-numbered service that receives a root mutation step fails it
				if !isChild && c.Operation == "mutation" && svc.Index == len(cf.F.Services)-1 {
					return c06Fault(cs.FaultKind)
				}
			}
			return nil
		}
	}
	gcfg := fed.GatewayConfig{MaxBatch: cs.MaxBatch}
	if strings.Contains(cs.Config, "id-hint") {
		gcfg.Options = append(gcfg.Options, pebbles.WithGetParentTypeFromIDFunc(idTypeHint))
	}
	if strings.Contains(cs.Config, "cached-planner") {
		gcfg.Options = append(gcfg.Options, pebbles.WithPlanner(planner.NewCachedPlanner(time.Hour)))
	}
	ctx.Rep.Count("config:" + cs.Config)
	for _, ft := range cs.Features {
		ctx.Rep.Count("feature:" + ft)
	}
	gw, err := cf.F.NewGateway(gcfg)
	if err != nil {
		ctx.Rep.Count("gateway rejected federation")
		return
	}
	rep := cs.Repeat
	if rep < 1 {
		rep = 1
	}
	if len(cs.Seq) > 0 {
		rep = len(cs.Seq)
		ctx.Rep.Count("two-mutation document, alternating operationName")
	}
	for round := 0; round < rep; round++ {
		cf.F.ResetLogs()
		opName := cs.OpName
		if len(cs.Seq) > 0 {
			n := cs.Seq[round]
			opName = &n
		}
		_, rop, rerr := loadOp(cf.Merged.Schema, cs.Query, opName)
		if rerr != nil || rop.Operation != ast.Mutation {
			ctx.Rep.Count("not a valid mutation (generator)")
			return
		}
		want := rootSelections(rop) // response key → field
		resp := fed.Do(gw, cs.Query, cs.Vars, opName)
		type exec struct{ svc int }
		execs := map[string][]exec{} // response key → executions
		for _, c := range cf.F.AllCalls() {
			doc, perr := parser.ParseQuery(&ast.Source{Input: c.Query})
			if perr != nil || len(doc.Operations) != 1 {
				ctx.Rep.Fail(hx.Failure{Kind: "property-fails", Detail: "unparsable sub-request", Case: full, Impl: c.Query, Index: idx})
				return
			}
			sop := doc.Operations[0]
			isRootStep := true
			for _, sel := range sop.SelectionSet {
				if f, ok := sel.(*ast.Field); ok && f.Name == "node" && c.Variables["id"] != nil {
					isRootStep = false
				}
			}
			if !isRootStep {
				if sop.Operation != ast.Query {
					ctx.Rep.Fail(hx.Failure{Kind: "property-fails", Detail: "a follow-up lookup was sent with the `" + string(sop.Operation) + "` keyword", Case: full, Impl: c.Query, Index: idx})
					return
				}
				continue
			}
			if sop.Operation != ast.Mutation {
				ctx.Rep.Fail(hx.Failure{Kind: "property-fails", Detail: "a root step of a mutation was sent as `" + string(sop.Operation) + "`", Case: full, Impl: c.Query, Index: idx})
				return
			}
			for k, name := range rootSelections(sop) {
				if own, ok := owner[name]; ok && own != c.Service {
					ctx.Rep.Fail(hx.Failure{Kind: "property-fails", Detail: fmt.Sprintf("mutation field %s sent to service %d, owner is %d", name, c.Service, own), Case: full, Impl: c.Query, Index: idx})
					return
				}
				execs[k] = append(execs[k], exec{c.Service})
			}
		}
		var problems []string
		for k, name := range want {
			if strings.HasPrefix(name, "__") {
				continue
			}
			if n := len(execs[k]); n != 1 {
				problems = append(problems, fmt.Sprintf("%s (%s) executed %d times", k, name, n))
			}
		}
		for k := range execs {
			if _, ok := want[k]; !ok {
				problems = append(problems, "unrequested root field executed under key "+k)
			}
		}
		sort.Strings(problems)
		if len(problems) > 0 {
			ctx.Rep.Fail(hx.Failure{Kind: "property-fails", Detail: fmt.Sprintf("round %d: %s", round, strings.Join(problems, "; ")), Case: full,
				Impl: map[string]interface{}{"response": json.RawMessage(resp.Raw)}, Index: idx})
			return
		}
		if round == 0 {
			ctx.Rep.Sample(map[string]interface{}{"query": cs.Query, "root_fields": want, "max_batch": cs.MaxBatch, "fault": cs.FaultAt})
		}
	}
	// correspondence: the model's sub-requests for the fault-free run (shared executor model)
	if ctx.Driver == nil || cs.FaultAt != "" || strings.Contains(cs.Config, "id-hint") {
		return
	}
	// a client variable called `id` (open finding variable-named-id of C01/C02): the receiving
	// service rejects the follow-up lookup whose header declares $id with the client's type and the
	// executor stops there; Model.gateway's downstream does not validate and goes on, so the call
	// lists are not comparable. The property oracle above has judged the case.
	if hasFeature(cs.coreCase, "variable-named-id") || op.VariableDefinitions.ForName("id") != nil {
		ctx.Rep.Count("correspondence skipped: client variable named id (open finding variable-named-id)")
		return
	}
	dreq := driverCtx(cf, op, cs.coreCase)
	dreq["op"] = "core.gateway"
	mres, derr := ctx.Driver.Call(dreq)
	if derr != nil && mres == nil {
		ctx.Rep.Fail(hx.Failure{Kind: "harness-error", Detail: derr.Error(), Case: full, Index: idx})
		return
	}
	if _, isFault := mres["fault"]; isFault {
		return
	}
	if errs, _ := mres["errors"].([]interface{}); len(errs) == 1 && strings.HasPrefix(fmt.Sprint(errs[0]), "not-modelled") {
		ctx.Rep.Count("outside model scope")
		return
	}
	cf.F.ResetLogs()
	fed.Do(gw, cs.Query, cs.Vars, cs.OpName)
	var calls, mcalls []string
	for _, c := range cf.F.AllCalls() {
		calls = append(calls, subRequestKey(cf.F.Services[c.Service].URL, c.Query, c.Variables))
	}
	if cl, ok := mres["calls"].([]interface{}); ok {
		for _, c := range cl {
			cm := c.(map[string]interface{})
			for _, rq := range cm["batch"].([]interface{}) {
				mcalls = append(mcalls, modelSubRequestKey(cm["url"].(string), rq.(map[string]interface{})))
			}
		}
	}
	sort.Strings(calls)
	sort.Strings(mcalls)
	ctx.Rep.Traces++
	if strings.Join(calls, "\n") != strings.Join(mcalls, "\n") {
		ctx.Rep.Fail(hx.Failure{Kind: "model-mismatch", Detail: "sub-requests of a mutation differ between the real gateway and Model.gateway", Case: full, Impl: calls, Model: mcalls, Index: idx})
	}
}

func c06Fault(kind string) *fed.FaultAction {
	switch kind {
	case "status":
		return &fed.FaultAction{Kind: "status", Data: 500}
	case "transport":
		return &fed.FaultAction{Kind: "transport"}
	case "eof":
		return &fed.FaultAction{Kind: "eof"}
	}
	return &fed.FaultAction{Kind: "errors", Data: []interface{}{map[string]interface{}{"message": "injected"}}}
}

// genC06Case: a mutation over a generated federation; String/ID argument values are sometimes
// real entity ids (and variables are sometimes called `id`), and one case in three is a document
// with TWO mutation operations sent several times with alternating operationName.
func genC06Case(r *hx.Rand) (coreCase, []string, bool) {
	seed := r.U64() % 1000000
	// the federation is generated here (write-only services allowed) and embedded in the case
	rr := hx.NewRand(seed)
	o := fed.DefaultGen()
	o.Subs, o.WriteOnly = false, true
	spec := fed.Generate(rr, o)
	data := fed.GenData(rr, spec, fed.DefaultData())
	f, err := fed.Build(spec, data)
	if err != nil {
		return coreCase{}, nil, false
	}
	mr, err := f.Merged()
	if err != nil || mr.Schema.Mutation == nil {
		return coreCase{}, nil, false
	}
	cf := &coreFed{F: f, Merged: mr}
	dump := &fedDump{Spec: spec, Data: data}
	oo := fed.SafeOps()
	oo.EntityIDArgs, oo.IDVar = true, true
	op := fed.GenOp(r, cf.Merged.Schema, cf.F.Data, "mutation", oo)
	if op == nil {
		return coreCase{}, nil, false
	}
	cs := coreCase{FedSeed: seed, Query: op.Query, Vars: op.Variables, OpName: op.OpName, Kind: "mutation", Features: op.Features, Fed: dump}
	if r.Chance(1, 3) && op.OpName == nil {
		so := fed.SafeOps()
		so.NamedFrags, so.Variables, so.MaxDepth, so.EntityIDArgs = false, false, 2, true
		sib := fed.GenOp(r, cf.Merged.Schema, cf.F.Data, "mutation", so)
		if sib != nil && sib.OpName == nil {
			main := namedOperation(op.Query, "mutation", "Main")
			sibQ := namedOperation(sib.Query, "mutation", "Sibling")
			if main != "" && sibQ != "" {
				name := "Main"
				cs.Query, cs.OpName = sibQ+"\n"+main, &name
				cs.Features = append(cs.Features, "two-mutations")
				var seq []string
				for i, n := 0, r.Range(2, 4); i < n; i++ {
					seq = append(seq, hx.Pick(r, []string{"Main", "Sibling"}))
				}
				return cs, seq, true
			}
		}
	}
	return cs, nil, true
}

// genC06IDVar: directed stream — a mutation whose String/ID argument is passed through a client
// variable literally called `id` (the name the executor uses for its own follow-up lookups) and
// whose value is the id of an existing entity (what an id-hint function recognises).
func genC06IDVar(r *hx.Rand) (coreCase, bool) {
	seed := r.U64() % 1000000
	cf, err := buildCoreFed(seed, false, false)
	if err != nil || cf.Merged.Schema.Mutation == nil {
		return coreCase{}, false
	}
	ids := cf.F.Data.AllEntityIDs()
	if len(ids) == 0 {
		return coreCase{}, false
	}
	var fields []*ast.FieldDefinition
	for _, fd := range cf.Merged.Schema.Mutation.Fields {
		if !strings.HasPrefix(fd.Name, "__") {
			fields = append(fields, fd)
		}
	}
	for _, pi := range r.Perm(len(fields)) {
		fd := fields[pi]
		for _, a := range fd.Arguments {
			if a.Type.Elem != nil || (a.Type.NamedType != "String" && a.Type.NamedType != "ID") {
				continue
			}
			ok := true
			for _, b := range fd.Arguments {
				if b != a && b.Type.NonNull {
					ok = false // keep the stream simple: no other required argument
				}
			}
			if !ok {
				continue
			}
			sel := ""
			if d := cf.Merged.Schema.Types[fd.Type.Name()]; d != nil && d.IsCompositeType() {
				sel = " { __typename }"
			}
			q := fmt.Sprintf("mutation($id: %s) { %s(%s: $id)%s }", a.Type.String(), fd.Name, a.Name, sel)
			return coreCase{FedSeed: seed, Query: q, Vars: map[string]interface{}{"id": hx.Pick(r, ids)}, Kind: "mutation",
				Features: []string{"variable-named-id", "entity-id-argument", "directed:id-variable"}}, true
		}
	}
	return coreCase{}, false
}

func runC06(ctx *Ctx) error {
	ctx.Rep.Rule = "case = (generated federation with Mutation roots in several services, valid mutation operation, downstream batch size 1..3 or default, optional injected failure in a child or sibling step, 1..3 repeats, optional gateway features (id hint, caching planner), two-mutation documents with alternating operationName, argument values that are entity ids, variables called `id`) " +
		"through the real gateway over counting fake services; oracle: per client request each selected root field executed exactly once, at its declaring service, under the mutation keyword; follow-ups are queries; " +
		"distinct = distinct case; non-trivial = ≥2 services"
	cases := 400
	if ctx.Thorough() {
		cases = 12000
	}
	for i, cs := range loadCorpus("C06") {
		c06Check(ctx, i, c06Case{coreCase: cs, Repeat: 2})
	}
	for k, n := 0, 0; n < cases/10 && k < cases; k++ {
		r := ctx.Rand.Fork()
		cc, ok := genC06IDVar(r)
		if !ok {
			continue
		}
		n++
		c06Check(ctx, 900000+k, c06Case{coreCase: cc, Repeat: 1, Config: hx.Pick(r, []string{"id-hint", "id-hint", "cached-planner+id-hint", ""})})
	}
	made := 0
	for k := 0; made < cases && k < cases*6; k++ {
		r := ctx.Rand.Fork()
		cc, seq, ok := genC06Case(r)
		if !ok || cc.Kind != "mutation" {
			continue
		}
		cs := c06Case{coreCase: cc, Repeat: r.Range(1, 3), Seq: seq}
		cs.Config = hx.Pick(r, []string{"", "", "id-hint", "cached-planner", "cached-planner+id-hint"})
		if r.Chance(1, 2) {
			cs.MaxBatch = r.Range(1, 3)
		}
		if r.Chance(1, 3) {
			cs.FaultAt = hx.Pick(r, []string{"child", "sibling", "self"})
			cs.FaultKind = hx.Pick(r, []string{"errors", "status", "transport", "eof"})
		}
		c06Check(ctx, 100+k, cs)
		made++
	}
	return nil
}
