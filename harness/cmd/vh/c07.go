package main

// C07 — every HTTP request gets a well-formed response; none can crash the gateway.
//
// Two observations of the REAL code per case, both made in a child process (a panic inside a
// goroutine of the gateway kills the process; the parent then names the case and goes on):
//   (i)  requests.Parse(r) under recover            → ok(requests, batch) | err(class) | panic(what)
//   (ii) POST to a real net/http server running (*pebbles.Gateway).Handler of a small gateway
//        built without network (fake introspector, fake queryer)  → status, headers, body | no response
// Two comparisons per case:
//   property oracle (from the statement): a response arrives, 422 iff Parse failed else 200, the
//   body is {data, errors?} (array of those in batch mode, one per operation), invalid operations
//   get errors and data:null, Parse itself does not panic, the server still answers afterwards;
//   model: Parse outcome ∈ outcomes of Model.Parse.parse over all iteration orders of the file
//   map (driver op c07.parse); status and body = Model.Envelope.respond (op c07.respond).

import (
	"bufio"
	"bytes"
	"encoding/json"
	"fmt"
	"io"
	"log"
	"net/http"
	"net/http/httptest"
	"os"
	"os/exec"
	"sort"
	"strings"
	"time"

	"github.com/buildbuildio/pebbles"
	"github.com/buildbuildio/pebbles/planner"
	"github.com/buildbuildio/pebbles/queryer"
	"github.com/buildbuildio/pebbles/requests"
	"github.com/vektah/gqlparser/v2"
	"github.com/vektah/gqlparser/v2/ast"
	"github.com/vektah/gqlparser/v2/parser"
	"verif/harness/hx"
)

func init() {
	if os.Getenv("VH_C07_CHILD") == "1" {
		c07ChildMain()
		os.Exit(0)
	}
	register("C07", runC07)
	registerReplay("C07", func(ctx *Ctx, raw json.RawMessage) error {
		var cs httpCase
		if err := json.Unmarshal(raw, &cs); err != nil {
			return err
		}
		ch := &c07Child{}
		defer ch.stop()
		ctx.Rep.Rule = c07Rule
		c07Check(ctx, ch, 0, cs)
		return nil
	})
}

const c07Rule = "case = (method, content-type header, body bytes) sent to the real requests.Parse and to the real Gateway.Handler behind net/http; " +
	"distinct = distinct (header, body); non-trivial = the bytes get past the codec (valid JSON document, or a multipart form net/http accepts)"

const c07SDL = `
type Query { ping: String  echo(s: String): String  user(id: ID!): User  ghost: Ghost  named: Named  thing: Thing }
type User implements Named { id: ID!  name: String }
interface Ghost { x: String }
interface Named { name: String }
union Thing = User
type Mutation { inc: Int  upload(file: Upload, files: [Upload]): String }
scalar Upload
`

// ---------------------------------------------------------------------------------------------
// observations (made in the child)

type parseObs struct {
	Kind     string        `json:"kind"` // ok | err | panic
	Class    string        `json:"class,omitempty"`
	Msg      string        `json:"msg,omitempty"`
	Batch    bool          `json:"batch,omitempty"`
	Requests []interface{} `json:"requests,omitempty"` // canonical
	Queries  []string      `json:"queries,omitempty"`
	OpNames  []*string     `json:"op_names,omitempty"`
}

type httpObs struct {
	Err    string `json:"err,omitempty"` // transport error: no response
	Status int    `json:"status,omitempty"`
	CType  string `json:"ctype,omitempty"`
	Body   []byte `json:"body,omitempty"`
	Canary string `json:"canary,omitempty"` // "" ok, else what went wrong with the follow-up request
}

type c07Obs struct {
	Parse parseObs `json:"parse"`
	HTTP  *httpObs `json:"http,omitempty"`
}

var c07ErrPrefixes = []struct{ prefix, class string }{
	{"only POST requests are supported", "onlyPost"},
	{"unknown content-type", "unknownContentType"},
	{"error parse multipart form data", "multipartForm"},
	{"unable to parse request: unable to parse given request in batch mode", "opsParseBatch"},
	{"unable to parse request: unable to parse given request in single mode", "opsParseSingle"},
	{"unable to parse request: missing query from request", "opsMissingQuery"},
	{"unable to parse given request in batch mode", "parseBatch"},
	{"unable to parse given request in single mode", "parseSingle"},
	{"missing query from request", "missingQuery"},
	{"error parsing file map", "fileMapParse"},
	{"file map is empty", "fileMapEmpty"},
	{"file with index", "fileNotFound"},
	{"strconv.Atoi", "batchIndexSyntax"},
	{"missing keyword variables in path", "missingVariablesKeyword"},
	{"invalid number of parts in path", "invalidParts"},
	{"request index", "requestIndexOutOfBound"},
	{"key not found in variables", "keyNotFound"},
	{"expected numeric index", "expectedNumericIndex"},
	{"file index", "indexOutOfBound"},
	{"expected nil value", "expectedNil"},
}

func c07ErrClass(msg string) string {
	for _, p := range c07ErrPrefixes {
		if strings.HasPrefix(msg, p.prefix) {
			return p.class
		}
	}
	return "other:" + clip(msg, 60)
}

func c07PanicClass(msg string) string {
	switch {
	case strings.Contains(msg, "nil pointer dereference"):
		return "nilDeref"
	case strings.Contains(msg, "index out of range"), strings.Contains(msg, "slice bounds out of range"):
		return "indexRange"
	}
	return "other:" + clip(msg, 60)
}

func canonRequest(r *requests.Request) interface{} {
	if r == nil {
		return "nil-request"
	}
	var vars interface{}
	if r.Variables != nil {
		vars = canonGo(map[string]interface{}(r.Variables))
	}
	var op interface{}
	if r.OperationName != nil {
		op = *r.OperationName
	}
	return map[string]interface{}{"query": r.Query, "vars": vars, "op": op}
}

func observeParse(c httpCase) (obs parseObs) {
	defer func() {
		if p := recover(); p != nil {
			obs = parseObs{Kind: "panic", Class: c07PanicClass(fmt.Sprint(p)), Msg: fmt.Sprint(p)}
		}
	}()
	res, err := requests.Parse(c.request())
	if err != nil {
		return parseObs{Kind: "err", Class: c07ErrClass(err.Error()), Msg: clip(err.Error(), 200)}
	}
	obs = parseObs{Kind: "ok", Batch: res.IsBatchMode, Requests: []interface{}{}}
	for _, r := range res.Requests {
		obs.Requests = append(obs.Requests, canonRequest(r))
		if r != nil {
			obs.Queries = append(obs.Queries, r.Query)
			obs.OpNames = append(obs.OpNames, r.OperationName)
		}
	}
	return obs
}

// ---- the small gateway (no network)

type c07Introspector struct{}

func (c07Introspector) IntrospectRemoteSchemas(urls ...string) ([]*ast.Schema, error) {
	out := make([]*ast.Schema, len(urls))
	for i := range urls {
		out[i] = gqlparser.MustLoadSchema(&ast.Source{Name: "svc", Input: c07SDL})
	}
	return out, nil
}

// c07Queryer answers every root field of every sub-request with a fixed value.
type c07Queryer struct{ url string }

func (q c07Queryer) URL() string { return q.url }
func (q c07Queryer) Subscribe(*requests.Request, <-chan struct{}, chan *requests.Response) error {
	return nil
}
func (q c07Queryer) Query(in []*requests.Request) ([]map[string]interface{}, error) {
	out := make([]map[string]interface{}, len(in))
	for i, r := range in {
		data := map[string]interface{}{}
		doc, err := parser.ParseQuery(&ast.Source{Input: r.Query})
		if err == nil {
			for _, op := range doc.Operations {
				for _, s := range op.SelectionSet {
					if f, ok := s.(*ast.Field); ok {
						data[f.Alias] = c07Answer(f)
					}
				}
			}
		}
		out[i] = data
	}
	return out, nil
}

func c07Answer(f *ast.Field) interface{} {
	switch f.Name {
	case "ping":
		return "pong"
	case "echo":
		return "echo"
	case "inc":
		return 1
	case "upload":
		return "stored"
	case "user":
		m := map[string]interface{}{}
		for _, s := range f.SelectionSet {
			if sf, ok := s.(*ast.Field); ok {
				m[sf.Alias] = sf.Name + "-value"
			}
		}
		return m
	}
	return nil
}

func c07Gateway() (*pebbles.Gateway, error) {
	return pebbles.NewGateway([]string{"http://svc-a/"},
		pebbles.WithRemoteSchemaIntrospector(c07Introspector{}),
		pebbles.WithQueryerFactory(func(_ *planner.PlanningContext, url string) queryer.Queryer { return c07Queryer{url} }))
}

// ---- child process: one JSON case per line in, one observation per line out

func c07ChildMain() {
	gw, err := c07Gateway()
	if err != nil {
		fmt.Println(`{"fatal":"` + strings.ReplaceAll(err.Error(), `"`, `'`) + `"}`)
		return
	}
	srv := httptest.NewUnstartedServer(http.HandlerFunc(gw.Handler))
	srv.Config.ErrorLog = log.New(io.Discard, "", 0)
	srv.Start()
	defer srv.Close()
	client := &http.Client{Timeout: 10 * time.Second}
	post := func(c httpCase) *httpObs {
		req, err := http.NewRequest(c.Method, srv.URL+"/", bytes.NewReader(c.Body))
		if err != nil {
			return &httpObs{Err: "cannot build request: " + err.Error()}
		}
		if c.Header != "" {
			req.Header.Set("Content-Type", c.Header)
		}
		resp, err := client.Do(req)
		if err != nil {
			return &httpObs{Err: err.Error()}
		}
		defer resp.Body.Close()
		body, err := io.ReadAll(resp.Body)
		if err != nil {
			return &httpObs{Err: "reading body: " + err.Error(), Status: resp.StatusCode}
		}
		return &httpObs{Status: resp.StatusCode, CType: resp.Header.Get("Content-Type"), Body: body}
	}
	canary := httpCase{Method: "POST", Header: "application/json", Body: []byte(`{"query":"{ ping }"}`)}
	// every so often: a full-depth introspection query, then a request that is INVALID against the
	// schema (required argument missing) — answering an introspection query must not change what the
	// gateway accepts afterwards
	introspect := httpCase{Method: "POST", Header: "application/json", Body: []byte(`{"query":"{ __schema { types { name fields { name args { name type { kind name ofType { kind name ofType { kind name } } } } type { kind name ofType { kind name ofType { kind name } } } } inputFields { name type { kind name ofType { kind name } } } } } }"}`)}
	invalidCanary := httpCase{Method: "POST", Header: "application/json", Body: []byte(`{"query":"{ user { id } }"}`)}
	served := 0
	in := bufio.NewReaderSize(os.Stdin, 1<<20)
	out := bufio.NewWriter(os.Stdout)
	fmt.Fprintln(out, `{"ready":true}`)
	out.Flush()
	for {
		line, err := in.ReadBytes('\n')
		if len(line) > 0 {
			var c httpCase
			if json.Unmarshal(line, &c) == nil {
				obs := c07Obs{Parse: observeParse(c)}
				if c.Method == "POST" && !c.parseOnly() {
					obs.HTTP = post(c)
					// the next request must still be served
					k := post(canary)
					switch {
					case k.Err != "":
						obs.HTTP.Canary = "follow-up request got no response: " + k.Err
					case k.Status != 200 || !bytes.Contains(k.Body, []byte(`"pong"`)):
						obs.HTTP.Canary = fmt.Sprintf("follow-up request answered %d %s", k.Status, clip(string(k.Body), 80))
					}
					served++
					if obs.HTTP.Canary == "" && served%20 == 1 {
						post(introspect)
						var env struct {
							Data   interface{}   `json:"data"`
							Errors []interface{} `json:"errors"`
						}
						k2 := post(invalidCanary)
						if k2.Err != "" || json.Unmarshal(k2.Body, &env) != nil || len(env.Errors) == 0 || env.Data != nil {
							obs.HTTP.Canary = "after an introspection query, the invalid request { user { id } } (required argument missing) was not rejected with errors and data null: " + clip(string(k2.Body), 120) + k2.Err
						}
					}
				}
				b, _ := json.Marshal(obs)
				out.Write(b)
				out.WriteByte('\n')
				out.Flush()
			}
		}
		if err != nil {
			return
		}
	}
}

// ---- parent side of the pipe

type c07Child struct {
	cmd    *exec.Cmd
	in     io.WriteCloser
	out    *bufio.Reader
	stderr *bytes.Buffer
	starts int
}

func (c *c07Child) start() error {
	cmd := exec.Command(os.Args[0])
	cmd.Env = append(os.Environ(), "VH_C07_CHILD=1")
	in, err := cmd.StdinPipe()
	if err != nil {
		return err
	}
	outp, err := cmd.StdoutPipe()
	if err != nil {
		return err
	}
	c.stderr = &bytes.Buffer{}
	cmd.Stderr = c.stderr
	if err := cmd.Start(); err != nil {
		return err
	}
	c.cmd, c.in, c.out = cmd, in, bufio.NewReaderSize(outp, 1<<20)
	c.starts++
	line, err := c.out.ReadBytes('\n')
	if err != nil || !bytes.Contains(line, []byte("ready")) {
		return fmt.Errorf("child did not start: %s %v %s", line, err, clip(c.stderr.String(), 300))
	}
	return nil
}

func (c *c07Child) stop() {
	if c.cmd != nil {
		c.in.Close()
		c.cmd.Process.Kill()
		c.cmd.Wait()
		c.cmd = nil
	}
}

// observe runs one case in the child. crashed=true: the process died while handling it.
func (c *c07Child) observe(cs httpCase) (obs c07Obs, crashed bool, crashLog string, err error) {
	if c.cmd == nil {
		if err = c.start(); err != nil {
			return
		}
	}
	b, _ := json.Marshal(cs)
	if _, werr := c.in.Write(append(b, '\n')); werr != nil {
		crashed = true
	}
	var line []byte
	if !crashed {
		done := make(chan error, 1)
		go func() {
			var rerr error
			line, rerr = c.out.ReadBytes('\n')
			done <- rerr
		}()
		select {
		case rerr := <-done:
			if rerr != nil {
				crashed = true
			}
		case <-time.After(40 * time.Second):
			crashed = true
			c.stderr.WriteString("\n[harness] child did not answer within 40s (hang)")
		}
	}
	if crashed {
		c.cmd.Process.Kill()
		c.cmd.Wait()
		crashLog = c.stderr.String()
		if len(crashLog) > 1500 {
			crashLog = crashLog[:1500]
		}
		c.cmd = nil
		return
	}
	err = json.Unmarshal(line, &obs)
	return
}

// ---------------------------------------------------------------------------------------------
// oracle and model comparison

var c07Schema = gqlparser.MustLoadSchema(&ast.Source{Name: "svc", Input: c07SDL})

// operationValid: would the gateway find an executable operation? (gqlparser is the judge, as
// in the property: "syntactically or semantically invalid against the gateway's schema")
func operationValid(query string, opName *string) bool {
	doc, errs := gqlparser.LoadQuery(c07Schema, query)
	if errs != nil {
		return false
	}
	if opName != nil {
		return doc.Operations.ForName(*opName) != nil
	}
	return len(doc.Operations) == 1
}

func envelopeProblem(v interface{}) string {
	m, ok := v.(map[string]interface{})
	if !ok {
		return "is not a JSON object"
	}
	for k := range m {
		if k != "data" && k != "errors" {
			return "has an unexpected member " + k
		}
	}
	_, hasData := m["data"]
	errsV, hasErrs := m["errors"]
	if !hasData && !hasErrs {
		return "carries neither data nor errors"
	}
	if hasErrs {
		arr, ok := errsV.([]interface{})
		if !ok || len(arr) == 0 {
			return "has an errors member that is not a non-empty array"
		}
		for _, e := range arr {
			em, ok := e.(map[string]interface{})
			if !ok {
				return "has an error that is not an object"
			}
			if _, ok := em["message"].(string); !ok {
				return "has an error without a message"
			}
		}
	}
	if hasData {
		switch m["data"].(type) {
		case nil, map[string]interface{}:
		default:
			return "has data that is neither null nor an object"
		}
	}
	return ""
}

func isErrorEnvelope(v interface{}) bool {
	m, ok := v.(map[string]interface{})
	if !ok {
		return false
	}
	arr, _ := m["errors"].([]interface{})
	d, has := m["data"]
	return len(arr) > 0 && has && d == nil
}

// c07Oracle: the property, on the observations of the real code. Returns problem descriptions.
func c07Oracle(cs httpCase, obs c07Obs) []string {
	var out []string
	p := obs.Parse
	if p.Kind == "panic" {
		out = append(out, "requests.Parse panicked: "+p.Msg)
	}
	switch cs.Expect {
	case "ok":
		if p.Kind != "ok" {
			out = append(out, "a well-formed request was not decoded: "+p.Kind+" "+p.Class+" "+p.Msg)
		}
	case "undecodable":
		if p.Kind == "ok" {
			out = append(out, "an undecodable request was decoded")
		}
	}
	h := obs.HTTP
	if h == nil {
		return out
	}
	if strings.Contains(h.Err, "invalid header field") {
		return out // the client library refuses to send this header value: not a request a client can make through net/http
	}
	if h.Err != "" {
		out = append(out, "no well-formed response: "+h.Err)
		if h.Canary != "" {
			out = append(out, h.Canary)
		}
		return out
	}
	if h.Canary != "" {
		out = append(out, h.Canary)
	}
	wantStatus := 200
	if p.Kind != "ok" {
		wantStatus = 422
	}
	if h.Status != wantStatus {
		out = append(out, fmt.Sprintf("status %d, expected %d (requests.Parse: %s %s)", h.Status, wantStatus, p.Kind, p.Class))
	}
	if !strings.HasPrefix(h.CType, "application/json") {
		out = append(out, "response Content-Type is "+h.CType)
	}
	var body interface{}
	dec := json.NewDecoder(bytes.NewReader(h.Body))
	if err := dec.Decode(&body); err != nil {
		return append(out, "response body is not JSON: "+clip(string(h.Body), 80))
	}
	if p.Kind != "ok" {
		if pr := envelopeProblem(body); pr != "" {
			out = append(out, "error response "+pr)
		} else if !isErrorEnvelope(body) {
			out = append(out, "a request that could not be decoded was not answered with errors and data:null")
		}
		return out
	}
	var elems []interface{}
	if p.Batch {
		arr, ok := body.([]interface{})
		if !ok {
			return append(out, "batch request answered with a non-array")
		}
		if len(arr) != len(p.Queries) {
			return append(out, fmt.Sprintf("batch of %d operations answered with %d results", len(p.Queries), len(arr)))
		}
		elems = arr
	} else {
		if _, isArr := body.([]interface{}); isArr {
			return append(out, "single request answered with an array")
		}
		elems = []interface{}{body}
	}
	for i, e := range elems {
		if pr := envelopeProblem(e); pr != "" {
			out = append(out, fmt.Sprintf("result %d %s", i, pr))
			continue
		}
		if i < len(p.Queries) {
			valid := operationValid(p.Queries[i], p.OpNames[i])
			if !valid && !isErrorEnvelope(e) {
				out = append(out, fmt.Sprintf("invalid operation %d (%s) was not answered with errors and data:null", i, clip(p.Queries[i], 40)))
			}
			if valid && strings.TrimSpace(p.Queries[i]) == "{ ping }" {
				m := e.(map[string]interface{})
				d, _ := m["data"].(map[string]interface{})
				if d == nil || d["ping"] != "pong" || m["errors"] != nil {
					out = append(out, fmt.Sprintf("valid operation %d ({ ping }) answered %s", i, hx.Canon(e)))
				}
			}
		}
	}
	return out
}

func coarsePanic(what string) string {
	if what == "nilRequest" {
		return "nilDeref"
	}
	return "indexRange"
}

// implOutcomeKey / modelOutcomeKey: canonical strings of a Parse outcome
func implOutcomeKey(p parseObs) string {
	switch p.Kind {
	case "ok":
		reqs := p.Requests
		if reqs == nil {
			reqs = []interface{}{}
		}
		return "ok|" + fmt.Sprint(p.Batch) + "|" + hx.Canon(reqs)
	case "err":
		return "err|" + p.Class
	default:
		return "panic|" + p.Class
	}
}

func modelOutcomeKey(o map[string]interface{}, entries []string, files map[string]formFile) string {
	switch o["kind"] {
	case "ok":
		reqs, _ := o["requests"].([]interface{})
		canon := []interface{}{}
		for _, r := range reqs {
			m, _ := r.(map[string]interface{})
			var vars interface{}
			if m["vars"] != nil {
				vars = canonModel(m["vars"], entries, files)
			}
			canon = append(canon, map[string]interface{}{"query": m["query"], "vars": vars, "op": m["op"]})
		}
		b, _ := o["batch"].(bool)
		return "ok|" + fmt.Sprint(b) + "|" + hx.Canon(canon)
	case "err":
		return "err|" + fmt.Sprint(o["class"])
	default:
		return "panic|" + coarsePanic(fmt.Sprint(o["what"]))
	}
}

func c07Check(ctx *Ctx, ch *c07Child, idx int, cs httpCase) {
	rep := ctx.Rep
	view := cs.decode()
	nontrivial := view.Input["bodyValid"] == true || view.Input["formOk"] == true
	rep.Case(cs.Header+"\x00"+string(cs.Body), nontrivial)
	rep.Count("stream:" + strings.SplitN(cs.Label, "/", 2)[0])
	obs, crashed, crashLog, err := ch.observe(cs)
	if err != nil {
		rep.Fail(hx.Failure{Kind: "harness-error", Detail: err.Error(), Case: cs, Index: idx})
		return
	}
	if crashed {
		rep.Count("outcome:process-crash")
		rep.Fail(hx.Failure{Kind: "property-fails", Detail: "the gateway process died (or hung) while handling this request; it cannot serve the next one",
			Case: cs, Impl: map[string]interface{}{"stderr": crashLog}, Index: idx})
		return
	}
	rep.Count("parse:" + obs.Parse.Kind)
	if obs.Parse.Kind == "err" {
		rep.Count("err:" + obs.Parse.Class)
	}
	if obs.HTTP != nil && obs.HTTP.Err == "" {
		rep.Count(fmt.Sprintf("status:%d", obs.HTTP.Status))
	}
	if strings.HasPrefix(cs.Label, "corpus/") || (obs.Parse.Kind == "ok" && len(obs.Parse.Queries) > 1) {
		rep.Sample(map[string]interface{}{"label": cs.Label, "content_type": cs.Header, "body": cs.Text, "parse": obs.Parse.Kind + " " + obs.Parse.Class,
			"status": func() int {
				if obs.HTTP != nil {
					return obs.HTTP.Status
				}
				return 0
			}()})
	}
	// ---- implementation vs property
	problems := c07Oracle(cs, obs)
	for _, pr := range problems {
		rep.Fail(hx.Failure{Kind: "property-fails", Detail: pr, Case: cs, Impl: c07Brief(obs), Index: idx})
	}
	// ---- implementation vs model
	if ctx.Driver == nil {
		return
	}
	req := map[string]interface{}{"op": "c07.parse"}
	for k, v := range view.Input {
		req[k] = v
	}
	res, derr := ctx.Driver.Call(req)
	if derr != nil {
		rep.Fail(hx.Failure{Kind: "harness-error", Detail: derr.Error(), Case: cs, Index: idx})
		return
	}
	rep.Traces++
	entries := strList(res["entries"])
	outs, _ := res["outcomes"].([]interface{})
	implKey := implOutcomeKey(obs.Parse)
	found := false
	var modelKeys []string
	for _, o := range outs {
		m, _ := o.(map[string]interface{})
		k := modelOutcomeKey(m, entries, view.Files)
		modelKeys = append(modelKeys, k)
		if k == implKey {
			found = true
		}
	}
	all, _ := res["allOrders"].(bool)
	if !found && !all {
		rep.Count("model:orders-not-exhausted")
	}
	if !found && all {
		sort.Strings(modelKeys)
		rep.Fail(hx.Failure{Kind: "model-mismatch", Detail: "requests.Parse and Model.Parse.parse disagree (outcome not among the model's outcomes over all map orders)",
			Case: cs, Impl: clip(implKey, 600), Model: clipAll(uniq(modelKeys), 600), Index: idx})
		return
	}
	// envelope
	if obs.HTTP == nil {
		rep.Count("parse-level only")
	}
	if obs.HTTP == nil || obs.HTTP.Err != "" || len(problems) > 0 {
		return
	}
	c07CheckEnvelope(ctx, idx, cs, obs, modelKeys, all)
}

func uniq(xs []string) []string {
	var out []string
	for i, x := range xs {
		if i == 0 || x != xs[i-1] {
			out = append(out, x)
		}
	}
	return out
}

func clipAll(xs []string, n int) []string {
	out := make([]string, len(xs))
	for i, x := range xs {
		out[i] = clip(x, n)
	}
	return out
}

func c07Brief(obs c07Obs) interface{} {
	m := map[string]interface{}{"parse": obs.Parse.Kind + " " + obs.Parse.Class + " " + clip(obs.Parse.Msg, 160)}
	if obs.HTTP != nil {
		m["http_error"] = obs.HTTP.Err
		m["status"] = obs.HTTP.Status
		m["body"] = clip(string(obs.HTTP.Body), 300)
	}
	return m
}

// c07CheckEnvelope: status and body against Model.Envelope.respond, fed with what each operation
// produced (errors, data) — the model decides shape, member set, omitempty, array vs object, status.
func c07CheckEnvelope(ctx *Ctx, idx int, cs httpCase, obs c07Obs, modelKeys []string, allOrders bool) {
	var body interface{}
	d := json.NewDecoder(bytes.NewReader(obs.HTTP.Body))
	d.UseNumber()
	if d.Decode(&body) != nil {
		return
	}
	// the handler ran Parse again (its own iteration order of the file map): the class of the
	// message it sent must be one the model allows for this input
	class := obs.Parse.Class
	if obs.Parse.Kind == "err" {
		if m, ok := body.(map[string]interface{}); ok {
			if arr, ok := m["errors"].([]interface{}); ok && len(arr) == 1 {
				if em, ok := arr[0].(map[string]interface{}); ok {
					if msg, ok := em["message"].(string); ok {
						class = c07ErrClass(msg)
					}
				}
			}
		}
		if allOrders && indexOfStr(modelKeys, "err|"+class) < 0 {
			ctx.Rep.Fail(hx.Failure{Kind: "model-mismatch", Detail: "the decode error sent to the client (" + class + ") is not one Model.Parse.parse can produce for this input",
				Case: cs, Impl: clip(string(obs.HTTP.Body), 300), Model: uniq(modelKeys), Index: idx})
			return
		}
	}
	req := map[string]interface{}{"op": "c07.respond", "kind": obs.Parse.Kind, "class": class, "batch": obs.Parse.Batch, "n": len(obs.Parse.Queries)}
	var actual interface{} = body
	if obs.Parse.Kind == "ok" {
		var elems []interface{}
		if obs.Parse.Batch {
			elems, _ = body.([]interface{})
		} else {
			elems = []interface{}{body}
		}
		outs := []interface{}{}
		for i, e := range elems {
			m, _ := e.(map[string]interface{})
			errs, _ := m["errors"].([]interface{})
			if errs == nil {
				errs = []interface{}{}
			}
			o := map[string]interface{}{"errs": errs}
			if i < len(obs.Parse.Queries) && !operationValid(obs.Parse.Queries[i], obs.Parse.OpNames[i]) {
				o["t"] = "invalid"
			} else {
				o["t"] = "exec"
				if m["data"] != nil {
					o["data"] = m["data"]
				}
			}
			outs = append(outs, o)
		}
		req["outcomes"] = outs
	} else {
		// the message the client sees must be the decode error's message: replace it by its class
		if m, ok := body.(map[string]interface{}); ok {
			if arr, ok := m["errors"].([]interface{}); ok && len(arr) == 1 {
				if em, ok := arr[0].(map[string]interface{}); ok {
					if msg, ok := em["message"].(string); ok {
						cp := map[string]interface{}{}
						for k, v := range em {
							cp[k] = v
						}
						cp["message"] = c07ErrClass(msg)
						actual = map[string]interface{}{"data": m["data"], "errors": []interface{}{cp}}
					}
				}
			}
		}
	}
	res, err := ctx.Driver.Call(req)
	if err != nil {
		ctx.Rep.Fail(hx.Failure{Kind: "harness-error", Detail: err.Error(), Case: cs, Index: idx})
		return
	}
	ctx.Rep.Traces++
	ms, _ := res["status"].(json.Number)
	if res["kind"] != "ok" || ms.String() != fmt.Sprint(obs.HTTP.Status) || hx.Canon(res["body"]) != hx.Canon(actual) {
		ctx.Rep.Fail(hx.Failure{Kind: "model-mismatch", Detail: "response differs from Model.Envelope.respond (status or body shape)",
			Case: cs, Impl: map[string]interface{}{"status": obs.HTTP.Status, "body": clip(hx.Canon(actual), 500)}, Model: res, Index: idx})
	}
}

// ---------------------------------------------------------------------------------------------

func runC07(ctx *Ctx) error {
	ctx.Rep.Rule = c07Rule
	ch := &c07Child{}
	defer ch.stop()
	idx := 0
	run := func(cs httpCase) {
		c07Check(ctx, ch, idx, cs)
		idx++
	}
	// 1. corpus: pinned witnesses and one case per rule of the model
	corpus := c07Corpus()
	for _, cs := range corpus {
		run(cs)
	}
	// 2. systematic: every JSON shape at top level and per member, every key variant, every
	//    content type; other methods at Parse level
	for _, sh := range c07Shapes() {
		run(jsonCase("json/top-level-shape", "application/json", sh.String(), ""))
		run(jsonCase("json/top-level-shape", "application/json", jArr(sh).String(), ""))
		for which, keys := range [][]string{{"query"}, {"variables"}, {"operationName"}} {
			o := jObj(kv("query", jStr("{ ping }")), kv("variables", jObj(kv("a", jNum("1")))), kv("operationName", jNull()))
			o.obj[which] = kv(keys[0], sh)
			run(jsonCase("json/single-member-shape", "application/json", o.String(), ""))
			run(jsonCase("json/batch-member-shape", "", jArr(c07GoodReq(ctx.Rand.Fork()), o).String(), ""))
		}
	}
	for _, keys := range [][]string{c07QueryKeys, c07VarKeys, c07OpKeys, c07OtherKeys} {
		for _, k := range keys {
			o := jObj(kv("query", jStr("{ ping }")), kv(k, jStr("query Q { ping }")))
			run(jsonCase("json/key-variant", "application/json", o.String(), ""))
			o2 := jObj(kv(k, jObj(kv("a", jNum("1")))), kv("query", jStr("{ ping }")))
			run(jsonCase("json/key-variant", "text/plain", o2.String(), ""))
		}
	}
	for _, ct := range c07ContentTypes {
		run(jsonCase("json/content-type", ct, `{"query":"{ ping }"}`, ""))
		run(jsonCase("json/content-type", ct, `[{"query":"{ ping }"}]`, ""))
	}
	for _, q := range c07Queries {
		run(jsonCase("json/operations", "application/json", jObj(kv("query", jStr(q))).String(), "ok"))
	}
	for _, m := range []string{"GET", "PUT", "DELETE", "post", "PATCH"} {
		c := jsonCase("json/method", "application/json", `{"query":"{ ping }"}`, "undecodable")
		c.Method = m
		run(c)
	}
	for n := 0; n <= 8; n++ {
		for _, bad := range []jv{jNull(), jNum("1"), jStr("x"), jArr(), jObj(), jObj(kv("query", jNum("1"))), jObj(kv("query", jStr("")))} {
			for _, pos := range []int{0, n / 2, n} {
				xs := []jv{}
				for i := 0; i < n; i++ {
					xs = append(xs, jObj(kv("query", jStr("{ ping }"))))
				}
				if pos <= len(xs) {
					xs = append(xs[:pos], append([]jv{bad}, xs[pos:]...)...)
				}
				run(jsonCase("json/batch-bad-element", "application/json", jArr(xs...).String(), ""))
				if n == 0 {
					break
				}
			}
		}
	}
	for _, p := range c07BadPaths {
		one := `{"query":"mutation($f: Upload){ upload(file: $f) }","variables":{"f":null,"files":[null,null],"in":{"g":null},"s":"x","list":[[null]]}}`
		run(mpLayout{Ops: &one, Map: ptr(jObj(kv("0", jArr(jStr(p)))).String()), Files: mpFiles("0")}.build("multipart/bad-path-single"))
		two := `[` + one + `,` + one + `]`
		run(mpLayout{Ops: &two, Map: ptr(jObj(kv("0", jArr(jStr(p)))).String()), Files: mpFiles("0")}.build("multipart/bad-path-batch"))
	}
	// 3. generated streams
	structured, multi, mutated := 2500*ctx.Budget, 2500*ctx.Budget, 3500*ctx.Budget
	var pool []httpCase
	pool = append(pool, corpus...)
	for k := 0; k < structured; k++ {
		cs := c07Structured(ctx.Rand.Fork())
		run(cs)
		if k%5 == 0 {
			pool = append(pool, cs)
		}
	}
	for k := 0; k < multi; k++ {
		cs := c07Multipart(ctx.Rand.Fork())
		run(cs)
		if k%3 == 0 {
			pool = append(pool, cs)
		}
	}
	for k := 0; k < mutated; k++ {
		r := ctx.Rand.Fork()
		run(c07Mutate(r, hx.Pick(r, pool)))
	}
	ctx.Rep.Note(fmt.Sprintf("child process (real gateway behind net/http) started %d time(s)", ch.starts))
	return nil
}
