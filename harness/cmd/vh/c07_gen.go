package main

// Generators of the requests family: JSON bodies with ordered / duplicate members, content
// types, multipart layouts, byte mutations. Everything derives from one hx.Rand.

import (
	"bytes"
	"fmt"
	"mime/multipart"
	"net/textproto"
	"strconv"
	"strings"

	"verif/harness/hx"
)

// jv is a JSON document under construction: members keep their order, duplicates allowed,
// numerals and raw fragments verbatim.
type jv struct {
	kind byte // 'n' null, 't' true, 'f' false, '#' numeral (s), '"' string (s), '[' array, '{' object, 'r' raw text (s)
	s    string
	arr  []jv
	obj  []jkv
}
type jkv struct {
	k string
	v jv
}

func jNull() jv             { return jv{kind: 'n'} }
func jBool(b bool) jv       { return jv{kind: map[bool]byte{true: 't', false: 'f'}[b]} }
func jNum(s string) jv      { return jv{kind: '#', s: s} }
func jStr(s string) jv      { return jv{kind: '"', s: s} }
func jArr(xs ...jv) jv      { return jv{kind: '[', arr: xs} }
func jObj(kvs ...jkv) jv    { return jv{kind: '{', obj: kvs} }
func jRaw(s string) jv      { return jv{kind: 'r', s: s} }
func kv(k string, v jv) jkv { return jkv{k, v} }
func (j jv) with(k string, v jv) jv {
	o := jv{kind: '{', obj: append(append([]jkv{}, j.obj...), jkv{k, v})}
	return o
}

func quoteJSON(s string) string {
	var b strings.Builder
	b.WriteByte('"')
	for _, r := range s {
		switch {
		case r == '"':
			b.WriteString(`\"`)
		case r == '\\':
			b.WriteString(`\\`)
		case r == '\n':
			b.WriteString(`\n`)
		case r == '\t':
			b.WriteString(`\t`)
		case r < 0x20:
			fmt.Fprintf(&b, `\u%04x`, r)
		default:
			b.WriteRune(r)
		}
	}
	b.WriteByte('"')
	return b.String()
}

func (j jv) write(b *strings.Builder, sp string) {
	switch j.kind {
	case 'n':
		b.WriteString("null")
	case 't':
		b.WriteString("true")
	case 'f':
		b.WriteString("false")
	case '#', 'r':
		b.WriteString(j.s)
	case '"':
		b.WriteString(quoteJSON(j.s))
	case '[':
		b.WriteString("[" + sp)
		for i, x := range j.arr {
			if i > 0 {
				b.WriteString("," + sp)
			}
			x.write(b, sp)
		}
		b.WriteString(sp + "]")
	case '{':
		b.WriteString("{" + sp)
		for i, m := range j.obj {
			if i > 0 {
				b.WriteString("," + sp)
			}
			b.WriteString(quoteJSON(m.k) + ":" + sp)
			m.v.write(b, sp)
		}
		b.WriteString(sp + "}")
	}
}

func (j jv) String() string {
	var b strings.Builder
	j.write(&b, "")
	return b.String()
}

// ---- pools

var c07Queries = []string{
	"{ ping }", "query { ping }", "{ping}", "query Q { ping }", "{ echo(s: \"x\") }", "query($s: String){ echo(s: $s) }",
	"query A { ping } query B { echo(s: \"b\") }", "{ user(id: \"1\") { id name } }", "mutation { inc }",
	"mutation($f: Upload){ upload(file: $f) }", "mutation($fs: [Upload]){ upload(files: $fs) }",
	// corner-case schema shapes: an interface nothing implements, abstract types, root __typename
	"{ ghost { x } }", "{ ghost { __typename } }", "{ ghost { ... on Ghost { x } } }", "{ __typename }", "{ __typename ping }",
	"{ named { name } }", "{ thing { __typename ... on User { name } } }", "{ named { ... on User { id } } }",
	// inline fragments WITHOUT a type condition, under object / interface / union / member-less parents
	"{ user(id: \"1\") { ... { name } } }", "{ named { ... { name } } }", "{ thing { ... { __typename } } }", "{ ghost { ... { x } } }",
	"query($b: Boolean!){ named { ... @skip(if: $b) { name } } }",
	"query($n: String!){ __type(name: $n){ name } }", "query($n: String, $d: Boolean){ __type(name: $n){ fields(includeDeprecated: $d){ name } } }",
	"# only a comment", ",,,",
	// introspection (answered by the gateway itself, also in the middle of a batch)
	"{ __schema { queryType { name } } }", "{ __type(name: \"User\") { name kind } }",
	// invalid against the schema, or not GraphQL at all
	"{ nope }", "{ ping { x } }", "{ ping", "}", " ", "query", "{ echo(s: 1) }", "subscription { x }", "{ user { id } }",
	"fragment F on Query { ping }", "{ ...F }", "query($s: Nope){ echo(s: $s) }", "\u0000", "[", "{ \"ping\" }",
}

var c07ValidQueries = []string{"{ ping }", "query Q { ping }", "{ echo(s: \"x\") }", "query($s: String){ echo(s: $s) }", "mutation { inc }", "{ user(id: \"1\") { id name } }",
	"{ ghost { x } }", "{ ghost { __typename } }", "{ __typename }", "{ named { name } }", "{ thing { __typename ... on User { name } } }",
	"{ __schema { queryType { name } } }", "{ __type(name: \"User\") { name kind } }",
	"{ named { ... { name } } }", "{ thing { ... { __typename } } }", "{ ghost { ... { x } } }",
	// introspection arguments through variables (sent with every kind of value, or none: the gateway does not check variable values)
	"query($n: String!){ __type(name: $n){ name } }", "query($n: String, $d: Boolean){ __type(name: $n){ fields(includeDeprecated: $d){ name } } }"}

var c07ContentTypes = []string{"application/json", "text/plain", "", "application/graphql", "application/json; charset=utf-8",
	"application/json;charset=utf-8", "text/plain; charset=us-ascii", "APPLICATION/JSON", "application/json ; charset=utf-8",
	" application/json", "text/html", ";", "; charset=utf-8", "application/x-www-form-urlencoded", "multipart/form-data",
	"multipart/form-data; boundary=zzz", "multipart/mixed; boundary=zzz", "application/json; boundary=zzz"}

var c07JSONTypes = []string{"application/json", "text/plain", "", "application/json; charset=utf-8", "text/plain;x"}

var c07QueryKeys = []string{"query", "Query", "QUERY", "qUeRy", "querY", "query ", "quer", "queryy", "quéry"}
var c07VarKeys = []string{"variables", "Variables", "VARIABLES", "variableſ", "VARIABLEſ", "vAriAbles", "variable", "variabless"}
var c07OpKeys = []string{"operationName", "operationname", "OPERATIONNAME", "OperationName", "operation_name", "operationNamé"}
var c07OtherKeys = []string{"extensions", "original", "Original", "-", "", "id", "K", "q"}

// every JSON shape, as a value of some member
func c07Shapes() []jv {
	return []jv{jNull(), jBool(true), jBool(false), jNum("0"), jNum("-1"), jNum("1.5"), jNum("1e3"), jNum("1E400"), jNum("-1e999"),
		jNum("12345678901234567890"), jStr(""), jStr("x"), jStr("{ ping }"), jStr("[{"), jArr(), jArr(jNull()), jArr(jNum("1"), jStr("a")),
		jArr(jArr(jObj())), jObj(), jObj(kv("a", jNull())), jObj(kv("a", jNum("1")), kv("b", jObj(kv("c", jArr(jNull(), jBool(true)))))),
		jObj(kv("a", jNum("1")), kv("a", jNum("2"))), jObj(kv("n", jNum("1e999")))}
}

func c07RandShape(r *hx.Rand, depth int) jv {
	n := 8
	if depth <= 0 {
		n = 6
	}
	switch r.Intn(n) {
	case 0:
		return jNull()
	case 1:
		return jBool(r.Bool())
	case 2:
		return jNum(hx.Pick(r, []string{"0", "1", "-7", "2.50", "1e2", "1E-2", "9007199254740993", "1e999", "0.1"}))
	case 3, 4, 5:
		return jStr(hx.Pick(r, []string{"", "a", "x.y", "{ ping }", "é世", "a\"b\\c", "null", "[", "0"}))
	case 6:
		k := r.Intn(4)
		xs := make([]jv, k)
		for i := range xs {
			xs[i] = c07RandShape(r, depth-1)
		}
		return jArr(xs...)
	default:
		k := r.Intn(4)
		kvs := make([]jkv, k)
		for i := range kvs {
			kvs[i] = kv(hx.Pick(r, []string{"a", "b", "c", "a", "f", "files", "in", "", "x.y", "0"}), c07RandShape(r, depth-1))
		}
		return jObj(kvs...)
	}
}

// a well-formed request object
func c07GoodReq(r *hx.Rand) jv {
	o := jObj(kv("query", jStr(hx.Pick(r, c07ValidQueries))))
	if r.Chance(1, 2) {
		o = o.with("variables", jObj(kv("s", jStr("v")), kv("n", jNum("1"))))
	}
	if r.Chance(1, 4) {
		o = o.with("operationName", jNull())
	}
	return o
}

// a request object with deliberately odd members
func c07OddReq(r *hx.Rand) jv {
	o := jObj()
	n := r.Range(0, 5)
	for i := 0; i < n; i++ {
		switch r.Intn(7) {
		case 0, 1:
			v := jStr(hx.Pick(r, c07Queries))
			if r.Chance(1, 4) {
				v = c07RandShape(r, 1)
			}
			o = o.with(hx.Pick(r, c07QueryKeys[:5]), v)
		case 2, 3:
			v := c07RandShape(r, 2)
			if r.Chance(1, 2) {
				v = jObj(kv(hx.Pick(r, []string{"a", "s", "f"}), c07RandShape(r, 2)))
			}
			o = o.with(hx.Pick(r, c07VarKeys[:6]), v)
		case 4:
			v := jStr(hx.Pick(r, []string{"A", "B", "Q", "", "nope"}))
			if r.Chance(1, 3) {
				v = c07RandShape(r, 1)
			}
			o = o.with(hx.Pick(r, c07OpKeys[:4]), v)
		case 5:
			o = o.with(hx.Pick(r, c07OtherKeys), c07RandShape(r, 1))
		default:
			o = o.with(hx.Pick(r, append(append(append([]string{}, c07QueryKeys...), c07VarKeys...), c07OpKeys...)), c07RandShape(r, 1))
		}
	}
	return o
}

func jsonCase(label, ct string, body string, expect string) httpCase {
	if expect == "ok" && (strings.Contains(body, "e999") || strings.Contains(body, "E400")) {
		expect = "" // a numeral that does not fit a float64 somewhere in the document
	}
	return httpCase{Label: label, Method: "POST", Header: ct, Body: []byte(body), Expect: expect, Text: clip(body, 300)}
}

func clip(s string, n int) string {
	if len(s) > n {
		return s[:n] + "…"
	}
	return s
}

// c07Corpus: boundary cases first (pinned witnesses of the defects and of every rule of the model).
func c07Corpus() []httpCase {
	var out []httpCase
	add := func(label, ct, body, expect string) { out = append(out, jsonCase(label, ct, body, expect)) }
	add("corpus/nil-request", "application/json", `[null]`, "")
	add("corpus/nil-request-later", "application/json", `[{"query":"{ ping }"},null]`, "")
	add("corpus/nil-after-empty-query", "application/json", `[{"query":""},null]`, "undecodable")
	add("corpus/good-single", "application/json", `{"query":"{ ping }"}`, "ok")
	add("corpus/good-batch", "application/json", `[{"query":"{ ping }"},{"query":"query Q { ping }","operationName":"Q"}]`, "ok")
	add("corpus/empty-batch", "application/json", `[]`, "")
	add("corpus/empty-body", "application/json", ``, "undecodable")
	add("corpus/null-body", "application/json", `null`, "undecodable")
	add("corpus/string-with-bracket", "application/json", `"[{"`, "undecodable")
	add("corpus/bracket-in-query-before-brace", "", ` {"query":"[ping]"}`, "")
	add("corpus/array-in-single", "application/json", `{"query":["{ ping }"]}`, "undecodable")
	add("corpus/trailing-garbage", "application/json", `{"query":"{ ping }"} x`, "undecodable")
	add("corpus/two-documents", "application/json", `{"query":"{ ping }"}{"query":"{ ping }"}`, "undecodable")
	add("corpus/key-case", "text/plain", `{"QUERY":"{ ping }","Variable`+"ſ"+`":{"a":1},"OPERATIONNAME":null}`, "ok")
	add("corpus/dup-query-null", "", `{"query":"{ ping }","query":null}`, "ok")
	add("corpus/dup-variables-merge", "", `{"query":"{ ping }","variables":{"a":1},"Variables":{"b":2,"a":null}}`, "ok")
	add("corpus/variables-null-after", "", `{"query":"{ ping }","variables":{"a":1},"variables":null}`, "ok")
	add("corpus/number-overflow-in-variables", "", `{"query":"{ ping }","variables":{"a":1e999}}`, "undecodable")
	add("corpus/number-overflow-in-unknown", "", `{"query":"{ ping }","extensions":{"a":1e999}}`, "ok")
	add("corpus/unknown-content-type", "application/graphql", `{ ping }`, "undecodable")
	add("corpus/ct-space-before-semicolon", "application/json ; charset=utf-8", `{"query":"{ ping }"}`, "undecodable")
	add("corpus/invalid-op", "application/json", `{"query":"{ nope }"}`, "ok")
	add("corpus/two-ops-no-name", "application/json", `{"query":"query A { ping } query B { ping }"}`, "ok")
	add("corpus/two-ops-named", "application/json", `{"query":"query A { ping } query B { ping }","operationName":"B"}`, "ok")
	add("corpus/unknown-op-name", "application/json", `{"query":"{ ping }","operationName":"Z"}`, "ok")
	add("corpus/deep-nesting", "application/json", `{"query":"{ ping }","variables":{"a":`+strings.Repeat("[", 200)+strings.Repeat("]", 200)+`}}`, "ok")
	add("corpus/too-deep", "application/json", strings.Repeat("[", 10001)+strings.Repeat("]", 10001), "undecodable")
	add("corpus/invalid-utf8", "application/json", "{\"query\":\"{ ping }\",\"variables\":{\"a\":\"\xff\xfe\"}}", "ok")
	add("corpus/lone-surrogate", "application/json", `{"query":"{ ping }","variables":{"a":"\ud800"}}`, "ok")
	add("corpus/bom", "application/json", "\xef\xbb\xbf{\"query\":\"{ ping }\"}", "undecodable")
	// multipart witnesses
	mp := func(label string, l mpLayout) { out = append(out, l.build(label)) }
	one := `{"query":"mutation($f: Upload){ upload(file: $f) }","variables":{"f":null,"files":[null,null],"in":{"g":null}}}`
	batch := `[` + one + `]`
	mp("corpus/mp-good-single", mpLayout{Ops: &one, Map: ptr(`{"0":["variables.f"],"1":["variables.files.1"],"2":["variables.in.g"]}`), Files: mpFiles("0", "1", "2"), Expect: "ok"})
	mp("corpus/mp-good-batch", mpLayout{Ops: &batch, Map: ptr(`{"0":["0.variables.f"]}`), Files: mpFiles("0"), Expect: "ok"})
	mp("corpus/mp-batch-path-index-only", mpLayout{Ops: &batch, Map: ptr(`{"0":["0"]}`), Files: mpFiles("0")})
	mp("corpus/mp-batch-index-out-of-range", mpLayout{Ops: &batch, Map: ptr(`{"0":["5.variables.f"]}`), Files: mpFiles("0")})
	mp("corpus/mp-batch-index-negative", mpLayout{Ops: &batch, Map: ptr(`{"0":["-1.variables.f"]}`), Files: mpFiles("0")})
	mp("corpus/mp-negative-list-index", mpLayout{Ops: &one, Map: ptr(`{"0":["variables.files.-1"]}`), Files: mpFiles("0")})
	mp("corpus/mp-empty-batch-index-0", mpLayout{Ops: ptr(`[]`), Map: ptr(`{"0":["0.variables.f"]}`), Files: mpFiles("0")})
	mp("corpus/mp-list-index-out-of-range", mpLayout{Ops: &one, Map: ptr(`{"0":["variables.files.2"]}`), Files: mpFiles("0"), Expect: "undecodable"})
	mp("corpus/mp-nil-leaf-then-continue", mpLayout{Ops: ptr(`{"query":"{ ping }","variables":{"a":null,"b":null}}`), Map: ptr(`{"0":["variables.a.b"]}`), Files: mpFiles("0")})
	mp("corpus/mp-object-at-end", mpLayout{Ops: &one, Map: ptr(`{"0":["variables.in"]}`), Files: mpFiles("0")})
	mp("corpus/mp-same-path-twice", mpLayout{Ops: &one, Map: ptr(`{"0":["variables.f","variables.f"]}`), Files: mpFiles("0"), Expect: "undecodable"})
	mp("corpus/mp-two-files-one-path", mpLayout{Ops: &one, Map: ptr(`{"0":["variables.f"],"1":["variables.f"]}`), Files: mpFiles("0", "1"), Expect: "undecodable"})
	mp("corpus/mp-missing-file", mpLayout{Ops: &one, Map: ptr(`{"7":["variables.f"]}`), Files: mpFiles("0"), Expect: "undecodable"})
	mp("corpus/mp-no-map", mpLayout{Ops: &one, Files: mpFiles("0"), Expect: "undecodable"})
	mp("corpus/mp-empty-map", mpLayout{Ops: &one, Map: ptr(`{}`), Files: mpFiles("0"), Expect: "undecodable"})
	mp("corpus/mp-null-map", mpLayout{Ops: &one, Map: ptr(`null`), Files: mpFiles("0"), Expect: "undecodable"})
	mp("corpus/mp-map-null-paths", mpLayout{Ops: &one, Map: ptr(`{"0":null}`), Files: mpFiles("0")})
	mp("corpus/mp-map-null-path-element", mpLayout{Ops: &one, Map: ptr(`{"0":[null]}`), Files: mpFiles("0"), Expect: "undecodable"})
	mp("corpus/mp-map-wrong-type", mpLayout{Ops: &one, Map: ptr(`{"0":"variables.f"}`), Files: mpFiles("0"), Expect: "undecodable"})
	mp("corpus/mp-map-dup-key", mpLayout{Ops: &one, Map: ptr(`{"0":["variables.nope"],"0":["variables.f"]}`), Files: mpFiles("0"), Expect: "ok"})
	mp("corpus/mp-no-operations", mpLayout{Map: ptr(`{"0":["variables.f"]}`), Files: mpFiles("0"), Expect: "undecodable"})
	mp("corpus/mp-nil-request-in-operations", mpLayout{Ops: ptr(`[null]`), Map: ptr(`{"0":["0.variables.f"]}`), Files: mpFiles("0")})
	mp("corpus/mp-variables-absent", mpLayout{Ops: ptr(`{"query":"{ ping }"}`), Map: ptr(`{"0":["variables.f"]}`), Files: mpFiles("0"), Expect: "undecodable"})
	mp("corpus/mp-plus-index", mpLayout{Ops: &one, Map: ptr(`{"0":["variables.files.+1"]}`), Files: mpFiles("0"), Expect: "ok"})
	mp("corpus/mp-huge-index", mpLayout{Ops: &one, Map: ptr(`{"0":["variables.files.99999999999999999999"]}`), Files: mpFiles("0"), Expect: "undecodable"})
	mp("corpus/mp-huge-batch-index", mpLayout{Ops: &batch, Map: ptr(`{"0":["99999999999999999999.variables.f"]}`), Files: mpFiles("0"), Expect: "undecodable"})
	mp("corpus/mp-no-boundary", mpLayout{Ops: &one, Map: ptr(`{"0":["variables.f"]}`), Files: mpFiles("0"), HeaderOverride: ptr("multipart/form-data"), Expect: "undecodable"})
	return out
}

func ptr(s string) *string { return &s }

// ---- multipart layouts

type mpFile struct {
	Key      string
	Filename string
	Data     []byte
	AsField  bool // sent as a plain form field (no filename)
}

func mpFiles(keys ...string) []mpFile {
	out := make([]mpFile, len(keys))
	for i, k := range keys {
		out[i] = mpFile{Key: k, Filename: "file-" + strconv.Itoa(i) + ".txt", Data: []byte("content of " + k + " #" + strconv.Itoa(i))}
	}
	return out
}

type mpLayout struct {
	Ops            *string // operations field (nil: absent)
	OpsAsFile      bool
	OpsTwice       *string // a second operations field
	Map            *string
	MapFirst       bool // map before operations
	Files          []mpFile
	HeaderOverride *string
	Expect         string
}

func (l mpLayout) build(label string) httpCase {
	var b bytes.Buffer
	w := multipart.NewWriter(&b)
	writeOps := func() {
		if l.Ops == nil {
			return
		}
		if l.OpsAsFile {
			fw, _ := w.CreateFormFile("operations", "operations.json")
			fw.Write([]byte(*l.Ops))
		} else {
			w.WriteField("operations", *l.Ops)
		}
		if l.OpsTwice != nil {
			w.WriteField("operations", *l.OpsTwice)
		}
	}
	writeMap := func() {
		if l.Map != nil {
			w.WriteField("map", *l.Map)
		}
	}
	if l.MapFirst {
		writeMap()
		writeOps()
	} else {
		writeOps()
		writeMap()
	}
	for _, f := range l.Files {
		if f.AsField {
			w.WriteField(f.Key, string(f.Data))
			continue
		}
		h := make(textproto.MIMEHeader)
		h.Set("Content-Disposition", fmt.Sprintf(`form-data; name=%s; filename=%s`, strconv.Quote(f.Key), strconv.Quote(f.Filename)))
		h.Set("Content-Type", "application/octet-stream")
		pw, _ := w.CreatePart(h)
		pw.Write(f.Data)
	}
	w.Close()
	hdr := w.FormDataContentType()
	if l.HeaderOverride != nil {
		hdr = *l.HeaderOverride
	}
	text := ""
	if l.Ops != nil {
		text += "operations=" + clip(*l.Ops, 200)
	}
	if l.Map != nil {
		text += " map=" + clip(*l.Map, 200)
	}
	text += fmt.Sprintf(" files=%d", len(l.Files))
	return httpCase{Label: label, Method: "POST", Header: hdr, Body: b.Bytes(), Expect: l.Expect, Text: text}
}

// variables tree with null leaves where files may go; returns the tree and the addressable
// positions (path relative to the request, e.g. "variables.in.g").
func c07VarTree(r *hx.Rand) (jv, []string) {
	o := jObj()
	var pos []string
	names := []string{"f", "g", "files", "in", "list", "s", "deep"}
	perm := r.Perm(len(names))
	n := r.Range(1, 5)
	for _, pi := range perm[:n] {
		name := names[pi]
		switch r.Intn(6) {
		case 0, 1:
			o = o.with(name, jNull())
			pos = append(pos, "variables."+name)
		case 2:
			k := r.Range(1, 3)
			xs := make([]jv, k)
			for i := range xs {
				if r.Chance(1, 5) {
					xs[i] = jStr("taken")
				} else {
					xs[i] = jNull()
					pos = append(pos, fmt.Sprintf("variables.%s.%d", name, i))
				}
			}
			o = o.with(name, jArr(xs...))
		case 3:
			o = o.with(name, jObj(kv("g", jNull()), kv("t", jStr("x"))))
			pos = append(pos, "variables."+name+".g")
		case 4:
			o = o.with(name, jObj(kv("a", jObj(kv("b", jNull()), kv("l", jArr(jNull()))))))
			pos = append(pos, "variables."+name+".a.b", "variables."+name+".a.l.0")
		default:
			o = o.with(name, c07RandShape(r, 1))
		}
	}
	return o, pos
}

var c07BadPaths = []string{"", ".", "..", "variables", "variables.", ".variables.f", "vars.f", "Variables.f", "0", "0.", "0.variables", "x.variables.f",
	"-1.variables.f", "5.variables.f", "99999999999999999999.variables.f", "+0.variables.f", "00.variables.f", "1e0.variables.f",
	"variables.files.-1", "variables.files.1e3", "variables.files.+0", "variables.files.00", "variables.files.", "variables.files",
	"variables.files.0.x", "variables.files.9", "variables.f.g", "variables.in", "variables.in.g.h", "variables.s", "variables.missing",
	"variables.in.missing", "variables..f", "variables.f.", "0.variables.files.-2", "-0.variables.f", "1.variables.f", "variables.list.0.0"}

// c07Multipart draws one multipart layout: mostly well-formed, with one or two deviations.
func c07Multipart(r *hx.Rand) httpCase {
	batch := r.Chance(1, 3)
	nreq := 1
	if batch {
		nreq = r.Range(0, 4)
	}
	var reqs []jv
	var positions []string // full client paths
	for i := 0; i < nreq; i++ {
		tree, pos := c07VarTree(r)
		q := jObj(kv("query", jStr(hx.Pick(r, []string{"mutation($f: Upload){ upload(file: $f) }", "{ ping }", "mutation($fs: [Upload]){ upload(files: $fs) }"}))), kv("variables", tree))
		if r.Chance(1, 10) {
			q = jObj(kv("query", jStr("{ ping }"))) // no variables at all
			pos = nil
		}
		reqs = append(reqs, q)
		for _, p := range pos {
			if batch {
				p = strconv.Itoa(i) + "." + p
			}
			positions = append(positions, p)
		}
	}
	if batch && r.Chance(1, 8) {
		reqs = append(reqs, jNull())
	}
	var ops string
	if batch {
		ops = jArr(reqs...).String()
	} else {
		ops = reqs[0].String()
	}
	l := mpLayout{Ops: &ops}
	// files and map
	nfiles := r.Range(1, 4)
	if len(positions) == 0 {
		nfiles = r.Range(0, 2)
	}
	wellFormed := len(positions) > 0
	used := map[string]bool{}
	var mapKVs []jkv
	for k := 0; k < nfiles; k++ {
		key := strconv.Itoa(k)
		if r.Chance(1, 12) {
			key = hx.Pick(r, []string{"", "a", "file", "00", "0", "1.5", "é"})
			wellFormed = false
		}
		data := make([]byte, hx.Pick(r, []int{0, 1, 5, 64, 300}))
		for i := range data {
			data[i] = byte(r.Intn(256))
		}
		l.Files = append(l.Files, mpFile{Key: key, Filename: fmt.Sprintf("f%d-%s.bin", k, hx.Pick(r, []string{"a", "b", "c c", "é"})), Data: data})
		var paths []jv
		np := 1
		if r.Chance(1, 6) {
			np = r.Range(0, 3)
		}
		for j := 0; j < np; j++ {
			switch {
			case len(positions) > 0 && !r.Chance(1, 7):
				p := hx.Pick(r, positions)
				if used[p] {
					wellFormed = false
				}
				used[p] = true
				paths = append(paths, jStr(p))
			default:
				wellFormed = false
				if r.Chance(1, 8) {
					paths = append(paths, hx.Pick(r, []jv{jNull(), jNum("0"), jArr(), jObj(), jBool(true)}))
				} else {
					paths = append(paths, jStr(hx.Pick(r, c07BadPaths)))
				}
			}
		}
		if np == 0 {
			wellFormed = false
		}
		var val jv = jArr(paths...)
		if r.Chance(1, 25) {
			val = hx.Pick(r, []jv{jNull(), jStr("variables.f"), jNum("1"), jObj()})
			wellFormed = false
		}
		mapKVs = append(mapKVs, kv(key, val))
	}
	// deviations
	switch r.Intn(14) {
	case 0:
		if len(l.Files) > 0 { // a file the map names is missing
			l.Files = l.Files[1:]
			wellFormed = false
		}
	case 1:
		l.Files = append(l.Files, mpFile{Key: "extra", Filename: "extra.bin", Data: []byte("x")})
	case 2:
		if len(l.Files) > 0 {
			l.Files[0].AsField = true
			wellFormed = false
		}
	case 3:
		if len(mapKVs) > 0 { // duplicate key in the map document
			mapKVs = append(mapKVs, kv(mapKVs[0].k, jArr(jStr(hx.Pick(r, c07BadPaths)))))
			wellFormed = false
		}
	case 4:
		l.MapFirst = true
	case 5:
		l.OpsAsFile = true
		wellFormed = false
	case 6:
		l.OpsTwice = ptr(`{"query":"{ ping }"}`)
	case 7:
		if len(l.Files) > 0 { // the same key twice
			l.Files = append(l.Files, mpFile{Key: l.Files[0].Key, Filename: "dup.bin", Data: []byte("dup")})
		}
	}
	m := jObj(mapKVs...).String()
	l.Map = &m
	switch r.Intn(30) {
	case 0:
		l.Map = nil
		wellFormed = false
	case 1:
		l.Map = ptr(hx.Pick(r, []string{"", "null", "[]", "{", "\"x\"", "{}", "1"}))
		wellFormed = false
	case 2:
		l.Ops = nil
		wellFormed = false
	}
	if strings.Contains(ops, "e999") || strings.Contains(ops, "E400") { // a numeral that does not fit a float64
		wellFormed = false
	}
	if batch && nreq < len(reqs) { // a nil request was appended
		wellFormed = false
	}
	if nfiles == 0 {
		wellFormed = false
	}
	label := "multipart/single"
	if batch {
		label = "multipart/batch"
	}
	if wellFormed {
		l.Expect = "ok"
		label += "/well-formed"
	}
	return l.build(label)
}

// c07Structured draws one structured JSON case.
func c07Structured(r *hx.Rand) httpCase {
	ct := hx.Pick(r, c07JSONTypes)
	if r.Chance(1, 6) {
		ct = hx.Pick(r, c07ContentTypes)
	}
	sp := ""
	if r.Chance(1, 5) {
		sp = hx.Pick(r, []string{" ", "\n", "\t ", "\r\n"})
	}
	render := func(j jv) string {
		var b strings.Builder
		j.write(&b, sp)
		s := b.String()
		if r.Chance(1, 10) {
			s = hx.Pick(r, []string{" ", "\n\n", "\t"}) + s + hx.Pick(r, []string{"", " ", "\n"})
		}
		return s
	}
	switch r.Intn(10) {
	case 0: // a bare shape at top level
		return jsonCase("json/top-level-shape", ct, render(c07RandShape(r, 2)), "")
	case 1, 2: // single, odd members
		return jsonCase("json/single-odd", ct, render(c07OddReq(r)), "")
	case 3: // single, one member of each shape
		shapes := c07Shapes()
		o := jObj(kv("query", jStr("{ ping }")), kv("variables", jObj()), kv("operationName", jNull()))
		which := r.Intn(3)
		o.obj[which].v = hx.Pick(r, shapes)
		keys := [][]string{c07QueryKeys, c07VarKeys, c07OpKeys}
		if r.Chance(1, 2) {
			o.obj[which].k = hx.Pick(r, keys[which])
		}
		return jsonCase("json/single-member-shape", ct, render(o), "")
	case 4, 5, 6: // batches of 0..8 with nil / wrong-typed elements
		n := r.Range(0, 8)
		xs := make([]jv, n)
		good := true
		for i := range xs {
			switch r.Intn(8) {
			case 0:
				xs[i] = jNull()
				good = false
			case 1:
				xs[i] = c07RandShape(r, 1)
				good = false
			case 2:
				xs[i] = c07OddReq(r)
				good = false
			default:
				xs[i] = c07GoodReq(r)
			}
		}
		exp := ""
		if good && indexOfStr(c07JSONTypes, ct) >= 0 {
			exp = "ok"
		}
		return jsonCase("json/batch", ct, render(jArr(xs...)), exp)
	case 7: // good single with every content type
		exp := ""
		if indexOfStr(c07JSONTypes, ct) >= 0 {
			exp = "ok"
		}
		return jsonCase("json/good-single", ct, render(c07GoodReq(r)), exp)
	case 8: // first-bracket confusion: text before the document, brackets inside strings
		body := hx.Pick(r, []string{`"[" `, `"{" `, "[", "]", "{", " [ ", "x", "\"\"", "//[\n"}) + render(c07GoodReq(r))
		return jsonCase("json/bracket-noise", ct, body, "")
	default: // a query from the full pool (valid / invalid operations)
		o := jObj(kv("query", jStr(hx.Pick(r, c07Queries))))
		if r.Chance(1, 2) {
			o = o.with("operationName", jStr(hx.Pick(r, []string{"A", "B", "Q", "", "Z"})))
		}
		if r.Chance(1, 2) {
			o = o.with("variables", jObj(kv("s", c07RandShape(r, 1))))
		}
		exp := ""
		if indexOfStr(c07JSONTypes, ct) >= 0 {
			exp = "ok"
		}
		return jsonCase("json/operations", ct, render(o), exp)
	}
}

func indexOfStr(xs []string, s string) int {
	for i, x := range xs {
		if x == s {
			return i
		}
	}
	return -1
}

// c07Mutate applies 1..4 byte mutations to a case (the malformed stream).
func c07Mutate(r *hx.Rand, c httpCase) httpCase {
	b := append([]byte{}, c.Body...)
	special := []byte{'[', ']', '{', '}', '"', '\\', ',', ':', 0, 0xff, ' ', '\n', '-', '.', '0', 'n', 'e'}
	n := r.Range(1, 4)
	for i := 0; i < n; i++ {
		if len(b) == 0 {
			b = append(b, hx.Pick(r, special))
			continue
		}
		p := r.Intn(len(b))
		switch r.Intn(7) {
		case 0:
			b[p] ^= byte(1 << uint(r.Intn(8)))
		case 1:
			b = append(b[:p], b[p+1:]...)
		case 2:
			b = append(b[:p], append([]byte{hx.Pick(r, special)}, b[p:]...)...)
		case 3:
			b = b[:p]
		case 4:
			q := p + r.Intn(len(b)-p)
			b = append(b[:q], append(append([]byte{}, b[p:q]...), b[q:]...)...)
		case 5:
			b[p] = hx.Pick(r, special)
		default:
			q := p + r.Intn(len(b)-p)
			b = append(b[:p], b[q:]...)
		}
	}
	hdr := c.Header
	if r.Chance(1, 12) && hdr != "" {
		hb := []byte(hdr)
		hb[r.Intn(len(hb))] = hx.Pick(r, []byte{';', ' ', '=', 'x', '"'})
		hdr = string(hb)
	}
	return httpCase{Label: "mutated/" + strings.SplitN(c.Label, "/", 2)[0], Method: "POST", Header: hdr, Body: b, Text: clip(string(b), 300)}
}
