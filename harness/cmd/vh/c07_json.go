package main

// Decoded views for the requests family (C07, C19): what the stdlib codecs hand to pebbles,
// expressed in the wire form of Driver/DParse.lean. Everything here uses encoding/json,
// mime/multipart and net/http only — never pebbles code — so that the model input is
// independent of the implementation under test.

import (
	"bytes"
	"crypto/sha1"
	"encoding/hex"
	"encoding/json"
	"fmt"
	"io"
	"net/http"
	"net/http/httptest"
	"sort"
	"strconv"
	"strings"

	"github.com/buildbuildio/pebbles/requests"
)

// firstBracket: what a forward scan for '[' / '{' sees (nil: neither).
func firstBracket(b []byte) interface{} {
	for _, c := range b {
		if c == '[' {
			return true
		}
		if c == '{' {
			return false
		}
	}
	return nil
}

// orderedJSON turns one valid JSON document into the driver's wire form, keeping the members of
// objects in document order and numerals as text. ok=false: not (exactly) one valid JSON value.
// nofit collects the numerals strconv.ParseFloat rejects for float64.
func orderedJSON(b []byte, nofit map[string]bool) (interface{}, bool) {
	if !json.Valid(b) {
		return nil, false
	}
	dec := json.NewDecoder(bytes.NewReader(b))
	dec.UseNumber()
	v, err := orderedValue(dec, nofit)
	if err != nil {
		return nil, false
	}
	return v, true
}

func orderedValue(dec *json.Decoder, nofit map[string]bool) (interface{}, error) {
	tok, err := dec.Token()
	if err != nil {
		return nil, err
	}
	switch t := tok.(type) {
	case nil:
		return nil, nil
	case bool:
		return t, nil
	case string:
		return t, nil
	case json.Number:
		if _, err := strconv.ParseFloat(string(t), 64); err != nil {
			nofit[string(t)] = true
		}
		return map[string]interface{}{"n": string(t)}, nil
	case json.Delim:
		switch t {
		case '[':
			arr := []interface{}{}
			for dec.More() {
				x, err := orderedValue(dec, nofit)
				if err != nil {
					return nil, err
				}
				arr = append(arr, x)
			}
			if _, err := dec.Token(); err != nil {
				return nil, err
			}
			return map[string]interface{}{"a": arr}, nil
		case '{':
			kvs := []interface{}{}
			for dec.More() {
				kt, err := dec.Token()
				if err != nil {
					return nil, err
				}
				k, _ := kt.(string)
				x, err := orderedValue(dec, nofit)
				if err != nil {
					return nil, err
				}
				kvs = append(kvs, []interface{}{k, x})
			}
			if _, err := dec.Token(); err != nil {
				return nil, err
			}
			return map[string]interface{}{"o": kvs}, nil
		}
	}
	return nil, fmt.Errorf("unexpected token %v", tok)
}

// httpCase is one request a client can send: complete for replay.
type httpCase struct {
	Label  string `json:"label"`
	Method string `json:"method"`
	Header string `json:"content_type"` // "" = header absent
	Body   []byte `json:"body"`         // base64 in JSON
	// generator-side expectation, independent of any pebbles code: "ok" (well-formed by
	// construction), "undecodable" (not JSON / no query by construction), "" (unknown)
	Expect string `json:"expect,omitempty"`
	Text   string `json:"body_text,omitempty"` // readable copy of the body (informational)
}

// parseOnly: the header value cannot reach a handler through net/http as written (the transport
// trims optional whitespace around field values): the case is observed at requests.Parse only.
func (c httpCase) parseOnly() bool { return strings.TrimSpace(c.Header) != c.Header }

func (c httpCase) request() *http.Request {
	r := httptest.NewRequest(c.Method, "/", bytes.NewReader(c.Body))
	if c.Header != "" {
		r.Header.Set("Content-Type", c.Header)
	}
	return r
}

type formFile struct {
	Name string
	Sha  string
	Data []byte
}

// decodedView: the model's input for a case, and the files of the form by key.
type decodedView struct {
	Input map[string]interface{}
	Files map[string]formFile
}

func sha(b []byte) string {
	h := sha1.Sum(b)
	return hex.EncodeToString(h[:8])
}

// decode computes what the codecs hand over, with the stdlib only.
func (c httpCase) decode() decodedView {
	nofit := map[string]bool{}
	in := map[string]interface{}{"method": c.Method, "header": c.Header}
	in["fb"] = firstBracket(c.Body)
	if v, ok := orderedJSON(c.Body, nofit); ok {
		in["body"] = v
		in["bodyValid"] = true
	} else {
		in["bodyValid"] = false
	}
	view := decodedView{Input: in, Files: map[string]formFile{}}
	// the multipart view (net/http decides whether the bytes are a form)
	r := c.request()
	formOk := r.ParseMultipartForm(32<<20) == nil
	in["formOk"] = formOk
	files := []string{}
	if formOk {
		ops := []byte(r.Form.Get("operations"))
		in["opsFb"] = firstBracket(ops)
		if v, ok := orderedJSON(ops, nofit); ok {
			in["ops"] = v
			in["opsValid"] = true
		} else {
			in["opsValid"] = false
		}
		if v, ok := orderedJSON([]byte(r.Form.Get("map")), nofit); ok {
			in["map"] = v
			in["mapValid"] = true
		} else {
			in["mapValid"] = false
		}
		if r.MultipartForm != nil {
			for k := range r.MultipartForm.File {
				f, hdr, err := r.FormFile(k)
				if err != nil {
					continue
				}
				data, _ := io.ReadAll(f)
				f.Close()
				files = append(files, k)
				view.Files[k] = formFile{Name: hdr.Filename, Sha: sha(data), Data: data}
			}
		}
	}
	sort.Strings(files)
	in["files"] = files
	nf := []string{}
	for k := range nofit {
		nf = append(nf, k)
	}
	sort.Strings(nf)
	in["nofit"] = nf
	return view
}

// ---- canonical rendering of variable trees (both sides)

func canonNum(repr string) string {
	f, err := strconv.ParseFloat(repr, 64)
	if err != nil {
		return "n:!" + repr
	}
	return "n:" + strconv.FormatFloat(f, 'g', -1, 64)
}

// canonGo renders what pebbles holds in Request.Variables.
func canonGo(v interface{}) interface{} {
	switch x := v.(type) {
	case nil:
		return nil
	case bool:
		if x {
			return "b:true"
		}
		return "b:false"
	case float64:
		return "n:" + strconv.FormatFloat(x, 'g', -1, 64)
	case string:
		return "s:" + x
	case json.Number:
		return canonNum(string(x))
	case []interface{}:
		out := make([]interface{}, len(x))
		for i, e := range x {
			out[i] = canonGo(e)
		}
		return out
	case map[string]interface{}:
		out := map[string]interface{}{}
		for k, e := range x {
			out["k:"+k] = canonGo(e)
		}
		return out
	case *requests.Upload:
		if x == nil {
			return "upload:nil"
		}
		name, s := x.FileName, "?"
		if x.File != nil {
			if sk, ok := x.File.(io.Seeker); ok {
				sk.Seek(0, io.SeekStart)
			}
			data, _ := io.ReadAll(x.File)
			if sk, ok := x.File.(io.Seeker); ok {
				sk.Seek(0, io.SeekStart)
			}
			s = sha(data)
		}
		return map[string]interface{}{"$upload": name, "$sha": s}
	default:
		return fmt.Sprintf("?%T", v)
	}
}

// canonModel renders the driver's variable tree; uploads are resolved through the model's
// entry list and the form's files.
func canonModel(v interface{}, entries []string, files map[string]formFile) interface{} {
	switch x := v.(type) {
	case nil:
		return nil
	case map[string]interface{}:
		if s, ok := x["s"].(string); ok {
			if strings.HasPrefix(s, "n:") {
				return canonNum(s[2:])
			}
			return s
		}
		if u, ok := x["u"]; ok {
			k := -1
			switch n := u.(type) {
			case json.Number:
				i, _ := n.Int64()
				k = int(i)
			case float64:
				k = int(n)
			}
			if k < 0 || k >= len(entries) {
				return "upload:?"
			}
			f := files[entries[k]]
			return map[string]interface{}{"$upload": f.Name, "$sha": f.Sha}
		}
		if a, ok := x["a"].([]interface{}); ok {
			out := make([]interface{}, len(a))
			for i, e := range a {
				out[i] = canonModel(e, entries, files)
			}
			return out
		}
		if o, ok := x["o"].([]interface{}); ok {
			out := map[string]interface{}{}
			for _, kv := range o {
				p, _ := kv.([]interface{})
				if len(p) == 2 {
					k, _ := p[0].(string)
					out["k:"+k] = canonModel(p[1], entries, files)
				}
			}
			return out
		}
	}
	return fmt.Sprintf("?%v", v)
}

func strList(v interface{}) []string {
	arr, _ := v.([]interface{})
	out := make([]string, 0, len(arr))
	for _, x := range arr {
		s, _ := x.(string)
		out = append(out, s)
	}
	return out
}
