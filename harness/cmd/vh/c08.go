package main

import (
	"encoding/json"
	"fmt"
	"net/http"
	"regexp"
	"sort"
	"strconv"
	"strings"
	"time"

	"github.com/buildbuildio/pebbles"
	"github.com/buildbuildio/pebbles/planner"
	"github.com/buildbuildio/pebbles/queryer"
	"github.com/buildbuildio/pebbles/requests"

	"verif/harness/fed"
	"verif/harness/hx"
)

// ---- operation-bound queryers -------------------------------------------------------------------
// The queryer factory is handed the planning context of ONE client operation, and a real factory
// may depend on it (credentials, tenant, tracing scope of that operation). Isolation of per-request
// state includes the queryers: the sub-requests of operation i must travel through queryers built
// for operation i. In the "bound" half of the cases every executed operation of the batch carries
// its position as the alias of its first root field (`op3x: field`), the factory remembers which
// operation it built a queryer for, and the queryer REFUSES a sub-request that carries another
// operation's mark — like a credential-scoped client would. Sent alone, an operation never meets
// a foreign queryer, so any refusal shows up as a difference between the batch and the singles.

var c08MarkRe = regexp.MustCompile(`\bop(\d+)x\s*:`)

func c08Owner(q string) int {
	if m := c08MarkRe.FindStringSubmatch(q); m != nil {
		n, _ := strconv.Atoi(m[1])
		return n
	}
	return -1
}

type c08BoundQ struct {
	queryer.Queryer
	owner int
}

func (b *c08BoundQ) Query(in []*requests.Request) ([]map[string]interface{}, error) {
	for _, r := range in {
		if j := c08Owner(r.Query); j >= 0 && b.owner >= 0 && j != b.owner {
			return nil, fmt.Errorf("queryer built for operation %d was handed a sub-request of operation %d", b.owner, j)
		}
	}
	return b.Queryer.Query(in)
}

func c08BoundFactory(f *fed.Fed) pebbles.GatewayOption {
	client := &http.Client{Transport: &fed.Transport{Fed: f}}
	return pebbles.WithQueryerFactory(func(ctx *planner.PlanningContext, url string) queryer.Queryer {
		q := queryer.NewMultiOpQueryer(url, 3000).WithHTTPClient(client)
		owner := -1
		if ctx != nil && ctx.Request != nil {
			owner = c08Owner(ctx.Request.Query)
			if ctx.Request.Original != nil {
				q = q.WithContext(ctx.Request.Original.Context())
			}
		}
		return &c08BoundQ{Queryer: q, owner: owner}
	})
}

// c08MarkOp aliases the first field of the operation's selection set (the first `{` outside the
// parentheses of the variable definitions) with `op<i>x`.
func c08MarkOp(q string, i int) string {
	depth := 0
	for k, c := range q {
		switch c {
		case '(':
			depth++
		case ')':
			depth--
		case '{':
			if depth == 0 {
				return q[:k] + c08Mark(q[k:], fmt.Sprintf("op%dx", i))
			}
		}
	}
	return q
}

func init() {
	register("C08", runC08)
	registerReplay("C08", func(ctx *Ctx, raw json.RawMessage) error {
		var cs c08Case
		if err := json.Unmarshal(raw, &cs); err != nil {
			return err
		}
		for k := 0; k < 5; k++ {
			c08Check(ctx, k, cs)
		}
		return nil
	})
}

// c08Case is self-contained: the federation is regenerated from its seed.
type c08Case struct {
	FedSeed uint64    `json:"fed_seed"`
	Batch   []c08Item `json:"batch"`
}

type c08Item struct {
	Kind   string                 `json:"kind"` // query mutation invalid introspection failing slow missing-op
	Query  string                 `json:"query"`
	Vars   map[string]interface{} `json:"variables,omitempty"`
	OpName *string                `json:"operationName,omitempty"`
}

func c08Fed(seed uint64) (*fed.Fed, error) {
	r := hx.NewRand(seed)
	o := fed.DefaultGen()
	spec := fed.Generate(r, o)
	data := fed.GenData(r, spec, fed.DefaultData())
	f, err := fed.Build(spec, data)
	if err != nil {
		return nil, err
	}
	for _, s := range f.Services {
		s.Fault = func(c *fed.Call) *fed.FaultAction {
			if strings.Contains(c.Query, "failme") {
				return &fed.FaultAction{Kind: "errors", Data: []interface{}{map[string]interface{}{"message": "injected failure", "extensions": map[string]interface{}{"code": "BOOM"}}}}
			}
			return nil
		}
		s.Delay = func(c *fed.Call) time.Duration {
			if strings.Contains(c.Query, "slowme") {
				return 3 * time.Millisecond
			}
			return 0
		}
	}
	return f, nil
}

// canonical form of one result: data + sorted error messages (order of errors from
// concurrently failing steps may vary: C13)
func c08Canon(raw json.RawMessage) string {
	var m struct {
		Data   interface{}              `json:"data"`
		Errors []map[string]interface{} `json:"errors"`
	}
	if err := json.Unmarshal(raw, &m); err != nil {
		return "!unparsable:" + string(raw)
	}
	msgs := make([]string, 0, len(m.Errors))
	for _, e := range m.Errors {
		msgs = append(msgs, hx.Canon(e))
	}
	sort.Strings(msgs)
	return hx.Canon(map[string]interface{}{"data": m.Data, "errors": msgs})
}

func c08Check(ctx *Ctx, idx int, cs c08Case) {
	f, err := c08Fed(cs.FedSeed)
	if err != nil {
		ctx.Rep.Fail(hx.Failure{Kind: "harness-error", Detail: err.Error(), Case: cs, Index: idx})
		return
	}
	bound := idx%2 == 1 && len(cs.Batch) >= 2 && len(cs.Batch) <= 16
	gcfg := fed.GatewayConfig{}
	if bound {
		gcfg.Options = []pebbles.GatewayOption{c08BoundFactory(f)}
		marked := append([]c08Item(nil), cs.Batch...)
		for i := range marked {
			if marked[i].Kind == "query" || marked[i].Kind == "mutation" {
				marked[i].Query = c08MarkOp(marked[i].Query, i)
			}
		}
		cs = c08Case{FedSeed: cs.FedSeed, Batch: marked}
		ctx.Rep.Count("queryers bound to their operation")
	}
	gw, err := f.NewGateway(gcfg)
	if err != nil {
		ctx.Rep.Count("federation does not merge")
		return
	}
	body := make([]map[string]interface{}, len(cs.Batch))
	kinds := map[string]bool{}
	for i, it := range cs.Batch {
		body[i] = map[string]interface{}{"query": it.Query}
		if it.Vars != nil {
			body[i]["variables"] = it.Vars
		}
		if it.OpName != nil {
			body[i]["operationName"] = *it.OpName
		}
		kinds[it.Kind] = true
		ctx.Rep.Count("item:" + it.Kind)
	}
	ctx.Rep.Count(fmt.Sprintf("batch-len=%d", len(cs.Batch)))
	b, _ := json.Marshal(body)
	// JSON allows insignificant whitespace before the first token and between tokens: the same batch,
	// pretty-printed or sent after a newline, is the same batch
	switch idx % 4 {
	case 1:
		b = append([]byte("\n  "), b...)
		ctx.Rep.Count("body: whitespace before the array")
	case 2:
		if pb, err := json.MarshalIndent(body, "\t", "  "); err == nil {
			b = append([]byte("\t"), pb...)
			ctx.Rep.Count("body: indented, tab first")
		}
	}
	f.Data.Counters = map[string]int{}
	resp := fed.DoRawTimeout(gw, "application/json", b, 20*time.Second)
	if resp == nil {
		c08Hung = true
		ctx.Rep.Fail(hx.Failure{Kind: "property-fails", Detail: fmt.Sprintf("the handler did not return within 20 s for a batch of %d operations (hang)", len(cs.Batch)), Case: cs, Index: idx})
		return
	}
	key := hx.Canon(cs)
	ctx.Rep.Case(key, len(cs.Batch) >= 2 && len(kinds) >= 2)
	if len(cs.Batch) >= 2 {
		ctx.Rep.Sample(map[string]interface{}{"batch": cs.Batch, "response": json.RawMessage(resp.Raw)})
	}
	var results []json.RawMessage
	if resp.Status != 200 || json.Unmarshal(resp.Raw, &results) != nil {
		ctx.Rep.Fail(hx.Failure{Kind: "property-fails", Detail: fmt.Sprintf("batch of %d answered with status %d and a body that is not a JSON array", len(cs.Batch), resp.Status), Case: cs, Impl: string(resp.Raw), Index: idx})
		return
	}
	if len(results) != len(cs.Batch) {
		ctx.Rep.Fail(hx.Failure{Kind: "property-fails", Detail: fmt.Sprintf("%d results for %d operations", len(results), len(cs.Batch)), Case: cs, Impl: string(resp.Raw), Index: idx})
		return
	}
	for i, it := range cs.Batch {
		f.Data.Counters = map[string]int{}
		single := fed.Do(gw, it.Query, it.Vars, it.OpName)
		if c08Canon(results[i]) != c08Canon(single.Raw) {
			ctx.Rep.Fail(hx.Failure{Kind: "property-fails", Detail: fmt.Sprintf("result %d of the batch differs from the answer to operation %d sent alone", i, i),
				Case: cs, Impl: map[string]interface{}{"in_batch": json.RawMessage(results[i]), "alone": json.RawMessage(single.Raw)}, Index: idx})
			return
		}
	}
	// model: slot i holds result i for the batch length (C08_place_any_order is the theorem; the
	// driver evaluates placeAll for a seeded arrival order as a sanity check of the executable model)
	if ctx.Driver != nil && len(cs.Batch) > 0 {
		ord := hx.NewRand(cs.FedSeed).Perm(len(cs.Batch))
		res, err := ctx.Driver.Call(map[string]interface{}{"op": "c08.place", "n": len(cs.Batch), "order": ord})
		if err != nil || res["ok"] != true {
			ctx.Rep.Fail(hx.Failure{Kind: "model-mismatch", Detail: "Model.GatewayBatch.placeAll does not produce the identity placement", Case: cs, Model: res, Index: idx})
		}
		ctx.Rep.Traces++
	}
}

func c08Gen(r *hx.Rand, fedSeed uint64) (c08Case, bool) {
	return c08GenN(r, fedSeed, r.Range(0, 8))
}

func c08GenN(r *hx.Rand, fedSeed uint64, n int) (c08Case, bool) {
	f, err := c08Fed(fedSeed)
	if err != nil {
		return c08Case{}, false
	}
	mr, err := f.Merged()
	if err != nil {
		return c08Case{}, false
	}
	cs := c08Case{FedSeed: fedSeed}
	usedMutation := false
	for i := 0; i < n; i++ {
		var it c08Item
		switch r.Intn(10) {
		case 0, 1, 2, 3:
			op := fed.GenOp(r.Fork(), mr.Schema, f.Data, "query", fed.SafeOps())
			it = c08Item{Kind: "query", Query: op.Query, Vars: op.Variables, OpName: op.OpName}
		case 4:
			if mr.Schema.Mutation != nil && !usedMutation {
				op := fed.GenOp(r.Fork(), mr.Schema, f.Data, "mutation", fed.SafeOps())
				it = c08Item{Kind: "mutation", Query: op.Query, Vars: op.Variables, OpName: op.OpName}
				usedMutation = true
			} else {
				it = c08Item{Kind: "introspection", Query: "{ __schema { queryType { name } } }"}
			}
		case 5:
			it = c08Item{Kind: "invalid", Query: "{ thisFieldDoesNotExist }"}
		case 6:
			it = c08Item{Kind: "invalid", Query: "{ unbalanced "}
		case 7:
			it = c08Item{Kind: "introspection", Query: "{ __type(name: \"Query\") { name kind } }"}
		case 8:
			op := fed.GenOp(r.Fork(), mr.Schema, f.Data, "query", fed.OpOptions{MaxDepth: 1})
			it = c08Item{Kind: "failing", Query: strings.Replace(op.Query, "{", "{ failme: __typename ", 1)}
			// a root-level marker alias is routed to the internal service; put the marker in an alias of a real root field instead
			it.Query = c08Mark(op.Query, "failme")
		default:
			op := fed.GenOp(r.Fork(), mr.Schema, f.Data, "query", fed.OpOptions{MaxDepth: 1})
			it = c08Item{Kind: "slow", Query: c08Mark(op.Query, "slowme")}
		}
		cs.Batch = append(cs.Batch, it)
	}
	return cs, true
}

// c08Mark aliases the first root field of a generated `{ f … }` / `query { f … }` operation.
func c08Mark(q, marker string) string {
	i := strings.Index(q, "{")
	if i < 0 {
		return q
	}
	rest := strings.TrimLeft(q[i+1:], " ")
	// drop an existing alias on the first field
	end := strings.IndexAny(rest, " ({}")
	if end > 0 && strings.HasSuffix(rest[:end], ":") {
		rest = strings.TrimLeft(rest[end:], " ")
	}
	return q[:i+1] + " " + marker + ": " + rest
}

// c08Hung: a handler call did not return; its goroutines are still parked — stop generating.
var c08Hung bool

func runC08(ctx *Ctx) error {
	ctx.Rep.Rule = "case = a JSON-array body of 0..8 operations (plus batches of 17..130, thorough up to 1025) (valid queries, one mutation, invalid, introspection, downstream-failing, slow) through the real Handler of a generated federation; " +
		"oracle: response is an array of the same length and result i equals the answer to operation i sent alone; distinct = distinct batch; non-trivial = ≥2 operations of ≥2 kinds"
	cases := 120
	if ctx.Thorough() {
		cases = 3000
	}
	// corpus: empty batch, single element batch
	c08Check(ctx, 0, c08Case{FedSeed: 7, Batch: nil})
	c08Check(ctx, 1, c08Case{FedSeed: 7, Batch: []c08Item{{Kind: "invalid", Query: "{ nope }"}}})
	// large batches: a fixed internal limit (worker pool, semaphore, buffer) only shows past its threshold
	bigs := []int{17, 65, 130}
	if ctx.Thorough() {
		bigs = append(bigs, 33, 257, 1025)
	}
	for i, n := range bigs {
		r := ctx.Rand.Fork()
		if cs, ok := c08GenN(r, r.U64()%100000, n); ok {
			ctx.Rep.Count(fmt.Sprintf("large batch n=%d", n))
			c08Check(ctx, 1000000+i, cs)
		}
	}
	for k := 0; k < cases && !c08Hung; k++ {
		r := ctx.Rand.Fork()
		cs, ok := c08Gen(r, r.U64()%100000)
		if !ok {
			ctx.Rep.Count("federation rejected")
			continue
		}
		c08Check(ctx, k+2, cs)
	}
	return nil
}
