package main

// C09 — downstream failures are contained and reported, never masked.
//
// Fault ENUMERATION as search: for generated federations and operations (safe profile) the
// operation is first run fault-free through the real gateway (in a child process, see
// c09_worker.go) to learn the downstream HTTP calls; then it is re-run once per
// (fault kind × call × batch position), plus short random fault sequences, on a fresh gateway.
// Oracle, written from the property statement (independent of the Lean model): the handler
// returns (no crash of the process, no recovered panic, no hang); the response is well-formed;
// a failure signal on the wire ⇒ `errors` non-empty; no scalar leaf in `data` that no service
// sent; a following fault-free request gets the fault-free answer; the other operation of a
// client batch is unaffected. Model comparison: every faulted exchange is decoded by the Lean
// model of fetch/queryBatch/executeRequests/parseRespones (driver op c09.decode) and the
// predicted outcome (panic / error class / accepted) is compared with what the gateway did;
// MultiOpQueryer.Query and executor.FindInsertionPoints are additionally compared with the
// model directly (unit level) and mergeMaps/mergeSlices through ParallelExecutor.Execute.

import (
	"bytes"
	"encoding/json"
	"fmt"
	"io"
	"regexp"
	"sort"
	"strings"

	"github.com/buildbuildio/pebbles/planner"
	"github.com/buildbuildio/pebbles/requests"
	"github.com/vektah/gqlparser/v2"
	"github.com/vektah/gqlparser/v2/ast"

	"verif/harness/fed"
	"verif/harness/hx"
)

func init() {
	register("C09", runC09)
	registerReplay("C09", func(ctx *Ctx, raw json.RawMessage) error {
		var cs c09Case
		if err := json.Unmarshal(raw, &cs); err != nil {
			return err
		}
		if cs.Unit != nil {
			c09UnitCheck(ctx, 0, *cs.Unit)
			return nil
		}
		pl := &fwPool{}
		defer pl.stop()
		c09Check(ctx, pl, 0, cs, nil)
		return nil
	})
}

// c09Case is the replayable description of one fault placement.
type c09Case struct {
	fwCase
	Note    string    `json:"note,omitempty"`
	Other   *fwCase   `json:"other,omitempty"` // batch isolation: the second operation of the client batch
	Unit    *c09Unit  `json:"unit,omitempty"`  // unit-level case (no gateway)
	Depths  []int     `json:"-"`
	baseRes *fwResult // cache
}

type c09Base struct {
	Body      string
	Exchanges []*fed.WireExchange
}

func fwIsChildQuery(q string) bool { return strings.Contains(q, "node(id: $id)") }

// ---- the property oracle ----------------------------------------------------------------------

// c09Signal reads the statement's list of failure signals off one wire answer. "" = no signal.
func c09Signal(ex *fed.WireExchange) string {
	if ex.TransportErr != "" {
		return "transport"
	}
	if ex.Status < 200 || ex.Status > 299 {
		return "status"
	}
	var v interface{}
	dec := json.NewDecoder(strings.NewReader(ex.Body))
	dec.UseNumber()
	if err := dec.Decode(&v); err != nil {
		return "notjson"
	}
	if _, err := dec.Token(); err != io.EOF {
		return "notjson" // fwTrailing garbage
	}
	arr, ok := v.([]interface{})
	if !ok {
		return "notarray"
	}
	if len(arr) != ex.N {
		return "length"
	}
	for i, el := range arr {
		m, ok := el.(map[string]interface{})
		if !ok {
			return "nodata"
		}
		if es, ok := c09LookupFold(m, "errors").([]interface{}); ok && len(es) > 0 {
			return "errors"
		}
		d, present := c09LookupFoldOK(m, "data")
		if !present || d == nil {
			return "nodata"
		}
		if i < len(ex.Queries) && fwIsChildQuery(ex.Queries[i]) {
			if dm, ok := d.(map[string]interface{}); ok {
				nv, has := dm["node"]
				if !has {
					return "node"
				}
				if _, isObj := nv.(map[string]interface{}); !isObj && nv != nil {
					return "node"
				}
			}
		}
	}
	return ""
}

func c09LookupFoldOK(m map[string]interface{}, k string) (interface{}, bool) {
	if v, ok := m[k]; ok {
		return v, true
	}
	for kk, v := range m {
		if strings.EqualFold(kk, k) {
			return v, true
		}
	}
	return nil, false
}

func c09LookupFold(m map[string]interface{}, k string) interface{} {
	v, _ := c09LookupFoldOK(m, k)
	return v
}

// scalar leaves of a JSON value, as canonical text
func fwLeavesOf(v interface{}, out map[string]bool) {
	switch x := v.(type) {
	case map[string]interface{}:
		for _, e := range x {
			fwLeavesOf(e, out)
		}
	case []interface{}:
		for _, e := range x {
			fwLeavesOf(e, out)
		}
	case nil:
	default:
		b, _ := json.Marshal(x)
		out[string(b)] = true
	}
}

func fwDecodeNum(s string) (interface{}, error) {
	var v interface{}
	dec := json.NewDecoder(strings.NewReader(s))
	dec.UseNumber()
	err := dec.Decode(&v)
	return v, err
}

type fwClientResp struct {
	OK      bool // well-formed by the oracle's definition
	Why     string
	Data    interface{}
	HasData bool
	Errors  []interface{}
}

// fwWellFormed: JSON object with a `data` member (object or null); `errors`, when present, a non-empty array.
func fwWellFormed(status int, body string) fwClientResp {
	var r fwClientResp
	if status != 200 {
		r.Why = fmt.Sprintf("status %d", status)
		return r
	}
	v, err := fwDecodeNum(body)
	if err != nil {
		r.Why = "body is not JSON: " + err.Error()
		return r
	}
	m, ok := v.(map[string]interface{})
	if !ok {
		r.Why = "body is not a JSON object"
		return r
	}
	d, has := m["data"]
	if !has {
		r.Why = "no data member"
		return r
	}
	if _, isObj := d.(map[string]interface{}); !isObj && d != nil {
		r.Why = "data is neither an object nor null"
		return r
	}
	r.Data, r.HasData = d, true
	if e, has := m["errors"]; has {
		es, ok := e.([]interface{})
		if !ok || len(es) == 0 {
			r.Why = "errors present but not a non-empty array"
			return r
		}
		r.Errors = es
	}
	r.OK = true
	return r
}

func fwErrMessages(es []interface{}) []string {
	var out []string
	for _, e := range es {
		if m, ok := e.(map[string]interface{}); ok {
			if s, ok := m["message"].(string); ok {
				out = append(out, s)
				continue
			}
		}
		out = append(out, hx.Canon(e))
	}
	return out
}

// ---- model comparison -------------------------------------------------------------------------

// message classes of the decode path, as the gateway words them
var c09MsgClass = []struct {
	class string
	re    *regexp.Regexp
}{
	{"transport", regexp.MustCompile(`injected transport error`)},
	{"status", regexp.MustCompile(`^response was not successful with status code: \d+$`)},
	{"notjson", regexp.MustCompile(`^(invalid character|unexpected end of JSON input)`)},
	{"type", regexp.MustCompile(`^json: cannot unmarshal`)},
	{"count", regexp.MustCompile(`^expected \d+ responses from .*, got \d+$`)},
	{"count-executor", regexp.MustCompile(`^not all requests were fetched$`)},
	{"nodata", regexp.MustCompile(`carries neither data nor errors$`)},
	{"node-missing", regexp.MustCompile(`^missing node key when expected$`)},
	{"node-not-map", regexp.MustCompile(`^node is not a map$`)},
	{"mapping", regexp.MustCompile(`^missing mapping for indexes$`)},
}

func c09ClassOf(msg string) string {
	for _, c := range c09MsgClass {
		if c.re.MatchString(msg) {
			return c.class
		}
	}
	return ""
}

// c09ModelDecode asks the Lean model what fetch/queryBatch/executeRequests/parseRespones do with one wire answer.
func c09ModelDecode(ctx *Ctx, ex *fed.WireExchange) (map[string]interface{}, error) {
	req := map[string]interface{}{"op": "c09.decode", "n": ex.N, "transport": ex.TransportErr != "", "status": ex.Status, "url": fed.URL(ex.Service)}
	child := make([]bool, ex.N)
	for i := range child {
		child[i] = i < len(ex.Queries) && fwIsChildQuery(ex.Queries[i])
	}
	req["child"] = child
	if ex.TransportErr == "" {
		if v, err := fwDecodeNum(ex.Body); err == nil && !fwTrailing(ex.Body) {
			req["body"] = v
			req["json"] = true
		} else {
			req["json"] = false
		}
	}
	return ctx.Driver.Call(req)
}

func fwTrailing(s string) bool {
	dec := json.NewDecoder(strings.NewReader(s))
	var v interface{}
	if dec.Decode(&v) != nil {
		return false
	}
	_, err := dec.Token()
	return err != io.EOF
}

// ---- one gateway-level case -------------------------------------------------------------------

func fwPosClass(p, n int) string {
	switch {
	case n <= 1:
		return "only"
	case p == 0:
		return "first"
	case p == n-1:
		return "last"
	}
	return "middle"
}

func (cs *c09Case) key() string {
	b, _ := json.Marshal(cs.Faults)
	return fmt.Sprintf("%d/%v/%s/%d/%s/%s|%s", cs.FedSeed, cs.Abstract, cs.Custom, cs.MaxBatch, cs.Query, cs.RawBody, b)
}

// c09Check runs one fault placement and evaluates both comparisons. base = the fault-free run (computed if nil).
func c09Check(ctx *Ctx, pl *fwPool, idx int, cs c09Case, base *c09Base) {
	fail := func(kind, class, detail string, impl, model interface{}) {
		fwFail(ctx, hx.Failure{Kind: kind, Class: class, Detail: detail, Case: cs, Impl: impl, Model: model, Index: idx})
	}
	if base == nil {
		b := cs.fwCase
		b.Faults, b.FollowUp = nil, false
		out, err := pl.Run(b)
		if err != nil || out.Crash != "" || out.Timeout || out.Res.Err != "" {
			fail("harness-error", "", fmt.Sprintf("baseline run failed: %v %s %s", err, out.Crash, out.Res.Err), nil, nil)
			return
		}
		base = &c09Base{Body: out.Res.Body, Exchanges: out.Res.Exchanges}
	}
	run := cs.fwCase
	run.FollowUp = true
	out, err := pl.Run(run)
	if err != nil {
		fail("harness-error", "", err.Error(), nil, nil)
		return
	}
	nontrivial := false
	defer func() { ctx.Rep.Case(cs.key(), nontrivial) }()
	if out.Res.Err != "" {
		fail("harness-error", "", out.Res.Err, nil, nil)
		return
	}
	// which faults fired, and what the model says about each faulted exchange
	var applied []*fed.WireExchange
	if out.Crash == "" && !out.Timeout {
		for _, ex := range out.Res.Exchanges {
			if len(ex.Applied) > 0 {
				applied = append(applied, ex)
			}
		}
	}
	// ---------------- impl vs property oracle ----------------
	if out.Crash != "" {
		nontrivial = true
		fail("property-fails", c09KnownClass(cs, "crash", out.Crash), "CRASH of the gateway process "+c09CrashShort(out.Crash), out.Crash, nil)
		c09ModelOnCrash(ctx, pl, idx, cs, base, out.Crash)
		return
	}
	if out.Timeout || out.Res.Hang {
		nontrivial = true
		fail("property-fails", "", "the handler did not return under this fault plan (hang)", nil, nil)
		return
	}
	res := out.Res
	if res.Panic != "" {
		nontrivial = true
		fail("property-fails", c09KnownClass(cs, "panic", res.Panic), "the handler panicked: "+res.Panic, res.Panic, nil)
		return
	}
	nontrivial = len(applied) > 0
	cr := fwWellFormed(res.Status, res.Body)
	if !cr.OK {
		fail("property-fails", "", "response not well-formed: "+cr.Why, res.Body, nil)
		return
	}
	signals := []string{}
	for _, ex := range applied {
		if s := c09Signal(ex); s != "" {
			signals = append(signals, s)
		}
	}
	if len(signals) > 0 && len(cr.Errors) == 0 {
		fail("property-fails", "", fmt.Sprintf("failure signal %v on the wire but the client's errors is empty (failure masked)", signals),
			map[string]interface{}{"response": res.Body, "exchanges": applied}, nil)
	}
	if len(signals) > 0 {
		ctx.Rep.Count("oracle: signal => errors checked")
	} else if len(applied) > 0 {
		ctx.Rep.Count("oracle: shape contradiction / benign fault (no signal)")
	}
	// no invention
	sent := map[string]bool{}
	for _, ex := range res.Exchanges {
		if v, err := fwDecodeNum(ex.Body); err == nil {
			fwLeavesOf(v, sent)
		}
	}
	got := map[string]bool{}
	fwLeavesOf(cr.Data, got)
	var invented []string
	for l := range got {
		if !sent[l] {
			invented = append(invented, l)
		}
	}
	sort.Strings(invented)
	if len(invented) > 0 {
		fail("property-fails", "", fmt.Sprintf("data contains values no service sent: %v", invented), res.Body, nil)
	}
	// the other operation of the batch is unaffected
	if cs.Other != nil {
		c09CheckIsolation(ctx, pl, idx, cs, res, fail)
	}
	// later requests unaffected
	if res.FollowPanic != "" || res.FollowHang {
		fail("property-fails", "", "the following fault-free request panicked or hung: "+res.FollowPanic, nil, nil)
	} else if hx.Canon(fwJSONOf(res.FollowBody)) != hx.Canon(fwJSONOf(base.Body)) {
		fail("property-fails", "", "a following fault-free request no longer gets the fault-free answer",
			map[string]interface{}{"follow_up": res.FollowBody, "fault_free": base.Body}, nil)
	}
	// ---------------- impl vs model ----------------
	if ctx.Driver == nil {
		return
	}
	msgs := fwErrMessages(cr.Errors)
	implClasses := map[string]bool{}
	for _, m := range msgs {
		if c := c09ClassOf(m); c != "" {
			implClasses[c] = true
		}
	}
	modelClasses := map[string]bool{}
	var modelOut []interface{}
	for _, ex := range applied {
		m, err := c09ModelDecode(ctx, ex)
		if err != nil {
			fail("harness-error", "", err.Error(), nil, nil)
			return
		}
		ctx.Rep.Traces++
		modelOut = append(modelOut, m)
		oc, _ := m["outcome"].(string)
		ctx.Rep.Count("model outcome: " + oc + "/" + fmt.Sprint(m["class"]))
		switch oc {
		case "panic":
			fail("model-mismatch", "", "the model says this answer makes queryBatch panic, the gateway answered normally", res.Body, m)
			return
		case "error":
			cl, _ := m["class"].(string)
			if cl == "node" {
				// parseRespones reports every failing unwrap (as *Error with the insertion point as path):
				// the messages must coincide
				var want, got []string
				for _, mm := range fwErrMessages(c09AsList(m["errors"])) {
					want = append(want, mm)
					modelClasses[c09ClassOf(mm)] = true
				}
				for _, mm := range msgs {
					if c := c09ClassOf(mm); c == "node-missing" || c == "node-not-map" {
						got = append(got, mm)
					}
				}
				// as SETS: one downstream response fans out to every execution request that was de-duplicated
				// into it (IndexMap, C12's subject), so the same message can come back several times
				want, got = c09Uniq(want), c09Uniq(got)
				if len(applied) == 1 && hx.Canon(want) != hx.Canon(got) {
					fail("model-mismatch", "", fmt.Sprintf("node unwrapping: model reports %v, the gateway %v", want, got), res.Body, m)
					return
				}
			} else if cl == "errors" {
				// downstream errors: every error the model forwards must be in the client's list
				want, _ := m["errors"].([]interface{})
				for _, w := range want {
					found := false
					for _, g := range cr.Errors {
						if hx.Canon(g) == hx.Canon(w) {
							found = true
						}
					}
					if !found {
						fail("model-mismatch", "", "an error the model forwards to the client is not in the client's errors: "+hx.Canon(w), res.Body, m)
						return
					}
				}
				for _, mm := range fwErrMessages(want) {
					if c := c09ClassOf(mm); c != "" {
						modelClasses[c] = true
					}
				}
			} else {
				modelClasses[cl] = true
			}
		}
	}
	if len(cs.Faults) == 1 || len(applied) <= 1 {
		// with one faulted exchange the decode-path message classes must coincide exactly
		for c := range modelClasses {
			if !implClasses[c] {
				fail("model-mismatch", "", fmt.Sprintf("model predicts a %q error, the gateway's errors are %v", c, msgs), res.Body, modelOut)
				return
			}
		}
		for c := range implClasses {
			if !modelClasses[c] {
				fail("model-mismatch", "", fmt.Sprintf("the gateway reports a %q error the model does not predict (errors %v)", c, msgs), res.Body, modelOut)
				return
			}
		}
	}
}

// c09CrashShort names the pebbles function that panicked first (what distinguishes one defect from another)
func c09CrashShort(c string) string {
	parts := strings.Split(c, " | ")
	msg := strings.TrimPrefix(parts[0], "panic: ")
	where := ""
	if len(parts) > 1 {
		where = parts[1]
		if i := strings.Index(where, "("); i > 0 && !strings.HasPrefix(where[i:], "(*") {
			where = where[:i]
		} else if j := strings.LastIndex(where, "("); j > 0 {
			where = where[:j]
		}
		where = strings.TrimPrefix(where, "github.com/buildbuildio/pebbles/")
	}
	return "in " + where + ": " + msg + " [" + strings.Join(parts[1:], " | ") + "]"
}

func c09Uniq(xs []string) []string {
	sort.Strings(xs)
	var out []string
	for i, x := range xs {
		if i == 0 || x != xs[i-1] {
			out = append(out, x)
		}
	}
	return out
}

func c09AsList(v interface{}) []interface{} {
	l, _ := v.([]interface{})
	return l
}

func fwJSONOf(s string) interface{} {
	v, err := fwDecodeNum(s)
	if err != nil {
		return "!unparsable:" + s
	}
	return v
}

// c09KnownClass: narrow classes of documented open findings (input class ∧ failure mode); "" otherwise.
func c09KnownClass(cs c09Case, mode, msg string) string {
	return ""
}

// after a crash the model must predict a panic for the exchange the fault plan rewrites
func c09ModelOnCrash(ctx *Ctx, pl *fwPool, idx int, cs c09Case, base *c09Base, crash string) {
	if ctx.Driver == nil || len(cs.Faults) != 1 {
		return
	}
	f := cs.Faults[0]
	// reconstruct the faulted wire answer from the fault-free exchange
	for _, ex := range base.Exchanges {
		if ex.Service != f.Service || ex.HTTPCall != f.HTTPCall || f.MatchQuery != "" {
			continue
		}
		if f.Kind != "long" {
			return
		}
		var arr []interface{}
		if json.Unmarshal([]byte(ex.Body), &arr) != nil {
			return
		}
		arr = append(arr, map[string]interface{}{"data": map[string]interface{}{}})
		b, _ := json.Marshal(arr)
		ex2 := *ex
		ex2.Body = string(b)
		m, err := c09ModelDecode(ctx, &ex2)
		if err != nil {
			return
		}
		ctx.Rep.Traces++
		if oc, _ := m["outcome"].(string); oc != "panic" {
			fwFail(ctx, hx.Failure{Kind: "model-mismatch", Detail: "the gateway crashed (" + crash + ") where the model predicts " + oc, Case: cs, Model: m, Index: idx})
		} else {
			ctx.Rep.Count("model outcome: panic (agrees with the crash)")
		}
	}
}

func c09CheckIsolation(ctx *Ctx, pl *fwPool, idx int, cs c09Case, res fwResult, fail func(kind, class, detail string, impl, model interface{})) {
	ob := *cs.Other
	ob.Faults, ob.FollowUp = nil, false
	o, err := pl.Run(ob)
	if err != nil || o.Crash != "" || o.Timeout {
		return
	}
	var arr []interface{}
	dec := json.NewDecoder(strings.NewReader(res.Body))
	dec.UseNumber()
	if dec.Decode(&arr) != nil || len(arr) != 2 {
		fail("property-fails", "", "batch response is not an array of two results", res.Body, nil)
		return
	}
	if hx.Canon(arr[1]) != hx.Canon(fwJSONOf(o.Res.Body)) {
		fail("property-fails", "", "the other operation of the client batch was affected by the fault",
			map[string]interface{}{"in_batch": arr[1], "alone": o.Res.Body}, nil)
	}
	ctx.Rep.Count("oracle: batch isolation checked")
}

// ---- enumeration -------------------------------------------------------------------------------

var c09Bodies = []struct{ name, body string }{
	{"html", "<html>oops"}, {"empty-body", ""}, {"object", `{"data":{}}`}, {"null", "null"}, {"number", "5"}, {"string", `"x"`},
	{"empty-array", "[]"}, {"truncated", `[{"data":`}, {"array-of-number", "[1]"}, {"array-of-null", "[null]"},
}

func c09ErrorPayloads(r *hx.Rand) [][]interface{} {
	return [][]interface{}{
		{map[string]interface{}{"message": "boom"}},
		{map[string]interface{}{"message": "ünï \"q\" \\ 日本", "path": []interface{}{"a", 1, "b"}, "extensions": map[string]interface{}{"code": "X", "n": map[string]interface{}{"k": []interface{}{1, "two", nil}}},
			"locations": []interface{}{map[string]interface{}{"line": 2, "column": 7}}}},
		{map[string]interface{}{"message": "e1"}, map[string]interface{}{"message": "e2", "path": []interface{}{"x"}}},
		{nil},
	}
}

type c09Op struct {
	cs     fwCase
	depths map[string]int // sub-request query text → plan depth
	base   *c09Base
}

// c09Depths plans the operation with the real planner to label sub-requests with their depth.
func c09Depths(f *fed.Fed, op *fed.Op) map[string]int {
	out := map[string]int{}
	mr, err := f.Merged()
	if err != nil {
		return out
	}
	doc, gerr := gqlparser.LoadQuery(mr.Schema, op.Query)
	if gerr != nil {
		return out
	}
	var opd *ast.OperationDefinition
	if op.OpName != nil {
		opd = doc.Operations.ForName(*op.OpName)
	} else if len(doc.Operations) == 1 {
		opd = doc.Operations[0]
	}
	if opd == nil {
		return out
	}
	var p planner.SequentialPlanner
	plan, err := p.Plan(&planner.PlanningContext{Request: &requests.Request{Query: op.Query, Variables: op.Variables, OperationName: op.OpName},
		Operation: opd, Schema: mr.Schema, TypeURLMap: mr.TypeURLMap})
	if err != nil || plan == nil {
		return out
	}
	var walk func(ss []*planner.QueryPlanStep, d int)
	walk = func(ss []*planner.QueryPlanStep, d int) {
		for _, s := range ss {
			if _, ok := out[s.QueryString]; !ok {
				out[s.QueryString] = d
			}
			walk(s.Then, d+1)
		}
	}
	walk(plan.RootSteps, 0)
	return out
}

func c09Count(ctx *Ctx, o *c09Op, f fed.WireFault, ex *fed.WireExchange) {
	d := -1
	if f.Position < len(ex.Queries) {
		if dd, ok := o.depths[ex.Queries[f.Position]]; ok {
			d = dd
		}
	}
	kind := f.Kind
	if f.Mut != nil {
		kind = "mut:" + f.Mut.How
	}
	ctx.Rep.Count(fmt.Sprintf("fault %s | depth %d | position %s", kind, d, fwPosClass(f.Position, ex.N)))
}

// c09Placements lists every single-fault placement for one exchange.
func c09Placements(ctx *Ctx, r *hx.Rand, ex *fed.WireExchange) []fed.WireFault {
	at := func(p int, kind string) fed.WireFault {
		return fed.WireFault{Service: ex.Service, HTTPCall: ex.HTTPCall, Position: p, Kind: kind}
	}
	var out []fed.WireFault
	out = append(out, at(0, "transport"), at(0, "short"), at(0, "long"), at(0, "empty"))
	for _, st := range []int{500, 404, 302, 199, 204} {
		f := at(0, "status")
		f.Status = st
		out = append(out, f)
	}
	for _, b := range c09Bodies {
		f := at(0, "body")
		f.Body = b.body
		out = append(out, f)
	}
	// a body of the right length whose elements are all empty objects / empty data
	for _, el := range []string{`{}`, `{"data":{}}`, `{"data":{"node":null}}`} {
		f := at(0, "body")
		f.Body = "[" + strings.TrimSuffix(strings.Repeat(el+",", ex.N), ",") + "]"
		out = append(out, f)
	}
	positions := []int{}
	for p := 0; p < ex.N; p++ {
		if ex.N <= 4 || p == 0 || p == ex.N-1 || p == ex.N/2 || ctx.Thorough() {
			positions = append(positions, p)
		}
	}
	for _, p := range positions {
		if ex.N >= 2 {
			out = append(out, at(p, "dropat"))
		}
		for _, pay := range c09ErrorPayloads(r) {
			f := at(p, "errors")
			f.Errors = pay
			out = append(out, f)
		}
		f := at(p, "errors+data")
		f.Errors = c09ErrorPayloads(r)[1]
		out = append(out, f)
		out = append(out, at(p, "nodata"), at(p, "nulldata"), at(p, "noerrors-nodata"))
		for _, el := range []interface{}{nil, 5, "x", []interface{}{}, true} {
			f := at(p, "elem")
			f.Elem = el
			out = append(out, f)
		}
		for _, el := range []interface{}{5, []interface{}{}, "x", map[string]interface{}{}} {
			f := at(p, "data")
			f.Elem = el
			out = append(out, f)
		}
		if p < len(ex.Queries) && fwIsChildQuery(ex.Queries[p]) {
			for _, nv := range []interface{}{5, "x", []interface{}{}, nil, map[string]interface{}{}, true} {
				f := at(p, "data")
				f.Elem = map[string]interface{}{"node": nv}
				out = append(out, f)
			}
		}
		hows := fed.ShapeHows()
		nm := 6
		if ctx.Thorough() {
			nm = 3 * len(hows)
		}
		for k := 0; k < nm; k++ {
			f := at(p, "mut")
			how := hows[r.Intn(len(hows))]
			if ctx.Thorough() {
				how = hows[k%len(hows)]
			}
			f.Mut = &fed.ShapeMut{Pick: r.Intn(64), How: how}
			out = append(out, f)
		}
	}
	return out
}

func c09Baseline(ctx *Ctx, pl *fwPool, cs fwCase) (*c09Base, string) {
	b := cs
	b.Faults, b.FollowUp = nil, false
	out, err := pl.Run(b)
	if err != nil {
		return nil, err.Error()
	}
	if out.Crash != "" || out.Timeout || out.Res.Err != "" || out.Res.Panic != "" {
		return nil, "baseline: " + out.Crash + out.Res.Err + out.Res.Panic
	}
	cr := fwWellFormed(out.Res.Status, out.Res.Body)
	if !cr.OK || len(cr.Errors) > 0 {
		return nil, "baseline has errors"
	}
	return &c09Base{Body: out.Res.Body, Exchanges: out.Res.Exchanges}, ""
}

func runC09(ctx *Ctx) error {
	ctx.Rep.Rule = "case = (generated federation, generated safe-profile operation, downstream batch size, fault plan) run through the real gateway " +
		"over in-process fake services in a child process; fault plan = one of every (fault kind × downstream HTTP call × batch position) learnt from " +
		"the fault-free run, or a random sequence of 2-3 faults; plus unit-level cases (MultiOpQueryer.Query on canned answers, FindInsertionPoints and " +
		"mergeMaps on generated values). distinct = distinct (federation, operation, batch size, plan); non-trivial = at least one fault actually fired " +
		"(unit level: always)"
	pl := &fwPool{}
	defer pl.stop()
	idx := 0
	// ---- corpus: pinned witnesses first
	for _, cs := range c09Corpus() {
		c09Check(ctx, pl, idx, cs, nil)
		idx++
	}
	// ---- later requests over real connections
	for _, cc := range c09ConnCases() {
		c09ConnReuse(ctx, idx, cc)
		idx++
	}
	// ---- unit level
	if err := c09UnitRun(ctx, &idx); err != nil {
		return err
	}
	for n := 1; n <= 4; n++ {
		for k := 0; k <= n+2; k++ {
			c09CountCheck(ctx, pl, idx, n, k)
			idx++
		}
	}
	// ---- enumeration over generated federations / operations
	nOps := 36
	if ctx.Thorough() {
		nOps = 150
	}
	ops, tries := 0, 0
	for ops < nOps && tries < nOps*30 {
		tries++
		seed := ctx.Rand.U64()
		abstract := tries%4 == 0
		proto := fwCase{FedSeed: seed, Abstract: abstract}
		f, r, err := fwBuild(proto)
		if err != nil {
			continue
		}
		mr, err := f.Merged()
		if err != nil {
			continue
		}
		op := fed.GenOp(r, mr.Schema, f.Data, "query", fed.SafeOps())
		if op == nil {
			continue
		}
		proto.Query, proto.Variables, proto.OpName = op.Query, op.Variables, op.OpName
		base, why := c09Baseline(ctx, pl, proto)
		if base == nil {
			ctx.Rep.Count("skipped: " + why)
			continue
		}
		hasChild, maxN := false, 0
		for _, ex := range base.Exchanges {
			for _, q := range ex.Queries {
				if fwIsChildQuery(q) {
					hasChild = true
				}
			}
			if ex.N > maxN {
				maxN = ex.N
			}
		}
		if !hasChild && ops%3 != 0 {
			continue // prefer operations with child steps
		}
		ops++
		o := &c09Op{cs: proto, depths: c09Depths(f, op), base: base}
		if ops <= 3 {
			ctx.Rep.Sample(map[string]interface{}{"query": op.Query, "variables": op.Variables, "fed_seed": seed, "downstream_calls": len(base.Exchanges),
				"example_fault": fed.WireFault{Service: base.Exchanges[0].Service, HTTPCall: base.Exchanges[0].HTTPCall, Kind: "long"}})
		}
		variants := []int{0}
		if maxN >= 2 {
			variants = append(variants, 1)
			if maxN >= 3 {
				variants = append(variants, 2)
			}
		}
		for _, mb := range variants {
			v := *o
			v.cs.MaxBatch = mb
			if mb != 0 {
				b2, why := c09Baseline(ctx, pl, v.cs)
				if b2 == nil {
					ctx.Rep.Count("skipped: " + why)
					continue
				}
				if hx.Canon(fwJSONOf(b2.Body)) != hx.Canon(fwJSONOf(base.Body)) {
					continue // batching transparency is C11's subject
				}
				v.base = b2
			}
			r2 := r.Fork()
			for _, ex := range v.base.Exchanges {
				for _, flt := range c09Placements(ctx, r2, ex) {
					cs := c09Case{fwCase: v.cs}
					cs.Faults = []fed.WireFault{flt}
					c09Count(ctx, &v, flt, ex)
					c09Check(ctx, pl, idx, cs, v.base)
					idx++
				}
			}
			// short random sequences
			nseq := 12
			if ctx.Thorough() {
				nseq = 60
			}
			var all []fed.WireFault
			for _, ex := range v.base.Exchanges {
				all = append(all, c09Placements(ctx, r2, ex)...)
			}
			for k := 0; k < nseq && len(all) > 0; k++ {
				cs := c09Case{fwCase: v.cs, Note: "sequence"}
				for j := 0; j < r2.Range(2, 3); j++ {
					cs.Faults = append(cs.Faults, all[r2.Intn(len(all))])
				}
				ctx.Rep.Count(fmt.Sprintf("fault sequence of %d", len(cs.Faults)))
				c09Check(ctx, pl, idx, cs, v.base)
				idx++
			}
		}
		// batch isolation: [this op under fault, another op]
		op2 := fed.GenOp(r, mr.Schema, f.Data, "query", fed.SafeOps())
		if op2 != nil {
			c09Isolation(ctx, pl, &idx, o, op2, r)
		}
	}
	ctx.Rep.Note(fmt.Sprintf("child worker: %d runs, %d crashes", pl.Runs, pl.Crashes))
	return nil
}

// c09Isolation: client batch [A under fault, B]; the fault is keyed by a sub-request text of A that B never sends.
func c09Isolation(ctx *Ctx, pl *fwPool, idx *int, o *c09Op, op2 *fed.Op, r *hx.Rand) {
	other := o.cs
	other.Query, other.Variables, other.OpName = op2.Query, op2.Variables, op2.OpName
	b2, _ := c09Baseline(ctx, pl, other)
	if b2 == nil {
		return
	}
	sentByB := map[string]bool{}
	for _, ex := range b2.Exchanges {
		for i := range ex.Queries {
			sentByB[fmt.Sprint(ex.Service)+ex.Queries[i]] = true
		}
	}
	body, _ := json.Marshal([]interface{}{
		map[string]interface{}{"query": o.cs.Query, "variables": o.cs.Variables, "operationName": o.cs.OpName},
		map[string]interface{}{"query": op2.Query, "variables": op2.Variables, "operationName": op2.OpName}})
	n := 0
	for _, ex := range o.base.Exchanges {
		for p, q := range ex.Queries {
			if sentByB[fmt.Sprint(ex.Service)+q] || n >= 6 {
				continue
			}
			for _, kind := range []string{"transport", "errors", "nodata", "long", "body"} {
				f := fed.WireFault{Service: ex.Service, HTTPCall: -1, Position: p, MatchQuery: q, Kind: kind, Body: "<html>",
					Errors: []interface{}{map[string]interface{}{"message": "boom"}}}
				cs := c09Case{fwCase: o.cs, Note: "client batch [faulted op, other op]", Other: &other}
				cs.RawBody = string(body)
				cs.Faults = []fed.WireFault{f}
				c09CheckBatch(ctx, pl, *idx, cs)
				*idx++
			}
			n++
		}
	}
}

// c09CheckBatch: the batch variant of the oracle (no crash / hang, well-formed array, the other operation unaffected).
func c09CheckBatch(ctx *Ctx, pl *fwPool, idx int, cs c09Case) {
	fail := func(kind, class, detail string, impl, model interface{}) {
		fwFail(ctx, hx.Failure{Kind: kind, Class: class, Detail: detail, Case: cs, Impl: impl, Model: model, Index: idx})
	}
	out, err := pl.Run(cs.fwCase)
	if err != nil {
		fail("harness-error", "", err.Error(), nil, nil)
		return
	}
	fired := false
	for _, ex := range out.Res.Exchanges {
		if len(ex.Applied) > 0 {
			fired = true
		}
	}
	ctx.Rep.Case(cs.key(), fired || out.Crash != "")
	ctx.Rep.Count("fault in a client batch: " + cs.Faults[0].Kind)
	if out.Crash != "" {
		fail("property-fails", c09KnownClass(cs, "crash", out.Crash), "CRASH of the gateway process "+c09CrashShort(out.Crash), out.Crash, nil)
		return
	}
	if out.Timeout || out.Res.Hang || out.Res.Panic != "" {
		fail("property-fails", "", "the handler hung or panicked: "+out.Res.Panic, nil, nil)
		return
	}
	if out.Res.Status != 200 {
		fail("property-fails", "", fmt.Sprintf("status %d", out.Res.Status), out.Res.Body, nil)
		return
	}
	c09CheckIsolation(ctx, pl, idx, cs, out.Res, fail)
}

var _ = bytes.NewReader
