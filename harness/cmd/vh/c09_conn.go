package main

// C09 — "later requests are unaffected", over REAL connections: a fake service on a local TCP
// listener, a client whose pool holds ONE connection per host. A failure answer whose body the
// gateway does not consume and close pins that connection; the next request then never gets one.

import (
	"fmt"
	"net/http"
	"net/http/httptest"
	"strings"
	"sync/atomic"
	"time"

	"github.com/buildbuildio/pebbles/queryer"
	"github.com/buildbuildio/pebbles/requests"

	"verif/harness/hx"
)

type c09ConnCase struct {
	Status int    `json:"status"`
	Body   string `json:"body"`
	Label  string `json:"label"`
}

func c09ConnCases() []c09ConnCase {
	long := strings.Repeat("x", 70000) // larger than any socket/bufio buffer: cannot be swallowed by accident
	return []c09ConnCase{
		{500, "internal error", "status 500, short body"},
		{500, long, "status 500, long body"},
		{404, `{"message":"not here"}`, "status 404, JSON body"},
		{503, "", "status 503, empty body"},
		{200, "not json at all " + long, "status 200, long non-JSON body"},
		{200, `{"data":{}}`, "status 200, object instead of array"},
		{200, `[]`, "status 200, empty array"},
		{200, `[{"errors":[{"message":"boom"}]}]`, "status 200, errors"},
		{200, `[{"data":{"v":1}},{"data":{"v":2}}]`, "status 200, one answer too many"},
	}
}

// c09ConnReuse: fault answer, then a good answer, over a one-connection pool.
func c09ConnReuse(ctx *Ctx, idx int, cs c09ConnCase) {
	var n int32
	srv := httptest.NewServer(http.HandlerFunc(func(w http.ResponseWriter, r *http.Request) {
		w.Header().Set("Content-Type", "application/json")
		if atomic.AddInt32(&n, 1) == 1 {
			w.WriteHeader(cs.Status)
			w.Write([]byte(cs.Body))
			return
		}
		w.Write([]byte(`[{"data":{"v":42}}]`))
	}))
	defer srv.Close()
	tr := &http.Transport{MaxConnsPerHost: 1}
	defer tr.CloseIdleConnections()
	q := queryer.NewMultiOpQueryer(srv.URL, 10).WithHTTPClient(&http.Client{Transport: tr, Timeout: 4 * time.Second})
	ctx.Rep.Case("conn-reuse/"+cs.Label, true)
	ctx.Rep.Count("real connections, one per host: " + cs.Label)
	type ret struct {
		res []map[string]interface{}
		err error
		pan string
	}
	call := func() ret {
		ch := make(chan ret, 1)
		go func() {
			var r ret
			defer func() {
				if p := recover(); p != nil {
					r.pan = fmt.Sprint(p)
				}
				ch <- r
			}()
			r.res, r.err = q.Query([]*requests.Request{{Query: "{ v }"}})
		}()
		select {
		case r := <-ch:
			return r
		case <-time.After(8 * time.Second):
			return ret{pan: "no return within 8 s"}
		}
	}
	first := call()
	if first.pan != "" {
		ctx.Rep.Fail(hx.Failure{Kind: "property-fails", Detail: "MultiOpQueryer.Query on a failure answer (" + cs.Label + "): " + first.pan, Case: cs, Index: idx})
		return
	}
	second := call()
	ok := second.pan == "" && second.err == nil && len(second.res) == 1 && fmt.Sprint(second.res[0]["v"]) == "42"
	if !ok {
		what := second.pan
		if what == "" && second.err != nil {
			what = second.err.Error()
		}
		ctx.Rep.Fail(hx.Failure{Kind: "property-fails", Detail: "after a failure answer (" + cs.Label + ") the NEXT request to the same service over a one-connection pool did not succeed: " + clip(what, 160) + " — the failure was not contained (its connection is still checked out)", Case: cs, Index: idx})
	}
}
