package main

// Hand-written federation and pinned corpus cases for C09 (run first on every run).

import (
	"verif/harness/fed"
)

func init() {
	fwCustom["twosvc"] = func() (*fed.Fed, error) {
		sdl0 := "interface Node {\n  id: ID!\n}\ntype N0 implements Node {\n  id: ID!\n  a: String\n}\ntype Query {\n  node(id: ID!): Node\n  top: N0\n  tops: [N0]\n}\n"
		sdl1 := "interface Node {\n  id: ID!\n}\ntype N0 implements Node {\n  id: ID!\n  items: [N1]\n  w: W\n}\ntype N1 implements Node {\n  id: ID!\n  v: String\n}\ntype W {\n  n: Int\n}\ntype Query {\n  node(id: ID!): Node\n}\n"
		d := &fed.Data{Entities: map[string]*fed.Object{}, Roots: map[string]map[string]fed.Val{}, Counters: map[string]int{}}
		d.Entities["N1_0"] = &fed.Object{Type: "N1", ID: "N1_0", Fields: map[string]fed.Val{"v": {Kind: "scalar", Scalar: "vee"}}}
		d.Entities["N0_0"] = &fed.Object{Type: "N0", ID: "N0_0", Fields: map[string]fed.Val{
			"a":     {Kind: "scalar", Scalar: "ay"},
			"items": {Kind: "list", List: []fed.Val{{Kind: "ref", Ref: "N1_0"}}},
			"w":     {Kind: "obj", Obj: &fed.Object{Type: "W", Fields: map[string]fed.Val{"n": {Kind: "scalar", Scalar: 4}}}},
		}}
		d.Order = []string{"N0_0", "N1_0"}
		d.Roots["Query"] = map[string]fed.Val{"top": {Kind: "ref", Ref: "N0_0"}, "tops": {Kind: "list", List: []fed.Val{{Kind: "ref", Ref: "N0_0"}}}}
		return fed.FromSDL([]string{sdl0, sdl1}, d)
	}
}

func c09Corpus() []c09Case {
	q := "{ top { a w { n } items { v } } }"
	uncomparable := map[string]interface{}{"items": []interface{}{map[string]interface{}{"id": map[string]interface{}{"z": 1}}}}
	at := func(svc, call int, kind string) fed.WireFault {
		return fed.WireFault{Service: svc, HTTPCall: call, Position: 0, Kind: kind}
	}
	data := func(svc, call int, d interface{}) fed.WireFault {
		f := at(svc, call, "data")
		f.Elem = d
		return f
	}
	mk := func(note string, fs ...fed.WireFault) c09Case {
		return c09Case{fwCase: fwCase{Custom: "twosvc", Query: q, Faults: fs}, Note: note}
	}
	return []c09Case{
		mk("answer array longer than the request list, root step", at(0, 0, "long")),
		mk("list answered for an object a child step hangs under", data(0, 0, map[string]interface{}{"top": []interface{}{}})),
		mk("two steps deliver a list of maps whose ids are maps under the same nested key",
			data(0, 0, map[string]interface{}{"top": map[string]interface{}{"id": "N0_0", "a": "x", "w": uncomparable}}),
			data(1, 0, map[string]interface{}{"node": map[string]interface{}{"w": uncomparable}})),
		mk("answer array shorter than the request list, root step", at(0, 0, "short")),
		mk("missing data, root step", at(0, 0, "nodata")),
		mk("data null, root step", at(0, 0, "nulldata")),
		mk("body null", fed.WireFault{Service: 0, HTTPCall: 0, Kind: "body", Body: "null"}),
		mk("answer array longer than the request list, child step", at(1, 0, "long")),
		mk("missing node", data(1, 0, map[string]interface{}{})),
	}
}
