package main

// C09, unit level: the pieces of the decode / stitch path that can be driven directly through
// pebbles' public API are compared with the Lean model on generated inputs:
//   query — MultiOpQueryer.Query (direct path) on canned HTTP answers        ↔ c09.query
//   fip   — executor.FindInsertionPoints on generated selections / answers   ↔ c09.fip
//   merge — DepthExecutorManager.merge + mergeMaps/mergeSlices, reached through
//           ParallelExecutor.Execute over mock queryers and a hand-built plan ↔ c09.merge
//   count — executeRequests' response-count check with a mock Queryer that returns k results for n
//           requests (run in the child process: without the check it is a nil dereference in a goroutine) ↔ c09.count

import (
	"encoding/json"
	"fmt"
	"io"
	"net/http"
	"regexp"
	"strings"

	"github.com/buildbuildio/pebbles/executor"
	"github.com/buildbuildio/pebbles/gqlerrors"
	"github.com/buildbuildio/pebbles/planner"
	"github.com/buildbuildio/pebbles/queryer"
	"github.com/buildbuildio/pebbles/requests"
	"github.com/vektah/gqlparser/v2"
	"github.com/vektah/gqlparser/v2/ast"

	"verif/harness/fed"
	"verif/harness/hx"
)

type c09Unit struct {
	Kind string `json:"kind"` // query | fip | merge | count
	// query
	N         int    `json:"n,omitempty"`
	Status    int    `json:"status,omitempty"`
	Body      string `json:"body,omitempty"`
	Transport bool   `json:"transport,omitempty"`
	// fip
	Query  string                 `json:"query,omitempty"`
	Target []string               `json:"target,omitempty"`
	Start  []string               `json:"start,omitempty"`
	Result map[string]interface{} `json:"result,omitempty"`
	// merge
	Left  map[string]interface{} `json:"left,omitempty"`
	Right map[string]interface{} `json:"right,omitempty"`
	// count
	K int `json:"k,omitempty"`
}

// ---- query ------------------------------------------------------------------------------------

type c09CannedRT struct {
	status    int
	body      string
	transport bool
}

func (c c09CannedRT) RoundTrip(r *http.Request) (*http.Response, error) {
	io.Copy(io.Discard, r.Body)
	if c.transport {
		return nil, fmt.Errorf("injected transport error")
	}
	return &http.Response{StatusCode: c.status, Body: io.NopCloser(strings.NewReader(c.body)), Header: http.Header{}}, nil
}

type fwUnitObs struct {
	Outcome string      `json:"outcome"` // ok | error | panic
	Class   string      `json:"class,omitempty"`
	Err     string      `json:"err,omitempty"`
	Value   interface{} `json:"value,omitempty"`
}

func c09RunQuery(u c09Unit) (o fwUnitObs) {
	defer func() {
		if p := recover(); p != nil {
			o = fwUnitObs{Outcome: "panic", Err: fmt.Sprint(p)}
		}
	}()
	q := queryer.NewMultiOpQueryer("http://svc/", 3000).WithHTTPClient(&http.Client{Transport: c09CannedRT{u.Status, u.Body, u.Transport}})
	inputs := make([]*requests.Request, u.N)
	for i := range inputs {
		inputs[i] = &requests.Request{Query: fmt.Sprintf("{ q%d }", i)}
	}
	res, err := q.Query(inputs)
	if err != nil {
		if el, ok := err.(gqlerrors.ErrorList); ok {
			// (ErrorList.Error() dereferences every element: not called here, an element may be a nil pointer)
			b, _ := json.Marshal(el)
			return fwUnitObs{Outcome: "error", Class: "errors", Value: fwJSONOf(string(b))}
		}
		return fwUnitObs{Outcome: "error", Err: err.Error(), Class: c09ClassOf(err.Error())}
	}
	vals := make([]interface{}, len(res))
	for i, m := range res {
		if m != nil {
			vals[i] = m
		}
	}
	return fwUnitObs{Outcome: "ok", Value: vals}
}

func c09GenJSONValue(r *hx.Rand, depth int) interface{} {
	switch r.Intn(8) {
	case 0:
		return nil
	case 1:
		return r.Intn(100)
	case 2:
		return fmt.Sprintf("s%d", r.Intn(10))
	case 3:
		return r.Bool()
	case 4, 5:
		if depth > 2 {
			return "deep"
		}
		m := map[string]interface{}{}
		for k := 0; k < r.Intn(3); k++ {
			m[hx.Pick(r, []string{"a", "b", "node", "id", "data"})] = c09GenJSONValue(r, depth+1)
		}
		return m
	default:
		if depth > 2 {
			return 1
		}
		l := []interface{}{}
		for k := 0; k < r.Intn(3); k++ {
			l = append(l, c09GenJSONValue(r, depth+1))
		}
		return l
	}
}

func c09GenErrorObj(r *hx.Rand) interface{} {
	if r.Chance(1, 12) {
		return hx.Pick(r, []interface{}{nil, 5, "str", []interface{}{}})
	}
	e := map[string]interface{}{}
	// one key per field (two keys equal up to case are outside the model), sometimes in another case
	upper := map[string]bool{}
	for _, k := range []string{"message", "extensions", "path", "locations"} {
		upper[k] = r.Chance(1, 10)
	}
	key := func(k string) string {
		if upper[k] {
			return strings.ToUpper(k[:1]) + k[1:]
		}
		return k
	}
	if !r.Chance(1, 8) {
		e[key("message")] = hx.Pick(r, []interface{}{"boom", "ünï \"q\" \\ 日本\n", "", "e" + fmt.Sprint(r.Intn(9))})
		if r.Chance(1, 15) {
			e[key("message")] = hx.Pick(r, []interface{}{5, nil, []interface{}{}})
		}
	}
	if r.Chance(1, 2) {
		e[key("extensions")] = hx.Pick(r, []interface{}{map[string]interface{}{"code": "X"}, map[string]interface{}{"n": map[string]interface{}{"k": []interface{}{1, "two", nil, true}}, "z": 0},
			map[string]interface{}{}, nil})
		if r.Chance(1, 12) {
			e[key("extensions")] = hx.Pick(r, []interface{}{"str", 5, []interface{}{}})
		}
	}
	if r.Chance(1, 2) {
		e[key("path")] = hx.Pick(r, []interface{}{[]interface{}{"a", 1, "b"}, []interface{}{}, []interface{}{"x"}, []interface{}{0}, nil, []interface{}{"a", map[string]interface{}{"k": 1}, nil}})
		if r.Chance(1, 12) {
			e[key("path")] = hx.Pick(r, []interface{}{"str", 5, map[string]interface{}{}})
		}
	}
	if r.Chance(1, 3) {
		e[key("locations")] = hx.Pick(r, []interface{}{[]interface{}{map[string]interface{}{"line": 2, "column": 7}}, []interface{}{map[string]interface{}{"line": 1}, map[string]interface{}{}},
			[]interface{}{}, nil, []interface{}{nil}, []interface{}{map[string]interface{}{"line": 0, "column": -3, "extra": 1}}})
		if r.Chance(1, 10) {
			e[key("locations")] = hx.Pick(r, []interface{}{"str", []interface{}{5}, []interface{}{map[string]interface{}{"line": "x"}}, []interface{}{map[string]interface{}{"line": 1.5}}})
		}
	}
	if r.Chance(1, 6) {
		e["extra"] = c09GenJSONValue(r, 1)
	}
	return e
}

func c09GenResponseElem(r *hx.Rand) interface{} {
	switch r.Intn(12) {
	case 0:
		return hx.Pick(r, []interface{}{nil, 5, "x", []interface{}{}, true})
	case 1:
		return map[string]interface{}{}
	case 2:
		return map[string]interface{}{"data": nil}
	case 3:
		return map[string]interface{}{"data": hx.Pick(r, []interface{}{5, "x", []interface{}{}})}
	case 4, 5:
		var es []interface{}
		for k := 0; k < r.Range(0, 3); k++ {
			es = append(es, c09GenErrorObj(r))
		}
		el := map[string]interface{}{"errors": es}
		if es == nil && r.Bool() {
			el["errors"] = hx.Pick(r, []interface{}{nil, "x", 5, map[string]interface{}{}})
		}
		if r.Bool() {
			el["data"] = c09GenJSONValue(r, 0)
		}
		return el
	}
	d := map[string]interface{}{}
	for k := 0; k < r.Intn(3); k++ {
		d[hx.Pick(r, []string{"a", "b", "node"})] = c09GenJSONValue(r, 0)
	}
	el := map[string]interface{}{"data": d}
	if r.Chance(1, 10) {
		el = map[string]interface{}{"Data": d}
	}
	if r.Chance(1, 8) {
		el["errors"] = []interface{}{}
	}
	if r.Chance(1, 8) {
		el["extensions"] = map[string]interface{}{"t": 1}
	}
	return el
}

func c09GenQueryUnit(r *hx.Rand) c09Unit {
	u := c09Unit{Kind: "query", N: r.Range(1, 4), Status: 200}
	switch r.Intn(14) {
	case 0:
		u.Transport = true
		return u
	case 1:
		u.Status = hx.Pick(r, []int{500, 404, 302, 199, 100, 300, 204, 201, 299})
	case 2:
		u.Body = hx.Pick(r, []string{"<html>", "", "[", `[{"data":}]`, "[] x", `{"data":{}}`, "null", "5", `"s"`, "true", "[]", "[[]]", "nul"})
		return u
	}
	k := u.N
	if r.Chance(1, 4) {
		k = r.Range(0, u.N+2)
	}
	arr := make([]interface{}, k)
	for i := range arr {
		arr[i] = c09GenResponseElem(r)
	}
	b, _ := json.Marshal(arr)
	u.Body = string(b)
	return u
}

func c09ModelWire(u c09Unit) map[string]interface{} {
	req := map[string]interface{}{"transport": u.Transport, "status": u.Status, "url": "http://svc/"}
	if !u.Transport {
		if v, err := fwDecodeNum(u.Body); err == nil && !fwTrailing(u.Body) {
			req["body"], req["json"] = v, true
		} else {
			req["json"] = false
		}
	}
	return req
}

// ---- fip --------------------------------------------------------------------------------------

const c09FipSchema = `
interface Node { id: ID! }
type Query { a: A  al: [A]  an: A!  aln: [A!]!  s: String }
type A implements Node { id: ID!  b: A  bl: [A]  bn: A!  v: String  vl: [String]  u: U  ul: [U] }
type U { w: String  c: A  cl: [A] }
`

var c09FipSchemaLoaded = gqlparser.MustLoadSchema(&ast.Source{Name: "fip", Input: c09FipSchema})

type c09FipField struct {
	key string
	def *ast.FieldDefinition
	sub []*c09FipField
}

func c09GenFipSel(r *hx.Rand, typ string, depth int, used map[string]bool) (string, []*c09FipField) {
	def := c09FipSchemaLoaded.Types[typ]
	var parts []string
	var fields []*c09FipField
	n := r.Range(1, 4)
	for k := 0; k < n; k++ {
		fd := hx.Pick(r, def.Fields)
		if strings.HasPrefix(fd.Name, "__") {
			continue
		}
		key := fd.Name
		s := fd.Name
		if r.Chance(1, 5) {
			key = fmt.Sprintf("x%d", r.Intn(4))
			s = key + ": " + fd.Name
		}
		if used[key] {
			continue
		}
		used[key] = true
		ff := &c09FipField{key: key, def: fd}
		tn := fd.Type.Name()
		if tn == "A" || tn == "U" {
			if depth >= 3 {
				continue
			}
			body, sub := c09GenFipSel(r, tn, depth+1, map[string]bool{})
			s += " " + body
			ff.sub = sub
		}
		if r.Chance(1, 8) && typ != "Query" {
			s = "... on " + typ + " { " + s + " }"
		}
		parts = append(parts, s)
		fields = append(fields, ff)
	}
	if len(parts) == 0 {
		if typ == "U" {
			parts = append(parts, "w")
			fields = append(fields, &c09FipField{key: "w", def: def.Fields.ForName("w")})
		} else if typ == "A" {
			parts = append(parts, "id")
			fields = append(fields, &c09FipField{key: "id", def: def.Fields.ForName("id")})
		} else {
			parts = append(parts, "s")
			fields = append(fields, &c09FipField{key: "s", def: def.Fields.ForName("s")})
		}
	}
	return "{ " + strings.Join(parts, " ") + " }", fields
}

var c09FipIDs = []interface{}{"x", "y", float64(7), nil, map[string]interface{}{"a": float64(1), "b": "s"}, []interface{}{float64(1), "q"}, true, "", "i#d", "i:d"}

func c09GenFipValue(r *hx.Rand, ff *c09FipField, depth int) interface{} {
	obj := func() interface{} {
		m := map[string]interface{}{}
		for _, sf := range ff.sub {
			if r.Chance(9, 10) {
				m[sf.key] = c09GenFipValue(r, sf, depth+1)
			}
		}
		if ff.def.Type.Name() == "A" {
			switch {
			case r.Chance(8, 10):
				m["id"] = hx.Pick(r, []interface{}{"x", "y", "z", float64(3)})
			case r.Chance(1, 2):
				m["id"] = hx.Pick(r, c09FipIDs)
			case r.Chance(1, 2):
				return map[string]interface{}{"__typename": "A"}
			}
		}
		return m
	}
	if r.Chance(1, 7) { // shape contradiction
		return hx.Pick(r, []interface{}{nil, float64(5), "str", []interface{}{}, map[string]interface{}{}, []interface{}{float64(1)}, []interface{}{nil},
			[]interface{}{obj()}, obj(), map[string]interface{}{"__typename": "A"}, []interface{}{[]interface{}{}}})
	}
	tn := ff.def.Type.Name()
	composite := tn == "A" || tn == "U"
	if ff.def.Type.Elem != nil {
		l := []interface{}{}
		for k := 0; k < r.Range(0, 3); k++ {
			if composite {
				if r.Chance(1, 6) {
					// a null element among the objects: passed over, the others keep their indices
					l = append(l, nil)
					continue
				}
				l = append(l, obj())
			} else {
				l = append(l, "v")
			}
		}
		return l
	}
	if composite {
		if !ff.def.Type.NonNull && r.Chance(1, 8) {
			return nil
		}
		return obj()
	}
	return "v"
}

func c09GenFipUnit(r *hx.Rand) c09Unit {
	body, fields := c09GenFipSel(r, "Query", 0, map[string]bool{})
	u := c09Unit{Kind: "fip", Query: body, Result: map[string]interface{}{}}
	for _, f := range fields {
		if r.Chance(9, 10) {
			u.Result[f.key] = c09GenFipValue(r, f, 0)
		}
	}
	// starting branch (already realised part of the path)
	for k := 0; k < r.Intn(3) && r.Chance(1, 3); k++ {
		u.Start = append(u.Start, hx.Pick(r, []string{"p#x", "q:0#y", "r"}))
		u.Target = append(u.Target, "p")
	}
	cur := fields
	for d := 0; d < r.Range(1, 3); d++ {
		if len(cur) == 0 {
			break
		}
		if r.Chance(1, 12) {
			u.Target = append(u.Target, hx.Pick(r, []string{"nope", "id", "v", "b", "bl", "x0"}))
			continue
		}
		f := hx.Pick(r, cur)
		u.Target = append(u.Target, f.key)
		cur = f.sub
	}
	return u
}

func c09SelToWire(ss ast.SelectionSet) []interface{} {
	out := []interface{}{}
	for _, s := range ss {
		switch x := s.(type) {
		case *ast.Field:
			k := x.Alias
			if k == "" {
				k = x.Name
			}
			isList, nonNull := false, false
			if x.Definition != nil && x.Definition.Type != nil {
				isList, nonNull = x.Definition.Type.Elem != nil, x.Definition.Type.NonNull
			}
			out = append(out, map[string]interface{}{"k": k, "l": isList, "n": nonNull, "s": c09SelToWire(x.SelectionSet)})
		case *ast.InlineFragment:
			out = append(out, map[string]interface{}{"f": c09SelToWire(x.SelectionSet)})
		}
	}
	return out
}

var c09FipMsgClass = []struct {
	class string
	re    *regexp.Regexp
}{
	{"null-required", regexp.MustCompile(`^received null for required field`)},
	{"not-a-list", regexp.MustCompile(`^root value of result chunk was not a list`)},
	{"entry-not-map", regexp.MustCompile(`^entry in result wasn't a map`)},
	{"item-not-map", regexp.MustCompile(`^item in root list isn't a map`)},
	{"no-id", regexp.MustCompile(`^could not find the id for elements in target list`)},
	{"not-an-object", regexp.MustCompile(`^root value of result chunk was not an object`)},
	{"no-entry", regexp.MustCompile(`^root value of result chunk has no entry`)},
}

func c09RunFip(u c09Unit, ss ast.SelectionSet) (o fwUnitObs) {
	defer func() {
		if p := recover(); p != nil {
			o = fwUnitObs{Outcome: "panic", Err: fmt.Sprint(p)}
		}
	}()
	start := u.Start
	if start == nil {
		start = []string{}
	}
	pts, err := executor.FindInsertionPoints(u.Target, ss, u.Result, [][]string{start})
	if err != nil {
		o = fwUnitObs{Outcome: "error", Err: err.Error()}
		for _, c := range c09FipMsgClass {
			if c.re.MatchString(err.Error()) {
				o.Class = c.class
			}
		}
		return
	}
	vals := []interface{}{}
	for _, p := range pts {
		pp := []interface{}{}
		for _, s := range p {
			pp = append(pp, s)
		}
		vals = append(vals, pp)
	}
	return fwUnitObs{Outcome: "ok", Value: vals}
}

// ---- merge ------------------------------------------------------------------------------------

const c09MergeSchema = `
interface Node { id: ID! }
type Query { x: T }
type T implements Node { id: ID!  k: String }
`

var c09MergeSchemaLoaded = gqlparser.MustLoadSchema(&ast.Source{Name: "merge", Input: c09MergeSchema})

type c09MockQueryer struct {
	url string
	f   func(n int) ([]map[string]interface{}, error)
}

func (m c09MockQueryer) Query(in []*requests.Request) ([]map[string]interface{}, error) {
	return m.f(len(in))
}
func (m c09MockQueryer) Subscribe(*requests.Request, <-chan struct{}, chan *requests.Response) error {
	return nil
}
func (m c09MockQueryer) URL() string { return m.url }

func c09GenMergeVal(r *hx.Rand, depth int) interface{} {
	switch r.Intn(9) {
	case 0:
		return nil
	case 1:
		return float64(r.Intn(5))
	case 2:
		return fmt.Sprintf("s%d", r.Intn(4))
	case 3, 4:
		if depth > 2 {
			return true
		}
		return c09GenMergeObj(r, depth+1, false)
	default:
		if depth > 2 {
			return "d"
		}
		l := []interface{}{}
		for k := 0; k < r.Intn(4); k++ {
			if r.Chance(3, 4) {
				l = append(l, c09GenMergeObj(r, depth+1, true))
			} else {
				l = append(l, c09GenMergeVal(r, depth+1))
			}
		}
		return l
	}
}

func c09GenMergeObj(r *hx.Rand, depth int, entity bool) map[string]interface{} {
	m := map[string]interface{}{}
	for k := 0; k < r.Intn(4); k++ {
		m[hx.Pick(r, []string{"a", "b", "l", "m"})] = c09GenMergeVal(r, depth)
	}
	if entity && r.Chance(4, 5) {
		if r.Chance(9, 10) {
			m["id"] = hx.Pick(r, []interface{}{"1", "2", "3", float64(1), float64(2)})
		} else {
			m["id"] = hx.Pick(r, []interface{}{nil, true, map[string]interface{}{"z": float64(1)}, []interface{}{float64(1)}, map[string]interface{}{}})
		}
	}
	return m
}

func c09GenMergeUnit(r *hx.Rand) c09Unit {
	u := c09Unit{Kind: "merge", Left: c09GenMergeObj(r, 0, false), Right: c09GenMergeObj(r, 0, false)}
	for k, v := range u.Left { // raise the overlap
		if r.Chance(1, 2) {
			switch v.(type) {
			case map[string]interface{}:
				u.Right[k] = c09GenMergeObj(r, 1, false)
			case []interface{}:
				u.Right[k] = c09GenMergeVal(r, 0)
			}
		}
	}
	u.Left["id"] = "1"
	return u
}

func c09RunMerge(u c09Unit) (o fwUnitObs) {
	defer func() {
		if p := recover(); p != nil {
			o = fwUnitObs{Outcome: "panic", Err: fmt.Sprint(p)}
		}
	}()
	doc, gerr := gqlparser.LoadQuery(c09MergeSchemaLoaded, "{ x { id } }")
	if gerr != nil {
		return fwUnitObs{Outcome: "error", Err: gerr.Error()}
	}
	child := &planner.QueryPlanStep{URL: "b", ParentType: "T", InsertionPoint: []string{"x"}, QueryString: "child"}
	root := &planner.QueryPlanStep{URL: "a", ParentType: "Query", SelectionSet: doc.Operations[0].SelectionSet, QueryString: "root", Then: []*planner.QueryPlanStep{child}}
	qs := map[string]queryer.Queryer{
		"a": c09MockQueryer{"a", func(int) ([]map[string]interface{}, error) { return []map[string]interface{}{{"x": u.Left}}, nil }},
		"b": c09MockQueryer{"b", func(int) ([]map[string]interface{}, error) { return []map[string]interface{}{{"node": u.Right}}, nil }},
	}
	var ex executor.ParallelExecutor
	res, err := ex.Execute(&executor.ExecutionContext{QueryPlan: &planner.QueryPlan{RootSteps: []*planner.QueryPlanStep{root}}, Request: &requests.Request{Query: "{ x { id } }"}, Queryers: qs})
	if err != nil {
		return fwUnitObs{Outcome: "error", Err: err.Error()}
	}
	return fwUnitObs{Outcome: "ok", Value: res["x"]}
}

// c09RunCount: n root steps on one URL, the mock answers k results (used by the worker).
func c09RunCount(n, k int) (o fwUnitObs) {
	defer func() {
		if p := recover(); p != nil {
			o = fwUnitObs{Outcome: "panic", Err: fmt.Sprint(p)}
		}
	}()
	doc, gerr := gqlparser.LoadQuery(c09MergeSchemaLoaded, "{ x { id } }")
	if gerr != nil {
		return fwUnitObs{Outcome: "error", Err: gerr.Error()}
	}
	var steps []*planner.QueryPlanStep
	for i := 0; i < n; i++ {
		steps = append(steps, &planner.QueryPlanStep{URL: "a", ParentType: "Query", SelectionSet: doc.Operations[0].SelectionSet, QueryString: fmt.Sprintf("q%d", i)})
	}
	qs := map[string]queryer.Queryer{"a": c09MockQueryer{"a", func(int) ([]map[string]interface{}, error) {
		out := make([]map[string]interface{}, k)
		for i := range out {
			out[i] = map[string]interface{}{"x": map[string]interface{}{"id": fmt.Sprint(i)}}
		}
		return out, nil
	}}}
	var ex executor.ParallelExecutor
	_, err := ex.Execute(&executor.ExecutionContext{QueryPlan: &planner.QueryPlan{RootSteps: steps}, Request: &requests.Request{Query: "{ x { id } }"}, Queryers: qs})
	if err != nil {
		return fwUnitObs{Outcome: "error", Err: err.Error(), Class: c09ClassOf(strings.TrimSuffix(err.Error(), "."))}
	}
	return fwUnitObs{Outcome: "ok"}
}

func c09ExchangeOf(u c09Unit) *fed.WireExchange {
	ex := &fed.WireExchange{N: u.N, Status: u.Status, Body: u.Body}
	if u.Transport {
		ex.TransportErr = "injected transport error"
	}
	return ex
}

// c09CountCheck: a Queryer that answers k results for n requests, through ParallelExecutor.Execute in the child.
func c09CountCheck(ctx *Ctx, pl *fwPool, idx int, n, k int) {
	cs := c09Case{fwCase: fwCase{Count: &fwCount{N: n, K: k}}, Note: "mock Queryer answers k results for n requests"}
	ctx.Rep.Case(fmt.Sprintf("count/%d/%d", n, k), true)
	ctx.Rep.Count("unit count (executor over a mock Queryer)")
	out, err := pl.Run(cs.fwCase)
	if err != nil {
		fwFail(ctx, hx.Failure{Kind: "harness-error", Detail: err.Error(), Case: cs, Index: idx})
		return
	}
	if out.Crash != "" || out.Timeout {
		fwFail(ctx, hx.Failure{Kind: "property-fails", Detail: fmt.Sprintf("the executor CRASHED when a Queryer returned %d results for %d requests: %s", k, n, out.Crash), Case: cs, Impl: out.Crash, Index: idx})
		return
	}
	o := out.Res.Unit
	if o == nil {
		fwFail(ctx, hx.Failure{Kind: "harness-error", Detail: "worker returned no unit result: " + out.Res.Err, Case: cs, Index: idx})
		return
	}
	if o.Outcome == "panic" || (k != n && o.Outcome != "error") {
		fwFail(ctx, hx.Failure{Kind: "property-fails", Detail: fmt.Sprintf("a Queryer returned %d results for %d requests and the executor answered %s %s (wrong length must be reported)", k, n, o.Outcome, o.Err), Case: cs, Impl: o, Index: idx})
	}
	if ctx.Driver == nil {
		return
	}
	m, err := ctx.Driver.Call(map[string]interface{}{"op": "c09.count", "n": n, "k": k})
	if err != nil {
		fwFail(ctx, hx.Failure{Kind: "harness-error", Detail: err.Error(), Case: cs, Index: idx})
		return
	}
	ctx.Rep.Traces++
	mo, _ := m["outcome"].(string)
	mc, _ := m["class"].(string)
	if mo != o.Outcome || (mo == "error" && mc != o.Class) {
		fwFail(ctx, hx.Failure{Kind: "model-mismatch", Detail: fmt.Sprintf("count check: implementation %s/%s (%s), model %s/%s", o.Outcome, o.Class, o.Err, mo, mc), Case: cs, Impl: o, Model: m, Index: idx})
	}
}

// ---- check ------------------------------------------------------------------------------------

func c09UnitCheck(ctx *Ctx, idx int, u c09Unit) {
	cs := c09Case{Unit: &u}
	b, _ := json.Marshal(u)
	ctx.Rep.Case("unit/"+string(b), true)
	fail := func(kind, detail string, impl, model interface{}) {
		fwFail(ctx, hx.Failure{Kind: kind, Detail: detail, Case: cs, Impl: impl, Model: model, Index: idx})
	}
	var o fwUnitObs
	var req map[string]interface{}
	switch u.Kind {
	case "query":
		o = c09RunQuery(u)
		req = c09ModelWire(u)
		req["op"], req["n"] = "c09.query", u.N
		ctx.Rep.Count("unit query: " + o.Outcome + "/" + o.Class)
		// property oracle on the unit: a failure signal must be an error, nothing may panic
		ex := c09ExchangeOf(u)
		if o.Outcome == "panic" {
			fail("property-fails", "MultiOpQueryer.Query panicked on a downstream answer: "+o.Err, o, nil)
		} else if sig := c09Signal(ex); sig != "" && o.Outcome != "error" {
			fail("property-fails", "failure signal ["+sig+"] but MultiOpQueryer.Query returned no error (failure masked)", o, nil)
		}
	case "fip":
		doc, gerr := gqlparser.LoadQuery(c09FipSchemaLoaded, u.Query)
		if gerr != nil {
			ctx.Rep.Count("unit fip: generated query invalid")
			return
		}
		ss := doc.Operations[0].SelectionSet
		o = c09RunFip(u, ss)
		start := u.Start
		if start == nil {
			start = []string{}
		}
		req = map[string]interface{}{"op": "c09.fip", "target": u.Target, "start": start, "selection": c09SelToWire(ss), "result": u.Result}
		ctx.Rep.Count("unit fip: " + o.Outcome + "/" + o.Class)
		if o.Outcome == "panic" {
			fail("property-fails", "FindInsertionPoints panicked on an answer whose shape contradicts the schema: "+o.Err, o, nil)
		}
	case "merge":
		o = c09RunMerge(u)
		req = map[string]interface{}{"op": "c09.merge", "mode": "top", "left": u.Left, "right": u.Right}
		ctx.Rep.Count("unit merge: " + o.Outcome)
		if o.Outcome == "ok" {
			sent, got := map[string]bool{}, map[string]bool{}
			fwLeavesOf(u.Left, sent)
			fwLeavesOf(u.Right, sent)
			fwLeavesOf(o.Value, got)
			for l := range got {
				if !sent[l] {
					fail("property-fails", "merged result contains a value neither side sent: "+l, o, nil)
				}
			}
		}
	default:
		return
	}
	if ctx.Driver == nil {
		return
	}
	m, err := ctx.Driver.Call(req)
	if err != nil {
		fail("harness-error", err.Error(), nil, nil)
		return
	}
	ctx.Rep.Traces++
	mo, _ := m["outcome"].(string)
	if mo != o.Outcome {
		fail("model-mismatch", fmt.Sprintf("%s: implementation %s (%s %s), model %s", u.Kind, o.Outcome, o.Class, o.Err, mo), o, m)
		return
	}
	switch {
	case mo == "error" && u.Kind != "merge":
		mc, _ := m["class"].(string)
		if mc != o.Class {
			fail("model-mismatch", fmt.Sprintf("%s: error class differs: implementation %q (%s), model %q", u.Kind, o.Class, o.Err, mc), o, m)
		} else if mc == "errors" && hx.Canon(m["errors"]) != hx.Canon(o.Value) {
			fail("model-mismatch", "query: the error list returned differs from the model's", o, m)
		}
	case mo == "ok":
		var mv interface{}
		switch u.Kind {
		case "query":
			mv = m["results"]
		case "fip":
			mv = m["points"]
		case "merge":
			mv = m["result"]
		}
		if hx.Canon(mv) != hx.Canon(o.Value) {
			fail("model-mismatch", u.Kind+": results differ between implementation and model", o, m)
		}
	}
}

func c09UnitRun(ctx *Ctx, idx *int) error {
	n := 2500
	if ctx.Thorough() {
		n = 25000
	}
	for _, gen := range []func(*hx.Rand) c09Unit{c09GenQueryUnit, c09GenFipUnit, c09GenMergeUnit} {
		for k := 0; k < n; k++ {
			u := gen(ctx.Rand.Fork())
			if k < 1 {
				ctx.Rep.Sample(u)
			}
			c09UnitCheck(ctx, *idx, u)
			*idx++
		}
	}
	return nil
}
