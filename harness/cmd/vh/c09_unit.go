package main

type c09Unit struct {
	Kind string `json:"kind"`
}

func c09Corpus() []c09Case { return nil }

func c09UnitRun(ctx *Ctx, idx *int) error { return nil }

func c09UnitCheck(ctx *Ctx, idx int, u c09Unit) {}
