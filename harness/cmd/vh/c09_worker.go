package main

// Fault worker shared by C09 and C10: the real gateway over the fake services runs in a CHILD
// process (re-exec of os.Args[0] with the hidden sub-command "C09-worker"), because a panic
// inside one of pebbles' AsyncMapReduce goroutines kills the whole process and cannot be
// recovered by the caller. The parent sends one case per line and reads one result per line;
// if the child dies, the case in flight is the crash witness and a new child is started.

import (
	"bufio"
	"bytes"
	"encoding/json"
	"fmt"
	"io"
	"os"
	"os/exec"
	"regexp"
	"strings"
	"sync"
	"time"

	"verif/harness/fed"
	"verif/harness/hx"
)

func init() {
	register("C09-worker", runFaultWorker)
}

// fwCase is one request to the gateway under a fault plan.
type fwCase struct {
	FedSeed     uint64                 `json:"fed_seed"`
	Abstract    bool                   `json:"abstract,omitempty"`
	Custom      string                 `json:"custom,omitempty"` // name of a hand-written federation (fwCustom)
	MaxBatch    int                    `json:"max_batch,omitempty"`
	Query       string                 `json:"query,omitempty"`
	Variables   map[string]interface{} `json:"variables,omitempty"`
	OpName      *string                `json:"operationName,omitempty"`
	RawBody     string                 `json:"raw_body,omitempty"` // posted verbatim instead of {query,variables,operationName}
	Faults      []fed.WireFault        `json:"faults,omitempty"`
	FollowUp    bool                   `json:"follow_up,omitempty"`    // afterwards: the same request, fault-free, same gateway
	FreshFollow bool                   `json:"fresh_follow,omitempty"` // the follow-up goes to a NEW gateway (baseline for FollowUp)
	Count       *fwCount               `json:"count,omitempty"`        // no gateway: ParallelExecutor.Execute over a mock Queryer
}

type fwCount struct {
	N int `json:"n"`
	K int `json:"k"`
}

type fwResult struct {
	Err          string              `json:"err,omitempty"` // the worker could not set the case up
	Status       int                 `json:"status"`
	Body         string              `json:"body"`
	Panic        string              `json:"panic,omitempty"` // panic recovered in the handler's own goroutine
	Hang         bool                `json:"hang,omitempty"`
	Exchanges    []*fed.WireExchange `json:"exchanges"`
	FollowStatus int                 `json:"follow_status,omitempty"`
	FollowBody   string              `json:"follow_body,omitempty"`
	FollowPanic  string              `json:"follow_panic,omitempty"`
	FollowHang   bool                `json:"follow_hang,omitempty"`
	FollowCalls  int                 `json:"follow_calls,omitempty"`
	Unit         *fwUnitObs          `json:"unit,omitempty"`
}

func fwGenOptions(abstract bool) fed.GenOptions {
	o := fed.DefaultGen()
	o.Abstract = abstract
	return o
}

// fwBuild regenerates the federation of a case (parent and worker derive the same one).
func fwBuild(c fwCase) (*fed.Fed, *hx.Rand, error) {
	if c.Custom != "" {
		mk, ok := fwCustom[c.Custom]
		if !ok {
			return nil, nil, fmt.Errorf("unknown custom federation %q", c.Custom)
		}
		f, err := mk()
		return f, hx.NewRand(c.FedSeed), err
	}
	r := hx.NewRand(c.FedSeed)
	spec := fed.Generate(r, fwGenOptions(c.Abstract))
	data := fed.GenData(r, spec, fed.DefaultData())
	f, err := fed.Build(spec, data)
	return f, r, err
}

// fwCustom: hand-written federations for corpus cases.
var fwCustom = map[string]func() (*fed.Fed, error){}

type fwServed struct {
	status int
	body   string
	pan    string
	hang   bool
}

func fwServe(do func() *fed.Response) fwServed {
	ch := make(chan fwServed, 1)
	go func() {
		var s fwServed
		defer func() {
			if p := recover(); p != nil {
				s.pan = fmt.Sprint(p)
			}
			ch <- s
		}()
		resp := do()
		s.status, s.body = resp.Status, string(resp.Raw)
	}()
	select {
	case s := <-ch:
		return s
	case <-time.After(8 * time.Second):
		return fwServed{hang: true}
	}
}

func fwRun(c fwCase, cache map[string]*fed.Fed) (res fwResult) {
	if c.Count != nil {
		o := c09RunCount(c.Count.N, c.Count.K)
		res.Unit = &o
		return
	}
	key := fmt.Sprintf("%d/%v/%s", c.FedSeed, c.Abstract, c.Custom)
	f, ok := cache[key]
	if !ok {
		var err error
		f, _, err = fwBuild(c)
		if err != nil {
			res.Err = "build: " + err.Error()
			return
		}
		if len(cache) > 8 {
			for k := range cache {
				delete(cache, k)
			}
		}
		cache[key] = f
	}
	// fresh mutable data and logs per case
	d := f.Data.Clone()
	for _, s := range f.Services {
		s.Data = d
		s.Fault = nil
	}
	f.ResetLogs()
	rt := f.NewFaultRT(c.Faults)
	gw, err := f.NewGatewayOver(rt, c.MaxBatch)
	if err != nil {
		res.Err = "gateway: " + err.Error()
		return
	}
	send := func() *fed.Response {
		if c.RawBody != "" {
			return fed.DoRaw(gw, "application/json", []byte(c.RawBody))
		}
		return fed.Do(gw, c.Query, c.Variables, c.OpName)
	}
	s := fwServe(send)
	res.Status, res.Body, res.Panic, res.Hang = s.status, s.body, s.pan, s.hang
	res.Exchanges = rt.Exchanges()
	if res.Exchanges == nil {
		res.Exchanges = []*fed.WireExchange{}
	}
	if c.FollowUp && !s.hang {
		rt.SetFaults(nil)
		rt.ResetLog()
		if c.FreshFollow {
			gw, err = f.NewGatewayOver(rt, c.MaxBatch)
			if err != nil {
				res.Err = "gateway: " + err.Error()
				return
			}
		}
		s2 := fwServe(send)
		res.FollowStatus, res.FollowBody, res.FollowPanic, res.FollowHang = s2.status, s2.body, s2.pan, s2.hang
		res.FollowCalls = len(rt.Exchanges())
	}
	return
}

func runFaultWorker(ctx *Ctx) error {
	in := bufio.NewReaderSize(os.Stdin, 1<<20)
	out := bufio.NewWriter(os.Stdout)
	cache := map[string]*fed.Fed{}
	for {
		line, err := in.ReadBytes('\n')
		if len(bytes.TrimSpace(line)) > 0 {
			var c fwCase
			var res fwResult
			if jerr := json.Unmarshal(line, &c); jerr != nil {
				res.Err = "bad case: " + jerr.Error()
			} else {
				res = fwRun(c, cache)
			}
			b, _ := json.Marshal(res)
			out.Write(b)
			out.WriteByte('\n')
			out.Flush()
		}
		if err != nil {
			return nil
		}
	}
}

// ---- parent side --------------------------------------------------------------------------

// fwFail records a failure, keeping at most 3 per signature (kind + detail with numbers and
// addresses blanked) so that one frequent defect cannot crowd the others out of the report.
var fwSigRe = regexp.MustCompile(`0x[0-9a-f]+\??|\d+`)
var fwSigCount = map[string]int{}

func fwFail(ctx *Ctx, f hx.Failure) {
	d := f.Detail
	if len(d) > 160 {
		d = d[:160]
	}
	sig := f.Kind + "|" + f.Class + "|" + fwSigRe.ReplaceAllString(d, "#")
	fwSigCount[sig]++
	if fwSigCount[sig] > 3 {
		ctx.Rep.Count("further failures like: " + sig)
		return
	}
	ctx.Rep.Fail(f)
}

type fwProc struct {
	cmd    *exec.Cmd
	in     io.WriteCloser
	out    *bufio.Reader
	stderr *fwTail
}

// fwTail keeps the head of what the child wrote to stderr (a Go panic prints its message first).
type fwTail struct {
	mu sync.Mutex
	b  bytes.Buffer
}

func (t *fwTail) Write(p []byte) (int, error) {
	t.mu.Lock()
	if t.b.Len() < 6000 {
		t.b.Write(p)
	}
	t.mu.Unlock()
	return len(p), nil
}

func (t *fwTail) String() string {
	t.mu.Lock()
	defer t.mu.Unlock()
	return t.b.String()
}

// fwPool runs cases in a child worker, restarting it after a crash.
type fwPool struct {
	p       *fwProc
	Crashes int
	Runs    int
}

func (pl *fwPool) start() error {
	cmd := exec.Command(os.Args[0], "C09-worker")
	in, err := cmd.StdinPipe()
	if err != nil {
		return err
	}
	out, err := cmd.StdoutPipe()
	if err != nil {
		return err
	}
	tail := &fwTail{}
	cmd.Stderr = tail
	if err := cmd.Start(); err != nil {
		return err
	}
	pl.p = &fwProc{cmd: cmd, in: in, out: bufio.NewReaderSize(out, 1<<20), stderr: tail}
	return nil
}

func (pl *fwPool) stop() {
	if pl.p != nil {
		pl.p.in.Close()
		done := make(chan struct{})
		go func() { pl.p.cmd.Wait(); close(done) }()
		select {
		case <-done:
		case <-time.After(2 * time.Second):
			pl.p.cmd.Process.Kill()
		}
		pl.p = nil
	}
}

// fwOutcome: what happened to one case. Crash != "" means the child process died (the text is
// the head of its stderr: the Go panic message and the first frames).
type fwOutcome struct {
	Res     fwResult
	Crash   string
	Timeout bool
}

func (pl *fwPool) Run(c fwCase) (fwOutcome, error) {
	if pl.p == nil {
		if err := pl.start(); err != nil {
			return fwOutcome{}, err
		}
	}
	pl.Runs++
	b, err := json.Marshal(c)
	if err != nil {
		return fwOutcome{}, err
	}
	p := pl.p
	type rd struct {
		line []byte
		err  error
	}
	ch := make(chan rd, 1)
	if _, err := p.in.Write(append(b, '\n')); err != nil {
		ch <- rd{nil, err}
	} else {
		go func() {
			line, err := p.out.ReadBytes('\n')
			ch <- rd{line, err}
		}()
	}
	select {
	case r := <-ch:
		if r.err != nil || len(r.line) == 0 {
			p.cmd.Wait()
			msg := fwCrashHead(p.stderr.String())
			pl.p = nil
			pl.Crashes++
			return fwOutcome{Crash: msg}, nil
		}
		var res fwResult
		if err := json.Unmarshal(r.line, &res); err != nil {
			return fwOutcome{}, fmt.Errorf("worker answer unreadable: %v", err)
		}
		return fwOutcome{Res: res}, nil
	case <-time.After(30 * time.Second):
		p.cmd.Process.Kill()
		p.cmd.Wait()
		pl.p = nil
		return fwOutcome{Timeout: true}, nil
	}
}

// fwCrashHead extracts "panic: ..." plus the first pebbles frames from a Go crash dump.
func fwCrashHead(s string) string {
	lines := strings.Split(s, "\n")
	var out []string
	for _, l := range lines {
		if strings.HasPrefix(l, "panic:") || strings.HasPrefix(l, "fatal error:") || strings.Contains(l, "[recovered]") {
			out = append(out, l)
		} else if strings.HasPrefix(l, "github.com/buildbuildio/pebbles") && len(out) > 0 && len(out) < 5 {
			out = append(out, strings.TrimSpace(l))
		}
	}
	if len(out) == 0 {
		if len(s) > 400 {
			s = s[:400]
		}
		return "worker died: " + s
	}
	return strings.Join(out, " | ")
}
