package main

// C10 — invalid operations never reach a service; service errors reach the client intact.
//
// (i)  Mutated-invalid operations: a generated valid operation (fed.GenOp, safe profile) is broken by
//      one mutator (unknown field / type / argument / fragment, wrong or undefined or unused variable,
//      fragment cycle, wrong literal, selection on a scalar, two operations without operationName,
//      unknown operationName, syntax error) and sent through the real gateway over the fake services
//      (child process). Oracle: status 200, `data: null`, `errors` non-empty, ZERO downstream HTTP calls
//      (wire log of the fault-injecting RoundTripper empty); in a client batch with a valid operation,
//      exactly the valid operation's sub-requests are sent. Model: driver op c10.flow.
// (ii) Generated downstream error payloads injected as `errors` / `errors+data` (unicode, nested
//      extensions, integer and string path elements, locations, several errors per response, root and
//      child steps, first/middle/last of a batch, two responses of one batch). Oracle: each injected
//      error is in the client's `errors` with message, extensions and path equal. Model: the client's
//      `errors` equals, as a multiset, what the Lean model forwards for the faulted exchanges.
// (iii) gqlerrors.FormatError / ExtendErrorList on generated Go error values ↔ driver op c10.format.

import (
	"bytes"
	"encoding/json"
	"errors"
	"fmt"
	"sort"
	"strings"

	"github.com/buildbuildio/pebbles/gqlerrors"
	"github.com/vektah/gqlparser/v2"
	"github.com/vektah/gqlparser/v2/ast"
	"github.com/vektah/gqlparser/v2/formatter"
	"github.com/vektah/gqlparser/v2/gqlerror"
	"github.com/vektah/gqlparser/v2/parser"

	"verif/harness/fed"
	"verif/harness/hx"
)

func init() {
	register("C10", runC10)
	registerReplay("C10", func(ctx *Ctx, raw json.RawMessage) error {
		var cs c10Case
		if err := json.Unmarshal(raw, &cs); err != nil {
			return err
		}
		pl := &fwPool{}
		defer pl.stop()
		switch {
		case cs.Format != nil:
			c10FormatCheck(ctx, 0, *cs.Format)
		case cs.Mutation != "":
			c10InvalidCheck(ctx, pl, 0, cs)
		default:
			c10ErrorsCheck(ctx, pl, 0, cs)
		}
		return nil
	})
}

type c10Case struct {
	fwCase
	Mutation string     `json:"mutation,omitempty"` // (i)
	ValidOp  *fwCase    `json:"valid_op,omitempty"` // (i) batch variant: the valid operation sent along
	Injected []string   `json:"-"`
	Format   *c10Format `json:"format,omitempty"` // (iii)
	Note     string     `json:"note,omitempty"`
}

func (cs *c10Case) key() string {
	b, _ := json.Marshal(cs.Faults)
	return fmt.Sprintf("%d/%v/%d/%s/%s/%s|%s", cs.FedSeed, cs.Abstract, cs.MaxBatch, cs.Mutation, cs.Query, cs.RawBody, b)
}

// ---- (i) mutators ------------------------------------------------------------------------------

type c10SelRef struct {
	set    *ast.SelectionSet
	parent *ast.Field // nil for operation / fragment roots
}

func c10CollectSels(doc *ast.QueryDocument) (sets []c10SelRef, fields []*ast.Field) {
	var walk func(ss *ast.SelectionSet, parent *ast.Field)
	walk = func(ss *ast.SelectionSet, parent *ast.Field) {
		sets = append(sets, c10SelRef{ss, parent})
		for _, s := range *ss {
			switch x := s.(type) {
			case *ast.Field:
				fields = append(fields, x)
				if len(x.SelectionSet) > 0 {
					walk(&x.SelectionSet, x)
				}
			case *ast.InlineFragment:
				walk(&x.SelectionSet, nil)
			}
		}
	}
	for _, op := range doc.Operations {
		walk(&op.SelectionSet, nil)
	}
	for _, fr := range doc.Fragments {
		walk(&fr.SelectionSet, nil)
	}
	return
}

func c10PrintDoc(doc *ast.QueryDocument) string {
	var b bytes.Buffer
	formatter.NewFormatter(&b).FormatQueryDocument(doc)
	return b.String()
}

var c10Mutations = []string{"unknown-field", "unknown-fragment-type", "unknown-argument", "wrong-variable-type", "undefined-variable",
	"unused-variable", "fragment-cycle", "unknown-fragment-spread", "wrong-literal", "selection-on-scalar", "no-selection-on-composite",
	"two-operations-no-name", "unknown-operation-name", "syntax-error", "unknown-variable-type", "duplicate-operation-name"}

// c10Mutate breaks a valid operation. ok=false when the mutator does not apply to this operation.
func c10Mutate(r *hx.Rand, schema *ast.Schema, op *fed.Op, how string) (query string, opName *string, ok bool) {
	doc, perr := parser.ParseQuery(&ast.Source{Input: op.Query})
	if perr != nil || len(doc.Operations) == 0 {
		return "", nil, false
	}
	opName = op.OpName
	sets, fields := c10CollectSels(doc)
	o := doc.Operations[0]
	lit := func(raw string, k ast.ValueKind) *ast.Value { return &ast.Value{Raw: raw, Kind: k} }
	switch how {
	case "unknown-field":
		s := hx.Pick(r, sets)
		*s.set = append(*s.set, &ast.Field{Name: "zzNope", Alias: "zzNope"})
	case "unknown-fragment-type":
		s := hx.Pick(r, sets)
		*s.set = append(*s.set, &ast.InlineFragment{TypeCondition: "ZzNope", SelectionSet: ast.SelectionSet{&ast.Field{Name: "id", Alias: "id"}}})
	case "unknown-argument":
		if len(fields) == 0 {
			return "", nil, false
		}
		f := hx.Pick(r, fields)
		f.Arguments = append(f.Arguments, &ast.Argument{Name: "zzArg", Value: lit("1", ast.IntValue)})
	case "wrong-variable-type":
		if len(o.VariableDefinitions) == 0 {
			return "", nil, false
		}
		v := hx.Pick(r, o.VariableDefinitions)
		switch {
		case v.Type.Elem != nil:
			v.Type = ast.NamedType("Boolean", nil)
		case v.Type.NamedType == "Boolean":
			v.Type = ast.NamedType("Int", nil)
		default:
			v.Type = ast.ListType(ast.NamedType("Boolean", nil), nil)
		}
	case "unknown-variable-type":
		if len(o.VariableDefinitions) == 0 {
			return "", nil, false
		}
		hx.Pick(r, o.VariableDefinitions).Type = ast.NamedType("ZzNopeInput", nil)
	case "undefined-variable":
		var withArgs []*ast.Field
		for _, f := range fields {
			if len(f.Arguments) > 0 {
				withArgs = append(withArgs, f)
			}
		}
		if len(withArgs) == 0 {
			return "", nil, false
		}
		f := hx.Pick(r, withArgs)
		hx.Pick(r, f.Arguments).Value = lit("zzUndef", ast.Variable)
	case "unused-variable":
		o.VariableDefinitions = append(o.VariableDefinitions, &ast.VariableDefinition{Variable: "zzUnused", Type: ast.NamedType("Int", nil)})
	case "fragment-cycle":
		root := "Query"
		doc.Fragments = append(doc.Fragments,
			&ast.FragmentDefinition{Name: "ZzA", TypeCondition: root, SelectionSet: ast.SelectionSet{&ast.FragmentSpread{Name: "ZzB"}}},
			&ast.FragmentDefinition{Name: "ZzB", TypeCondition: root, SelectionSet: ast.SelectionSet{&ast.FragmentSpread{Name: "ZzA"}}})
		o.SelectionSet = append(o.SelectionSet, &ast.FragmentSpread{Name: "ZzA"})
	case "unknown-fragment-spread":
		s := hx.Pick(r, sets)
		*s.set = append(*s.set, &ast.FragmentSpread{Name: "ZzNope"})
	case "wrong-literal":
		var cands []*ast.Argument
		for _, f := range fields {
			for _, a := range f.Arguments {
				if a.Value != nil && (a.Value.Kind == ast.IntValue || a.Value.Kind == ast.BooleanValue) {
					cands = append(cands, a)
				}
			}
		}
		if len(cands) == 0 {
			return "", nil, false
		}
		hx.Pick(r, cands).Value = lit("zz", ast.StringValue)
	case "selection-on-scalar":
		var leaves []*ast.Field
		for _, f := range fields {
			if len(f.SelectionSet) == 0 && f.Name != "__typename" {
				leaves = append(leaves, f)
			}
		}
		if len(leaves) == 0 {
			return "", nil, false
		}
		f := hx.Pick(r, leaves)
		f.SelectionSet = ast.SelectionSet{&ast.Field{Name: "__typename", Alias: "__typename"}}
	case "no-selection-on-composite":
		var comps []*ast.Field
		for _, f := range fields {
			if len(f.SelectionSet) > 0 {
				comps = append(comps, f)
			}
		}
		if len(comps) == 0 {
			return "", nil, false
		}
		hx.Pick(r, comps).SelectionSet = nil
	case "two-operations-no-name":
		if o.Name == "" {
			o.Name = "ZzFirst"
		}
		doc.Operations = append(doc.Operations, &ast.OperationDefinition{Operation: ast.Query, Name: "ZzOther",
			SelectionSet: ast.SelectionSet{&ast.Field{Name: "__typename", Alias: "__typename"}}})
		opName = nil
	case "duplicate-operation-name":
		if o.Name == "" {
			o.Name = "ZzFirst"
		}
		doc.Operations = append(doc.Operations, &ast.OperationDefinition{Operation: ast.Query, Name: o.Name,
			SelectionSet: ast.SelectionSet{&ast.Field{Name: "__typename", Alias: "__typename"}}})
		n := o.Name
		opName = &n
	case "unknown-operation-name":
		n := "ZzNoSuchOp"
		return op.Query, &n, true
	case "syntax-error":
		q := op.Query
		switch r.Intn(4) {
		case 0:
			q = q[:len(q)/2]
		case 1:
			q = strings.Replace(q, "}", "", 1)
		case 2:
			q = strings.Replace(q, "{", "{ ! ", 1)
		default:
			q = q + " }"
		}
		return q, op.OpName, true
	default:
		return "", nil, false
	}
	return c10PrintDoc(doc), opName, true
}

func c10ExchangeKeys(exs []*fed.WireExchange) []string {
	var out []string
	for _, ex := range exs {
		for i := range ex.Queries {
			out = append(out, fmt.Sprintf("%d|%s|%s", ex.Service, ex.Queries[i], ex.Vars[i]))
		}
	}
	sort.Strings(out)
	return out
}

var c10OpMsg = []string{"unable to extract query for operation", "many queries provided, but no operationName"}

func c10InvalidCheck(ctx *Ctx, pl *fwPool, idx int, cs c10Case) {
	fail := func(kind, detail string, impl, model interface{}) {
		fwFail(ctx, hx.Failure{Kind: kind, Detail: detail, Case: cs, Impl: impl, Model: model, Index: idx})
	}
	out, err := pl.Run(cs.fwCase)
	if err != nil {
		fail("harness-error", err.Error(), nil, nil)
		return
	}
	ctx.Rep.Case(cs.key(), true)
	ctx.Rep.Count("invalid operation: " + cs.Mutation)
	if out.Crash != "" || out.Timeout || out.Res.Hang || out.Res.Panic != "" {
		fail("property-fails", "an invalid operation ("+cs.Mutation+") crashed / hung the gateway: "+out.Crash+out.Res.Panic, out.Crash+out.Res.Panic, nil)
		return
	}
	res := out.Res
	if res.Err != "" {
		fail("harness-error", res.Err, nil, nil)
		return
	}
	batch := cs.ValidOp != nil
	var part interface{}
	if batch {
		v := fwJSONOf(res.Body)
		arr, ok := v.([]interface{})
		if !ok || len(arr) != 2 {
			fail("property-fails", "batch response is not an array of two results", res.Body, nil)
			return
		}
		part = arr[1]
	} else {
		part = fwJSONOf(res.Body)
	}
	pb, _ := json.Marshal(part)
	cr := fwWellFormed(res.Status, string(pb))
	switch {
	case !cr.OK:
		fail("property-fails", "answer to an invalid operation ("+cs.Mutation+") not well-formed: "+cr.Why, res.Body, nil)
	case cr.Data != nil:
		fail("property-fails", "an invalid operation ("+cs.Mutation+") was answered with data", res.Body, nil)
	case len(cr.Errors) == 0:
		fail("property-fails", "an invalid operation ("+cs.Mutation+") was answered without errors", res.Body, nil)
	}
	// zero side effects downstream
	if !batch {
		if n := len(res.Exchanges); n != 0 {
			fail("property-fails", fmt.Sprintf("an invalid operation (%s) caused %d downstream HTTP call(s)", cs.Mutation, n), res.Exchanges, nil)
		}
	} else {
		vb := *cs.ValidOp
		vo, err := pl.Run(vb)
		if err == nil && vo.Crash == "" && !vo.Timeout {
			if hx.Canon(c10ExchangeKeys(res.Exchanges)) != hx.Canon(c10ExchangeKeys(vo.Res.Exchanges)) {
				fail("property-fails", "in a client batch [valid, invalid ("+cs.Mutation+")] the sub-requests sent differ from those of the valid operation alone",
					map[string]interface{}{"batch": c10ExchangeKeys(res.Exchanges), "valid_alone": c10ExchangeKeys(vo.Res.Exchanges)}, nil)
			}
			ctx.Rep.Count("invalid operation in a client batch with a valid one")
		}
	}
	if ctx.Driver == nil || batch {
		return
	}
	opErr := cs.Mutation == "two-operations-no-name" || cs.Mutation == "unknown-operation-name"
	m, err := ctx.Driver.Call(map[string]interface{}{"op": "c10.flow", "valid": opErr, "operationFound": false, "planOk": true, "introspection": false})
	if err != nil {
		fail("harness-error", err.Error(), nil, nil)
		return
	}
	ctx.Rep.Traces++
	ans, _ := m["answer"].(string)
	ex, _ := m["executes"].(json.Number)
	isOpMsg := false
	for _, mm := range fwErrMessages(cr.Errors) {
		for _, p := range c10OpMsg {
			if strings.HasPrefix(mm, p) {
				isOpMsg = true
			}
		}
	}
	if ex.String() != "0" != (len(res.Exchanges) != 0) {
		fail("model-mismatch", fmt.Sprintf("model: %s Execute calls, implementation: %d downstream calls", ex, len(res.Exchanges)), res.Body, m)
	} else if strings.HasSuffix(ans, "operationError") != isOpMsg {
		fail("model-mismatch", "model answers "+ans+", the gateway's errors are "+strings.Join(fwErrMessages(cr.Errors), "; "), res.Body, m)
	}
}

// ---- (ii) downstream error payloads --------------------------------------------------------------

func c10GenError(r *hx.Rand, tag string) map[string]interface{} {
	e := map[string]interface{}{"message": hx.Pick(r, []string{"boom", "ünï \"q\" \\ 日本\n\t", "", "<b>&amp;</b>", "e\u0000z", "𝔘𝔫𝔦"}) + " #" + tag}
	switch r.Intn(5) {
	case 0:
	case 1:
		e["extensions"] = nil
	case 2:
		e["extensions"] = map[string]interface{}{"code": "X_" + tag}
	case 3:
		e["extensions"] = map[string]interface{}{"n": map[string]interface{}{"k": []interface{}{1, "two", nil, true, map[string]interface{}{"d": 1.5}}}, "z": 0, "ü": "ü"}
	default:
		e["extensions"] = map[string]interface{}{}
	}
	switch r.Intn(5) {
	case 0:
	case 1:
		e["path"] = []interface{}{"a", 1, "b"}
	case 2:
		e["path"] = []interface{}{0}
	case 3:
		e["path"] = []interface{}{"ü", "x:0#y", 12, 0}
	default:
		e["path"] = []interface{}{}
	}
	switch r.Intn(4) {
	case 0:
		e["locations"] = []interface{}{map[string]interface{}{"line": 2, "column": 7}}
	case 1:
		e["locations"] = []interface{}{map[string]interface{}{"line": 1, "column": 1}, map[string]interface{}{"line": 30, "column": 2}}
	}
	if r.Chance(1, 6) {
		e["extra"] = "dropped by the gateway's Error struct"
	}
	return e
}

func c10ErrorsCheck(ctx *Ctx, pl *fwPool, idx int, cs c10Case) {
	fail := func(kind, detail string, impl, model interface{}) {
		fwFail(ctx, hx.Failure{Kind: kind, Detail: detail, Case: cs, Impl: impl, Model: model, Index: idx})
	}
	out, err := pl.Run(cs.fwCase)
	if err != nil {
		fail("harness-error", err.Error(), nil, nil)
		return
	}
	if out.Crash != "" || out.Timeout || out.Res.Hang || out.Res.Panic != "" {
		ctx.Rep.Case(cs.key(), true)
		fail("property-fails", "downstream errors crashed / hung the gateway: "+out.Crash+out.Res.Panic, out.Crash+out.Res.Panic, nil)
		return
	}
	res := out.Res
	if res.Err != "" {
		fail("harness-error", res.Err, nil, nil)
		return
	}
	var applied []*fed.WireExchange
	fired := map[int]bool{}
	for _, ex := range res.Exchanges {
		if len(ex.Applied) > 0 {
			applied = append(applied, ex)
			for _, a := range ex.Applied {
				fired[a] = true
			}
		}
	}
	ctx.Rep.Case(cs.key(), len(applied) > 0)
	cr := fwWellFormed(res.Status, res.Body)
	if !cr.OK {
		fail("property-fails", "response not well-formed: "+cr.Why, res.Body, nil)
		return
	}
	// oracle: each injected error of a fault that fired is in the client's errors, message / extensions / path equal
	for fi, f := range cs.Faults {
		if !fired[fi] {
			continue
		}
		for _, inj := range f.Errors {
			im, ok := inj.(map[string]interface{})
			if !ok {
				continue
			}
			found := false
			for _, c := range cr.Errors {
				cm, ok := c.(map[string]interface{})
				if !ok {
					continue
				}
				if hx.Canon(cm["message"]) != hx.Canon(im["message"]) {
					continue
				}
				ip, cp := im["path"], cm["path"]
				if l, ok := ip.([]interface{}); ok && len(l) == 0 {
					ip = nil
				}
				if hx.Canon(ip) == hx.Canon(cp) && hx.Canon(im["extensions"]) == hx.Canon(cm["extensions"]) {
					found = true
				}
			}
			if !found {
				cls := ""
				fail("property-fails", "a downstream error did not reach the client with message, extensions and path preserved: "+hx.Canon(inj)+cls,
					map[string]interface{}{"response": res.Body}, nil)
				return
			}
		}
	}
	ctx.Rep.Count("oracle: injected errors found in the client's errors")
	if ctx.Driver == nil {
		return
	}
	var want []string
	for _, ex := range applied {
		m, err := c09ModelDecode(ctx, ex)
		if err != nil {
			fail("harness-error", err.Error(), nil, nil)
			return
		}
		ctx.Rep.Traces++
		if oc, _ := m["outcome"].(string); oc != "error" {
			fail("model-mismatch", "the model does not treat the injected answer as an error: "+oc, res.Body, m)
			return
		}
		es, _ := m["errors"].([]interface{})
		for _, e := range es {
			want = append(want, hx.Canon(e))
		}
	}
	var got []string
	for _, e := range cr.Errors {
		got = append(got, hx.Canon(e))
	}
	sort.Strings(want)
	sort.Strings(got)
	if hx.Canon(want) != hx.Canon(got) {
		fail("model-mismatch", "the client's errors differ (as a multiset) from what the model forwards for the faulted exchanges", got, want)
	}
}

// ---- (iii) FormatError ---------------------------------------------------------------------------

type c10Format struct {
	Trees []map[string]interface{} `json:"trees"` // the wire form of the error values (see Driver/DFaults.lean)
}

func c10GoErr(t map[string]interface{}) error {
	switch t["t"] {
	case "list":
		var l gqlerrors.ErrorList
		for _, e := range t["es"].([]map[string]interface{}) {
			if g, ok := c10GoErr(e).(*gqlerrors.Error); ok {
				l = append(l, g)
			}
		}
		return l
	case "gql":
		if t["e"] == nil {
			return (*gqlerrors.Error)(nil)
		}
		b, _ := json.Marshal(t["e"])
		var e gqlerrors.Error
		json.Unmarshal(b, &e)
		return &e
	case "parser":
		return c10ParserErr(t)
	case "parserList":
		var l gqlerror.List
		for _, e := range t["es"].([]map[string]interface{}) {
			l = append(l, c10ParserErr(e))
		}
		return l
	case "other":
		if t["wrapped"] == true {
			return fmt.Errorf("%w", errors.New(t["msg"].(string)))
		}
		return errors.New(t["msg"].(string))
	}
	return nil
}

func c10ParserErr(t map[string]interface{}) *gqlerror.Error {
	e := &gqlerror.Error{Message: t["message"].(string)}
	if p, ok := t["path"].([]interface{}); ok {
		for _, x := range p {
			switch v := x.(type) {
			case string:
				e.Path = append(e.Path, ast.PathName(v))
			case int:
				e.Path = append(e.Path, ast.PathIndex(v))
			}
		}
	}
	if ls, ok := t["locations"].([]map[string]interface{}); ok {
		for _, l := range ls {
			e.Locations = append(e.Locations, gqlerror.Location{Line: l["line"].(int), Column: l["column"].(int)})
		}
	}
	if x, ok := t["extensions"].(map[string]interface{}); ok {
		e.Extensions = x
	}
	return e
}

func c10GenTree(r *hx.Rand, depth int) map[string]interface{} {
	gql := func() map[string]interface{} {
		if r.Chance(1, 10) {
			return map[string]interface{}{"t": "gql"}
		}
		e := c10GenError(r, fmt.Sprint(r.Intn(100)))
		delete(e, "extra")
		return map[string]interface{}{"t": "gql", "e": e}
	}
	pars := func() map[string]interface{} {
		t := map[string]interface{}{"t": "parser", "message": hx.Pick(r, []string{"Cannot query field", "ü", ""})}
		if r.Chance(1, 2) {
			t["path"] = hx.Pick(r, [][]interface{}{{"a", 1, "b"}, {0, "x"}, {"only"}, {2}, {}, {"a", "b", 3, 4}})
		}
		if r.Chance(1, 2) {
			t["locations"] = []map[string]interface{}{{"line": r.Intn(5), "column": r.Intn(5)}}
		}
		if r.Chance(1, 2) {
			t["extensions"] = hx.Pick(r, []map[string]interface{}{{"code": "GRAPHQL_VALIDATION_FAILED"}, {}, {"a": map[string]interface{}{"b": 1}}})
		}
		return t
	}
	switch r.Intn(7) {
	case 0:
		var es []map[string]interface{}
		for k := 0; k < r.Intn(4); k++ {
			es = append(es, gql())
		}
		return map[string]interface{}{"t": "list", "es": es}
	case 1:
		return gql()
	case 2:
		return pars()
	case 3:
		var es []map[string]interface{}
		for k := 0; k < r.Intn(4); k++ {
			es = append(es, pars())
		}
		return map[string]interface{}{"t": "parserList", "es": es}
	case 4:
		return map[string]interface{}{"t": "other", "msg": hx.Pick(r, []string{"plain", "ü \"x\"", ""}), "wrapped": r.Bool()}
	case 5:
		return map[string]interface{}{"t": "nil"}
	}
	return gql()
}

func c10FormatCheck(ctx *Ctx, idx int, f c10Format) {
	cs := c10Case{Format: &f}
	b, _ := json.Marshal(f)
	ctx.Rep.Case("format/"+string(b), true)
	ctx.Rep.Count("unit FormatError/ExtendErrorList")
	var got interface{}
	func() {
		defer func() {
			if p := recover(); p != nil {
				got = "panic: " + fmt.Sprint(p)
			}
		}()
		var errs gqlerrors.ErrorList
		for _, t := range f.Trees {
			errs = gqlerrors.ExtendErrorList(errs, c10GoErr(t))
		}
		out := gqlerrors.FormatError(errs)
		if out == nil {
			out = gqlerrors.ErrorList{}
		}
		jb, _ := json.Marshal(out)
		got = fwJSONOf(string(jb))
	}()
	// oracle: every *Error leaf handed in comes back unchanged
	for _, t := range f.Trees {
		var leaves []map[string]interface{}
		switch t["t"] {
		case "gql":
			leaves = append(leaves, t)
		case "list":
			leaves = append(leaves, t["es"].([]map[string]interface{})...)
		}
		for _, l := range leaves {
			if l["e"] == nil {
				continue
			}
			eb, _ := json.Marshal(l["e"])
			var e gqlerrors.Error
			json.Unmarshal(eb, &e)
			wb, _ := json.Marshal(&e)
			found := false
			if arr, ok := got.([]interface{}); ok {
				for _, g := range arr {
					if hx.Canon(g) == hx.Canon(fwJSONOf(string(wb))) {
						found = true
					}
				}
			}
			if !found {
				fwFail(ctx, hx.Failure{Kind: "property-fails", Detail: "FormatError/ExtendErrorList lost or altered an error: " + string(wb), Case: cs, Impl: got, Index: idx})
				return
			}
		}
	}
	if ctx.Driver == nil {
		return
	}
	m, err := ctx.Driver.Call(map[string]interface{}{"op": "c10.format", "trees": f.Trees})
	if err != nil {
		fwFail(ctx, hx.Failure{Kind: "harness-error", Detail: err.Error(), Case: cs, Index: idx})
		return
	}
	ctx.Rep.Traces++
	if hx.Canon(m["errors"]) != hx.Canon(got) {
		fwFail(ctx, hx.Failure{Kind: "model-mismatch", Detail: "FormatError/ExtendErrorList: result differs from Model.Errors.formatError", Case: cs, Impl: got, Model: m["errors"], Index: idx})
	}
}

// ---- run -----------------------------------------------------------------------------------------

func runC10(ctx *Ctx) error {
	ctx.Rep.Rule = "case = (i) a generated valid operation broken by one mutator, sent through the real gateway over fake services (alone, or in a client batch " +
		"next to a valid operation); (ii) a generated operation with generated GraphQL error payloads injected into downstream answers (errors / errors+data, " +
		"one or two responses of a batch, root and child steps, batch sizes 3000/1/2); (iii) a generated list of Go error values through " +
		"ExtendErrorList/FormatError. distinct = distinct tuple; non-trivial = (i),(iii) always, (ii) at least one injected payload was actually delivered"
	pl := &fwPool{}
	defer pl.stop()
	idx := 0
	// corpus: two responses of one downstream batch carry errors (before repo_fixes/faults-3 only the first was reported)
	{
		e := func(m string) []interface{} { return []interface{}{map[string]interface{}{"message": m}} }
		cs := c10Case{fwCase: fwCase{Custom: "twosvc", Query: "{ tops { a items { v } w { n } } top { items { v } } }"}, Note: "two responses of one batch with errors"}
		cs.Faults = []fed.WireFault{{Service: 1, HTTPCall: 0, Position: 0, Kind: "errors", Errors: e("boom0 #a")}, {Service: 1, HTTPCall: 0, Position: 1, Kind: "errors", Errors: e("boom1 #b")}}
		c10ErrorsCheck(ctx, pl, idx, cs)
		idx++
	}
	// (iii)
	nFmt := 3000
	if ctx.Thorough() {
		nFmt = 60000
	}
	for k := 0; k < nFmt; k++ {
		r := ctx.Rand.Fork()
		var f c10Format
		for j := 0; j < r.Range(1, 3); j++ {
			f.Trees = append(f.Trees, c10GenTree(r, 0))
		}
		if k == 0 {
			ctx.Rep.Sample(f)
		}
		c10FormatCheck(ctx, idx, f)
		idx++
	}
	nOps := 220
	if ctx.Thorough() {
		nOps = 4000
	}
	ops, tries := 0, 0
	for ops < nOps && tries < nOps*20 {
		tries++
		seed := ctx.Rand.U64()
		proto := fwCase{FedSeed: seed, Abstract: tries%4 == 0}
		f, r, err := fwBuild(proto)
		if err != nil {
			continue
		}
		mr, err := f.Merged()
		if err != nil {
			continue
		}
		op := fed.GenOp(r, mr.Schema, f.Data, "query", fed.SafeOps())
		if op == nil {
			continue
		}
		proto.Query, proto.Variables, proto.OpName = op.Query, op.Variables, op.OpName
		base, why := c09Baseline(ctx, pl, proto)
		if base == nil {
			ctx.Rep.Count("skipped: " + why)
			continue
		}
		ops++
		// the valid operation itself: the model executes, the gateway calls downstream
		if ctx.Driver != nil {
			if m, err := ctx.Driver.Call(map[string]interface{}{"op": "c10.flow", "valid": true, "operationFound": true, "planOk": true, "introspection": false}); err == nil {
				ctx.Rep.Traces++
				if ex, _ := m["executes"].(json.Number); (ex.String() == "1") != (len(base.Exchanges) > 0) {
					fwFail(ctx, hx.Failure{Kind: "model-mismatch", Detail: "valid operation: model Execute calls vs downstream calls disagree", Case: c10Case{fwCase: proto}, Model: m, Index: idx})
				}
			}
		}
		// (i)
		for _, how := range c10Mutations {
			q, on, ok := c10Mutate(r.Fork(), mr.Schema, op, how)
			if !ok {
				ctx.Rep.Count("mutator not applicable: " + how)
				continue
			}
			if how != "unknown-operation-name" && how != "two-operations-no-name" {
				if _, gerr := gqlparser.LoadQuery(mr.Schema, q); gerr == nil {
					ctx.Rep.Count("mutator left the operation valid: " + how)
					continue
				}
			}
			cs := c10Case{fwCase: proto, Mutation: how}
			cs.Query, cs.OpName = q, on
			if ops <= 2 && how == "unknown-field" {
				ctx.Rep.Sample(map[string]interface{}{"mutation": how, "query": q, "from": op.Query})
			}
			c10InvalidCheck(ctx, pl, idx, cs)
			idx++
			if r.Chance(1, 3) {
				body, _ := json.Marshal([]interface{}{
					map[string]interface{}{"query": op.Query, "variables": op.Variables, "operationName": op.OpName},
					map[string]interface{}{"query": q, "variables": op.Variables, "operationName": on}})
				bc := cs
				bc.RawBody = string(body)
				v := proto
				bc.ValidOp = &v
				c10InvalidCheck(ctx, pl, idx, bc)
				idx++
			}
		}
		// introspection: answered by the gateway alone (model: introspection outcome)
		{
			cs := c10Case{fwCase: proto}
			cs.Query, cs.Variables, cs.OpName = "{ __schema { queryType { name } } }", nil, nil
			out, err := pl.Run(cs.fwCase)
			if err == nil && out.Crash == "" && ctx.Driver != nil {
				if m, err := ctx.Driver.Call(map[string]interface{}{"op": "c10.flow", "valid": true, "operationFound": true, "planOk": true, "introspection": true}); err == nil {
					ctx.Rep.Traces++
					ex, _ := m["executes"].(json.Number)
					if (ex.String() != "0") != (len(out.Res.Exchanges) != 0) {
						fwFail(ctx, hx.Failure{Kind: "model-mismatch", Detail: "introspection: model Execute calls vs downstream calls disagree", Case: cs, Impl: out.Res.Body, Model: m, Index: idx})
					}
				}
				ctx.Rep.Case(cs.key(), true)
				ctx.Rep.Count("introspection operation (no downstream call)")
			}
		}
		// (ii)
		maxN := 0
		for _, ex := range base.Exchanges {
			if ex.N > maxN {
				maxN = ex.N
			}
		}
		variants := []int{0}
		if maxN >= 2 {
			variants = append(variants, 1)
		}
		for _, mb := range variants {
			v := proto
			v.MaxBatch = mb
			vb := base
			if mb != 0 {
				vb, _ = c09Baseline(ctx, pl, v)
				if vb == nil {
					continue
				}
			}
			tag := 0
			for _, ex := range vb.Exchanges {
				for p := 0; p < ex.N; p++ {
					for _, kind := range []string{"errors", "errors+data"} {
						if kind == "errors+data" && !r.Chance(1, 3) {
							continue
						}
						cs := c10Case{fwCase: v}
						var es []interface{}
						for k := 0; k < r.Range(1, 3); k++ {
							es = append(es, c10GenError(r, fmt.Sprintf("%d", tag)))
							tag++
						}
						cs.Faults = []fed.WireFault{{Service: ex.Service, HTTPCall: ex.HTTPCall, Position: p, Kind: kind, Errors: es}}
						step := "root"
						if p < len(ex.Queries) && fwIsChildQuery(ex.Queries[p]) {
							step = "child"
						}
						ctx.Rep.Count(fmt.Sprintf("errors payload | %s step | position %s | %d error(s)", step, fwPosClass(p, ex.N), len(es)))
						if tag < 4 && ops <= 2 {
							ctx.Rep.Sample(map[string]interface{}{"query": v.Query, "fault": cs.Faults[0]})
						}
						c10ErrorsCheck(ctx, pl, idx, cs)
						idx++
					}
				}
				// two (or all) responses of one batch carry errors
				if ex.N >= 2 {
					cs := c10Case{fwCase: v, Note: "several responses of one downstream batch carry errors"}
					for p := 0; p < ex.N; p++ {
						if p < 2 || r.Bool() {
							cs.Faults = append(cs.Faults, fed.WireFault{Service: ex.Service, HTTPCall: ex.HTTPCall, Position: p, Kind: "errors",
								Errors: []interface{}{c10GenError(r, fmt.Sprintf("%d", tag))}})
							tag++
						}
					}
					ctx.Rep.Count(fmt.Sprintf("errors payload | %d responses of one batch", len(cs.Faults)))
					c10ErrorsCheck(ctx, pl, idx, cs)
					idx++
				}
			}
			// errors in two different services at the same time
			if len(vb.Exchanges) >= 2 {
				a, b := vb.Exchanges[0], vb.Exchanges[len(vb.Exchanges)-1]
				if a.Service != b.Service {
					cs := c10Case{fwCase: v, Note: "errors from two services"}
					cs.Faults = []fed.WireFault{
						{Service: a.Service, HTTPCall: a.HTTPCall, Position: 0, Kind: "errors", Errors: []interface{}{c10GenError(r, "A")}},
						{Service: b.Service, HTTPCall: b.HTTPCall, Position: 0, Kind: "errors", Errors: []interface{}{c10GenError(r, "B")}}}
					ctx.Rep.Count("errors payload | two services")
					c10ErrorsCheck(ctx, pl, idx, cs)
					idx++
				}
			}
		}
	}
	ctx.Rep.Note(fmt.Sprintf("child worker: %d runs, %d crashes", pl.Runs, pl.Crashes))
	return nil
}
