package main

import (
	"bytes"
	"context"
	"encoding/json"
	"fmt"
	"io"
	"net/http"
	"sort"
	"strconv"
	"strings"
	"sync"
	"time"

	"github.com/buildbuildio/pebbles/queryer"
	"github.com/buildbuildio/pebbles/requests"
	"verif/harness/hx"
)

func init() {
	register("C11", runC11)
	registerReplay("C11", func(ctx *Ctx, raw json.RawMessage) error {
		var cs c11Case
		if err := json.Unmarshal(raw, &cs); err != nil {
			return err
		}
		for k := 0; k < 25; k++ { // schedule-dependent: repeat
			c11Check(ctx, k, cs)
		}
		return nil
	})
}

type c11Case struct {
	N     int   `json:"n"`
	M     int   `json:"m"`
	Order []int `json:"release_order"`  // permutation applied to the arrived calls
	Fail  []int `json:"fail"`           // request indices whose call answers 500
	Wire  int   `json:"wire,omitempty"` // shape of a SUCCESSFUL answer: 0 {data}; 1 {data, errors: []}; 2 {data, errors: null}; 3 {data, extensions: {}}
}

type c11Obs struct {
	Calls   [][]int `json:"calls"` // request indices per HTTP call (sorted by first index)
	Outcome string  `json:"outcome"`
	Result  []int   `json:"result,omitempty"`
	Err     string  `json:"err,omitempty"`
}

// gateRT is an http.RoundTripper that records each call, holds it, and releases the held
// calls in a chosen order once the expected number has arrived (or arrivals went quiet).
type gateRT struct {
	mu      sync.Mutex
	calls   [][]int
	waiters []chan struct{}
	fail    map[int]bool
	wire    int
}

func (g *gateRT) RoundTrip(r *http.Request) (*http.Response, error) {
	if err := r.Context().Err(); err != nil {
		return nil, err // like a real transport: a request whose context has ended is not sent
	}
	body, _ := io.ReadAll(r.Body)
	var reqs []struct {
		Query string `json:"query"`
	}
	json.Unmarshal(body, &reqs)
	idxs := make([]int, len(reqs))
	bad := false
	for i, q := range reqs {
		n, _ := strconv.Atoi(strings.TrimPrefix(q.Query, "q"))
		idxs[i] = n
		if g.fail[n] {
			bad = true
		}
	}
	ch := make(chan struct{})
	g.mu.Lock()
	g.calls = append(g.calls, idxs)
	g.waiters = append(g.waiters, ch)
	g.mu.Unlock()
	<-ch
	if bad && g.wire == 7 {
		// the service received the call; the connection broke before any byte of the answer
		return nil, io.EOF
	}
	if bad {
		body := "boom"
		if g.wire%2 == 1 {
			// a failed call may still carry a well-formed answer list: it is a failure all the same
			out := make([]map[string]interface{}, len(idxs))
			for i, n := range idxs {
				out[i] = map[string]interface{}{"data": map[string]interface{}{"v": n + 1000}}
			}
			b, _ := json.Marshal(out)
			body = string(b)
		}
		return &http.Response{StatusCode: []int{500, 502, 404, 429}[g.wire%4], Body: io.NopCloser(strings.NewReader(body)), Header: http.Header{"Content-Type": []string{"application/json"}}}, nil
	}
	out := make([]map[string]interface{}, len(idxs))
	for i, n := range idxs {
		out[i] = map[string]interface{}{"data": map[string]interface{}{"v": n + 1000}}
		switch g.wire % 4 {
		case 1:
			out[i]["errors"] = []interface{}{}
		case 2:
			out[i]["errors"] = nil
		case 3:
			out[i]["extensions"] = map[string]interface{}{}
		}
	}
	b, _ := json.Marshal(out)
	return &http.Response{StatusCode: 200, Body: io.NopCloser(bytes.NewReader(b)), Header: http.Header{"Content-Type": []string{"application/json"}}}, nil
}

func c11Run(cs c11Case) (obs c11Obs) {
	g := &gateRT{fail: map[int]bool{}, wire: cs.Wire}
	for _, f := range cs.Fail {
		g.fail[f] = true
	}
	q := queryer.NewMultiOpQueryer("http://svc/", cs.M).WithHTTPClient(&http.Client{Transport: g})
	inputs := make([]*requests.Request, cs.N)
	for i := range inputs {
		inputs[i] = &requests.Request{Query: "q" + strconv.Itoa(i)}
	}
	expected := 1
	if cs.M > 0 && cs.N > cs.M {
		expected = (cs.N + cs.M - 1) / cs.M
	}
	if cs.N == 0 {
		expected = 0
	}
	type ret struct {
		res []map[string]interface{}
		err error
		pan string
	}
	done := make(chan ret, 1)
	go func() {
		var r ret
		defer func() {
			if p := recover(); p != nil {
				r.pan = fmt.Sprint(p)
			}
			done <- r
		}()
		r.res, r.err = q.Query(inputs)
	}()
	// coordinator: wait for the expected arrivals (or quiet), release in the chosen order
	released := 0
	deadline := time.Now().Add(5 * time.Second)
	var r ret
	finished := false
	for !finished {
		// wait for arrivals to reach expectation or go quiet
		last, quiet := -1, 0
		for {
			g.mu.Lock()
			n := len(g.waiters)
			g.mu.Unlock()
			select {
			case r = <-done:
				finished = true
			default:
			}
			if finished || n-released >= expected-released && n > released {
				break
			}
			if n == last {
				quiet++
			} else {
				quiet = 0
			}
			last = n
			if quiet > 60 && n > released { // ~3ms without new arrivals
				break
			}
			if time.Now().After(deadline) {
				obs.Outcome = "hang"
				return
			}
			time.Sleep(50 * time.Microsecond)
		}
		if finished {
			break
		}
		g.mu.Lock()
		pending := g.waiters[released:]
		g.mu.Unlock()
		// release pending calls in the order given by cs.Order (restricted to the pending ones)
		ord := make([]int, 0, len(pending))
		for _, o := range cs.Order {
			if o < len(pending) {
				ord = append(ord, o)
			}
		}
		seen := map[int]bool{}
		for _, o := range ord {
			seen[o] = true
		}
		for i := range pending {
			if !seen[i] {
				ord = append(ord, i)
			}
		}
		for _, o := range ord {
			close(pending[o])
			time.Sleep(150 * time.Microsecond)
		}
		released += len(pending)
	}
	g.mu.Lock()
	obs.Calls = append([][]int(nil), g.calls...)
	g.mu.Unlock()
	sort.Slice(obs.Calls, func(i, j int) bool {
		a, b := obs.Calls[i], obs.Calls[j]
		if len(a) == 0 || len(b) == 0 {
			return len(a) < len(b)
		}
		return a[0] < b[0]
	})
	switch {
	case r.pan != "":
		obs.Outcome, obs.Err = "panic", r.pan
	case r.err != nil:
		obs.Outcome, obs.Err = "error", r.err.Error()
		if r.res != nil {
			obs.Outcome = "error+partial"
		}
	default:
		obs.Outcome = "ok"
		for _, m := range r.res {
			v := -1
			if m != nil {
				if f, ok := m["v"].(float64); ok {
					v = int(f)
				}
			}
			obs.Result = append(obs.Result, v)
		}
	}
	return
}

func c11Oracle(cs c11Case, o c11Obs) string {
	if o.Outcome == "hang" || o.Outcome == "panic" {
		return "Query " + o.Outcome + ": " + o.Err
	}
	count := make([]int, cs.N)
	for _, c := range o.Calls {
		if len(c) > cs.M {
			return fmt.Sprintf("a call carries %d requests, max batch size is %d", len(c), cs.M)
		}
		if len(c) == 0 {
			return "an HTTP call with an empty batch was made"
		}
		for _, j := range c {
			if j < 0 || j >= cs.N {
				return "unknown request in a call"
			}
			count[j]++
		}
	}
	for j, c := range count {
		if c != 1 {
			return fmt.Sprintf("request %d was sent in %d calls", j, c)
		}
	}
	if len(cs.Fail) > 0 {
		if o.Outcome != "error" {
			return "a call failed but Query returned " + o.Outcome
		}
		return ""
	}
	if o.Outcome != "ok" {
		return "no call failed but Query returned " + o.Outcome + ": " + o.Err
	}
	if len(o.Result) != cs.N {
		return fmt.Sprintf("%d results for %d requests", len(o.Result), cs.N)
	}
	for j, v := range o.Result {
		if v != j+1000 {
			return fmt.Sprintf("result %d answers request %d", j, v-1000)
		}
	}
	return ""
}

var c11Hung bool

func c11Check(ctx *Ctx, idx int, cs c11Case) {
	if c11Hung {
		return // a hang was already found: every further call would leak goroutines and time
	}
	o := c11Run(cs)
	if o.Outcome == "hang" {
		c11Hung = true
	}
	ctx.Rep.Case(fmt.Sprintf("%d/%d/%v/%v", cs.N, cs.M, cs.Order, cs.Fail), cs.N > cs.M && cs.M >= 1)
	switch {
	case cs.N <= cs.M:
		ctx.Rep.Count("direct")
	case cs.M > 0 && cs.N%cs.M == 0:
		ctx.Rep.Count("chunked,N=k*m (empty tail chunk)")
	default:
		ctx.Rep.Count("chunked")
	}
	if len(cs.Fail) > 0 {
		ctx.Rep.Count("with failing call")
	}
	if cs.Wire != 0 {
		ctx.Rep.Count(fmt.Sprintf("wire=%d", cs.Wire))
	}
	if cs.N > cs.M {
		ctx.Rep.Sample(map[string]interface{}{"case": cs, "calls": o.Calls, "outcome": o.Outcome})
	}
	if cs.M >= 1 {
		if msg := c11Oracle(cs, o); msg != "" {
			ctx.Rep.Fail(hx.Failure{Kind: "property-fails", Detail: msg, Case: cs, Impl: o, Index: idx})
			return
		}
	}
	if ctx.Driver == nil {
		return
	}
	// model: reducer order = release order over chunk indices (chunks arrive in index order of calls)
	res, err := ctx.Driver.Call(map[string]interface{}{"op": "c11.query", "n": cs.N, "m": cs.M, "order": c11ModelOrder(cs), "fail": cs.Fail})
	if err != nil {
		ctx.Rep.Fail(hx.Failure{Kind: "harness-error", Detail: err.Error(), Case: cs, Index: idx})
		return
	}
	ctx.Rep.Traces++
	mOutcome, _ := res["outcome"].(string)
	var mCalls [][]int
	if arr, ok := res["chunks"].([]interface{}); ok {
		for _, c := range arr {
			ci := hx.NumInts(c)
			if len(ci) > 0 { // an empty chunk makes no HTTP call (C11_no_empty_call)
				mCalls = append(mCalls, ci)
			}
		}
	}
	if mOutcome != o.Outcome || (mOutcome != "panic" && hx.Canon(mCalls) != hx.Canon(o.Calls)) ||
		(mOutcome == "ok" && !hx.EqInts(hx.NumInts(res["result"]), o.Result)) {
		ctx.Rep.Fail(hx.Failure{Kind: "model-mismatch", Detail: "calls/outcome/result differ between MultiOpQueryer.Query and Model.Chunk.query", Case: cs, Impl: o, Model: res, Index: idx})
	}
}

// all chunk indices, in the release order first, then the rest (e.g. the empty tail chunk)
func c11ModelOrder(cs c11Case) []int {
	k := 0
	if cs.M > 0 {
		k = cs.N/cs.M + 2
	}
	var ord []int
	seen := map[int]bool{}
	for _, o := range cs.Order {
		if o < k && !seen[o] {
			ord = append(ord, o)
			seen[o] = true
		}
	}
	for i := 0; i < k; i++ {
		if !seen[i] {
			ord = append(ord, i)
		}
	}
	// the model ignores indices ≥ numChunks? no: keep only valid ones
	valid := ord[:0]
	for _, o := range ord {
		if cs.M > 0 && o <= cs.N/cs.M {
			valid = append(valid, o)
		}
	}
	return valid
}

func permutations(n int) [][]int {
	if n == 0 {
		return [][]int{{}}
	}
	var out [][]int
	for _, p := range permutations(n - 1) {
		for pos := 0; pos <= len(p); pos++ {
			q := append(append(append([]int{}, p[:pos]...), n-1), p[pos:]...)
			out = append(out, q)
		}
	}
	return out
}

// plainRT answers every call at once (no gating) and honours the request context.
type plainRT struct {
	mu    sync.Mutex
	calls int
	fail  bool
}

func (p *plainRT) RoundTrip(r *http.Request) (*http.Response, error) {
	if err := r.Context().Err(); err != nil {
		return nil, err
	}
	body, _ := io.ReadAll(r.Body)
	var reqs []struct {
		Query string `json:"query"`
	}
	json.Unmarshal(body, &reqs)
	p.mu.Lock()
	p.calls++
	p.mu.Unlock()
	if p.fail {
		return &http.Response{StatusCode: 503, Body: io.NopCloser(strings.NewReader("down")), Header: http.Header{}}, nil
	}
	out := make([]map[string]interface{}, len(reqs))
	for i, q := range reqs {
		n, _ := strconv.Atoi(strings.TrimPrefix(q.Query, "q"))
		out[i] = map[string]interface{}{"data": map[string]interface{}{"v": n + 1000}}
	}
	b, _ := json.Marshal(out)
	return &http.Response{StatusCode: 200, Body: io.NopCloser(bytes.NewReader(b)), Header: http.Header{"Content-Type": []string{"application/json"}}}, nil
}

// c11Sequence: ONE queryer serves several Query calls in a row (as a long-lived queryer does):
// each call is judged alone — in particular a chunked call must leave nothing behind that makes
// the next call fail. `failFirst`: the service is down during the first call only.
func c11Sequence(ctx *Ctx, idx int, m int, sizes []int, failFirst bool) {
	rt := &plainRT{}
	q := queryer.NewMultiOpQueryer("http://svc/", m).WithContext(context.Background()).WithHTTPClient(&http.Client{Transport: rt})
	cs := map[string]interface{}{"kind": "sequence on one queryer", "m": m, "sizes": sizes, "fail_first": failFirst}
	ctx.Rep.Case(hx.Canon(cs), true)
	ctx.Rep.Count("sequence of Query calls on one queryer")
	for k, n := range sizes {
		rt.fail = failFirst && k == 0
		inputs := make([]*requests.Request, n)
		for i := range inputs {
			inputs[i] = &requests.Request{Query: "q" + strconv.Itoa(i)}
		}
		type ret struct {
			res []map[string]interface{}
			err error
			pan string
		}
		done := make(chan ret, 1)
		go func() {
			var r ret
			defer func() {
				if p := recover(); p != nil {
					r.pan = fmt.Sprint(p)
				}
				done <- r
			}()
			r.res, r.err = q.Query(inputs)
		}()
		var r ret
		select {
		case r = <-done:
		case <-time.After(5 * time.Second):
			ctx.Rep.Fail(hx.Failure{Kind: "property-fails", Detail: fmt.Sprintf("call %d of a sequence on one queryer (N=%d, m=%d) did not return (hang)", k, n, m), Case: cs, Index: idx})
			return
		}
		switch {
		case r.pan != "":
			ctx.Rep.Fail(hx.Failure{Kind: "property-fails", Detail: fmt.Sprintf("call %d of a sequence on one queryer panicked: %s", k, r.pan), Case: cs, Index: idx})
			return
		case rt.fail:
			if r.err == nil {
				ctx.Rep.Fail(hx.Failure{Kind: "property-fails", Detail: fmt.Sprintf("call %d: every HTTP call failed but Query returned ok", k), Case: cs, Index: idx})
				return
			}
		case r.err != nil:
			ctx.Rep.Fail(hx.Failure{Kind: "property-fails", Detail: fmt.Sprintf("call %d of a sequence on one queryer (N=%d, m=%d): no HTTP call failed but Query returned error: %v", k, n, m, r.err), Case: cs, Index: idx})
			return
		default:
			for i := range inputs {
				if i >= len(r.res) || r.res[i] == nil || fmt.Sprint(r.res[i]["v"]) != strconv.Itoa(i+1000) {
					ctx.Rep.Fail(hx.Failure{Kind: "property-fails", Detail: fmt.Sprintf("call %d of a sequence on one queryer: result %d is not the answer to request %d", k, i, i), Case: cs, Index: idx})
					return
				}
			}
		}
	}
}

func runC11(ctx *Ctx) error {
	ctx.Rep.Rule = "case = (N requests, max batch m, release order of the concurrent HTTP calls, failing requests, wire shape of successful answers: errors absent / [] / null / extensions; failed calls: 5xx/4xx with text or a well-formed body, or EOF after the service received the call), plus sequences of calls on ONE queryer through the real MultiOpQueryer.Query " +
		"over a gating RoundTripper; distinct = distinct tuple; non-trivial = chunked path (N > m)"
	idx := 0
	// corpus
	for _, cs := range []c11Case{{0, 1, nil, nil, 0}, {1, 1, nil, nil, 0}, {2, 1, []int{1, 0}, nil, 0}, {6, 3, []int{1, 0}, nil, 0}, {7, 3, []int{2, 0, 1}, nil, 0},
		{6, 3, []int{1, 0}, []int{4}, 0}, {5, 0, nil, nil, 0}, {0, 0, nil, nil, 0}, {3, 5, nil, []int{1}, 0},
		{1, 1, nil, nil, 1}, {7, 3, []int{2, 0, 1}, nil, 1}, {7, 3, []int{0, 1, 2}, nil, 2}, {5, 2, []int{2, 1, 0}, nil, 3}, {4, 0, nil, nil, 1}} {
		c11Check(ctx, idx, cs)
		idx++
	}
	// one queryer, several calls; and a service that is down for a call with many chunks
	for _, sq := range []struct {
		m     int
		sizes []int
		fail  bool
	}{{3, []int{7, 2, 7}, false}, {2, []int{5, 5}, false}, {1, []int{3, 1, 4}, false}, {2, []int{12, 3}, true}, {2, []int{20}, true}, {4, []int{9, 9, 1}, true}} {
		c11Sequence(ctx, idx, sq.m, sq.sizes, sq.fail)
		idx++
	}
	// plain requests and uploads in one list: every placement of up to two uploads in short lists, random beyond
	for n := 1; n <= 5; n++ {
		for a := 0; a < n; a++ {
			for _, m := range []int{1, 2, 3, 8} {
				c11Mixed(ctx, idx, n, m, []int{a})
				idx++
				for b := a + 1; b < n; b++ {
					c11Mixed(ctx, idx, n, m, []int{a, b})
					idx++
				}
			}
		}
	}
	for k := 0; k < 40*ctx.Budget; k++ {
		r := ctx.Rand.Fork()
		n := r.Range(2, 14)
		var ups []int
		for i := 0; i < n; i++ {
			if r.Chance(1, 4) {
				ups = append(ups, i)
			}
		}
		c11Mixed(ctx, idx, n, r.Range(1, 6), ups)
		idx++
	}
	maxN, maxM := 24, 8
	if ctx.Thorough() {
		maxN, maxM = 60, 16
	}
	// grid with all completion orders for <= 4 chunks (quick) / <= 5 (thorough), boundary emphasis
	maxPerm := 4
	if ctx.Thorough() {
		maxPerm = 5
	}
	for m := 1; m <= maxM; m++ {
		for N := 0; N <= maxN; N++ {
			chunks := (N + m - 1) / m
			if N <= m {
				c11Check(ctx, idx, c11Case{N, m, nil, nil, idx % 4})
				idx++
				continue
			}
			boundary := N%m == 0 || N%m == 1 || N%m == m-1
			if chunks <= maxPerm && (boundary || ctx.Thorough() || N < 12) {
				for _, p := range permutations(chunks) {
					c11Check(ctx, idx, c11Case{N, m, p, nil, idx % 4})
					idx++
				}
			} else if boundary || ctx.Rand.Chance(1, 3) {
				c11Check(ctx, idx, c11Case{N, m, ctx.Rand.Fork().Perm(chunks), nil, idx % 4})
				idx++
			}
		}
	}
	// random cases with failures
	cases := 150 * ctx.Budget
	for k := 0; k < cases; k++ {
		r := ctx.Rand.Fork()
		m := r.Range(1, maxM)
		N := r.Range(0, maxN)
		cs := c11Case{N: N, M: m, Order: r.Perm((N + m - 1) / m), Wire: r.Intn(8)}
		if N > 0 && r.Chance(1, 2) {
			for f := 0; f < r.Range(1, 2); f++ {
				cs.Fail = append(cs.Fail, r.Intn(N))
			}
			sort.Ints(cs.Fail)
		}
		c11Check(ctx, idx, cs)
		idx++
	}
	return nil
}

// ---- lists that mix plain requests and requests carrying a file -------------------------------------
// queryBatch sends a request with an upload in a multipart call of its own and batches the others;
// the statement holds for such a list like for any other: N results, result i answers request i,
// every request in exactly one HTTP call, at most m plain requests per call.

type mixedRT struct {
	mu    sync.Mutex
	seen  map[string]int // query -> number of HTTP calls that carried it
	sizes []int          // plain requests per JSON call
}

func (p *mixedRT) answer(q string) map[string]interface{} {
	n, _ := strconv.Atoi(strings.TrimPrefix(strings.TrimPrefix(q, "u"), "q"))
	return map[string]interface{}{"data": map[string]interface{}{"v": n + 1000}}
}

func (p *mixedRT) RoundTrip(r *http.Request) (*http.Response, error) {
	if err := r.Context().Err(); err != nil {
		return nil, err
	}
	var out interface{}
	if strings.HasPrefix(r.Header.Get("Content-Type"), "multipart/form-data") {
		if err := r.ParseMultipartForm(1 << 20); err != nil {
			return nil, err
		}
		var one struct {
			Query string `json:"query"`
		}
		json.Unmarshal([]byte(r.FormValue("operations")), &one)
		p.mu.Lock()
		p.seen[one.Query]++
		p.mu.Unlock()
		out = p.answer(one.Query)
	} else {
		body, _ := io.ReadAll(r.Body)
		var reqs []struct {
			Query string `json:"query"`
		}
		json.Unmarshal(body, &reqs)
		arr := make([]map[string]interface{}, len(reqs))
		p.mu.Lock()
		p.sizes = append(p.sizes, len(reqs))
		for i, q := range reqs {
			p.seen[q.Query]++
			arr[i] = p.answer(q.Query)
		}
		p.mu.Unlock()
		out = arr
	}
	b, _ := json.Marshal(out)
	return &http.Response{StatusCode: 200, Body: io.NopCloser(bytes.NewReader(b)), Header: http.Header{"Content-Type": []string{"application/json"}}}, nil
}

func c11Mixed(ctx *Ctx, idx, n, m int, uploadAt []int) {
	rt := &mixedRT{seen: map[string]int{}}
	q := queryer.NewMultiOpQueryer("http://svc/", m).WithContext(context.Background()).WithHTTPClient(&http.Client{Transport: rt})
	cs := map[string]interface{}{"kind": "plain requests and requests with a file in one list", "n": n, "m": m, "upload_at": uploadAt}
	isUp := map[int]bool{}
	for _, u := range uploadAt {
		isUp[u] = true
	}
	ctx.Rep.Case(hx.Canon(cs), len(uploadAt) > 0 && len(uploadAt) < n)
	ctx.Rep.Count("list mixing plain requests and uploads")
	inputs := make([]*requests.Request, n)
	for i := range inputs {
		if isUp[i] {
			inputs[i] = &requests.Request{Query: "u" + strconv.Itoa(i), Variables: map[string]interface{}{
				"file": &requests.Upload{File: io.NopCloser(strings.NewReader("bytes of file " + strconv.Itoa(i))), FileName: fmt.Sprintf("f%d.txt", i)}}}
		} else {
			inputs[i] = &requests.Request{Query: "q" + strconv.Itoa(i)}
		}
	}
	type ret struct {
		res []map[string]interface{}
		err error
		pan string
	}
	done := make(chan ret, 1)
	go func() {
		var r ret
		defer func() {
			if p := recover(); p != nil {
				r.pan = fmt.Sprint(p)
			}
			done <- r
		}()
		r.res, r.err = q.Query(inputs)
	}()
	var r ret
	select {
	case r = <-done:
	case <-time.After(5 * time.Second):
		ctx.Rep.Fail(hx.Failure{Kind: "property-fails", Detail: "Query over a list mixing plain requests and uploads did not return (hang)", Case: cs, Index: idx})
		return
	}
	fail := func(msg string) {
		ctx.Rep.Fail(hx.Failure{Kind: "property-fails", Detail: msg, Case: cs, Impl: map[string]interface{}{"result": r.res, "error": fmt.Sprint(r.err), "json_call_sizes": rt.sizes}, Index: idx})
	}
	switch {
	case r.pan != "":
		fail("Query over a list mixing plain requests and uploads panicked: " + r.pan)
	case r.err != nil:
		fail(fmt.Sprintf("no HTTP call failed but Query returned error: %v", r.err))
	case len(r.res) != n:
		fail(fmt.Sprintf("%d results for %d requests", len(r.res), n))
	default:
		for i := range inputs {
			if r.res[i] == nil || fmt.Sprint(r.res[i]["v"]) != strconv.Itoa(i+1000) {
				fail(fmt.Sprintf("result %d is not the answer to request %d (uploads at %v)", i, i, uploadAt))
				return
			}
			if c := rt.seen[inputs[i].Query]; c != 1 {
				fail(fmt.Sprintf("request %d was carried by %d HTTP calls, want exactly 1", i, c))
				return
			}
		}
		for _, s := range rt.sizes {
			if s > m {
				fail(fmt.Sprintf("an HTTP call carried %d requests, the maximum batch size is %d", s, m))
				return
			}
		}
	}
}
