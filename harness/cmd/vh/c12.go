package main

// C12 — downstream round trips are bounded by plan shape; identical lookups are sent once.
//
// Two streams, both against the REAL code:
//
//  A. stage level — executor.(*DepthExecutor).executeRequests (through the `verif` hook
//     executor.VerifExecuteRequests) on generated request lists: repeated ids (also ids that
//     contain `[`, `]`, `!`, digits, spaces, or that end like a rendered hash), mixed plan steps
//     (root / non-root, with / without further variables), the id-hint function on/off, empty ids,
//     downstream answers of the right / wrong length. A recording queryer shows the batch.
//       property oracle (from the statement): among requests whose only variable is `id`, the
//         same (query, id) is sent once; every non-skipped request is covered; every slot is
//         filled with the answer to ITS (query, variables) — fan-out; a skipped slot is {node:nil};
//       correspondence: batch, index map and per-slot source position == Model.IndexMap
//         (driver op c12.imap).
//  B. end to end — generated federations over data with REPEATED entities and result lists of
//     0..200 elements behind the real gateway: per client operation the HTTP calls per service
//     are counted by the fake services and compared with the number of plan levels at which the
//     service appears (plan from the real SequentialPlanner); inside one HTTP call identical
//     (query, id) lookups must not repeat; the response must equal the reference evaluator's;
//     the bound is also computed by Model.ExecLevels (driver op c12.levels).

import (
	"crypto/sha256"
	"encoding/json"
	"fmt"
	"os"
	"sort"
	"strings"

	pebbles "github.com/buildbuildio/pebbles"
	"github.com/buildbuildio/pebbles/executor"
	"github.com/buildbuildio/pebbles/planner"
	"github.com/buildbuildio/pebbles/queryer"
	"github.com/buildbuildio/pebbles/requests"
	"github.com/vektah/gqlparser/v2"
	"github.com/vektah/gqlparser/v2/ast"

	"verif/harness/fed"
	"verif/harness/hx"
)

func init() {
	register("C12", runC12)
	registerReplay("C12", func(ctx *Ctx, raw json.RawMessage) error {
		var probe struct {
			Stream string `json:"stream"`
		}
		if err := json.Unmarshal(raw, &probe); err != nil {
			return err
		}
		if probe.Stream == "e2e" {
			var cs c12E2E
			if err := json.Unmarshal(raw, &cs); err != nil {
				return err
			}
			cs.keepSingleLevel = 1
			c12CheckE2E(ctx, 0, &cs)
			return nil
		}
		var cs c12Stage
		if err := json.Unmarshal(raw, &cs); err != nil {
			return err
		}
		c12CheckStage(ctx, 0, &cs)
		return nil
	})
}

// ---------------------------------------------------------------------------------------------
// A. stage level

type c12Step struct {
	ParentType string   `json:"parentType"`
	Query      string   `json:"query"`
	VarList    []string `json:"variablesList,omitempty"`
}

type c12Req struct {
	Step  int     `json:"step"`
	ID    *string `json:"id"` // nil = empty insertion point (root request)
	Index int     `json:"list_index"`
}

type c12Stage struct {
	Stream  string                 `json:"stream"`
	Steps   []c12Step              `json:"steps"`
	Reqs    []c12Req               `json:"reqs"`
	Vars    map[string]interface{} `json:"variables,omitempty"` // the client request's variables
	HintOn  bool                   `json:"hint_on"`
	Hint    map[string]string      `json:"hint,omitempty"` // id → parent type (absent: function answers false)
	Down    string                 `json:"down"`           // ok | short | long | error
	Comment string                 `json:"comment,omitempty"`
}

type c12RecQ struct {
	url   string
	down  string
	calls [][]*requests.Request
}

func (q *c12RecQ) URL() string { return q.url }
func (q *c12RecQ) Subscribe(*requests.Request, <-chan struct{}, chan *requests.Response) error {
	return fmt.Errorf("not used")
}
func (q *c12RecQ) Query(in []*requests.Request) ([]map[string]interface{}, error) {
	q.calls = append(q.calls, in)
	if q.down == "error" {
		return nil, fmt.Errorf("downstream failed")
	}
	n := len(in)
	switch q.down {
	case "short":
		n--
	case "long":
		n++
	}
	if n < 0 {
		n = 0
	}
	out := make([]map[string]interface{}, n)
	for t := range out {
		out[t] = map[string]interface{}{"node": map[string]interface{}{"pos": t}, "pos": t}
	}
	return out, nil
}

type c12StageObs struct {
	Outcome string   `json:"outcome"` // ok | error | panic
	Msg     string   `json:"msg,omitempty"`
	Calls   int      `json:"query_calls"`
	Batch   []string `json:"batch"` // "query|canon(variables)" per batch entry
	Out     []int    `json:"out"`   // per request slot: batch position, -1 = {node:nil}, -2 = empty slot
}

func c12RunStage(cs *c12Stage) (obs c12StageObs) {
	steps := make([]*planner.QueryPlanStep, len(cs.Steps))
	for i, s := range cs.Steps {
		steps[i] = &planner.QueryPlanStep{URL: "http://svc/", ParentType: s.ParentType, QueryString: s.Query,
			QueryStringHash: sha256.Sum256([]byte(s.Query)), VariablesList: s.VarList}
	}
	ers := make([]*executor.ExecutionRequest, len(cs.Reqs))
	for i, r := range cs.Reqs {
		ip := []string{}
		if r.ID != nil {
			ip = []string{"root", fmt.Sprintf("items:%d#%s", r.Index, *r.ID)}
		}
		ers[i] = &executor.ExecutionRequest{QueryPlanStep: steps[r.Step], InsertionPoint: ip}
	}
	q := &c12RecQ{url: "http://svc/", down: cs.Down}
	ectx := &executor.ExecutionContext{Request: &requests.Request{Variables: cs.Vars}, Queryers: map[string]queryer.Queryer{"http://svc/": q}}
	if cs.HintOn {
		ectx.GetParentTypeFromIDFunc = func(id interface{}) (string, bool) {
			t, ok := cs.Hint[fmt.Sprint(id)]
			return t, ok
		}
	}
	defer func() {
		if p := recover(); p != nil {
			obs.Outcome, obs.Msg = "panic", fmt.Sprint(p)
		}
	}()
	res, err := executor.VerifExecuteRequests(ectx, ers)
	obs.Calls = len(q.calls)
	if len(q.calls) > 0 {
		for _, in := range q.calls[0] {
			obs.Batch = append(obs.Batch, in.Query+"|"+hx.Canon(in.Variables))
		}
	}
	if err != nil {
		obs.Outcome, obs.Msg = "error", err.Error()
		return
	}
	obs.Outcome = "ok"
	for _, r := range res {
		switch {
		case r == nil || r.Missing:
			obs.Out = append(obs.Out, -2)
		default:
			if p, ok := r.Response["pos"]; ok {
				obs.Out = append(obs.Out, c12Int(p))
			} else if n, ok := r.Response["node"]; ok && n == nil && len(r.Response) == 1 {
				obs.Out = append(obs.Out, -1)
			} else {
				obs.Out = append(obs.Out, -3)
			}
		}
	}
	return
}

func c12Int(v interface{}) int {
	switch x := v.(type) {
	case int:
		return x
	case float64:
		return int(x)
	case json.Number:
		n, _ := x.Int64()
		return int(n)
	}
	return -4
}

func c12IsRoot(t string) bool { return t == "Query" || t == "Mutation" || t == "Subscription" }

// the variables the request is sent with, per the documented behaviour of getVariables
func c12VarsOf(cs *c12Stage, r c12Req) map[string]interface{} {
	vars := map[string]interface{}{}
	for _, v := range cs.Steps[r.Step].VarList {
		if x, ok := cs.Vars[v]; ok {
			vars[v] = x
		}
	}
	if r.ID != nil {
		vars["id"] = *r.ID
	}
	return vars
}

// c12StageOracle: written from the property statement, independent of the model.
func c12StageOracle(cs *c12Stage, o c12StageObs) string {
	if len(cs.Reqs) == 0 {
		if o.Calls != 0 {
			return "a Query call for an empty request list"
		}
		return ""
	}
	emptyID := false
	for _, r := range cs.Reqs {
		if r.ID != nil && *r.ID == "" {
			emptyID = true
		}
	}
	if o.Outcome == "panic" {
		return "executeRequests panicked: " + o.Msg
	}
	if emptyID {
		if o.Outcome != "error" || o.Calls != 0 {
			return "an insertion point without id must fail before anything is sent"
		}
		return ""
	}
	if o.Calls != 1 {
		return fmt.Sprintf("%d Query calls for one group of requests", o.Calls)
	}
	// which requests are skipped by the hint, and the (query, variables) each one stands for
	type look struct {
		key   string
		skip  bool
		dedup bool
	}
	looks := make([]look, len(cs.Reqs))
	for i, r := range cs.Reqs {
		st := cs.Steps[r.Step]
		vars := c12VarsOf(cs, r)
		l := look{key: st.Query + "|" + hx.Canon(vars)}
		if !c12IsRoot(st.ParentType) && cs.HintOn && r.ID != nil {
			if t, ok := cs.Hint[*r.ID]; ok && t != st.ParentType {
				l.skip = true
			}
		}
		_, hasID := vars["id"]
		l.dedup = !c12IsRoot(st.ParentType) && len(vars) == 1 && hasID
		looks[i] = l
	}
	// identical lookups with no other variables are sent once; everything needed is sent
	count := map[string]int{}
	for _, b := range o.Batch {
		count[b]++
	}
	need := map[string]int{}
	dedupSeen := map[string]bool{}
	for _, l := range looks {
		if l.skip {
			continue
		}
		if l.dedup {
			if !dedupSeen[l.key] { // identical lookups with only the id variable: once
				dedupSeen[l.key] = true
				need[l.key]++
			}
		} else {
			need[l.key]++ // anything else: one per request
		}
	}
	for k, n := range need {
		if count[k] != n {
			return fmt.Sprintf("lookup %s is in the batch %d times, expected %d", k, count[k], n)
		}
	}
	for k := range count {
		if need[k] == 0 {
			return fmt.Sprintf("lookup %s was sent but no request needs it", k)
		}
	}
	switch cs.Down {
	case "error":
		if o.Outcome != "error" {
			return "downstream failure not reported"
		}
		return ""
	case "short", "long":
		if cs.Down == "short" && len(o.Batch) == 0 {
			break // nothing was asked, nothing can be missing
		}
		if o.Outcome != "error" {
			return "a downstream answer list of the wrong length was accepted"
		}
		return ""
	}
	if o.Outcome != "ok" {
		return "unexpected error: " + o.Msg
	}
	if len(o.Out) != len(cs.Reqs) {
		return fmt.Sprintf("%d result slots for %d requests", len(o.Out), len(cs.Reqs))
	}
	// fan-out: slot i carries the answer to ITS lookup
	for i, l := range looks {
		got := o.Out[i]
		if l.skip {
			if got != -1 {
				return fmt.Sprintf("slot %d (skipped by the id hint) holds %d, expected {node:nil}", i, got)
			}
			continue
		}
		if got < 0 || got >= len(o.Batch) {
			return fmt.Sprintf("slot %d is empty or holds no downstream answer (%d)", i, got)
		}
		if o.Batch[got] != l.key {
			return fmt.Sprintf("slot %d needs the answer to %s but was given the answer to %s", i, l.key, o.Batch[got])
		}
	}
	// non-dedupable requests must each have their own answer
	used := map[int]int{}
	for i, l := range looks {
		if !l.skip && !l.dedup {
			if j, dup := used[o.Out[i]]; dup {
				return fmt.Sprintf("slots %d and %d (requests with further variables) share one downstream answer", j, i)
			}
			used[o.Out[i]] = i
		}
	}
	return ""
}

func c12DriverReqs(cs *c12Stage) []map[string]interface{} {
	out := make([]map[string]interface{}, len(cs.Reqs))
	for i, r := range cs.Reqs {
		st := cs.Steps[r.Step]
		h := sha256.Sum256([]byte(st.Query))
		hs := make([]int, len(h))
		for k, b := range h {
			hs[k] = int(b)
		}
		vars := c12VarsOf(cs, r)
		others := len(vars)
		var id interface{}
		if r.ID != nil {
			id = *r.ID
			others--
		} else if x, ok := vars["id"]; ok {
			// a client variable named id that the step lists: it IS variables["id"]
			id = fmt.Sprint(x)
			others--
		}
		out[i] = map[string]interface{}{"parentType": st.ParentType, "id": id, "others": others, "hash": hs}
	}
	return out
}

func c12CheckStage(ctx *Ctx, idx int, cs *c12Stage) {
	cs.Stream = "stage"
	o := c12RunStage(cs)
	kb, _ := json.Marshal(cs)
	dups := len(cs.Reqs) - len(o.Batch)
	ctx.Rep.Case(string(kb), dups > 0 && o.Outcome == "ok")
	ctx.Rep.Count("stage: " + o.Outcome + "/down=" + cs.Down)
	if dups > 0 {
		ctx.Rep.Count("stage: batch shorter than the request list (de-duplicated or skipped)")
	}
	if cs.HintOn {
		ctx.Rep.Count("stage: id-hint function installed")
	}
	if len(cs.Reqs) >= 2 && len(cs.Reqs) <= 6 {
		ctx.Rep.Sample(map[string]interface{}{"case": cs, "observed": o})
	}
	if msg := c12StageOracle(cs, o); msg != "" {
		ctx.Rep.Fail(hx.Failure{Kind: "property-fails", Detail: "executeRequests: " + msg, Case: cs, Impl: o, Index: idx})
		flushReport(ctx)
	}
	if ctx.Driver == nil {
		return
	}
	req := map[string]interface{}{"op": "c12.imap", "reqs": c12DriverReqs(cs), "down": cs.Down}
	if cs.HintOn {
		h := map[string]interface{}{}
		for k, v := range cs.Hint {
			h[k] = v
		}
		req["hint"] = h
	}
	res, err := ctx.Driver.Call(req)
	if err != nil {
		ctx.Rep.Fail(hx.Failure{Kind: "harness-error", Detail: err.Error(), Case: cs, Index: idx})
		flushReport(ctx)
		return
	}
	ctx.Rep.Traces++
	if len(cs.Reqs) == 0 {
		return
	}
	mOutcome, _ := res["outcome"].(string)
	mismatch := ""
	if mOutcome != o.Outcome {
		mismatch = fmt.Sprintf("outcome: impl %s (%s), model %s (%v)", o.Outcome, o.Msg, mOutcome, res["msg"])
	} else if o.Calls == 1 {
		// batch content: model gives request indices
		mb := hx.NumInts(res["batch"])
		if len(mb) != len(o.Batch) {
			mismatch = fmt.Sprintf("batch length: impl %d, model %d", len(o.Batch), len(mb))
		} else {
			for t, i := range mb {
				want := cs.Steps[cs.Reqs[i].Step].Query + "|" + hx.Canon(c12VarsOf(cs, cs.Reqs[i]))
				if o.Batch[t] != want {
					mismatch = fmt.Sprintf("batch position %d: impl %s, model request %d = %s", t, o.Batch[t], i, want)
					break
				}
			}
		}
		if mismatch == "" && o.Outcome == "ok" {
			mo, _ := res["out"].([]interface{})
			if len(mo) != len(o.Out) {
				mismatch = "number of result slots"
			}
			for i := range mo {
				if mismatch != "" {
					break
				}
				mv := -2
				if n, ok := mo[i].(json.Number); ok {
					x, _ := n.Int64()
					mv = int(x)
				}
				if mv != o.Out[i] {
					mismatch = fmt.Sprintf("slot %d: impl served from %d, model from %d", i, o.Out[i], mv)
				}
			}
		}
	} else if mOutcome != "error" && mOutcome != "panic" {
		mismatch = fmt.Sprintf("impl made %d Query calls", o.Calls)
	}
	if mismatch != "" {
		ctx.Rep.Fail(hx.Failure{Kind: "model-mismatch", Detail: "executeRequests vs Model.IndexMap.executeRequests: " + mismatch, Case: cs, Impl: o, Model: res, Index: idx})
		flushReport(ctx)
	}
}

var c12IDPool = []string{"a", "b", "c", "a[1 2]", "1", "12", "!x", "x y", "ü1", "A_0", "B_0", "[", "]", "a!b", "0"}

func c12GenStage(r *hx.Rand, maxN int) *c12Stage {
	cs := &c12Stage{Stream: "stage", Down: "ok", Hint: map[string]string{}}
	ns := r.Range(1, 4)
	for k := 0; k < ns; k++ {
		st := c12Step{ParentType: hx.Pick(r, []string{"A", "A", "B", "Query", "Mutation"}), Query: fmt.Sprintf("query q%d", r.Intn(3))}
		switch r.Intn(6) {
		case 0:
			st.VarList = []string{"v"}
		case 1:
			st.VarList = []string{"id", "w"}
		case 2:
			st.VarList = []string{"id"}
		}
		cs.Steps = append(cs.Steps, st)
	}
	if r.Chance(1, 2) {
		cs.Vars = map[string]interface{}{}
		if r.Chance(2, 3) {
			cs.Vars["v"] = r.Intn(3)
		}
		if r.Chance(1, 3) {
			cs.Vars["w"] = "w"
		}
		if r.Chance(1, 6) {
			cs.Vars["id"] = "client-id"
		}
	}
	// an id that ends like the rendered hash of one of the steps
	pool := append([]string{}, c12IDPool...)
	h := sha256.Sum256([]byte(cs.Steps[0].Query))
	pool = append(pool, "a"+fmt.Sprint(h), fmt.Sprint(h))
	k := r.Range(1, 5)
	ids := make([]string, k)
	for i := range ids {
		ids[i] = hx.Pick(r, pool)
	}
	n := r.Range(0, maxN)
	for i := 0; i < n; i++ {
		rq := c12Req{Step: r.Intn(len(cs.Steps)), Index: i}
		if c12IsRoot(cs.Steps[rq.Step].ParentType) && r.Chance(3, 4) {
			rq.ID = nil
		} else {
			id := hx.Pick(r, ids)
			rq.ID = &id
		}
		cs.Reqs = append(cs.Reqs, rq)
	}
	if r.Chance(1, 40) && n > 0 {
		e := ""
		cs.Reqs[r.Intn(n)].ID = &e
	}
	cs.HintOn = r.Chance(1, 2)
	if cs.HintOn {
		for _, id := range ids {
			switch r.Intn(3) {
			case 0:
				cs.Hint[id] = "A"
			case 1:
				cs.Hint[id] = "B"
			}
		}
	}
	switch r.Intn(12) {
	case 0:
		cs.Down = "short"
	case 1:
		cs.Down = "long"
	case 2:
		cs.Down = "error"
	}
	return cs
}

// ---------------------------------------------------------------------------------------------
// B. end to end

type c12E2E struct {
	Stream   string                 `json:"stream"`
	FedSeed  uint64                 `json:"fed_seed"`
	MaxList  int                    `json:"max_list"`
	MaxBatch int                    `json:"max_batch"`
	Hint     bool                   `json:"hint"`
	Query    string                 `json:"query"`
	Vars     map[string]interface{} `json:"variables,omitempty"`
	OpName   *string                `json:"operationName,omitempty"`

	keepSingleLevel int // 0: drop if the plan has one level (generated runs); replays keep everything
}

func c12GenOptions() fed.GenOptions {
	o := fed.DefaultGen()
	o.Mutations = false
	return o
}

func c12OpOptions() fed.OpOptions {
	o := fed.SafeOps()
	o.Aliases = false // aliases of one field under two names hit an open stitching defect of C01
	return o
}

func c12BuildFed(cs *c12E2E) (*fed.Fed, error) {
	r := hx.NewRand(cs.FedSeed)
	spec := fed.Generate(r, c12GenOptions())
	ro := fed.DefaultRep()
	ro.MaxList = cs.MaxList
	data := fed.GenDataRepeats(r, spec, ro)
	return fed.Build(spec, data)
}

type c12PlanNode struct {
	URL  string         `json:"url"`
	Then []*c12PlanNode `json:"then"`
}

func c12PlanTree(steps []*planner.QueryPlanStep) []*c12PlanNode {
	out := make([]*c12PlanNode, 0, len(steps))
	for _, s := range steps {
		out = append(out, &c12PlanNode{URL: s.URL, Then: c12PlanTree(s.Then)})
	}
	return out
}

func c12Levels(nodes []*c12PlanNode, depth int, acc map[int]map[string]bool) int {
	max := depth - 1
	for _, n := range nodes {
		if acc[depth] == nil {
			acc[depth] = map[string]bool{}
		}
		acc[depth][n.URL] = true
		if depth > max {
			max = depth
		}
		if m := c12Levels(n.Then, depth+1, acc); m > max {
			max = m
		}
	}
	return max
}

// c12Places counts the objects found in a response by walking an insertion path through lists.
func c12Places(v interface{}, path []string) int {
	if v == nil {
		return 0
	}
	if l, ok := v.([]interface{}); ok {
		n := 0
		for _, e := range l {
			n += c12Places(e, path)
		}
		return n
	}
	if len(path) == 0 {
		if _, ok := v.(map[string]interface{}); ok {
			return 1
		}
		return 0
	}
	m, ok := v.(map[string]interface{})
	if !ok {
		return 0
	}
	return c12Places(m[path[0]], path[1:])
}

func c12CountPlaces(steps []*planner.QueryPlanStep, data interface{}) int {
	n := 0
	for _, s := range steps {
		if len(s.InsertionPoint) > 0 {
			n += c12Places(data, s.InsertionPoint)
		}
		n += c12CountPlaces(s.Then, data)
	}
	return n
}

func c12CheckE2E(ctx *Ctx, idx int, cs *c12E2E) {
	cs.Stream = "e2e"
	f, err := c12BuildFed(cs)
	if err != nil {
		ctx.Rep.Count("e2e: federation not buildable (skipped)")
		return
	}
	mr, err := f.Merged()
	if err != nil {
		ctx.Rep.Count("e2e: federation rejected by the merger (skipped)")
		return
	}
	cfg := fed.GatewayConfig{MaxBatch: cs.MaxBatch}
	if cs.Hint {
		cfg.Options = append(cfg.Options, pebbles.WithGetParentTypeFromIDFunc(func(id interface{}) (string, bool) {
			s := fmt.Sprint(id)
			if i := strings.LastIndex(s, "_"); i > 0 {
				return s[:i], true
			}
			return "", false
		}))
	}
	gw, err := f.NewGateway(cfg)
	if err != nil {
		ctx.Rep.Count("e2e: gateway construction failed (skipped)")
		return
	}
	// the plan, from the real planner (its own parse: planning rewrites the AST)
	docP, gerr := gqlparser.LoadQuery(mr.Schema, cs.Query)
	docE, gerr2 := gqlparser.LoadQuery(mr.Schema, cs.Query)
	if gerr != nil || gerr2 != nil {
		ctx.Rep.Count("e2e: operation invalid (skipped)")
		return
	}
	pick := func(doc *ast.QueryDocument) *ast.OperationDefinition {
		if cs.OpName != nil {
			return doc.Operations.ForName(*cs.OpName)
		}
		return doc.Operations[0]
	}
	// safe region: an operation in which one response name occurs at several places of the same
	// request tree is resolved by a depth-first search by name in the executor (FindSelection) and
	// loses insertion points — a stitching defect on C01's list, independent of the index map
	if c12RepeatsResponseName(docE, pick(docE)) {
		ctx.Rep.Count("e2e: a response name occurs twice in the operation (C01 FindSelection class; skipped)")
		return
	}
	// an answer beyond ~60k objects costs minutes end to end; the size classes below that are covered
	if n := (&fed.Eval{Schema: mr.Schema, Data: f.Data, Vars: cs.Vars}).CountNodes(pick(docE), 60000); n > 60000 {
		ctx.Rep.Count("e2e: answer larger than 60k objects (skipped)")
		return
	}
	var sp planner.SequentialPlanner
	plan, perr := sp.Plan(&planner.PlanningContext{Operation: pick(docP), Request: &requests.Request{Query: cs.Query, Variables: cs.Vars, OperationName: cs.OpName},
		Schema: mr.Schema, TypeURLMap: mr.TypeURLMap})
	if perr != nil {
		ctx.Rep.Count("e2e: planner error (skipped)")
		return
	}
	tree := c12PlanTree(plan.RootSteps)
	levels := map[int]map[string]bool{}
	maxDepth := c12Levels(tree, 0, levels)
	if maxDepth == 0 && cs.keepSingleLevel == 0 {
		return // generated run: two thirds of the single-level operations are dropped (budget goes to multi-level plans)
	}
	bound := map[string]int{}
	for _, us := range levels {
		for u := range us {
			bound[u]++
		}
	}
	want := (&fed.Eval{Schema: mr.Schema, Data: f.Data.Clone(), Vars: cs.Vars}).Execute(pick(docE))
	f.ResetLogs()
	resp := fed.Do(gw, cs.Query, cs.Vars, cs.OpName)
	calls := f.AllCalls()
	// ---- observations
	type httpKey struct{ svc, call int }
	perSvcHTTP := map[int]map[int]bool{}
	perSvcReqs := map[int]int{}
	batches := map[httpKey][]*fed.Call{}
	for _, c := range calls {
		if perSvcHTTP[c.Service] == nil {
			perSvcHTTP[c.Service] = map[int]bool{}
		}
		perSvcHTTP[c.Service][c.HTTPCall] = true
		perSvcReqs[c.Service]++
		k := httpKey{c.Service, c.HTTPCall}
		batches[k] = append(batches[k], c)
	}
	places := c12CountPlaces(plan.RootSteps, resp.Data)
	childLookups := 0
	for _, c := range calls {
		if _, ok := c.Variables["id"]; ok && len(c.RootFields) == 1 && c.RootFields[0] == "node" {
			childLookups++
		}
	}
	obs := map[string]interface{}{"http_calls": map[string]int{}, "bound": bound, "plan_depths": maxDepth + 1, "places": places, "lookups_sent": childLookups, "sub_requests": len(calls)}
	for s, m := range perSvcHTTP {
		obs["http_calls"].(map[string]int)[fed.URL(s)] = len(m)
	}
	kb, _ := json.Marshal(cs)
	ctx.Rep.Case(string(kb), places > childLookups && childLookups > 0)
	ctx.Rep.Count(fmt.Sprintf("e2e: plan depths=%d", maxDepth+1))
	switch {
	case places == 0:
		ctx.Rep.Count("e2e: no insertion point (single level)")
	case places > childLookups:
		ctx.Rep.Count("e2e: more insertion points than lookups sent (de-duplication observed)")
	default:
		ctx.Rep.Count("e2e: one lookup per insertion point")
	}
	switch {
	case places >= 1000:
		ctx.Rep.Count("e2e: >=1000 insertion points")
	case places >= 100:
		ctx.Rep.Count("e2e: 100..999 insertion points")
	}
	if places > childLookups && len(cs.Query) < 300 {
		ctx.Rep.Sample(map[string]interface{}{"case": cs, "observed": obs})
	}
	// ---- property oracle
	fail := func(msg string) {
		ctx.Rep.Fail(hx.Failure{Kind: "property-fails", Detail: msg, Case: cs, Impl: obs, Index: idx})
		flushReport(ctx)
	}
	for s, m := range perSvcHTTP {
		u := fed.URL(s)
		allowed := bound[u]
		if cs.MaxBatch > 0 && cs.MaxBatch < 100000 {
			allowed += perSvcReqs[s] / cs.MaxBatch // Σ⌈n_l/m⌉ ≤ levels + Σ n_l / m  (C11)
		}
		if len(m) > allowed {
			fail(fmt.Sprintf("%d HTTP calls to %s but the service appears at %d plan level(s) (%d sub-requests, max batch %d)", len(m), u, bound[u], perSvcReqs[s], cs.MaxBatch))
			return
		}
	}
	for k, b := range batches {
		seen := map[string]bool{}
		for _, c := range b {
			if _, ok := c.Variables["id"]; ok && len(c.Variables) == 1 {
				key := c.Query + "|" + hx.Canon(c.Variables)
				if seen[key] {
					fail(fmt.Sprintf("HTTP call %d to %s carries the lookup %s twice", k.call, fed.URL(k.svc), key))
					return
				}
				seen[key] = true
			}
		}
	}
	// every plan step that has at least one insertion point in the answer must have been looked
	// up at its service (the id hint never skips here: the hinted type is the object's own type),
	// and never more often than it has insertion points
	if msg := c12StepLookups(plan.RootSteps, resp.Data, calls); msg != "" {
		fail(msg)
		return
	}
	if hx.Canon(resp.Data) != hx.Canon(want) || len(resp.Errors) != 0 {
		// Name the failure mode: places that hold the same entity under the same selection have equal
		// reference answers; if the gateway stitched different results into them the fan-out broke.
		if msg := c12FanoutInconsistent(want, resp.Data); msg != "" {
			fail("the same looked-up entity is stitched differently at different places: " + msg)
			return
		}
		got := string(resp.Raw)
		if len(got) > 600 {
			got = got[:600] + "…"
		}
		w := hx.Canon(want)
		if len(w) > 600 {
			w = w[:600] + "…"
		}
		fail("response differs from the reference evaluator's answer (all places of one entity agree): got " + got + " want " + w)
		return
	}
	// ---- the bound counts calls, not successful calls: with the first HTTP call to one service cut
	// at transport level AFTER the service received it (io.EOF, no HTTP answer), no service is
	// called more often than its plan levels allow — a lost answer is reported, not asked for again
	if len(calls) > 0 {
		victim := calls[idx%len(calls)].Service
		f.Services[victim].Fault = func(c *fed.Call) *fed.FaultAction {
			if c.HTTPCall == 0 {
				return &fed.FaultAction{Kind: "eof"}
			}
			return nil
		}
		f.ResetLogs()
		fed.Do(gw, cs.Query, cs.Vars, cs.OpName)
		f.Services[victim].Fault = nil
		http2, reqs2 := map[int]map[int]bool{}, map[int]int{}
		for _, c := range f.AllCalls() {
			if http2[c.Service] == nil {
				http2[c.Service] = map[int]bool{}
			}
			http2[c.Service][c.HTTPCall] = true
			reqs2[c.Service]++
		}
		ctx.Rep.Count("e2e: re-run with the first call to one service cut after receipt")
		for sv, m := range http2 {
			u := fed.URL(sv)
			allowed := bound[u]
			if cs.MaxBatch > 0 && cs.MaxBatch < 100000 {
				allowed += reqs2[sv] / cs.MaxBatch
			}
			if len(m) > allowed {
				fail(fmt.Sprintf("with the first call to %s cut after receipt (io.EOF): %d HTTP calls to %s but the service appears at %d plan level(s) (%d sub-requests, max batch %d)", fed.URL(victim), len(m), u, bound[u], reqs2[sv], cs.MaxBatch))
				return
			}
		}
	}
	// ---- model
	if ctx.Driver == nil {
		return
	}
	urls := make([]string, 0, len(bound))
	for u := range bound {
		urls = append(urls, u)
	}
	sort.Strings(urls)
	res, err := ctx.Driver.Call(map[string]interface{}{"op": "c12.levels", "roots": tree, "depths": maxDepth + 1, "fan": 1, "urls": urls})
	if err != nil {
		ctx.Rep.Fail(hx.Failure{Kind: "harness-error", Detail: err.Error(), Case: cs, Index: idx})
		flushReport(ctx)
		return
	}
	ctx.Rep.Traces++
	mb, _ := res["bound"].(map[string]interface{})
	for _, u := range urls {
		n := -1
		if x, ok := mb[u].(json.Number); ok {
			v, _ := x.Int64()
			n = int(v)
		}
		if n != bound[u] {
			ctx.Rep.Fail(hx.Failure{Kind: "model-mismatch", Detail: fmt.Sprintf("levels owned by %s: harness %d, Model.ExecLevels %d", u, bound[u], n), Case: cs, Model: res, Index: idx})
			flushReport(ctx)
			return
		}
	}
	for s, m := range perSvcHTTP {
		u := fed.URL(s)
		if x, ok := mb[u].(json.Number); ok && (cs.MaxBatch <= 0 || cs.MaxBatch >= 100000) {
			v, _ := x.Int64()
			if len(m) > int(v) {
				ctx.Rep.Fail(hx.Failure{Kind: "model-mismatch", Detail: fmt.Sprintf("%d calls to %s exceed the model's bound %d", len(m), u, v), Case: cs, Model: res, Index: idx})
				flushReport(ctx)
			}
		}
	}
}

func c12RepeatsResponseName(doc *ast.QueryDocument, op *ast.OperationDefinition) bool {
	seen := map[string]bool{}
	dup := false
	var walk func(ss ast.SelectionSet)
	walk = func(ss ast.SelectionSet) {
		for _, sel := range ss {
			switch v := sel.(type) {
			case *ast.Field:
				k := v.Alias
				if k == "" {
					k = v.Name
				}
				if k != "id" && k != "__typename" {
					if seen[k] {
						dup = true
					}
					seen[k] = true
				}
				walk(v.SelectionSet)
			case *ast.InlineFragment:
				walk(v.SelectionSet)
			case *ast.FragmentSpread:
				if v.Definition != nil {
					walk(v.Definition.SelectionSet)
				}
			}
		}
	}
	walk(op.SelectionSet)
	return dup
}

// c12StepLookups checks, per (service, sub-query) of the non-root plan steps, that lookups were
// sent iff the steps have insertion points in the answer, and never more than one per insertion point.
func c12StepLookups(steps []*planner.QueryPlanStep, data interface{}, calls []*fed.Call) string {
	type agg struct {
		places int
		paths  []string
		dedup  bool
	}
	groups := map[string]*agg{}
	var order []string
	var walk func(steps []*planner.QueryPlanStep)
	walk = func(steps []*planner.QueryPlanStep) {
		for _, s := range steps {
			if len(s.InsertionPoint) > 0 && !c12IsRoot(s.ParentType) {
				k := s.URL + "|" + s.QueryString
				if groups[k] == nil {
					groups[k] = &agg{dedup: true}
					order = append(order, k)
				}
				groups[k].places += c12Places(data, s.InsertionPoint)
				groups[k].paths = append(groups[k].paths, strings.Join(s.InsertionPoint, "."))
			}
			walk(s.Then)
		}
	}
	walk(steps)
	for _, k := range order {
		g := groups[k]
		sent := 0
		for _, c := range calls {
			if fed.URL(c.Service)+"|"+c.Query == k {
				sent++
			}
		}
		if g.places > 0 && sent == 0 {
			return fmt.Sprintf("the plan step(s) at %v have %d insertion point(s) but their query was never sent", g.paths, g.places)
		}
		if sent > g.places {
			return fmt.Sprintf("the plan step(s) at %v: %d lookups sent for %d insertion point(s)", g.paths, sent, g.places)
		}
	}
	return ""
}

// c12FanoutInconsistent: objects that are equal in the reference answer and sit at the same path
// pattern (list indices erased) must be equal in the gateway's answer too.
func c12FanoutInconsistent(want, got interface{}) string {
	type seenT struct {
		got  string
		path string
	}
	groups := map[string]seenT{}
	var msg string
	var walk func(w, g interface{}, pattern, path string)
	walk = func(w, g interface{}, pattern, path string) {
		if msg != "" {
			return
		}
		switch wv := w.(type) {
		case []interface{}:
			gl, _ := g.([]interface{})
			for i, e := range wv {
				var ge interface{}
				if i < len(gl) {
					ge = gl[i]
				}
				walk(e, ge, pattern+"[*]", fmt.Sprintf("%s[%d]", path, i))
			}
		case map[string]interface{}:
			gm, _ := g.(map[string]interface{})
			key := pattern + "=" + hx.Canon(wv)
			gc := "<missing>"
			if gm != nil {
				gc = hx.Canon(gm)
			}
			if prev, ok := groups[key]; ok {
				if prev.got != gc {
					a, b := prev.got, gc
					if len(a) > 300 {
						a = a[:300] + "…"
					}
					if len(b) > 300 {
						b = b[:300] + "…"
					}
					msg = fmt.Sprintf("%s holds %s but %s holds %s", prev.path, a, path, b)
					return
				}
			} else {
				groups[key] = seenT{gc, path}
			}
			keys := make([]string, 0, len(wv))
			for k := range wv {
				keys = append(keys, k)
			}
			sort.Strings(keys)
			for _, k := range keys {
				var gk interface{}
				if gm != nil {
					gk = gm[k]
				}
				walk(wv[k], gk, pattern+"."+k, path+"."+k)
			}
		}
	}
	walk(want, got, "", "")
	return msg
}

// ---------------------------------------------------------------------------------------------

func runC12(ctx *Ctx) error {
	ctx.Rep.Rule = "two streams: (stage) a generated request list (repeated ids incl. adversarial ones, mixed steps, id hint on/off, downstream ok/short/long/error) through the real executeRequests; " +
		"non-trivial = the batch is shorter than the request list and the call succeeded; (e2e) a generated operation over a generated federation whose data has repeated entities and lists of 0..200 " +
		"elements through the real gateway; non-trivial = more insertion points than lookups sent (de-duplication took place); distinct = distinct case description"
	idx := 0
	s := func(x string) *string { return &x }
	// ---- corpus (stage)
	mk := func(steps []c12Step, ids []*string, stepOf []int) *c12Stage {
		cs := &c12Stage{Stream: "stage", Steps: steps, Down: "ok"}
		for i, id := range ids {
			cs.Reqs = append(cs.Reqs, c12Req{Step: stepOf[i], ID: id, Index: i})
		}
		return cs
	}
	one := []c12Step{{ParentType: "A", Query: "query q0"}}
	corpus := []*c12Stage{
		mk(one, nil, nil),
		mk(one, []*string{s("a")}, []int{0}),
		mk(one, []*string{s("a"), s("b"), s("c"), s("a"), s("b")}, []int{0, 0, 0, 0, 0}),
		mk(one, []*string{s("b"), s("b"), s("b"), s("a"), s("c")}, []int{0, 0, 0, 0, 0}),
		mk([]c12Step{{ParentType: "A", Query: "query q0"}, {ParentType: "A", Query: "query q1"}}, []*string{s("a"), s("a"), s("a"), s("a")}, []int{0, 1, 0, 1}),
		mk([]c12Step{{ParentType: "Query", Query: "query r"}, {ParentType: "A", Query: "query q1"}}, []*string{nil, s("a"), nil, s("a")}, []int{0, 1, 0, 1}),
		mk(one, []*string{s("a"), s("")}, []int{0, 0}),
	}
	h := mk(one, []*string{s("x"), s("a"), s("x"), s("a"), s("y")}, []int{0, 0, 0, 0, 0})
	h.HintOn, h.Hint = true, map[string]string{"x": "B", "a": "A"}
	corpus = append(corpus, h)
	h2 := mk(one, []*string{s("x"), s("x")}, []int{0, 0})
	h2.HintOn, h2.Hint = true, map[string]string{"x": "B"}
	corpus = append(corpus, h2) // everything skipped: empty batch
	for _, d := range []string{"short", "long", "error"} {
		c := mk(one, []*string{s("a"), s("b"), s("a")}, []int{0, 0, 0})
		c.Down = d
		corpus = append(corpus, c)
	}
	for _, cs := range corpus {
		c12CheckStage(ctx, idx, cs)
		idx++
	}
	nStage, maxN := 6000, 40
	if ctx.Thorough() {
		nStage, maxN = 120000, 300
	}
	for k := 0; k < nStage; k++ {
		if len(ctx.Rep.Failures) >= 40 {
			ctx.Rep.Note("stage stream stopped after 40 failures")
			break
		}
		r := ctx.Rand.Fork()
		n := maxN
		if k%10 != 0 {
			n = 12
		}
		c12CheckStage(ctx, idx, c12GenStage(r, n))
		idx++
	}
	// ---- end to end
	nFed := 700
	if ctx.Thorough() {
		nFed = 15000
	}
	for k := 0; k < nFed; k++ {
		if len(ctx.Rep.Failures) >= 80 {
			ctx.Rep.Note("end-to-end stream stopped after 80 failures")
			break
		}
		r := ctx.Rand.Fork()
		base := c12E2E{Stream: "e2e", FedSeed: r.U64(), MaxList: hx.Pick(r, []int{4, 30, 200}), MaxBatch: 100000, Hint: r.Chance(1, 2)}
		if r.Chance(1, 5) {
			base.MaxBatch = r.Range(2, 9)
		}
		f, err := c12BuildFed(&base)
		if err != nil {
			continue
		}
		mr, err := f.Merged()
		if err != nil {
			ctx.Rep.Count("e2e: federation rejected by the merger (skipped)")
			continue
		}
		for j := 0; j < 4; j++ {
			op := fed.GenOp(r, mr.Schema, f.Data, "query", c12OpOptions())
			if op == nil {
				continue
			}
			cs := base
			cs.Query, cs.Vars, cs.OpName = op.Query, op.Variables, op.OpName
			if r.Chance(1, 3) {
				cs.keepSingleLevel = 1
			}
			c12CheckE2E(ctx, idx, &cs)
			idx++
		}
	}
	// ---- directed: three plan levels below a list that holds one entity twice — the level-1 lookup of
	// that entity is sent once and fanned out to its places; the level-2 step then stitches a LIST OF
	// SCALARS into an object every place received (places must not share what they were handed)
	nDir := 10
	if ctx.Thorough() {
		nDir = 150
	}
	plainKept := 0
	for k, tries := 0, 0; k < nDir && tries < nDir*400; tries++ {
		r := ctx.Rand.Fork()
		cs := c12E2E{Stream: "e2e", FedSeed: r.U64(), MaxList: hx.Pick(r, []int{4, 30}), MaxBatch: 100000, Hint: r.Chance(1, 2), keepSingleLevel: 1}
		f, err := c12BuildFed(&cs)
		if err != nil {
			continue
		}
		q, embedded := c12DeepDedupQuery(f)
		if q == "" || (!embedded && plainKept >= 3) {
			continue
		}
		if !embedded {
			plainKept++
		}
		cs.Query = q
		if os.Getenv("VH_DEBUG") != "" {
			b, _ := json.Marshal(cs)
			fmt.Fprintln(os.Stderr, "directed:", string(b))
		}
		ctx.Rep.Count("e2e: directed three-level chain below a repeated entity")
		c12CheckE2E(ctx, idx, &cs)
		idx++
		k++
	}
	return nil
}

// c12DeepDedupQuery: `{ q { f { g } } }` with q a list of Node objects (service A) in which one entity
// occurs twice, f an object-valued field of another service, g a list of scalars of a third step.
func c12DeepDedupQuery(f *fed.Fed) (query string, embedded bool) {
	sp := f.Spec
	base := func(t string) string { return strings.Trim(t, "[]!") }
	for _, q := range sp.Query {
		T := sp.Type(base(q.Type))
		if T == nil || !T.Node || len(q.Args) > 0 || !strings.HasPrefix(q.Type, "[") {
			continue
		}
		root := f.Data.Roots["Query"][q.Name]
		seen, repeated := map[string]bool{}, false
		for _, el := range root.List {
			if el.Kind == "ref" {
				if seen[el.Ref] {
					repeated = true
				}
				seen[el.Ref] = true
			}
		}
		if !repeated {
			continue
		}
		for _, ff := range T.Fields {
			U := sp.Type(base(ff.Type))
			if U == nil || !U.Node || len(ff.Args) > 0 || ff.Owner == q.Owner {
				continue
			}
			// preferred: g an embedded (non-Node) object that holds the list of scalars — the second place
			// that receives the level-2 answer finds `g` already there and MERGES into it
			for _, g := range U.Fields {
				V := sp.Type(base(g.Type))
				if len(g.Args) > 0 || g.Owner == ff.Owner || V == nil || V.Node {
					continue
				}
				for _, h := range V.Fields {
					if len(h.Args) == 0 && strings.HasPrefix(h.Type, "[") && sp.Type(base(h.Type)) == nil && sp.Abstract(base(h.Type)) == nil {
						return fmt.Sprintf("{ %s { %s { %s { %s } } } }", q.Name, ff.Name, g.Name, h.Name), true
					}
				}
			}
			for _, g := range U.Fields {
				if len(g.Args) > 0 || g.Owner == ff.Owner || !strings.HasPrefix(g.Type, "[") || sp.Type(base(g.Type)) != nil || sp.Abstract(base(g.Type)) != nil {
					continue
				}
				return fmt.Sprintf("{ %s { %s { %s } } }", q.Name, ff.Name, g.Name), false
			}
		}
	}
	return "", false
}
