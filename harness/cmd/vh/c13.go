package main

import (
	"encoding/json"
	"fmt"
	"sort"
	"strings"
	"sync"
	"time"

	"github.com/vektah/gqlparser/v2/ast"
	"github.com/vektah/gqlparser/v2/parser"

	"verif/harness/fed"
	"verif/harness/hx"
)

func init() {
	register("C13", runC13)
	registerReplay("C13", func(ctx *Ctx, raw json.RawMessage) error {
		var cs c13Case
		if err := json.Unmarshal(raw, &cs); err != nil {
			return err
		}
		c13Check(ctx, 0, cs)
		return nil
	})
}

type c13Case struct {
	coreCase
	Repeats   int    `json:"repeats"`
	DelaySeed uint64 `json:"delay_seed"`          // seeds per-call delays in the fake services (perturbed scheduling)
	FaultSvc  int    `json:"fault_svc,omitempty"` // 1+i: service i answers every follow-up lookup batch with one error per request (message names the looked-up id)
}

type c13Obs struct {
	Data   string   `json:"data"`
	Errors []string `json:"errors"`
	Calls  []string `json:"calls"`
	raw    interface{}
}

func (o c13Obs) key() string {
	return o.Data + "\n" + strings.Join(o.Errors, "|") + "\n" + strings.Join(o.Calls, "\n")
}

// c13Check: the same operation, repeated on the same gateway (Go randomises map iteration per
// range) and on freshly built gateways (merge / routing-table maps rebuilt), with perturbed
// scheduling; oracle from the statement: same data, same SET of errors, same multiset of
// sub-requests per service, every time. No reference answer is involved: this also covers
// operations on which C01 has open findings.
func c13Check(ctx *Ctx, idx int, cs c13Case) {
	cf, err := buildCoreFedCase(cs.coreCase)
	if err != nil {
		ctx.Rep.Count("federation rejected")
		return
	}
	if _, _, err := loadOp(cf.Merged.Schema, cs.Query, cs.OpName); err != nil {
		ctx.Rep.Count("operation invalid (generator)")
		return
	}
	full := cs
	full.coreCase = withDump(cs.coreCase, cf)
	ctx.Rep.Case(hx.Canon(cs.coreCase), len(cf.F.Services) >= 2)
	for _, ft := range cs.Features {
		ctx.Rep.Count("feature:" + ft)
	}
	dr := hx.NewRand(cs.DelaySeed)
	var drMu sync.Mutex
	for _, s := range cf.F.Services {
		s.Delay = func(c *fed.Call) time.Duration {
			if cs.DelaySeed == 0 {
				return 0
			}
			drMu.Lock()
			defer drMu.Unlock()
			return time.Duration(dr.Intn(400)) * time.Microsecond
		}
	}
	if fs := (cs.FaultSvc - 1) / 2; cs.FaultSvc > 0 && fs < len(cf.F.Services) {
		ctx.Rep.Count("downstream failures injected in follow-up lookups")
		cf.F.Services[fs].Fault = func(c *fed.Call) *fed.FaultAction {
			if !strings.Contains(c.Query, "node(id: $id)") {
				return nil
			}
			if cs.FaultSvc%2 == 0 {
				// an answer the EXECUTOR rejects while parsing (no `node` key): one error per lookup, told
				// apart by its path only
				return &fed.FaultAction{Kind: "replace", Data: map[string]interface{}{}}
			}
			return &fed.FaultAction{Kind: "errors", Data: []interface{}{map[string]interface{}{"message": "injected failure for " + fmt.Sprint(c.Variables["id"])}}}
		}
	}
	var first *c13Obs
	runs := 0
	for g := 0; g < 2; g++ { // two independently built gateways
		gw, err := cf.F.NewGateway(fed.GatewayConfig{})
		if err != nil {
			ctx.Rep.Count("gateway rejected federation")
			return
		}
		for k := 0; k < cs.Repeats; k++ {
			cf.F.ResetLogs()
			resp := fed.Do(gw, cs.Query, cs.Vars, cs.OpName)
			o := c13Obs{Data: hx.Canon(toGeneric(resp.Data)), Errors: c13ErrKeys(resp.Errors), raw: toGeneric(resp.Data)}
			for _, c := range cf.F.AllCalls() {
				o.Calls = append(o.Calls, subRequestKey(cf.F.Services[c.Service].URL, c.Query, c.Variables)+"|"+varHeader(c.Query))
			}
			sort.Strings(o.Calls)
			runs++
			if first == nil {
				first = &o
				continue
			}
			if o.key() != first.key() {
				what := "data"
				if o.Data != first.Data && hx.Canon(stripIDs(o.raw)) != hx.Canon(stripIDs(first.raw)) {
					what = "data, beyond the presence of a helper id"
				}
				if o.Data == first.Data {
					what = "the set of errors"
					if strings.Join(o.Errors, "|") == strings.Join(first.Errors, "|") {
						what = "the multiset of sub-requests"
					}
				}
				ctx.Rep.Fail(hx.Failure{Kind: "property-fails", Class: c13ClassPin(cf, full, what), Detail: fmt.Sprintf("run %d of the same operation differs from run 0 in %s", runs-1, what), Case: full,
					Impl: map[string]interface{}{"run0": first, "run": o}, Index: idx})
				return
			}
		}
	}
	ctx.Rep.Count(fmt.Sprintf("sub_requests=%d", min(len(first.Calls), 6)))
	if len(first.Calls) >= 2 {
		ctx.Rep.Sample(map[string]interface{}{"query": cs.Query, "runs": runs, "sub_requests": len(first.Calls)})
	}
	// correspondence: the model evaluated under permuted map orders gives one canonical outcome
	if ctx.Driver == nil || len(first.Errors) > 0 {
		return // the model's downstream does not validate sub-requests: compare only error-free runs
	}
	_, op, _ := loadOp(cf.Merged.Schema, cs.Query, cs.OpName)
	dreq := driverCtx(cf, op, cs.coreCase)
	dreq["op"] = "core.gateway.perm"
	dreq["perms"] = 4
	dreq["seed"] = cs.FedSeed + 1
	mres, derr := ctx.Driver.Call(dreq)
	if derr != nil && mres == nil {
		ctx.Rep.Fail(hx.Failure{Kind: "harness-error", Detail: derr.Error(), Case: full, Index: idx})
		return
	}
	if mres["fault"] != nil || mres["skipped"] == true {
		ctx.Rep.Count("outside model scope")
		return
	}
	ctx.Rep.Traces++
	if doc, aop, aerr := loadOp(cf.Merged.Schema, cs.Query, cs.OpName); aerr == nil && analyseOp(cf.Merged.Schema, doc, aop).NodeRoot {
		// node(id:) roots: the model reproduces the open finding node-root-scrub-order (its outcome depends
		// on the scrub-table order); whether the real runs happened to agree is chance, so neither the
		// determinism flag nor the data are compared for these operations
		ctx.Rep.Count("node(id:) root: model comparison skipped (open finding node-root-scrub-order)")
		return
	}
	if mres["deterministic"] != true {
		ctx.Rep.Fail(hx.Failure{Kind: "model-mismatch", Detail: "the model's outcome depends on the order of a Go map (urls / scrub paths / scrub types) although the real gateway was deterministic", Case: full, Impl: first, Model: mres, Index: idx})
		return
	}
	if hx.Canon(mres["data"]) != first.Data && len(first.Errors) == 0 {
		ctx.Rep.Fail(hx.Failure{Kind: "model-mismatch", Detail: "data differs between the real gateway and Model.gateway", Case: full, Impl: first.Data, Model: mres["data"], Index: idx})
	}
}

// c13ErrKeys: an error is its message AND its path (two lookups failing the same way differ in
// where), as a sorted list.
func c13ErrKeys(errs []interface{}) []string {
	var out []string
	for _, e := range errs {
		if m, ok := e.(map[string]interface{}); ok {
			out = append(out, fmt.Sprint(m["message"])+" @ "+hx.Canon(m["path"]))
		}
	}
	sort.Strings(out)
	return out
}

// c13Class: node(id:) roots are scrubbed by whichever type Go's map iteration yields first (the
// payload carries no __typename): the presence of the helper `id` in data varies between runs.
func c13Class(cf *coreFed, cs c13Case, what string) string {
	doc, op, err := loadOp(cf.Merged.Schema, cs.Query, cs.OpName)
	if err != nil {
		return ""
	}
	if analyseOp(cf.Merged.Schema, doc, op).NodeRoot && what == "data" {
		return "node-root-scrub-order"
	}
	return ""
}

// stripIDs removes every `id` member: the open finding is about the helper id only, so two runs
// that still differ after this differ in something else.
func stripIDs(v interface{}) interface{} {
	switch x := v.(type) {
	case map[string]interface{}:
		out := map[string]interface{}{}
		for k, e := range x {
			if k == "id" {
				continue
			}
			se := stripIDs(e)
			// an object that held nothing but the helper id is pruned by the scrubber in one order
			// and kept (as `{id}`) in the other: after stripping, `{}` and "absent" are the same
			if m, ok := se.(map[string]interface{}); ok && len(m) == 0 {
				continue
			}
			out[k] = se
		}
		return out
	case []interface{}:
		out := make([]interface{}, len(x))
		for i, e := range x {
			out[i] = stripIDs(e)
		}
		return out
	}
	return v
}

func c13ClassPin(cf *coreFed, cs c13Case, what string) string {
	c := c13Class(cf, cs, what)
	if c != "" {
		pinWitness("C13", c, cs.coreCase)
	}
	return c
}

func min(a, b int) int {
	if a < b {
		return a
	}
	return b
}

// genC13NodeRoots: directed stream — one operation with 2..4 aliased node(id:) root fields whose
// fragments select plain leaf fields (possibly owned by different services) or only `id`.
func genC13NodeRoots(r *hx.Rand) (coreCase, bool) {
	seed := r.U64() % 1000000
	cf, err := buildCoreFed(seed, false, false)
	if err != nil {
		return coreCase{}, false
	}
	ids := cf.F.Data.AllEntityIDs()
	if len(ids) == 0 {
		return coreCase{}, false
	}
	var parts []string
	for k, n := 0, r.Range(2, 4); k < n; k++ {
		id := hx.Pick(r, ids)
		ent := cf.F.Data.Entities[id]
		def := cf.Merged.Schema.Types[ent.Type]
		if def == nil {
			return coreCase{}, false
		}
		var leaves []string
		for _, fd := range def.Fields {
			t := cf.Merged.Schema.Types[fd.Type.Name()]
			req := false
			for _, a := range fd.Arguments {
				req = req || a.Type.NonNull
			}
			if fd.Name != "id" && !strings.HasPrefix(fd.Name, "__") && !req && (t == nil || !t.IsCompositeType()) {
				leaves = append(leaves, fd.Name)
			}
		}
		sel := "id"
		if len(leaves) > 0 && !r.Chance(1, 3) {
			var pick []string
			for _, j := range r.Perm(len(leaves)) {
				if len(pick) < 3 {
					pick = append(pick, leaves[j])
				}
			}
			sel = strings.Join(pick, " ")
			if r.Chance(1, 3) {
				sel = "id " + sel
			}
		}
		parts = append(parts, fmt.Sprintf("r%d: node(id: %q) { ... on %s { %s } }", k, id, def.Name, sel))
	}
	return coreCase{FedSeed: seed, Query: "{ " + strings.Join(parts, " ") + " }", Kind: "query", Features: []string{"node-root", "directed:several-node-roots"}}, true
}

// genC13FanIn: directed stream — two root fields owned by two DIFFERENT services, both returning
// Node objects with a leaf field owned by a THIRD service: the two root steps run concurrently
// and both feed lookups into one batch of the third service, which rejects them all. Which
// lookups fail is fixed; in which order they reach the parser is timing.
func genC13FanIn(r *hx.Rand) (coreCase, int, bool) {
	for try := 0; try < 40; try++ {
		seed := r.U64() % 1000000
		cf, err := buildCoreFed(seed, false, false)
		if err != nil || cf.F.Spec.NumServices < 3 {
			continue
		}
		base := func(t string) string { return strings.Trim(t, "[]!") }
		type cand struct {
			root  string
			owner int
			leafs map[int][]string // third-party owner -> leaf fields
		}
		var cands []cand
		for _, q := range cf.F.Spec.Query {
			ts := cf.F.Spec.Type(base(q.Type))
			if ts == nil || !ts.Node || len(q.Args) > 0 {
				continue
			}
			c := cand{root: q.Name, owner: q.Owner, leafs: map[int][]string{}}
			for _, f := range ts.Fields {
				if f.Name == "id" || len(f.Args) > 0 || cf.F.Spec.Type(base(f.Type)) != nil || cf.F.Spec.Abstract(base(f.Type)) != nil {
					continue
				}
				c.leafs[f.Owner] = append(c.leafs[f.Owner], f.Name)
			}
			cands = append(cands, c)
		}
		for _, a := range cands {
			for _, b := range cands {
				if a.owner == b.owner || a.root == b.root {
					continue
				}
				for x := 0; x < cf.F.Spec.NumServices; x++ {
					if x == a.owner || x == b.owner || len(a.leafs[x]) == 0 || len(b.leafs[x]) == 0 {
						continue
					}
					q := fmt.Sprintf("{ %s { %s } %s { %s } }", a.root, a.leafs[x][0], b.root, b.leafs[x][0])
					return coreCase{FedSeed: seed, Query: q, Kind: "query", Features: []string{"directed:fan-in to a failing service"}}, x, true
				}
			}
		}
	}
	return coreCase{}, 0, false
}

func runC13(ctx *Ctx) error {
	ctx.Rep.Rule = "case = (generated federation incl. interfaces/unions, valid operation from the WILD generator profile, delay seed) sent k times to each of two independently built real gateways under seeded per-call delays, one case in four with every follow-up lookup of one service failing; " +
		"oracle: identical canonical data, identical error set, identical multiset of sub-requests in every run; distinct = distinct case; non-trivial = ≥2 services"
	cases, repeats := 150, 4
	if ctx.Thorough() {
		cases, repeats = 3000, 8
	}
	for i, cs := range loadCorpus("C13") {
		c13Check(ctx, i, c13Case{coreCase: cs, Repeats: repeats, DelaySeed: 1})
	}
	for k := 0; k < cases; k++ {
		r := ctx.Rand.Fork()
		abstract := r.Chance(1, 2)
		wild := r.Chance(1, 2)
		kind := "query"
		cc, ok := genCoreCase(r, abstract, wild, kind)
		if !ok {
			ctx.Rep.Count("generator rejected")
			continue
		}
		cs := c13Case{coreCase: cc, Repeats: repeats}
		if r.Chance(2, 3) {
			cs.DelaySeed = r.U64()%1000 + 1
		}
		if r.Chance(1, 4) {
			cs.FaultSvc = 1 + r.Intn(6) // failures (odd: downstream errors, even: answers the executor rejects): the SET of reported errors must not depend on timing either
		}
		c13Check(ctx, 100+k, cs)
	}
	// node(id:) roots: known to depend on map order (open finding); anything else must not
	for k := 0; k < cases/5; k++ {
		r := ctx.Rand.Fork()
		cc, ok := genStreamCase(r, coreStreams[5])
		if !ok {
			continue
		}
		ctx.Rep.Count("stream:node-root")
		c13Check(ctx, 500000+k, c13Case{coreCase: cc, Repeats: repeats * 2})
	}
	for k := 0; k < cases/5; k++ {
		r := ctx.Rand.Fork()
		cc, x, ok := genC13FanIn(r)
		if !ok {
			ctx.Rep.Count("stream:fan-in (no suitable federation)")
			continue
		}
		ctx.Rep.Count("stream:fan-in to a failing service")
		c13Check(ctx, 700000+k, c13Case{coreCase: cc, Repeats: repeats * 3, DelaySeed: r.U64()%1000 + 1, FaultSvc: 2*x + 1 + k%2})
	}
	// two variables whose names differ only by case, declared by one sub-request
	for k := 0; k < cases/5; k++ {
		r := ctx.Rand.Fork()
		var seed uint64
		var op *fed.Op
		for try := 0; try < 8 && op == nil; try++ {
			seed = r.U64() % 1000000
			if cf, err := buildCoreFed(seed, false, false); err == nil {
				op = fed.GenTwinVarOp(r, cf.Merged.Schema, cf.F.Data)
			}
		}
		if op == nil {
			ctx.Rep.Count("stream:case-twin variables (no root field with an argument)")
			continue
		}
		ctx.Rep.Count("stream:case-twin variables")
		c13Check(ctx, 800000+k, c13Case{coreCase: coreCase{FedSeed: seed, Query: op.Query, Vars: op.Variables, Kind: "query", Features: op.Features}, Repeats: repeats * 4})
	}
	for k := 0; k < cases/5; k++ {
		r := ctx.Rand.Fork()
		cc, ok := genC13NodeRoots(r)
		if !ok {
			continue
		}
		ctx.Rep.Count("stream:several-node-roots")
		c13Check(ctx, 600000+k, c13Case{coreCase: cc, Repeats: repeats * 4, DelaySeed: r.U64()%1000 + 1})
	}
	return nil
}

// varHeader: the variable definitions of a sub-request IN THE ORDER THEY ARE WRITTEN. The header is
// part of the document a service receives (and of whatever it keys on that document: persisted
// queries, caches, logs); the gateway sorts it precisely so that it does not depend on map order.
func varHeader(query string) string {
	doc, err := parser.ParseQuery(&ast.Source{Input: query})
	if err != nil || len(doc.Operations) != 1 {
		return "unparsable"
	}
	var hs []string
	for _, vd := range doc.Operations[0].VariableDefinitions {
		hs = append(hs, "$"+vd.Variable+": "+vd.Type.String())
	}
	return strings.Join(hs, ", ")
}
