package main

// C14 — the plan cache never changes an answer.
//
// Differential on HISTORIES: two real gateways over twin fake federations (same SDL, same data,
// separate mutation counters and call logs) — one with the plain SequentialPlanner, one with
// planner.NewCachedPlanner(ttl) — are fed the same history of requests drawn from a pool that
// deliberately contains operations differing only in operation type, name, variable values,
// variable definitions, fragment type condition, fragment body, alias; sequentially, in
// concurrent bursts, across expiry, with subscriptions (driven through the `verif` hook
// Gateway.VerifSubscription and a websocket-free queryer) interleaved.
//
//   property oracle : response i of the cached gateway == response i of the plain gateway
//                     (canonical JSON) AND the multisets of downstream calls
//                     (service, operation keyword, query text, operation name, variables) are equal;
//   correspondence  : the hit/miss pattern observed by counting calls of the wrapped planner
//                     equals Model.Cache.runFrom on the same history of (key, clock, op), keys
//                     taken from the real CachedPlanner.hash (hook VerifHash); for a concurrent
//                     burst the observed hit vector must be one of the final outcomes of the
//                     lock-level transition system (exhaustive exploration by the driver).

import (
	"encoding/hex"
	"encoding/json"
	"fmt"
	"sort"
	"strings"
	"sync"
	"time"

	pebbles "github.com/buildbuildio/pebbles"
	"github.com/buildbuildio/pebbles/planner"
	"github.com/buildbuildio/pebbles/requests"
	"github.com/vektah/gqlparser/v2"
	"github.com/vektah/gqlparser/v2/ast"

	"verif/harness/fed"
	"verif/harness/hx"
)

func init() {
	register("C14", runC14)
	registerReplay("C14", func(ctx *Ctx, raw json.RawMessage) error {
		var cs c14Case
		if err := json.Unmarshal(raw, &cs); err != nil {
			return err
		}
		n := 1
		if cs.hasBurst() {
			n = 20 // schedule-dependent: repeat
		}
		for k := 0; k < n; k++ {
			c14Check(ctx, k, &cs)
		}
		return nil
	})
}

type c14Op struct {
	Query  string                 `json:"query"`
	Vars   map[string]interface{} `json:"variables,omitempty"`
	OpName *string                `json:"operationName,omitempty"`
	Kind   string                 `json:"kind"`           // query / mutation / subscription
	Note   string                 `json:"note,omitempty"` // what this pool entry varies
	Fail   bool                   `json:"fail,omitempty"` // the wrapped planner is made to fail on it (both gateways)
}

type c14Step struct {
	Kind    string `json:"kind"` // "req" | "sub" | "burst" | "sleep"
	Ops     []int  `json:"ops,omitempty"`
	SleepMs int    `json:"sleep_ms,omitempty"`
}

type c14Case struct {
	Fed     string    `json:"fed"` // "crafted" | "gen"
	FedSeed uint64    `json:"fed_seed"`
	TTLns   int64     `json:"ttl_ns"`
	Pool    []c14Op   `json:"pool"`
	Steps   []c14Step `json:"steps"`
}

func (cs *c14Case) hasBurst() bool {
	for _, s := range cs.Steps {
		if s.Kind == "burst" {
			return true
		}
	}
	return false
}

// ---------------------------------------------------------------------------------------------
// the crafted federation: Query, Mutation and Subscription share root field names; an interface
// with two implementations (fragment type conditions); A.extra / A.more live in service 1 (child
// plan steps); echo takes an argument (variables)

const c14SDL0 = `
interface Node { id: ID! }
interface I { id: ID! label: String }
type A implements Node & I { id: ID! label: String an: Int }
type B implements Node & I { id: ID! label: String }
type Query { node(id: ID!): Node ping: Int! items: [A!]! thing: I things: [I] echo(a0: Int): String }
type Mutation { ping: Int! echo(a0: Int): String }
type Subscription { ping: Int! items: [A!]! }
`
const c14SDL1 = `
interface Node { id: ID! }
type A implements Node { id: ID! extra: String more: B }
type B implements Node { id: ID! bx: Int }
type Query { node(id: ID!): Node other: String }
`

func c14CraftedData() *fed.Data {
	sc := func(v interface{}) fed.Val { return fed.Val{Kind: "scalar", Scalar: v} }
	ref := func(id string) fed.Val { return fed.Val{Kind: "ref", Ref: id} }
	d := &fed.Data{Entities: map[string]*fed.Object{}, Roots: map[string]map[string]fed.Val{}, Counters: map[string]int{}}
	add := func(o *fed.Object) { d.Entities[o.ID] = o; d.Order = append(d.Order, o.ID) }
	add(&fed.Object{Type: "A", ID: "A_0", Fields: map[string]fed.Val{"label": sc("la0"), "an": sc(1), "extra": sc("x0"), "more": ref("B_0")}})
	add(&fed.Object{Type: "A", ID: "A_1", Fields: map[string]fed.Val{"label": sc("la1"), "an": sc(2), "extra": sc("x1"), "more": ref("B_0")}})
	add(&fed.Object{Type: "B", ID: "B_0", Fields: map[string]fed.Val{"label": sc("lb0"), "bx": sc(7)}})
	items := fed.Val{Kind: "list", List: []fed.Val{ref("A_0"), ref("A_1"), ref("A_0")}}
	d.Roots["Query"] = map[string]fed.Val{"ping": sc(100), "items": items, "thing": ref("B_0"),
		"things": {Kind: "list", List: []fed.Val{ref("A_0"), ref("B_0")}}, "echo": sc("qe"), "other": sc("oth")}
	d.Roots["Mutation"] = map[string]fed.Val{"ping": sc(0), "echo": sc("me")}
	d.Roots["Subscription"] = map[string]fed.Val{"ping": sc(5), "items": items}
	return d
}

func c14CraftedPool() []c14Op {
	s := func(x string) *string { return &x }
	v := func(k string, x interface{}) map[string]interface{} { return map[string]interface{}{k: x} }
	return []c14Op{
		{Query: "{ ping }", Kind: "query", Note: "base"},
		{Query: "mutation { ping }", Kind: "mutation", Note: "operation type"},
		{Query: "subscription { ping }", Kind: "subscription", Note: "operation type"},
		{Query: "query A { ping }", Kind: "query", Note: "operation name"},
		{Query: "query B { ping }", Kind: "query", Note: "operation name"},
		{Query: "query A { ping }", OpName: s("A"), Kind: "query", Note: "operation name (selected)"},
		{Query: "mutation A { ping }", Kind: "mutation", Note: "operation type + name"},
		{Query: "query($v: Int) { echo(a0: $v) }", Vars: v("v", 1), Kind: "query", Note: "variable values"},
		{Query: "query($v: Int) { echo(a0: $v) }", Vars: v("v", 2), Kind: "query", Note: "variable values"},
		{Query: "query($v: Int!) { echo(a0: $v) }", Vars: v("v", 3), Kind: "query", Note: "variable definitions"},
		{Query: "query($v: Int = 5) { echo(a0: $v) }", Kind: "query", Note: "variable definitions (default)"},
		{Query: "query($w: Int) { echo(a0: $w) }", Vars: v("w", 4), Kind: "query", Note: "variable name"},
		{Query: "mutation($v: Int) { echo(a0: $v) }", Vars: v("v", 1), Kind: "mutation", Note: "operation type"},
		{Query: "{ thing { ...F } } fragment F on A { label }", Kind: "query", Note: "fragment type condition"},
		{Query: "{ thing { ...F } } fragment F on B { label }", Kind: "query", Note: "fragment type condition"},
		{Query: "{ things { ...F } } fragment F on A { label }", Kind: "query", Note: "fragment type condition"},
		{Query: "{ things { ...F } } fragment F on B { label }", Kind: "query", Note: "fragment type condition"},
		{Query: "{ ...Q } fragment Q on Query { thing { ...F } } fragment F on A { label }", Kind: "query", Note: "type condition of a fragment spread INSIDE another fragment"},
		{Query: "{ ...Q } fragment Q on Query { thing { ...F } } fragment F on B { label }", Kind: "query", Note: "type condition of a fragment spread INSIDE another fragment"},
		{Query: "{ things { ...O } } fragment O on I { ...F } fragment F on A { label }", Kind: "query", Note: "type condition of a fragment spread INSIDE another fragment"},
		{Query: "{ things { ...O } } fragment O on I { ...F } fragment F on B { label }", Kind: "query", Note: "type condition of a fragment spread INSIDE another fragment"},
		{Query: "{ things { ... on I { ...F } } } fragment F on A { label }", Kind: "query", Note: "type condition of a fragment spread INSIDE an inline fragment"},
		{Query: "{ things { ... on I { ...F } } } fragment F on B { label }", Kind: "query", Note: "type condition of a fragment spread INSIDE an inline fragment"},
		{Query: "{ thing { ... { ...F } } } fragment F on A { label }", Kind: "query", Note: "type condition of a fragment spread INSIDE an untyped inline fragment"},
		{Query: "{ thing { ... { ...F } } } fragment F on B { label }", Kind: "query", Note: "type condition of a fragment spread INSIDE an untyped inline fragment"},
		{Query: "{ things { ... on I { ... on I { ...F } } } } fragment F on A { label }", Kind: "query", Note: "type condition of a fragment spread INSIDE nested inline fragments"},
		{Query: "{ things { ... on I { ... on I { ...F } } } } fragment F on B { label }", Kind: "query", Note: "type condition of a fragment spread INSIDE nested inline fragments"},
		{Query: "{ thing { ... on A { label } } }", Kind: "query", Note: "inline fragment condition"},
		{Query: "{ thing { ... on B { label } } }", Kind: "query", Note: "inline fragment condition"},
		{Query: "{ items { ...F } } fragment F on A { label }", Kind: "query", Note: "fragment body"},
		{Query: "{ items { ...F } } fragment F on A { extra }", Kind: "query", Note: "fragment body"},
		{Query: "{ x: ping }", Kind: "query", Note: "alias"},
		{Query: "{ y: ping }", Kind: "query", Note: "alias"},
		{Query: "{ ping: ping }", Kind: "query", Note: "alias = name"},
		{Query: "{ items { label extra more { bx } } }", Kind: "query", Note: "child steps"},
		{Query: "{ items { label extra } }", Kind: "query", Note: "same selection as the subscription"},
		{Query: "query { items { label extra } }", Kind: "query", Note: "explicit keyword"},
		{Query: "subscription { items { label extra } }", Kind: "subscription", Note: "subscription with child steps"},
		{Query: "subscription S { items { label extra } }", Kind: "subscription", Note: "subscription with child steps, named"},
		{Query: "subscription { items { label } }", Kind: "subscription", Note: "subscription without child steps"},
		{Query: "{ other }", Kind: "query", Note: "other service"},
		{Query: "{ other ping }", Kind: "query", Note: "planning error (injected)", Fail: true},
	}
}

// ---------------------------------------------------------------------------------------------

type c14Counting struct {
	inner planner.Planner
	fail  map[string]bool // query texts on which planning fails
	mu    sync.Mutex
	calls map[string]int // by request tag
}

func (c *c14Counting) Plan(ctx *planner.PlanningContext) (*planner.QueryPlan, error) {
	tag, _ := ctx.Request.Variables["__tag"].(string)
	c.mu.Lock()
	c.calls[tag]++
	c.mu.Unlock()
	if c.fail[ctx.Request.Query] {
		return nil, fmt.Errorf("injected planning error")
	}
	return c.inner.Plan(ctx)
}

func (c *c14Counting) count(tag string) int {
	c.mu.Lock()
	defer c.mu.Unlock()
	return c.calls[tag]
}

type c14Side struct {
	fed   *fed.Fed
	gw    *pebbles.Gateway
	sublg *fed.SubLog
	cnt   *c14Counting
	cp    *planner.CachedPlanner
}

func c14BuildFed(cs *c14Case) (*fed.Fed, error) {
	if cs.Fed == "crafted" {
		return fed.FromSDL([]string{c14SDL0, c14SDL1}, c14CraftedData())
	}
	r := hx.NewRand(cs.FedSeed)
	spec := fed.Generate(r, c14GenOptions())
	data := fed.GenData(r, spec, fed.DefaultData())
	return fed.Build(spec, data)
}

func c14GenOptions() fed.GenOptions {
	o := fed.DefaultGen()
	o.Subs = true
	return o
}

func c14NewSide(cs *c14Case, cached bool) (*c14Side, error) {
	f, err := c14BuildFed(cs)
	if err != nil {
		return nil, err
	}
	s := &c14Side{fed: f, sublg: &fed.SubLog{}}
	var sp planner.SequentialPlanner
	s.cnt = &c14Counting{inner: sp, fail: map[string]bool{}, calls: map[string]int{}}
	for _, o := range cs.Pool {
		if o.Fail {
			s.cnt.fail[o.Query] = true
		}
	}
	var pl planner.Planner = s.cnt
	if cached {
		s.cp = planner.NewCachedPlanner(time.Duration(cs.TTLns)).WithPlannerExecutor(s.cnt)
		pl = s.cp
	}
	s.gw, err = f.NewGateway(fed.GatewayConfig{Options: []pebbles.GatewayOption{f.SubQueryerFactory(s.sublg, 0), pebbles.WithPlanner(pl)}})
	return s, err
}

func c14Vars(o *c14Op, tag string) map[string]interface{} {
	m := map[string]interface{}{"__tag": tag}
	for k, v := range o.Vars {
		m[k] = v
	}
	return m
}

func c14CanonResp(r *fed.Response) string {
	msgs := []string{}
	for _, e := range r.Errors {
		if m, ok := e.(map[string]interface{}); ok {
			msgs = append(msgs, fmt.Sprint(m["message"]))
		}
	}
	sort.Strings(msgs)
	return hx.Canon(map[string]interface{}{"data": r.Data, "errors": msgs, "status": r.Status})
}

func c14CanonSub(r *requests.Response, err error) string {
	if err != nil {
		return "setup-error: " + err.Error()
	}
	msgs := []string{}
	for _, e := range r.Errors {
		msgs = append(msgs, e.Message)
	}
	sort.Strings(msgs)
	return hx.Canon(map[string]interface{}{"data": r.Data, "errors": msgs})
}

func c14StripTag(v map[string]interface{}) map[string]interface{} {
	out := map[string]interface{}{}
	for k, x := range v {
		if k != "__tag" {
			out[k] = x
		}
	}
	return out
}

func c14Calls(f *fed.Fed) []string {
	var out []string
	for _, c := range f.AllCalls() {
		name := "<nil>"
		if c.OpName != nil {
			name = *c.OpName
		}
		out = append(out, fmt.Sprintf("svc%d|%s|%s|%s|%s", c.Service, c.Operation, name, c.Query, hx.Canon(c14StripTag(c.Variables))))
	}
	sort.Strings(out)
	return out
}

type c14ReqObs struct {
	Step     int      `json:"step"`
	Op       int      `json:"op"`
	Sub      bool     `json:"sub,omitempty"`
	Burst    bool     `json:"burst,omitempty"`
	Key      string   `json:"key"`
	Miss     bool     `json:"miss"`
	BeforeNs int64    `json:"before_ns"`
	AfterNs  int64    `json:"after_ns"`
	Cached   string   `json:"cached"`
	Plain    string   `json:"plain"`
	CallsC   []string `json:"calls_cached,omitempty"`
	CallsP   []string `json:"calls_plain,omitempty"`
}

type c14Run struct {
	Obs      []c14ReqObs
	Problems []string // property-oracle failures, human readable
	PlanLens [2]int
}

// c14Key asks the REAL cached planner for the key of an operation (fresh parse).
func c14Key(cp *planner.CachedPlanner, schema *ast.Schema, o *c14Op) string {
	doc, err := gqlparser.LoadQuery(schema, o.Query)
	if err != nil {
		return "invalid:" + o.Query
	}
	var op *ast.OperationDefinition
	if o.OpName != nil {
		op = doc.Operations.ForName(*o.OpName)
	} else if len(doc.Operations) == 1 {
		op = doc.Operations[0]
	}
	if op == nil {
		return "noop:" + o.Query
	}
	h := cp.VerifHash(&planner.PlanningContext{Operation: op, Request: &requests.Request{Query: o.Query}, Schema: schema})
	return hex.EncodeToString(h[:])
}

func c14Execute(cs *c14Case) (*c14Run, error) {
	plain, err := c14NewSide(cs, false)
	if err != nil {
		return nil, err
	}
	cached, err := c14NewSide(cs, true)
	if err != nil {
		return nil, err
	}
	mr, err := cached.fed.Merged()
	if err != nil {
		return nil, err
	}
	keys := make([]string, len(cs.Pool))
	for i := range cs.Pool {
		keys[i] = c14Key(cached.cp, mr.Schema, &cs.Pool[i])
	}
	run := &c14Run{}
	t0 := time.Now()
	ntag := 0
	tiny := cs.TTLns <= 1
	compare := func(o *c14ReqObs) {
		if o.Cached != o.Plain {
			run.Problems = append(run.Problems, fmt.Sprintf("step %d: `%s` answered %s by the cached gateway, %s by the plain gateway", o.Step, cs.Pool[o.Op].Query, o.Cached, o.Plain))
		} else if strings.Join(o.CallsC, "\n") != strings.Join(o.CallsP, "\n") {
			run.Problems = append(run.Problems, fmt.Sprintf("step %d: `%s`: downstream calls differ: cached %v, plain %v", o.Step, cs.Pool[o.Op].Query, o.CallsC, o.CallsP))
		}
	}
	for si, st := range cs.Steps {
		switch st.Kind {
		case "sleep":
			time.Sleep(time.Duration(st.SleepMs) * time.Millisecond)
		case "req", "sub":
			if tiny {
				time.Sleep(2 * time.Microsecond) // let the clock pass the (0 or 1 ns) expiry
			}
			oi := st.Ops[0]
			op := &cs.Pool[oi]
			tag := fmt.Sprintf("t%d", ntag)
			ntag++
			obs := c14ReqObs{Step: si, Op: oi, Key: keys[oi], Sub: st.Kind == "sub"}
			plain.fed.ResetLogs()
			cached.fed.ResetLogs()
			if st.Kind == "req" {
				obs.BeforeNs = int64(time.Since(t0))
				rc := fed.Do(cached.gw, op.Query, c14Vars(op, tag), op.OpName)
				obs.AfterNs = int64(time.Since(t0))
				rp := fed.Do(plain.gw, op.Query, c14Vars(op, tag), op.OpName)
				obs.Cached, obs.Plain = c14CanonResp(rc), c14CanonResp(rp)
			} else {
				obs.BeforeNs = int64(time.Since(t0))
				obs.Cached = c14Subscribe(cached, op, tag)
				obs.AfterNs = int64(time.Since(t0))
				obs.Plain = c14Subscribe(plain, op, tag)
			}
			obs.Miss = cached.cnt.count(tag) > 0
			obs.CallsC, obs.CallsP = c14Calls(cached.fed), c14Calls(plain.fed)
			compare(&obs)
			run.Obs = append(run.Obs, obs)
		case "burst":
			plain.fed.ResetLogs()
			cached.fed.ResetLogs()
			k := len(st.Ops)
			tags := make([]string, k)
			for i := range tags {
				tags[i] = fmt.Sprintf("t%d", ntag)
				ntag++
			}
			resC := make([]string, k)
			start := make(chan struct{})
			var wg sync.WaitGroup
			before := int64(time.Since(t0))
			for i, oi := range st.Ops {
				wg.Add(1)
				go func(i, oi int) {
					defer wg.Done()
					op := &cs.Pool[oi]
					<-start
					resC[i] = c14CanonResp(fed.Do(cached.gw, op.Query, c14Vars(op, tags[i]), op.OpName))
				}(i, oi)
			}
			close(start)
			wg.Wait()
			after := int64(time.Since(t0))
			callsC := c14Calls(cached.fed)
			for i, oi := range st.Ops {
				op := &cs.Pool[oi]
				rp := fed.Do(plain.gw, op.Query, c14Vars(op, tags[i]), op.OpName)
				obs := c14ReqObs{Step: si, Op: oi, Key: keys[oi], Burst: true, BeforeNs: before, AfterNs: after,
					Cached: resC[i], Plain: c14CanonResp(rp), Miss: cached.cnt.count(tags[i]) > 0}
				compare(&obs)
				run.Obs = append(run.Obs, obs)
			}
			callsP := c14Calls(plain.fed)
			if strings.Join(callsC, "\n") != strings.Join(callsP, "\n") {
				run.Problems = append(run.Problems, fmt.Sprintf("step %d (burst %v): the multisets of downstream calls differ: cached %v, plain %v", si, st.Ops, callsC, callsP))
			}
		}
	}
	run.PlanLens[0], run.PlanLens[1] = cached.cp.VerifCacheLen()
	if run.PlanLens[0] != run.PlanLens[1] {
		run.Problems = append(run.Problems, fmt.Sprintf("cache holds %d plans but %d timers", run.PlanLens[0], run.PlanLens[1]))
	}
	return run, nil
}

// c14Subscribe sets a subscription up through the real newSubscriptionEntry (hook), feeds it one
// root event (the root service's own answer to the root subscription request) and returns the
// canonical event payload the client would be sent, together with the root request.
func c14Subscribe(s *c14Side, op *c14Op, tag string) string {
	prep, err := s.gw.VerifSubscription(&requests.Request{Query: op.Query, Variables: c14Vars(op, tag), OperationName: op.OpName})
	if err != nil {
		return c14CanonSub(nil, err)
	}
	srs := s.sublg.Take()
	out := []string{}
	for _, sr := range srs {
		name := "<nil>"
		if sr.Request.OperationName != nil {
			name = *sr.Request.OperationName
		}
		ev := s.fed.RootEvent(sr)
		// the per-event pipeline can panic on its own (plain gateway too: an event without any
		// insertion point for the child steps leaves the executor without a depth-0 level) —
		// not this property's subject: the panic text is the outcome compared
		payload := func() (res string) {
			defer func() {
				if p := recover(); p != nil {
					res = "panic: " + fmt.Sprint(p)
				}
			}()
			return c14CanonSub(prep(ev), nil)
		}()
		out = append(out, fmt.Sprintf("root[%s|%s|%s|%s] -> %s", sr.URL, name, sr.Request.Query, hx.Canon(c14StripTag(sr.Request.Variables)), payload))
	}
	return strings.Join(out, " ; ")
}

// ---------------------------------------------------------------------------------------------

func c14Check(ctx *Ctx, idx int, cs *c14Case) {
	run, err := c14Execute(cs)
	if err != nil {
		ctx.Rep.Fail(hx.Failure{Kind: "harness-error", Detail: err.Error(), Case: cs, Index: idx})
		flushReport(ctx)
		return
	}
	hits, expiries := 0, 0
	seenKey := map[string]bool{}
	for _, o := range run.Obs {
		if !o.Miss {
			hits++
		} else if seenKey[o.Key] {
			expiries++
		}
		seenKey[o.Key] = true
	}
	keyb, _ := json.Marshal(cs)
	ctx.Rep.Case(string(keyb), hits > 0 || expiries > 0)
	ctx.Rep.Count(fmt.Sprintf("fed=%s ttl=%s", cs.Fed, time.Duration(cs.TTLns)))
	if hits > 0 {
		ctx.Rep.Count("history with cache hits")
	}
	if expiries > 0 {
		ctx.Rep.Count("history with expiry (re-plan of a key seen before)")
	}
	if cs.hasBurst() {
		ctx.Rep.Count("history with a concurrent burst")
	}
	for _, s := range cs.Steps {
		if s.Kind == "sub" {
			ctx.Rep.Count("history with subscriptions")
			break
		}
	}
	distinctOpsPerKey := map[string]map[int]bool{}
	for _, o := range run.Obs {
		if distinctOpsPerKey[o.Key] == nil {
			distinctOpsPerKey[o.Key] = map[int]bool{}
		}
		distinctOpsPerKey[o.Key][o.Op] = true
	}
	for _, m := range distinctOpsPerKey {
		if len(m) > 1 {
			ctx.Rep.Count("history with distinct pool operations under one key")
			break
		}
	}
	for _, o := range run.Obs {
		if o.Sub && strings.Contains(o.Plain, "-> panic: ") {
			ctx.Rep.Count("per-event pipeline of the PLAIN gateway panicked (outside C14; outcome compared as text)")
			if !c14NotedPanic {
				c14NotedPanic = true
				ctx.Rep.Note(fmt.Sprintf("plain gateway: subscription event pipeline panics (not C14): fed_seed=%d op=%s outcome=%s", cs.FedSeed, cs.Pool[o.Op].Query, o.Plain))
			}
			break
		}
	}
	if len(cs.Steps) <= 6 {
		ctx.Rep.Sample(map[string]interface{}{"case": cs, "observed": run.Obs})
	}
	// ---- impl vs property oracle
	if len(run.Problems) > 0 {
		if c14PlainIsUnstable(cs, run) {
			ctx.Rep.Count("plain gateway itself not deterministic on this history (not counted)")
		} else {
			ctx.Rep.Fail(hx.Failure{Kind: "property-fails", Detail: run.Problems[0] + c14Blame(cs, run), Case: cs, Impl: run, Index: idx})
			flushReport(ctx)
		}
	}
	// ---- impl vs model
	if ctx.Driver == nil {
		return
	}
	if cs.hasBurst() {
		c14CheckBurst(ctx, idx, cs, run)
	} else {
		c14CheckSequential(ctx, idx, cs, run)
	}
}

// c14Blame names the earlier request whose cached plan was served, if any.
func c14Blame(cs *c14Case, run *c14Run) string {
	for i, o := range run.Obs {
		if o.Cached == o.Plain && strings.Join(o.CallsC, "\n") == strings.Join(o.CallsP, "\n") {
			continue
		}
		for j := i - 1; j >= 0; j-- {
			if run.Obs[j].Key == o.Key && (run.Obs[j].Op != o.Op || run.Obs[j].Sub) {
				return fmt.Sprintf(" — same cache key as the earlier `%s` (step %d)", cs.Pool[run.Obs[j].Op].Query, run.Obs[j].Step)
			}
		}
		break
	}
	return ""
}

// c14PlainIsUnstable replays the history on fresh plain twins: if the plain gateway itself gives
// different answers on identical histories the comparison says nothing about the cache.
func c14PlainIsUnstable(cs *c14Case, run *c14Run) bool {
	seq := *cs
	seq.Steps = nil
	for _, s := range cs.Steps {
		switch s.Kind {
		case "burst":
			for _, o := range s.Ops {
				seq.Steps = append(seq.Steps, c14Step{Kind: "req", Ops: []int{o}})
			}
		case "sleep":
		default:
			seq.Steps = append(seq.Steps, s)
		}
	}
	for k := 0; k < 2; k++ {
		a, err := c14NewSide(&seq, false)
		if err != nil {
			return false
		}
		n := 0
		for _, st := range seq.Steps {
			op := &seq.Pool[st.Ops[0]]
			tag := fmt.Sprintf("t%d", n)
			var got string
			a.fed.ResetLogs()
			if st.Kind == "sub" {
				got = c14Subscribe(a, op, tag)
			} else {
				got = c14CanonResp(fed.Do(a.gw, op.Query, c14Vars(op, tag), op.OpName))
			}
			if n < len(run.Obs) && (got != run.Obs[n].Plain || strings.Join(c14Calls(a.fed), "\n") != strings.Join(run.Obs[n].CallsP, "\n") && !run.Obs[n].Burst) {
				return true
			}
			n++
		}
	}
	return false
}

func c14DriverReqs(cs *c14Case, obs []c14ReqObs) []map[string]interface{} {
	reqs := make([]map[string]interface{}, len(obs))
	for i, o := range obs {
		reqs[i] = map[string]interface{}{"t1": o.BeforeNs, "t2": o.AfterNs, "op": o.Op, "key": o.Key, "err": cs.Pool[o.Op].Fail, "sub": o.Sub}
	}
	return reqs
}

func c14CheckSequential(ctx *Ctx, idx int, cs *c14Case, run *c14Run) {
	// the clock inside Plan is not observable; its two readings for request i lie in
	// [before_i, after_i]. The model's hit/miss pattern depends only on the comparisons
	// t2_j + ttl < t1_i (j < i); skip the comparison when the brackets leave one undetermined.
	for i := range run.Obs {
		for j := 0; j < i; j++ {
			sureExpired := run.Obs[j].AfterNs+cs.TTLns < run.Obs[i].BeforeNs
			sureAlive := run.Obs[j].BeforeNs+cs.TTLns >= run.Obs[i].AfterNs
			if !sureExpired && !sureAlive {
				ctx.Rep.Count("timing leaves hit/miss undetermined (model comparison skipped)")
				return
			}
		}
	}
	res, err := ctx.Driver.Call(map[string]interface{}{"op": "c14.history", "ttl": cs.TTLns, "reqs": c14DriverReqs(cs, run.Obs)})
	if err != nil {
		ctx.Rep.Fail(hx.Failure{Kind: "harness-error", Detail: err.Error(), Case: cs, Index: idx})
		flushReport(ctx)
		return
	}
	ctx.Rep.Traces++
	mhits, _ := res["hits"].([]interface{})
	served, _ := res["served"].([]interface{})
	if len(mhits) != len(run.Obs) {
		ctx.Rep.Fail(hx.Failure{Kind: "model-mismatch", Detail: "model answered a different number of requests", Case: cs, Impl: run, Model: res, Index: idx})
		flushReport(ctx)
		return
	}
	for i, o := range run.Obs {
		mh, _ := mhits[i].(bool)
		if mh == o.Miss {
			ctx.Rep.Fail(hx.Failure{Kind: "model-mismatch", Detail: fmt.Sprintf("step %d `%s`: wrapped planner called=%v but Model.Cache says hit=%v", o.Step, cs.Pool[o.Op].Query, o.Miss, mh), Case: cs, Impl: run, Model: res, Index: idx})
			flushReport(ctx)
			return
		}
		// where the implementation deviates from the plain twin, the model must have served a
		// foreign or mutilated plan — and vice versa a mutilated plan must show
		sv, _ := served[i].(map[string]interface{})
		foreign := false
		if sv != nil {
			if n, ok := sv["op"].(json.Number); ok {
				x, _ := n.Int64()
				foreign = int(x) != o.Op
			}
			if c, ok := sv["cut"].(bool); ok && c {
				foreign = true
			}
		}
		deviates := o.Cached != o.Plain || strings.Join(o.CallsC, "\n") != strings.Join(o.CallsP, "\n")
		if deviates && foreign {
			break // from here on the twin federations may be in different states (a mutation ran on one side only)
		}
		if deviates && !foreign {
			ctx.Rep.Fail(hx.Failure{Kind: "model-mismatch", Detail: fmt.Sprintf("step %d `%s`: the cached gateway deviates from the plain one but Model.Cache serves the request its own intact plan", o.Step, cs.Pool[o.Op].Query), Case: cs, Impl: run, Model: res, Index: idx})
			flushReport(ctx)
			return
		}
	}
}

func c14CheckBurst(ctx *Ctx, idx int, cs *c14Case, run *c14Run) {
	// only for a long TTL (no expiry inside the run): warm-up prefix, then the burst
	if time.Duration(cs.TTLns) < time.Minute {
		return
	}
	var warm []map[string]interface{}
	var burst []c14ReqObs
	seen := map[string]bool{}
	for _, o := range run.Obs {
		if o.Burst {
			burst = append(burst, o)
			continue
		}
		if len(burst) > 0 {
			break // requests after the burst: differential only
		}
		if !seen[o.Key] && !cs.Pool[o.Op].Fail {
			seen[o.Key] = true
			warm = append(warm, map[string]interface{}{"key": o.Key, "op": o.Op, "expiry": 1 << 50})
		}
	}
	if len(burst) == 0 || len(burst) > 4 {
		return
	}
	res, err := ctx.Driver.Call(map[string]interface{}{"op": "c14.explore", "ttl": 1 << 40, "warm": warm, "reqs": c14DriverReqs(cs, burst)})
	if err != nil {
		ctx.Rep.Fail(hx.Failure{Kind: "harness-error", Detail: err.Error(), Case: cs, Index: idx})
		flushReport(ctx)
		return
	}
	ctx.Rep.Traces++
	if b, ok := res["bad"].(string); ok && b != "" {
		ctx.Rep.Fail(hx.Failure{Kind: "model-mismatch", Detail: "lock-level model: " + b, Case: cs, Model: res, Index: idx})
		flushReport(ctx)
		return
	}
	want := make([]bool, len(burst))
	for i, o := range burst {
		want[i] = !o.Miss
	}
	finals, _ := res["finals"].([]interface{})
	for _, f := range finals {
		fm, _ := f.(map[string]interface{})
		hs, _ := fm["hits"].([]interface{})
		if len(hs) != len(want) {
			continue
		}
		same := true
		for i := range hs {
			if b, _ := hs[i].(bool); b != want[i] {
				same = false
			}
		}
		if same {
			ctx.Rep.Count(fmt.Sprintf("burst of %d: observed hit vector is one of the %d final outcomes of the lock-level model", len(want), len(finals)))
			return
		}
	}
	ctx.Rep.Fail(hx.Failure{Kind: "model-mismatch", Detail: fmt.Sprintf("observed hit vector %v of the concurrent burst is not a final outcome of the lock-level model", want), Case: cs, Impl: run, Model: res, Index: idx})
	flushReport(ctx)
}

// ---------------------------------------------------------------------------------------------
// generation

var c14NotedPanic bool

var c14TTLs = []int64{0, 1, int64(50 * time.Millisecond), int64(time.Hour)}

// c14GenPool draws a pool for a generated federation: base operations plus variants that differ
// only in name / variable values / operation keyword spelling.
func c14GenPool(r *hx.Rand, cs *c14Case) error {
	f, err := c14BuildFed(cs)
	if err != nil {
		return err
	}
	mr, err := f.Merged()
	if err != nil {
		return err
	}
	kinds := []string{"query", "query", "query", "mutation", "subscription"}
	for len(cs.Pool) < 5 {
		kind := hx.Pick(r, kinds)
		op := fed.GenOp(r, mr.Schema, f.Data, kind, fed.SafeOps())
		if op == nil {
			continue
		}
		if _, gerr := gqlparser.LoadQuery(mr.Schema, op.Query); gerr != nil {
			continue
		}
		base := c14Op{Query: op.Query, Vars: op.Variables, OpName: op.OpName, Kind: kind, Note: "generated"}
		cs.Pool = append(cs.Pool, base)
		// variants
		if head, body, ok := c14SplitHead(op.Query); ok {
			kw, name, defs := c14ParseHead(head)
			if kw == "" {
				kw = "query"
			}
			if base.OpName == nil {
				newName := "Rn" + fmt.Sprint(r.Intn(50))
				if newName == name {
					newName += "x"
				}
				cs.Pool = append(cs.Pool, c14Op{Query: kw + " " + newName + defs + " " + body, Vars: op.Variables, Kind: kind, Note: "variant: operation name"})
			}
			if name == "" && defs == "" && kw == "query" {
				alt := "query " + body
				if strings.HasPrefix(strings.TrimSpace(op.Query), "query") {
					alt = body
				}
				cs.Pool = append(cs.Pool, c14Op{Query: alt, Kind: kind, Note: "variant: keyword spelling"})
			}
		}
		if len(op.Variables) > 0 {
			nv := map[string]interface{}{}
			for k, v := range op.Variables {
				switch x := v.(type) {
				case int:
					nv[k] = x + 1
				case string:
					nv[k] = x + "'"
				case bool:
					nv[k] = !x
				default:
					nv[k] = v
				}
			}
			cs.Pool = append(cs.Pool, c14Op{Query: op.Query, Vars: nv, OpName: op.OpName, Kind: kind, Note: "variant: variable values"})
		}
	}
	return nil
}

func c14SplitHead(q string) (head, body string, ok bool) {
	i := strings.Index(q, "{")
	if i < 0 {
		return "", "", false
	}
	return strings.TrimSpace(q[:i]), q[i:], true
}

func c14ParseHead(head string) (kw, name, defs string) {
	if i := strings.Index(head, "("); i >= 0 {
		defs = head[i:]
		head = strings.TrimSpace(head[:i])
	}
	parts := strings.Fields(head)
	if len(parts) > 0 {
		kw = parts[0]
	}
	if len(parts) > 1 {
		name = parts[1]
	}
	return
}

func c14PickOp(r *hx.Rand, cs *c14Case, want func(*c14Op) bool) int {
	var cands []int
	for i := range cs.Pool {
		if want(&cs.Pool[i]) {
			cands = append(cands, i)
		}
	}
	if len(cands) == 0 {
		return -1
	}
	return hx.Pick(r, cands)
}

// c14GenSteps draws a history. Operations are drawn from a small working set of the pool so that
// repeats (hits) and colliding neighbours are frequent.
func c14GenSteps(r *hx.Rand, cs *c14Case, maxLen int, burst bool) {
	ws := map[int]bool{}
	wsize := r.Range(2, 5)
	for len(ws) < wsize && len(ws) < len(cs.Pool) {
		i := r.Intn(len(cs.Pool))
		ws[i] = true
		// pull in the neighbours of a crafted pair (they sit next to each other in the pool)
		if cs.Fed == "crafted" && r.Chance(2, 3) {
			if i+1 < len(cs.Pool) {
				ws[i+1] = true
			}
		}
	}
	inWS := func(o *c14Op) bool {
		for i := range ws {
			if &cs.Pool[i] == o {
				return true
			}
		}
		return false
	}
	n := r.Range(1, maxLen)
	longTTL := time.Duration(cs.TTLns) == 50*time.Millisecond
	emit := func() {
		i := c14PickOp(r, cs, inWS)
		if i < 0 {
			return
		}
		kind := "req"
		if cs.Pool[i].Kind == "subscription" {
			kind = "sub"
		}
		cs.Steps = append(cs.Steps, c14Step{Kind: kind, Ops: []int{i}})
	}
	if !burst {
		sleeps := 0
		for k := 0; k < n; k++ {
			if longTTL && k > 0 && sleeps < 3 && r.Chance(1, 6) {
				cs.Steps = append(cs.Steps, c14Step{Kind: "sleep", SleepMs: 65})
				sleeps++
			}
			emit()
		}
		return
	}
	// warm-up, burst of concurrent QUERIES (mutations have order-dependent answers), tail
	for k := 0; k < r.Range(0, 2); k++ {
		emit()
	}
	isQuery := func(o *c14Op) bool { return o.Kind == "query" && inWS(o) }
	if c14PickOp(r, cs, isQuery) < 0 {
		isQuery = func(o *c14Op) bool { return o.Kind == "query" }
	}
	bk := r.Range(2, 3)
	if maxLen > 12 {
		bk = r.Range(2, 4)
	}
	var ops []int
	for k := 0; k < bk; k++ {
		if i := c14PickOp(r, cs, isQuery); i >= 0 {
			ops = append(ops, i)
		}
	}
	if len(ops) >= 2 {
		if time.Duration(cs.TTLns) == 50*time.Millisecond && r.Chance(1, 2) {
			cs.Steps = append(cs.Steps, c14Step{Kind: "sleep", SleepMs: 65})
		}
		cs.Steps = append(cs.Steps, c14Step{Kind: "burst", Ops: ops})
	}
	for k := 0; k < r.Range(0, 3); k++ {
		emit()
	}
}

func runC14(ctx *Ctx) error {
	ctx.Rep.Rule = "case = one request history (sequential requests, subscriptions, sleeps across the TTL, concurrent bursts) over a pool of operations " +
		"run through two real gateways (plain planner / CachedPlanner with TTL in {0,1ns,50ms,1h}) on twin fake federations; distinct = distinct (federation, TTL, pool, steps); " +
		"non-trivial = the history produced at least one cache hit or one expiry (re-plan of a key seen before)"
	idx := 0
	crafted := func(ttl int64, steps ...c14Step) *c14Case {
		return &c14Case{Fed: "crafted", TTLns: ttl, Pool: c14CraftedPool(), Steps: steps}
	}
	rq := func(i int) c14Step { return c14Step{Kind: "req", Ops: []int{i}} }
	sb := func(i int) c14Step { return c14Step{Kind: "sub", Ops: []int{i}} }
	find := func(q string) int {
		for i, o := range c14CraftedPool() {
			if o.Query == q && o.OpName == nil {
				return i
			}
		}
		panic("no pool op " + q)
	}
	hour := int64(time.Hour)
	// ---- corpus: the collision-directed pairs first (DESIGN §6 C14 "Search")
	pairs := [][2]string{
		{"{ ping }", "mutation { ping }"},
		{"mutation { ping }", "{ ping }"},
		{"query A { ping }", "query B { ping }"},
		{"query A { ping }", "{ ping }"},
		{"query A { ping }", "mutation A { ping }"},
		{"{ thing { ...F } } fragment F on A { label }", "{ thing { ...F } } fragment F on B { label }"},
		{"{ things { ...F } } fragment F on B { label }", "{ things { ...F } } fragment F on A { label }"},
		{"{ ...Q } fragment Q on Query { thing { ...F } } fragment F on A { label }", "{ ...Q } fragment Q on Query { thing { ...F } } fragment F on B { label }"},
		{"{ things { ...O } } fragment O on I { ...F } fragment F on B { label }", "{ things { ...O } } fragment O on I { ...F } fragment F on A { label }"},
		{"{ thing { ... on A { label } } }", "{ thing { ... on B { label } } }"},
		{"{ items { ...F } } fragment F on A { label }", "{ items { ...F } } fragment F on A { extra }"},
		{"{ x: ping }", "{ y: ping }"},
		{"{ ping }", "{ ping: ping }"},
		{"query($v: Int) { echo(a0: $v) }", "query($v: Int!) { echo(a0: $v) }"},
		{"query($v: Int) { echo(a0: $v) }", "query($v: Int = 5) { echo(a0: $v) }"},
		{"query($v: Int) { echo(a0: $v) }", "query($w: Int) { echo(a0: $w) }"},
		{"query($v: Int) { echo(a0: $v) }", "mutation($v: Int) { echo(a0: $v) }"},
		{"{ items { label extra } }", "query { items { label extra } }"},
		{"{ other ping }", "{ other ping }"},
	}
	runPair := func(p [2]string) {
		a, b := find(p[0]), find(p[1])
		c14Check(ctx, idx, crafted(hour, rq(a), rq(b), rq(a), rq(b)))
		idx++
	}
	// one witness of each known way to go wrong first: operation type, shared plan written by a
	// subscription, fragment type condition, operation name
	subI, subN, subL, qI := find("subscription { items { label extra } }"), find("subscription S { items { label extra } }"), find("subscription { items { label } }"), find("{ items { label extra } }")
	runPair(pairs[0])
	c14Check(ctx, idx, crafted(hour, sb(subI), sb(subI), rq(qI)))
	idx++
	runPair(pairs[5])
	runPair(pairs[2])
	for _, p := range pairs[1:] {
		runPair(p)
	}
	// variable values under one plan
	c14Check(ctx, idx, crafted(hour, rq(7), rq(8), rq(7)))
	idx++
	// the shared-plan histories: subscription, the same subscription again, then the query with the
	// same selection; and the other way round
	for _, steps := range [][]c14Step{
		{sb(subI), sb(subI), rq(qI)},
		{rq(qI), sb(subI), rq(qI), sb(subI)},
		{sb(subN), sb(subN), sb(subI)},
		{sb(subL), sb(subL), sb(find("subscription { ping }")), rq(find("{ ping }")), rq(find("mutation { ping }"))},
	} {
		c14Check(ctx, idx, crafted(hour, steps...))
		idx++
	}
	// expiry: TTL 0 and 1ns never hit; 50ms hits inside, misses across a sleep
	for _, ttl := range c14TTLs {
		c14Check(ctx, idx, crafted(ttl, rq(0), rq(0), rq(1), c14Step{Kind: "sleep", SleepMs: 65}, rq(0), rq(0), rq(1)))
		idx++
	}
	// bursts
	c14Check(ctx, idx, crafted(hour, c14Step{Kind: "burst", Ops: []int{0, 0, 3}}, rq(0), rq(1)))
	idx++
	c14Check(ctx, idx, crafted(hour, rq(0), c14Step{Kind: "burst", Ops: []int{0, 4, qI}}, rq(qI)))
	idx++
	c14Check(ctx, idx, crafted(1, c14Step{Kind: "burst", Ops: []int{0, 0, 0}}, rq(0)))
	idx++

	// ---- generated histories
	nHist := 1200
	maxLen := 12
	if ctx.Thorough() {
		nHist = 9000
		maxLen = 40
	}
	var gen *c14Case
	for k := 0; k < nHist; k++ {
		if len(ctx.Rep.Failures) >= 40 {
			ctx.Rep.Note("stopped generating after 40 failing histories")
			break
		}
		r := ctx.Rand.Fork()
		ttl := hx.Pick(r, c14TTLs)
		var cs *c14Case
		if r.Chance(1, 2) {
			cs = crafted(ttl)
		} else {
			if gen == nil || k%6 == 0 {
				gen = &c14Case{Fed: "gen", FedSeed: r.U64()}
				if err := c14GenPool(r, gen); err != nil {
					gen = nil
					ctx.Rep.Count("generated federation rejected by the merger (skipped)")
					continue
				}
			}
			cs = &c14Case{Fed: "gen", FedSeed: gen.FedSeed, TTLns: ttl, Pool: gen.Pool}
		}
		c14GenSteps(r, cs, maxLen, r.Chance(1, 4))
		if len(cs.Steps) == 0 {
			continue
		}
		c14Check(ctx, idx, cs)
		idx++
	}
	return nil
}
