package main

// C15 — introspecting a service reproduces its schema.
//
// Real code under test: (&introspection.ParallelRemoteSchemaIntrospector{Factory}).IntrospectRemoteSchemas
// fed by a fake queryer that answers the introspection query the real code sends with the
// spec-shaped answer for a generated schema (Lean Spec.introspect through the driver,
// cross-validated against the Go oracle goSpecStd), or with a mutated / legacy-shaped answer.
// Compared with: the source schema (property oracle) and Model.Remote (correspondence; the
// model's output goes through the real formatter + LoadSchema before comparing).

import (
	"encoding/json"
	"fmt"
	"os"
	"os/exec"
	"sort"
	"strconv"
	"strings"

	"github.com/buildbuildio/pebbles/introspection"
	"github.com/buildbuildio/pebbles/queryer"
	"github.com/buildbuildio/pebbles/requests"
	"github.com/vektah/gqlparser/v2"
	"github.com/vektah/gqlparser/v2/ast"
	"verif/harness/hx"
)

func init() {
	register("C15", runC15)
	register("C15child", runC15Child)
	registerReplay("C15", func(ctx *Ctx, raw json.RawMessage) error {
		var cs c15Case
		if err := json.Unmarshal(raw, &cs); err != nil {
			return err
		}
		c15Check(ctx, 0, cs)
		return nil
	})
}

type c15Case struct {
	Kind     string   `json:"kind"` // spec | mutated | legacy-defaults
	SDL      string   `json:"sdl"`
	Mutation string   `json:"mutation,omitempty"`
	MutSeed  uint64   `json:"mutation_seed,omitempty"`
	Features []string `json:"features,omitempty"`
}

// ---------------------------------------------------------------------------------------------
// the fake downstream

type fakeService struct {
	resp  []map[string]interface{}
	asked *string
}

func (f fakeService) Query(rs []*requests.Request) ([]map[string]interface{}, error) {
	if len(rs) > 0 && f.asked != nil {
		*f.asked = rs[0].Query
	}
	return f.resp, nil
}
func (f fakeService) Subscribe(*requests.Request, <-chan struct{}, chan *requests.Response) error {
	return nil
}
func (f fakeService) URL() string { return "http://svc/" }

type c15Out struct {
	Outcome string      `json:"outcome"` // ok | error | panic
	Err     string      `json:"err,omitempty"`
	Schema  interface{} `json:"schema,omitempty"`
	schema  *ast.Schema
}

func c15RunReal(resp []map[string]interface{}, asked *string) c15Out {
	p := &introspection.ParallelRemoteSchemaIntrospector{Factory: func(string) queryer.Queryer { return fakeService{resp, asked} }}
	ss, err := p.IntrospectRemoteSchemas("http://svc/")
	if err != nil {
		return c15Out{Outcome: "error", Err: err.Error()}
	}
	if len(ss) != 1 || ss[0] == nil {
		return c15Out{Outcome: "error", Err: fmt.Sprintf("%d schemas returned", len(ss))}
	}
	return c15Out{Outcome: "ok", Schema: hx.Generic(hx.SchemaToJSON(ss[0])), schema: ss[0]}
}

// runC15Child: the real code on one answer, in a process of its own (a panic in the goroutine
// of AsyncMapReduce cannot be recovered and kills the process).
func runC15Child(ctx *Ctx) error {
	b, err := os.ReadFile(os.Getenv("VERIF_C15_CHILD_IN"))
	if err != nil {
		return err
	}
	var in struct {
		Resp []map[string]interface{} `json:"resp"`
	}
	d := json.NewDecoder(strings.NewReader(string(b)))
	d.UseNumber()
	if err := d.Decode(&in); err != nil {
		return err
	}
	out := c15RunReal(in.Resp, nil)
	ob, _ := json.Marshal(out)
	fmt.Println("C15CHILD " + string(ob))
	return nil
}

func c15RunRealInChild(resp []map[string]interface{}) c15Out {
	f, err := os.CreateTemp("", "c15child-*.json")
	if err != nil {
		return c15Out{Outcome: "error", Err: "harness: " + err.Error()}
	}
	defer os.Remove(f.Name())
	json.NewEncoder(f).Encode(map[string]interface{}{"resp": resp})
	f.Close()
	cmd := exec.Command(os.Args[0], "C15child")
	cmd.Env = append(os.Environ(), "VERIF_C15_CHILD_IN="+f.Name())
	outb, err := cmd.CombinedOutput()
	out := string(outb)
	if i := strings.Index(out, "C15CHILD "); i >= 0 {
		var o c15Out
		line := out[i+len("C15CHILD "):]
		if j := strings.IndexByte(line, '\n'); j >= 0 {
			line = line[:j]
		}
		d := json.NewDecoder(strings.NewReader(line))
		d.UseNumber()
		if d.Decode(&o) == nil {
			return o
		}
	}
	if err != nil && strings.Contains(out, "panic:") {
		msg := out[strings.Index(out, "panic:"):]
		if j := strings.IndexByte(msg, '\n'); j >= 0 {
			msg = msg[:j]
		}
		return c15Out{Outcome: "panic", Err: msg}
	}
	return c15Out{Outcome: "error", Err: "harness: child failed: " + out}
}

// ---------------------------------------------------------------------------------------------
// answers

// specAnswer: the spec-shaped answer to the query text the real code sends.
func specAnswer(ctx *Ctx, s *ast.Schema, sj map[string]interface{}) (map[string]interface{}, error) {
	want := goSpecStd(s)
	if ctx.Driver == nil {
		return want, nil
	}
	op, err := c16LoadOp(s, stdQuery())
	if err != nil {
		return nil, fmt.Errorf("the introspection query pebbles sends is not valid for the service: %v", err)
	}
	// the selection the C15 theorems speak about (Spec.stdSel) is the query the real code sends
	if !stdSelChecked {
		ss, err := ctx.Driver.Call(map[string]interface{}{"op": "c15.stdsel"})
		if err != nil {
			return nil, err
		}
		if hx.Canon(ss["sel"]) != hx.Canon(selJSON(expandSpreads(op.SelectionSet))) {
			return nil, fmt.Errorf("Spec.stdSel is not the selection set of the introspection query introspection/remote.go sends")
		}
		stdSelChecked = true
		ctx.Rep.Count("stdsel:lean=real-query")
	}
	res, err := ctx.Driver.Call(map[string]interface{}{"op": "c15.std", "schema": sj})
	if err != nil {
		return nil, err
	}
	lean, _ := res["result"].(map[string]interface{})
	a, b := normJSON(want), normJSON(lean)
	sortPossibleTypes(a)
	sortPossibleTypes(b)
	if hx.Canon(a) != hx.Canon(b) {
		var ds []jdiff
		jsonDiff(a, b, nil, &ds)
		return lean, fmt.Errorf("spec oracles disagree (Go goSpecStd vs Lean Spec.introspect): %s", hx.Canon(firstN(ds, 3)))
	}
	return lean, nil
}

var stdSelChecked bool

var c15Mutations = []string{"null-schema", "no-query-type", "empty-query-name", "drop-type", "possible-no-name", "iface-unknown",
	"bad-json-type", "unknown-kind", "dup-type", "directive-no-name", "wrong-length-0", "wrong-length-2", "truncate-oftype",
	"null-type-entry", "possible-unknown", "missing-fields-key"}

func userTypes(ans map[string]interface{}) []map[string]interface{} {
	sch, _ := ans["__schema"].(map[string]interface{})
	var out []map[string]interface{}
	for _, t := range arrOf(sch["types"]) {
		tm, _ := t.(map[string]interface{})
		if n, _ := tm["name"].(string); tm != nil && !strings.HasPrefix(n, "__") && !containsStr([]string{"Int", "Float", "String", "Boolean", "ID"}, n) {
			out = append(out, tm)
		}
	}
	return out
}

func arrOf(v interface{}) []interface{} { a, _ := v.([]interface{}); return a }

// mutate applies one named mutation to a deep copy of the answer; returns the response list.
func mutate(r *hx.Rand, name string, answer map[string]interface{}) []map[string]interface{} {
	ans, _ := hx.Generic(answer).(map[string]interface{})
	sch, _ := ans["__schema"].(map[string]interface{})
	uts := userTypes(ans)
	pick := func() map[string]interface{} {
		if len(uts) == 0 {
			return map[string]interface{}{}
		}
		return uts[r.Intn(len(uts))]
	}
	switch name {
	case "null-schema":
		ans["__schema"] = nil
	case "no-query-type":
		sch["queryType"] = nil
	case "empty-query-name":
		sch["queryType"] = map[string]interface{}{"name": ""}
	case "drop-type":
		t := pick()
		var keep []interface{}
		for _, x := range arrOf(sch["types"]) {
			if xm, _ := x.(map[string]interface{}); xm == nil || xm["name"] != t["name"] {
				keep = append(keep, x)
			}
		}
		sch["types"] = keep
	case "possible-no-name":
		for _, t := range uts {
			if ps := arrOf(t["possibleTypes"]); len(ps) > 0 {
				ps[r.Intn(len(ps))].(map[string]interface{})["name"] = nil
				break
			}
		}
	case "possible-unknown":
		t := pick()
		t["possibleTypes"] = append(arrOf(t["possibleTypes"]), map[string]interface{}{"kind": "OBJECT", "name": "Ghost", "ofType": nil})
	case "iface-unknown":
		t := pick()
		t["interfaces"] = append(arrOf(t["interfaces"]), map[string]interface{}{"kind": "INTERFACE", "name": "Ghost", "ofType": nil})
	case "bad-json-type":
		pick()["name"] = json.Number("5")
	case "unknown-kind":
		pick()["kind"] = "FOO"
	case "dup-type":
		sch["types"] = append(arrOf(sch["types"]), hx.Generic(pick()))
	case "directive-no-name":
		sch["directives"] = append(arrOf(sch["directives"]), map[string]interface{}{"name": nil, "description": "", "locations": []interface{}{"FIELD"}, "args": []interface{}{}})
	case "wrong-length-0":
		return []map[string]interface{}{}
	case "wrong-length-2":
		return []map[string]interface{}{ans, ans}
	case "null-type-entry":
		sch["types"] = append(arrOf(sch["types"]), nil)
	case "missing-fields-key":
		delete(pick(), "fields")
	case "truncate-oftype":
		// cut an ofType chain somewhere below a wrapper
		for _, t := range uts {
			done := false
			for _, f := range arrOf(t["fields"]) {
				ty, _ := f.(map[string]interface{})["type"].(map[string]interface{})
				for ty != nil {
					if k, _ := ty["kind"].(string); (k == "LIST" || k == "NON_NULL") && r.Chance(1, 2) {
						ty["ofType"] = nil
						done = true
						break
					}
					ty, _ = ty["ofType"].(map[string]interface{})
				}
				if done {
					break
				}
			}
			if done {
				break
			}
		}
	}
	return []map[string]interface{}{ans}
}

// legacyDefaults rewrites every string-encoded defaultValue of input fields into the raw JSON
// value older servers (and pebbles' own test fixtures) send: "5" → 5, "\"hi\"" → "hi", "[1, 2]" → [1,2].
func legacyDefaults(answer map[string]interface{}) []map[string]interface{} {
	ans, _ := hx.Generic(answer).(map[string]interface{})
	for _, t := range userTypes(ans) {
		for _, f := range arrOf(t["inputFields"]) {
			fm, _ := f.(map[string]interface{})
			if s, ok := fm["defaultValue"].(string); ok {
				var v interface{}
				d := json.NewDecoder(strings.NewReader(s))
				d.UseNumber()
				if d.Decode(&v) == nil && !d.More() {
					fm["defaultValue"] = v
				}
			}
		}
	}
	return []map[string]interface{}{ans}
}

// ---------------------------------------------------------------------------------------------
// property oracle: the reconstruction is equivalent to the source schema

// normSchemaJSON: what introspection can carry. Applied directives other than @deprecated are
// not part of an introspection answer (dropped on both sides); PossibleTypes / Implements are
// recomputed by gqlparser from the definitions, in an order that depends on the order of the
// definitions in the text (compared as sets).
func normSchemaJSON(v interface{}) interface{} {
	x := hx.Generic(v)
	var walk func(interface{})
	walk = func(n interface{}) {
		switch m := n.(type) {
		case map[string]interface{}:
			if ds, ok := m["directives"].([]interface{}); ok {
				keep := []interface{}{}
				for _, d := range ds {
					if dm, _ := d.(map[string]interface{}); dm != nil && dm["name"] == "deprecated" {
						keep = append(keep, d)
					}
				}
				m["directives"] = keep
			}
			for _, c := range m {
				walk(c)
			}
		case []interface{}:
			for _, c := range m {
				walk(c)
			}
		}
	}
	// the schema object has a "directives" list of definitions: walk its members by hand
	if sm, ok := x.(map[string]interface{}); ok {
		for _, t := range arrOf(sm["types"]) {
			walk(t)
		}
		for _, d := range arrOf(sm["directives"]) {
			dm, _ := d.(map[string]interface{})
			for _, a := range arrOf(dm["args"]) {
				walk(a)
			}
		}
		for _, k := range []string{"possible", "implements"} {
			for _, e := range arrOf(sm[k]) {
				em, _ := e.(map[string]interface{})
				vs := arrOf(em["values"])
				sort.Slice(vs, func(i, j int) bool { return fmt.Sprint(vs[i]) < fmt.Sprint(vs[j]) })
			}
		}
	}
	return x
}

func c15Classify(d jdiff, want interface{}) string {
	p := d.Path
	has := func(s string) bool { return containsStr(p, s) }
	last := p[len(p)-1]
	switch {
	case last == "default" && has("args"):
		if d.Got == nil {
			return "argument-default-dropped"
		}
	case last == "default":
		return "input-default-reencoded"
	case has("directives") && p[0] == "types":
		// a @deprecated application missing from the reconstruction
		if g, ok := d.Got.([]interface{}); ok && len(g) == 0 {
			return "deprecation-dropped"
		}
	case last == "repeatable":
		if d.Got == false {
			return "directive-repeatable-dropped"
		}
	}
	return ""
}

func maxWrapperDepth(s *ast.Schema) int {
	depth := func(t *ast.Type) int {
		n := 0
		for t != nil {
			if t.NonNull {
				n++
			}
			if t.Elem != nil {
				n++
			}
			t = t.Elem
		}
		return n
	}
	m := 0
	upd := func(t *ast.Type) {
		if d := depth(t); d > m {
			m = d
		}
	}
	for _, d := range s.Types {
		if d.BuiltIn {
			continue
		}
		for _, f := range d.Fields {
			if strings.HasPrefix(f.Name, "__") {
				continue
			}
			upd(f.Type)
			for _, a := range f.Arguments {
				upd(a.Type)
			}
		}
	}
	for _, d := range s.Directives {
		if d.Position != nil && d.Position.Src != nil && d.Position.Src.BuiltIn {
			continue
		}
		for _, a := range d.Arguments {
			upd(a.Type)
		}
	}
	return m
}

// validityProbes: operations whose validity against S and against the reconstruction must agree.
func validityProbes(s *ast.Schema) []string {
	var out []string
	add := func(root string, d *ast.Definition) {
		if d == nil {
			return
		}
		for _, f := range d.Fields {
			if strings.HasPrefix(f.Name, "__") {
				continue
			}
			sel := f.Name
			if td := s.Types[f.Type.Name()]; td != nil && (td.Kind == ast.Object || td.Kind == ast.Interface || td.Kind == ast.Union) {
				sel += " { __typename }"
			}
			out = append(out, root+" { "+sel+" }")
			for _, dd := range s.Directives {
				if dd.IsRepeatable && containsLoc(dd.Locations, ast.LocationField) && len(dd.Arguments) == 0 {
					out = append(out, root+" { "+strings.Replace(sel, f.Name, f.Name+" @"+dd.Name+" @"+dd.Name, 1)+" }")
				}
			}
		}
	}
	add("query", s.Query)
	add("mutation", s.Mutation)
	add("subscription", s.Subscription)
	return out
}

func containsLoc(ls []ast.DirectiveLocation, l ast.DirectiveLocation) bool {
	for _, x := range ls {
		if x == l {
			return true
		}
	}
	return false
}

var c15ErrText = map[string]string{
	"wrongLength": "wrong response length", "noRootQuery": "could not find the root query", "noTypeName": "could not find type's name",
	"noUnionImpl": "could not find type definition for union implementation", "noIfaceImpl": "Could not find type definition for union implementation",
	"noDirectiveName": "could not find directive's name", "noOfType": "could not find the wrapped type of a type reference",
}

type c15Limiter struct{ n map[string]int }

var c15Lim = c15Limiter{n: map[string]int{}}

// failLimited records at most three failures per known class (the rest are only counted): the
// report keeps room for unclassified failures.
func failLimited(ctx *Ctx, lim *c15Limiter, f hx.Failure) {
	if f.Class != "" {
		ctx.Rep.Count("known:" + f.Class)
		lim.n[f.Class]++
		if lim.n[f.Class] > 3 {
			return
		}
	}
	ctx.Rep.Fail(f)
}

func c15Check(ctx *Ctx, idx int, cs c15Case) {
	s, err := gqlparser.LoadSchema(&ast.Source{Name: "svc", Input: cs.SDL})
	if err != nil {
		ctx.Rep.Fail(hx.Failure{Kind: "harness-error", Detail: "case SDL does not load: " + err.Error(), Case: cs, Index: idx})
		return
	}
	sj := hx.SchemaToJSON(s)
	ctx.Rep.Count("answer:" + cs.Kind)
	if cs.Mutation != "" {
		ctx.Rep.Count("mutation:" + cs.Mutation)
	}
	ctx.Rep.Case(fmt.Sprintf("%s/%s/%d/%s", cs.Kind, cs.Mutation, cs.MutSeed, cs.SDL), true)
	answer, err := specAnswer(ctx, s, sj)
	if err != nil {
		ctx.Rep.Fail(hx.Failure{Kind: "harness-error", Detail: err.Error(), Case: cs, Index: idx})
		if answer == nil {
			return
		}
	}
	var resp []map[string]interface{}
	switch cs.Kind {
	case "spec":
		resp = []map[string]interface{}{answer}
	case "legacy-defaults":
		resp = legacyDefaults(answer)
	default:
		resp = mutate(hx.NewRand(cs.MutSeed), cs.Mutation, answer)
	}
	// model first: a predicted panic is run in a child process
	var model map[string]interface{}
	if ctx.Driver != nil {
		rl := make([]interface{}, len(resp))
		for i := range resp {
			rl[i] = resp[i]
		}
		model, err = ctx.Driver.Call(map[string]interface{}{"op": "c15.rebuild", "resp": rl})
		if err != nil {
			ctx.Rep.Fail(hx.Failure{Kind: "harness-error", Detail: err.Error(), Case: cs, Index: idx})
			return
		}
		ctx.Rep.Traces++
	}
	inFragment := false
	if ctx.Driver != nil && cs.Kind == "spec" {
		sup, err := ctx.Driver.Call(map[string]interface{}{"op": "c15.supported", "schema": sj})
		if err == nil && sup["schema"] == true {
			inFragment = true
			ctx.Rep.Count("fragment:supportedC15")
		}
	}
	deep := maxWrapperDepth(s) > 7
	var real c15Out
	var asked string
	if (model != nil && model["outcome"] == "panic") || (model == nil && (deep || cs.Mutation == "truncate-oftype")) {
		real = c15RunRealInChild(resp)
		asked = stdQuery()
	} else {
		real = c15RunReal(resp, &asked)
	}
	ctx.Rep.Count("outcome:" + real.Outcome)
	if cs.Kind == "spec" {
		if _, qerr := c16LoadOp(s, asked); qerr != nil {
			ctx.Rep.Fail(hx.Failure{Kind: "property-fails", Detail: "the introspection query sent to the service does not validate against it: " + qerr.Error(), Case: cs, Index: idx})
		}
	}

	// ---- property oracle
	if inFragment {
		// inside the feature set of C15_rebuild_partial nothing may differ, classes do not apply
		want, got := normSchemaJSON(sj), normSchemaJSON(real.Schema)
		if real.Outcome != "ok" || hx.Canon(want) != hx.Canon(got) {
			var ds []jdiff
			jsonDiff(want, got, nil, &ds)
			ctx.Rep.Fail(hx.Failure{Kind: "property-fails", Detail: "schema inside supportedC15 (where C15_rebuild_partial proves the model faithful) is not reconstructed faithfully by the real code: " + real.Outcome + " " + real.Err,
				Case: cs, Index: idx, Impl: map[string]interface{}{"differences(source→reconstruction)": firstN(ds, 4)}})
		}
	}
	switch {
	case real.Outcome == "panic":
		// never a known finding: a malformed or cut-off answer is a start-up error (C15_malformed_typeref_is_error)
		ctx.Rep.Fail(hx.Failure{Kind: "property-fails", Detail: "IntrospectRemoteSchemas crashes the process instead of returning a start-up error: " + real.Err, Case: cs, Index: idx})
	case cs.Kind == "spec" && real.Outcome == "error":
		c := ""
		if deep && strings.Contains(real.Err, c15ErrText["noOfType"]) {
			c = "typeref-depth-over-7" // the standard query cuts the ofType chain after 7 levels: the schema is refused (reported, not altered)
		}
		failLimited(ctx, &c15Lim, hx.Failure{Kind: "property-fails", Class: c, Detail: "a spec-shaped answer for a valid schema is refused: " + real.Err, Case: cs, Index: idx})
	case cs.Kind == "spec":
		want, got := normSchemaJSON(sj), normSchemaJSON(real.Schema)
		var diffs []jdiff
		jsonDiff(want, got, nil, &diffs)
		byClass := map[string][]jdiff{}
		for _, d := range diffs {
			c := c15Classify(d, want)
			byClass[c] = append(byClass[c], d)
		}
		classes := make([]string, 0, len(byClass))
		for c := range byClass {
			classes = append(classes, c)
		}
		sort.Strings(classes)
		for _, c := range classes {
			ds := byClass[c]
			failLimited(ctx, &c15Lim, hx.Failure{Kind: "property-fails", Class: c, Index: idx, Case: cs,
				Detail: fmt.Sprintf("the reconstructed schema differs from the service's schema at %d place(s), first at %s", len(ds), strings.Join(ds[0].Path, ".")),
				Impl:   map[string]interface{}{"differences(source→reconstruction)": firstN(ds, 4)}})
		}
		// validity of operations agrees
		for _, q := range validityProbes(s) {
			_, e1 := gqlparser.LoadQuery(s, q)
			_, e2 := gqlparser.LoadQuery(real.schema, q)
			ctx.Rep.Count("probe:validity")
			if (e1 == nil) != (e2 == nil) {
				c := ""
				if e1 == nil && strings.Contains(e2.Error(), "argument") && byClass["argument-default-dropped"] != nil {
					c = "argument-default-dropped"
				}
				if e1 == nil && strings.Contains(e2.Error(), "not repeatable") && byClass["directive-repeatable-dropped"] != nil {
					c = "directive-repeatable-dropped"
				}
				failLimited(ctx, &c15Lim, hx.Failure{Kind: "property-fails", Class: c, Index: idx, Case: cs,
					Detail: fmt.Sprintf("operation %q: valid against the service = %v, valid against the reconstruction = %v (%v)", q, e1 == nil, e2 == nil, e2)})
			}
		}
	}

	// ---- correspondence with Model.Remote
	if model == nil {
		return
	}
	mo, _ := model["outcome"].(string)
	mismatch := func(detail string, m interface{}) {
		ctx.Rep.Fail(hx.Failure{Kind: "model-mismatch", Detail: detail, Case: cs, Index: idx, Impl: map[string]interface{}{"outcome": real.Outcome, "err": real.Err}, Model: m})
	}
	switch mo {
	case "panic":
		if real.Outcome != "panic" {
			mismatch("Model.Remote predicts a nil dereference in parseTypeRef; the real code did not panic", model)
		}
	case "error":
		tag, _ := model["err"].(string)
		if real.Outcome != "error" {
			mismatch("Model.Remote predicts the error "+tag+"; the real code returned "+real.Outcome, model)
		} else if txt, ok := c15ErrText[tag]; ok && !strings.Contains(real.Err, txt) {
			mismatch("Model.Remote predicts the error "+tag+"; the real code failed with another error", model)
		} else if tag == "decode" && !strings.Contains(real.Err, "json:") {
			mismatch("Model.Remote predicts a json.Unmarshal error; the real code failed with another error", model)
		}
	case "ok":
		ms := hx.SchemaFromJSON(model["schema"])
		for _, n := range arrOf(model["unknownKind"]) {
			if d, ok := ms.Types[fmt.Sprint(n)]; ok {
				d.Kind = "" // what parseType leaves for a kind outside the six type kinds
			}
		}
		reloaded, text, rerr := hx.Reload(ms, "http://svc/")
		switch {
		case rerr != nil && real.Outcome == "error" && real.Err == errText(rerr):
			ctx.Rep.Count("outcome:reload-error(model agrees)")
		case rerr != nil:
			mismatch("the model's schema does not load ("+rerr.Error()+") but the real code returned "+real.Outcome+" "+real.Err, map[string]interface{}{"sdl": text})
		case real.Outcome != "ok":
			mismatch("the model's schema loads but the real code returned "+real.Outcome, map[string]interface{}{"sdl": text})
		default:
			a, b := hx.Canon(hx.SchemaToJSON(reloaded)), hx.Canon(real.Schema)
			if a != b {
				var ds []jdiff
				jsonDiff(hx.Generic(hx.SchemaToJSON(reloaded)), real.Schema, nil, &ds)
				mismatch("reconstructed schema differs from Model.Remote's (after formatter + LoadSchema on both)", map[string]interface{}{"differences(model→impl)": firstN(ds, 4)})
			}
		}
	}
	ctx.Rep.Sample(map[string]interface{}{"kind": cs.Kind, "mutation": cs.Mutation, "features": cs.Features, "sdl_bytes": len(cs.SDL), "outcome": real.Outcome})
}

// errText: how the real code's error reads after AsyncMapReduce wrapped it
func errText(err error) string {
	p := &introspection.ParallelRemoteSchemaIntrospector{Factory: func(string) queryer.Queryer { return errQ{err} }}
	_, e := p.IntrospectRemoteSchemas("x")
	if e == nil {
		return ""
	}
	return e.Error()
}

type errQ struct{ err error }

func (e errQ) Query([]*requests.Request) ([]map[string]interface{}, error) { return nil, e.err }
func (e errQ) Subscribe(*requests.Request, <-chan struct{}, chan *requests.Response) error {
	return nil
}
func (e errQ) URL() string { return "x" }

func runC15(ctx *Ctx) error {
	ctx.Rep.Rule = "case = (generated SDL, answer shape) : the schema is loaded with gqlparser, the spec-shaped introspection answer (Lean Spec.introspect, " +
		"cross-validated with a Go oracle) — or a mutated / legacy-shaped variant — is served to the real IntrospectRemoteSchemas; result compared with the source schema " +
		"and with Model.Remote (after the real formatter + LoadSchema); distinct = distinct (answer kind, mutation, SDL); every case is non-trivial (a full schema round trip)"
	idx := 0
	for _, sdl := range igCorpus {
		c15Check(ctx, idx, c15Case{Kind: "spec", SDL: sdl, Features: []string{"corpus"}})
		idx++
		c15Check(ctx, idx, c15Case{Kind: "legacy-defaults", SDL: sdl, Features: []string{"corpus"}})
		idx++
	}
	n := 700
	if ctx.Thorough() {
		n = 12000
	}
	for i := 0; i < n; i++ {
		r := ctx.Rand.Fork()
		prof := igWild
		if i%2 == 0 {
			prof = igSafe
		}
		gs, err := igGenerate(r, prof)
		if err != nil {
			ctx.Rep.Count("generator:schema-rejected")
			ctx.Rep.Note(err.Error())
			continue
		}
		for _, f := range gs.Feat {
			ctx.Rep.Count("schema:" + f)
		}
		c15Check(ctx, idx, c15Case{Kind: "spec", SDL: gs.SDL, Features: gs.Feat})
		idx++
		if i%4 == 1 {
			c15Check(ctx, idx, c15Case{Kind: "legacy-defaults", SDL: gs.SDL, Features: gs.Feat})
			idx++
		}
		if i%2 == 0 {
			c15Check(ctx, idx, c15Case{Kind: "mutated", SDL: gs.SDL, Mutation: hx.Pick(r, c15Mutations), MutSeed: r.U64(), Features: gs.Feat})
			idx++
		}
	}
	_ = strconv.Itoa
	return nil
}
