package main

// C16 — what the gateway reports about its schema is the schema it enforces.
//
// Real code under test: the gateway's HTTP handler (validation → planner → sanitised internal
// step → introspection.IntrospectionResolver) and the resolver called directly on the
// operation's selection set. Compared with: Model.Introspect (driver op c16.resolve), the Lean
// specification Spec.select ∘ Spec.introspect (c16.spec), and Go oracles written from the
// property statement (goSpecStd; __type vs __schema.types).

import (
	"bytes"
	"encoding/json"
	"fmt"
	"net/http/httptest"
	"sort"
	"strings"

	pebbles "github.com/buildbuildio/pebbles"
	"github.com/buildbuildio/pebbles/common"
	"github.com/buildbuildio/pebbles/introspection"
	"github.com/buildbuildio/pebbles/merger"
	"github.com/buildbuildio/pebbles/planner"
	"github.com/buildbuildio/pebbles/queryer"
	"github.com/buildbuildio/pebbles/requests"
	"github.com/vektah/gqlparser/v2"
	"github.com/vektah/gqlparser/v2/ast"
	"verif/harness/hx"
)

func init() {
	register("C16", runC16)
	registerReplay("C16", func(ctx *Ctx, raw json.RawMessage) error {
		var cs ioCase
		if err := json.Unmarshal(raw, &cs); err != nil {
			return err
		}
		if cs.SDL == "" {
			return fmt.Errorf("replay case carries no sdl")
		}
		s, err := gqlparser.LoadSchema(&ast.Source{Name: "replay", Input: cs.SDL})
		if err != nil {
			return err
		}
		env, err := c16NewEnv(cs.SchemaIx, &igSchema{SDL: cs.SDL, Schema: s})
		if err != nil {
			return err
		}
		switch cs.Kind {
		case "std-oracle":
			c16Std(ctx, 0, env)
		case "type-vs-types":
			c16TypeVsTypes(ctx, 0, env, cs)
		case "stack":
			c16Stack(ctx, 0, env, true)
		default:
			c16Check(ctx, 0, env, cs)
		}
		return nil
	})
}

// ---------------------------------------------------------------------------------------------
// environment: one gateway per schema

type stubIntrospector struct{ s *ast.Schema }

func (s stubIntrospector) IntrospectRemoteSchemas(urls ...string) ([]*ast.Schema, error) {
	return []*ast.Schema{s.s}, nil
}

// stubMerger hands the gateway the given schema as the merged schema, with the routing table
// the real code computes for it.
type stubMerger struct{ tum merger.TypeURLMap }

func (m stubMerger) Merge(in []*merger.MergeInput) (*merger.MergeResult, error) {
	return &merger.MergeResult{Schema: in[0].Schema, TypeURLMap: m.tum}, nil
}

type c16Env struct {
	ix  int
	gs  *igSchema
	sj  map[string]interface{}
	gw  *pebbles.Gateway
	tum merger.TypeURLMap
}

func c16NewEnv(ix int, gs *igSchema) (*c16Env, error) {
	tum := merger.TypeURLMap{}
	tum.SetFromSchema(gs.Schema.Types, "http://svc/")
	gw, err := pebbles.NewGateway([]string{"http://svc/"}, pebbles.WithRemoteSchemaIntrospector(stubIntrospector{gs.Schema}), pebbles.WithMerger(stubMerger{tum}))
	if err != nil {
		return nil, err
	}
	return &c16Env{ix: ix, gs: gs, sj: hx.SchemaToJSON(gs.Schema), gw: gw, tum: tum}, nil
}

// customRootClass: the documented refusal of every operation when the query root type is not
// literally named "Query".
func (e *c16Env) customRootClass(body string) string {
	if e.gs.Schema.Query != nil && e.gs.Schema.Query.Name != "Query" && strings.Contains(body, "unable to find type Query in schema") {
		return "custom-root-type-names"
	}
	return ""
}

type gwAnswer struct {
	Data   map[string]interface{} `json:"data"`
	Errors []interface{}          `json:"errors"`
}

// post sends one operation through the real HTTP handler.
func (e *c16Env) post(q string, vars map[string]interface{}) (gwAnswer, string) {
	body := map[string]interface{}{"query": q}
	if vars != nil {
		body["variables"] = vars
	}
	b, _ := json.Marshal(body)
	r := httptest.NewRequest("POST", "/", bytes.NewReader(b))
	r.Header.Set("Content-Type", "application/json")
	w := httptest.NewRecorder()
	e.gw.Handler(w, r)
	var a gwAnswer
	d := json.NewDecoder(bytes.NewReader(w.Body.Bytes()))
	d.UseNumber()
	d.Decode(&a)
	return a, w.Body.String()
}

func c16LoadOp(s *ast.Schema, q string) (*ast.OperationDefinition, error) {
	doc, errs := gqlparser.LoadQuery(s, q)
	if errs != nil {
		return nil, errs
	}
	if len(doc.Operations) != 1 {
		return nil, fmt.Errorf("%d operations", len(doc.Operations))
	}
	return doc.Operations[0], nil
}

// internalSel runs the real planner and returns the selection set of the internal root step:
// what gateway.parseIntrospectionQuery hands to the resolver.
func (e *c16Env) internalSel(q string, vars map[string]interface{}) (ast.SelectionSet, error) {
	op, err := c16LoadOp(e.gs.Schema, q)
	if err != nil {
		return nil, err
	}
	var p planner.SequentialPlanner
	plan, err := p.Plan(&planner.PlanningContext{Operation: op, Request: &requests.Request{Query: q, Variables: vars}, Schema: e.gs.Schema, TypeURLMap: e.tum})
	if err != nil {
		return nil, err
	}
	for _, rs := range plan.RootSteps {
		if rs.URL == common.InternalServiceName {
			return rs.SelectionSet, nil
		}
	}
	return nil, nil
}

// ---------------------------------------------------------------------------------------------
// canonical forms

// canonSchemaLists: `types` / `directives` come out of Go maps. When every element carries a
// distinct string under "name" the resolver's sortPayload determines the order and the lists
// are compared verbatim; otherwise they are compared as multisets (sorted by canonical text).
func canonSchemaLists(ss ast.SelectionSet, data interface{}) { canonSchemaListsMode(ss, data, false) }

// sortSchemaLists: the specification prescribes no order for `types` / `directives`; the
// comparison of the gateway's answer with the specification is always on multisets.
func sortSchemaLists(ss ast.SelectionSet, data interface{}) { canonSchemaListsMode(ss, data, true) }

func canonSchemaListsMode(ss ast.SelectionSet, data interface{}, always bool) {
	m, ok := data.(map[string]interface{})
	if !ok {
		return
	}
	for _, f := range flatten(ss) {
		if f.Name != "__schema" {
			continue
		}
		obj, ok := m[f.Alias].(map[string]interface{})
		if !ok {
			continue
		}
		for _, g := range flatten(f.Sub) {
			if g.Name != "types" && g.Name != "directives" {
				continue
			}
			arr, ok := obj[g.Alias].([]interface{})
			if !ok {
				continue
			}
			distinct := true
			seen := map[string]bool{}
			for _, el := range arr {
				em, _ := el.(map[string]interface{})
				n, ok := em["name"].(string)
				if !ok || seen[n] {
					distinct = false
					break
				}
				seen[n] = true
			}
			switch {
			case distinct && always:
				// align the two sides on the (distinct) names, whatever else the elements carry
				sort.SliceStable(arr, func(i, j int) bool {
					return arr[i].(map[string]interface{})["name"].(string) < arr[j].(map[string]interface{})["name"].(string)
				})
			case !distinct && !always:
				sort.SliceStable(arr, func(i, j int) bool { return hx.Canon(arr[i]) < hx.Canon(arr[j]) })
			}
		}
	}
}

func varsOrEmpty(v map[string]interface{}) map[string]interface{} {
	if v == nil {
		return map[string]interface{}{}
	}
	return v
}

const alignKey = "__align"

// withAlignKey adds `__align: name` to the sub-selection of every types / directives field of __schema.
func withAlignKey(sel []interface{}) []interface{} {
	var walk func(xs []interface{}, inSchema bool) []interface{}
	walk = func(xs []interface{}, inSchema bool) []interface{} {
		out := make([]interface{}, 0, len(xs))
		for _, x := range xs {
			m, _ := x.(map[string]interface{})
			c := map[string]interface{}{}
			for k, v := range m {
				c[k] = v
			}
			sub, _ := m["s"].([]interface{})
			switch {
			case m["k"] == "i":
				c["s"] = walk(sub, inSchema)
			case inSchema && (m["n"] == "types" || m["n"] == "directives"):
				c["s"] = append(append([]interface{}{}, sub...), map[string]interface{}{"k": "f", "a": alignKey, "n": "name", "args": []interface{}{}, "s": []interface{}{}})
			case !inSchema && m["n"] == "__schema":
				c["s"] = walk(sub, true)
			}
			out = append(out, c)
		}
		return out
	}
	return walk(sel, false)
}

// orderByAlignKey sorts every list whose elements carry the align key by it, and removes the key.
func orderByAlignKey(v interface{}) {
	switch x := v.(type) {
	case map[string]interface{}:
		for _, c := range x {
			orderByAlignKey(c)
		}
	case []interface{}:
		all := len(x) > 0
		for _, el := range x {
			em, ok := el.(map[string]interface{})
			if _, has := em[alignKey].(string); !ok || !has {
				all = false
			}
		}
		if all {
			sort.SliceStable(x, func(i, j int) bool {
				return x[i].(map[string]interface{})[alignKey].(string) < x[j].(map[string]interface{})[alignKey].(string)
			})
			for _, el := range x {
				delete(el.(map[string]interface{}), alignKey)
			}
		}
		for _, c := range x {
			orderByAlignKey(c)
		}
	}
}

func distinctNames(arr []interface{}) bool {
	seen := map[string]bool{}
	for _, el := range arr {
		em, _ := el.(map[string]interface{})
		n, ok := em["name"].(string)
		if !ok || seen[n] {
			return false
		}
		seen[n] = true
	}
	return true
}

// alignSchemaLists: where the elements of `types` / `directives` carry no distinct names the
// gateway lists them in Go's map order, which cannot be paired with the specification's list
// element by element. The model, run with the definitions in name order, lists them in the
// specification's order, and the gateway's answer has just been checked to be the model's answer
// as a multiset — so the model's lists stand in for the gateway's in the element-wise comparison
// with the specification.
func alignSchemaLists(ss ast.SelectionSet, got, modelInOrder interface{}) {
	gm, ok1 := got.(map[string]interface{})
	mm, ok2 := modelInOrder.(map[string]interface{})
	if !ok1 || !ok2 {
		return
	}
	for _, f := range flatten(ss) {
		if f.Name != "__schema" {
			continue
		}
		gobj, ok1 := gm[f.Alias].(map[string]interface{})
		mobj, ok2 := mm[f.Alias].(map[string]interface{})
		if !ok1 || !ok2 {
			continue
		}
		for _, g := range flatten(f.Sub) {
			if g.Name != "types" && g.Name != "directives" {
				continue
			}
			ga, ok1 := gobj[g.Alias].([]interface{})
			ma, ok2 := mobj[g.Alias].([]interface{})
			if !ok1 || !ok2 || len(ma) != len(ga) || distinctNames(ga) {
				continue
			}
			gobj[g.Alias] = ma
		}
	}
}

func (e *c16Env) driverArgs(op string, sel ast.SelectionSet, vars map[string]interface{}) map[string]interface{} {
	v := vars
	if v == nil {
		v = map[string]interface{}{}
	}
	return map[string]interface{}{"op": op, "schema": e.sj, "sel": selJSON(sel), "vars": v}
}

// ---------------------------------------------------------------------------------------------
// classification of impl-vs-spec differences into the documented finding classes

func c16Classify(ss ast.SelectionSet, d jdiff) string {
	last, parent, dup, shadow := selWalk(ss, d.Path)
	gotNil := d.Got == nil || isAbsent(d.Got)
	switch {
	case dup:
		return "duplicate-response-key"
	case shadow:
		return "alias-shadows-field-name"
	case last == "__typename" && gotNil:
		return "typename-in-introspection"
	case gotNil && (last == "isRepeatable" || last == "specifiedByURL" || (last == "description" && parent == "__schema")):
		return "unanswered-introspection-field"
	case last == "deprecationReason" && d.Want == "No longer supported" && d.Got == "":
		return "deprecated-without-reason"
	}
	return ""
}

func c16ReportDiffs(ctx *Ctx, idx int, cs ioCase, ss ast.SelectionSet, want, got interface{}, what string) {
	var diffs []jdiff
	jsonDiff(want, got, nil, &diffs)
	if len(diffs) == 0 {
		return
	}
	byClass := map[string][]jdiff{}
	for _, d := range diffs {
		c := c16Classify(ss, d)
		byClass[c] = append(byClass[c], d)
	}
	classes := make([]string, 0, len(byClass))
	for c := range byClass {
		classes = append(classes, c)
	}
	sort.Strings(classes)
	for _, c := range classes {
		ds := byClass[c]
		show := ds
		if len(show) > 4 {
			show = show[:4]
		}
		failLimited(ctx, &c16Lim, hx.Failure{Kind: "property-fails", Class: c, Index: idx, Case: cs,
			Detail: fmt.Sprintf("%s: the gateway's answer differs from the specification at %d place(s), first at %s", what, len(ds), strings.Join(ds[0].Path, ".")),
			Impl:   map[string]interface{}{"differences": show}})
	}
}

// ---------------------------------------------------------------------------------------------
// one generated operation

func c16Check(ctx *Ctx, idx int, env *c16Env, cs ioCase) {
	cs.SchemaIx = env.ix
	cs.SDL = env.gs.SDL
	ctx.Rep.Count("op:" + cs.Kind)
	op, err := c16LoadOp(env.gs.Schema, cs.Query)
	if err != nil {
		ctx.Rep.Count("op-rejected-by-validation")
		ctx.Rep.Case("invalid/"+cs.Query, false)
		ans, _ := env.post(cs.Query, cs.Vars)
		if len(ans.Errors) == 0 {
			ctx.Rep.Fail(hx.Failure{Kind: "property-fails", Detail: "an operation gqlparser rejects was answered without errors", Case: cs, Index: idx})
		}
		return
	}
	raw := expandSpreads(op.SelectionSet)
	ctx.Rep.Case(fmt.Sprintf("%d/%s/%v", env.ix, cs.Query, cs.Vars), true)
	dup := hasDupKeys(raw)
	if dup {
		ctx.Rep.Count("sel:duplicate-response-key")
	}
	if strings.Contains(cs.Query, "...") {
		ctx.Rep.Count("sel:fragments")
	}
	if strings.Contains(cs.Query, "__typename") {
		ctx.Rep.Count("sel:__typename")
	}
	if strings.Contains(cs.Query, "includeDeprecated: $") {
		ctx.Rep.Count("sel:includeDeprecated-variable")
	}

	// (1) the real gateway
	ans, rawBody := env.post(cs.Query, cs.Vars)
	gatewayDown := false
	if len(ans.Errors) > 0 || ans.Data == nil {
		if c := env.customRootClass(rawBody); c != "" {
			// documented: the planner looks the root type up by the literal name
			failLimited(ctx, &c16Lim, hx.Failure{Kind: "property-fails", Class: c, Detail: "valid introspection operation refused: " + strings.TrimSpace(rawBody), Case: cs, Index: idx})
			gatewayDown = true
		} else {
			ctx.Rep.Fail(hx.Failure{Kind: "property-fails", Detail: "valid introspection operation answered with errors or without data: " + rawBody, Case: cs, Index: idx})
			return
		}
	}
	got := normJSON(ans.Data)
	canonSchemaLists(raw, got)

	// (2) the resolver called directly on the operation's selection set (spreads expanded)
	ir := &introspection.IntrospectionResolver{Variables: cs.Vars}
	direct := normJSON(ir.ResolveIntrospectionFields(raw, env.gs.Schema))
	canonSchemaLists(raw, direct)

	if ctx.Driver != nil && gatewayDown {
		// only the direct call can be compared
		res2, err := ctx.Driver.Call(env.driverArgs("c16.resolve", raw, cs.Vars))
		if err != nil {
			ctx.Rep.Fail(hx.Failure{Kind: "harness-error", Detail: err.Error(), Case: cs, Index: idx})
			return
		}
		ctx.Rep.Traces++
		model2 := res2["result"]
		canonSchemaLists(raw, model2)
		if hx.Canon(model2) != hx.Canon(direct) {
			ctx.Rep.Fail(hx.Failure{Kind: "model-mismatch", Detail: "ResolveIntrospectionFields on the operation's own selection set differs from Model.Introspect.resolve", Case: cs, Index: idx})
		}
		return
	}
	if ctx.Driver != nil {
		// (3) model on the sanitised selection set the planner hands to the resolver
		isel, perr := env.internalSel(cs.Query, cs.Vars)
		if perr != nil {
			ctx.Rep.Fail(hx.Failure{Kind: "harness-error", Detail: "planner failed where the handler succeeded: " + perr.Error(), Case: cs, Index: idx})
			return
		}
		res, err := ctx.Driver.Call(env.driverArgs("c16.resolve", isel, cs.Vars))
		if err != nil {
			ctx.Rep.Fail(hx.Failure{Kind: "harness-error", Detail: err.Error(), Case: cs, Index: idx})
			return
		}
		ctx.Rep.Traces++
		model := res["result"]
		modelInOrder := normJSON(model) // the model's lists before canonicalisation: definitions in name order
		canonSchemaLists(raw, model)
		modelAgrees := hx.Canon(model) == hx.Canon(got)
		if hx.Canon(model) != hx.Canon(got) {
			var ds []jdiff
			jsonDiff(model, got, nil, &ds)
			ctx.Rep.Fail(hx.Failure{Kind: "model-mismatch", Detail: "gateway answer differs from Model.Introspect.resolve on the sanitised selection set", Case: cs, Index: idx,
				Impl: map[string]interface{}{"differences(model→impl)": firstN(ds, 4)}, Model: map[string]interface{}{"sel": selJSON(isel)}})
		}
		// (4) model on the raw selection set vs the direct call
		res2, err := ctx.Driver.Call(env.driverArgs("c16.resolve", raw, cs.Vars))
		if err != nil {
			ctx.Rep.Fail(hx.Failure{Kind: "harness-error", Detail: err.Error(), Case: cs, Index: idx})
			return
		}
		ctx.Rep.Traces++
		model2 := res2["result"]
		canonSchemaLists(raw, model2)
		if hx.Canon(model2) != hx.Canon(direct) {
			var ds []jdiff
			jsonDiff(model2, direct, nil, &ds)
			ctx.Rep.Fail(hx.Failure{Kind: "model-mismatch", Detail: "ResolveIntrospectionFields on the operation's own selection set differs from Model.Introspect.resolve", Case: cs, Index: idx,
				Impl: map[string]interface{}{"differences(model→impl)": firstN(ds, 4)}})
		}
		// (5) the specification
		sp, err := ctx.Driver.Call(env.driverArgs("c16.spec", raw, cs.Vars))
		if err != nil {
			ctx.Rep.Fail(hx.Failure{Kind: "harness-error", Detail: err.Error(), Case: cs, Index: idx})
			return
		}
		want := normJSON(sp["result"]) // the specification's lists: definitions in name order
		// inside the feature sets of C16_resolve_eq_spec_partial (asked of the Lean predicates, on the
		// selection set the resolver receives) nothing may differ and no finding class applies
		if sup, err := ctx.Driver.Call(env.driverArgs("c16.supported", isel, cs.Vars)); err == nil && sup["schema"] == true && sup["sel"] == true {
			ctx.Rep.Count("fragment:supportedSchema∧supportedSel")
			spi, err := ctx.Driver.Call(env.driverArgs("c16.spec", isel, cs.Vars))
			if err != nil {
				ctx.Rep.Fail(hx.Failure{Kind: "harness-error", Detail: err.Error(), Case: cs, Index: idx})
				return
			}
			wantI := spi["result"]
			canonSchemaLists(raw, wantI)
			if hx.Canon(wantI) != hx.Canon(got) {
				var ds []jdiff
				jsonDiff(wantI, got, nil, &ds)
				ctx.Rep.Fail(hx.Failure{Kind: "property-fails", Detail: "case inside supportedSchema ∧ supportedSel (where C16_resolve_eq_spec_partial proves the model equal to the specification on the selection set the resolver receives) but the gateway's answer differs",
					Case: cs, Index: idx, Impl: map[string]interface{}{"differences": firstN(ds, 4)}})
				return
			}
		}
		if modelAgrees {
			// the model's per-definition answers in name order: run it once more with an extra
			// `__align: name` in every types/directives selection, order by it, drop it
			if al, err := ctx.Driver.Call(map[string]interface{}{"op": "c16.resolve", "schema": env.sj, "sel": withAlignKey(selJSON(isel)), "vars": varsOrEmpty(cs.Vars)}); err == nil {
				modelInOrder = normJSON(al["result"])
				orderByAlignKey(modelInOrder)
			}
			alignSchemaLists(raw, got, modelInOrder)
		}
		sortSchemaLists(raw, want)
		sortSchemaLists(raw, got)
		c16ReportDiffs(ctx, idx, cs, raw, want, got, "HTTP answer vs Spec.select(Spec.introspect)")
	}
	ctx.Rep.Sample(map[string]interface{}{"schema_features": env.gs.Feat, "query": cs.Query, "variables": cs.Vars})
}

func firstN(ds []jdiff, n int) []jdiff {
	if len(ds) > n {
		return ds[:n]
	}
	return ds
}

// ---------------------------------------------------------------------------------------------
// the standard query: reported ⇔ exists (Go oracle), and cross-validation of the Lean spec

var c16Lim = c15Limiter{n: map[string]int{}}

var pebblesStdQuery string

type captureQ struct{ got *string }

func (c captureQ) Query(rs []*requests.Request) ([]map[string]interface{}, error) {
	if len(rs) > 0 {
		*c.got = rs[0].Query
	}
	return nil, fmt.Errorf("captured")
}
func (c captureQ) Subscribe(*requests.Request, <-chan struct{}, chan *requests.Response) error {
	return nil
}
func (c captureQ) URL() string { return "capture" }

// stdQuery returns the introspection query text the real IntrospectRemoteSchemas sends.
func stdQuery() string {
	if pebblesStdQuery == "" {
		p := &introspection.ParallelRemoteSchemaIntrospector{Factory: func(string) queryer.Queryer { return captureQ{&pebblesStdQuery} }}
		p.IntrospectRemoteSchemas("capture")
	}
	return pebblesStdQuery
}

func c16Std(ctx *Ctx, idx int, env *c16Env) {
	for qi, q := range []string{stdQuery(), graphqlJSIntrospectionQuery} {
		cs := ioCase{Kind: "std-oracle", Query: q, SchemaIx: env.ix, SDL: env.gs.SDL}
		ctx.Rep.Count("op:standard-query")
		ctx.Rep.Case(fmt.Sprintf("%d/std%d", env.ix, qi), true)
		op, err := c16LoadOp(env.gs.Schema, q)
		if err != nil {
			ctx.Rep.Fail(hx.Failure{Kind: "property-fails", Detail: "the standard introspection query does not validate against the gateway schema: " + err.Error(), Case: cs, Index: idx})
			return
		}
		raw := expandSpreads(op.SelectionSet)
		ans, rawBody := env.post(q, nil)
		if len(ans.Errors) > 0 || ans.Data == nil {
			failLimited(ctx, &c16Lim, hx.Failure{Kind: "property-fails", Class: env.customRootClass(rawBody), Detail: "standard introspection query answered with errors: " + strings.TrimSpace(rawBody), Case: cs, Index: idx})
			return
		}
		got := normJSON(ans.Data)
		want := normJSON(goSpecStd(env.gs.Schema))
		sortPossibleTypes(got)
		sortPossibleTypes(want)
		// every type / field / argument / enum value / input field / possible type / directive the
		// schema holds is reported, and nothing else
		c16CountReported(ctx, want)
		c16ReportDiffs(ctx, idx, cs, raw, want, got, "standard query: reported vs *ast.Schema (Go oracle)")
		if ctx.Driver != nil {
			sp, err := ctx.Driver.Call(env.driverArgs("c16.spec", raw, nil))
			if err != nil {
				ctx.Rep.Fail(hx.Failure{Kind: "harness-error", Detail: err.Error(), Case: cs, Index: idx})
				return
			}
			lean := sp["result"]
			sortPossibleTypes(lean)
			if hx.Canon(lean) != hx.Canon(want) {
				var ds []jdiff
				jsonDiff(want, lean, nil, &ds)
				ctx.Rep.Fail(hx.Failure{Kind: "harness-error", Detail: "the two specification oracles disagree (Go goSpecStd vs Lean Spec.introspect) on the standard query", Case: cs, Index: idx,
					Impl: map[string]interface{}{"differences(go→lean)": firstN(ds, 4)}})
			}
		}
	}
}

func c16CountReported(ctx *Ctx, std interface{}) {
	m, _ := std.(map[string]interface{})
	sch, _ := m["__schema"].(map[string]interface{})
	ts, _ := sch["types"].([]interface{})
	for _, t := range ts {
		tm, _ := t.(map[string]interface{})
		ctx.Rep.Count("vv:type:" + fmt.Sprint(tm["kind"]))
		for _, k := range []string{"fields", "inputFields", "enumValues", "possibleTypes", "interfaces"} {
			if arr, ok := tm[k].([]interface{}); ok {
				for range arr {
					ctx.Rep.Count("vv:" + k)
				}
			}
		}
	}
	ds, _ := sch["directives"].([]interface{})
	for range ds {
		ctx.Rep.Count("vv:directives")
	}
}

// ---------------------------------------------------------------------------------------------
// __type(name:) agrees with the entry of __schema.types (Go oracle on the real answers only)

func c16TypeVsTypes(ctx *Ctx, idx int, env *c16Env, cs ioCase) {
	cs.SchemaIx, cs.SDL = env.ix, env.gs.SDL
	ctx.Rep.Count("op:type-vs-types")
	ctx.Rep.Case(fmt.Sprintf("%d/tvt/%s", env.ix, cs.Query), true)
	ans, rawBody := env.post(cs.Query, cs.Vars)
	if len(ans.Errors) > 0 || ans.Data == nil {
		if c := env.customRootClass(rawBody); c != "" {
			failLimited(ctx, &c16Lim, hx.Failure{Kind: "property-fails", Class: c, Detail: "valid introspection operation refused: " + strings.TrimSpace(rawBody), Case: cs, Index: idx})
			return
		}
		ctx.Rep.Fail(hx.Failure{Kind: "harness-error", Detail: "type-vs-types operation rejected: " + rawBody, Case: cs, Index: idx})
		return
	}
	sch, _ := ans.Data["s"].(map[string]interface{})
	types, _ := sch["types"].([]interface{})
	byName := map[string]interface{}{}
	for _, t := range types {
		tm, _ := t.(map[string]interface{})
		if n, ok := tm["name"].(string); ok {
			byName[n] = t
		}
	}
	for k, v := range ans.Data {
		if !strings.HasPrefix(k, "t_") {
			continue
		}
		name := strings.TrimPrefix(k, "t_")
		entry, ok := byName[name]
		if !ok {
			if v != nil {
				ctx.Rep.Fail(hx.Failure{Kind: "property-fails", Detail: "__type(name: \"" + name + "\") is answered but __schema.types has no such entry", Case: cs, Index: idx})
			}
			continue
		}
		if hx.Canon(entry) != hx.Canon(v) {
			var ds []jdiff
			jsonDiff(normJSON(entry), normJSON(v), nil, &ds)
			ctx.Rep.Fail(hx.Failure{Kind: "property-fails", Detail: "__type(name: \"" + name + "\") differs from the entry of __schema.types under the same selection", Case: cs, Index: idx,
				Impl: map[string]interface{}{"differences(types→__type)": firstN(ds, 4)}})
		}
	}
}

func genTypeVsTypes(r *hx.Rand, s *ast.Schema) ioCase {
	o := &opgen{r: r, vars: map[string]interface{}{}, nameSel: true}
	body := o.body("__Type", r.Range(1, 3))
	names := typeNames(s)
	var parts []string
	for i := 0; i < 4; i++ {
		n := hx.Pick(r, names)
		parts = append(parts, fmt.Sprintf("t_%s: __type(name: %q) { %s }", n, n, body))
	}
	head := "query Q"
	if len(o.decls) > 0 {
		head += "(" + strings.Join(o.decls, ", ") + ")"
	}
	q := head + " { s: __schema { types { " + body + " } } " + strings.Join(dedupStrings(parts), " ") + " }"
	if len(o.frags) > 0 {
		q += " " + strings.Join(o.frags, " ")
	}
	c := ioCase{Kind: "type-vs-types", Query: q}
	if len(o.vars) > 0 {
		c.Vars = o.vars
	}
	return c
}

func dedupStrings(xs []string) []string {
	seen := map[string]bool{}
	var out []string
	for _, x := range xs {
		if !seen[x] {
			seen[x] = true
			out = append(out, x)
		}
	}
	return out
}

// ---------------------------------------------------------------------------------------------
// pinned witnesses of the open findings (run first)

var c16Witnesses = []struct{ sdl, query string }{
	{igCorpus[1], `{ __type(name: "A") { __typename name } }`},
	{igCorpus[1], `{ __schema { __typename queryType { name } } }`},
	{igCorpus[1], `{ __schema { directives { name isRepeatable } } }`},
	{igCorpus[1], `{ __type(name: "Date") { name specifiedByURL } }`},
	{igCorpus[1], `{ __schema { types { name } types { kind } } }`},
	{igCorpus[1], `{ __type(name: "A") { fields(includeDeprecated: true) { name deprecationReason } } }`},
	// a non-null field whose type is reached again while its own `ofType` is being resolved
	{c16SelfRefSDL, `{ __type(name: "User") { fields { name type { kind name ofType { kind name fields { name type { kind name ofType { kind name } } args { name type { kind ofType { kind name } } } } } } } } }`},
	{c16SelfRefSDL, `{ __schema { types { name fields { name type { kind ofType { name fields { name type { kind ofType { name } } } } } } inputFields { name type { kind ofType { name inputFields { name type { kind } } } } } } } }`},
}

const c16SelfRefSDL = `type User { id: ID! bestFriend: User! friends(of: Filter!): [User!]! name: String }
input Filter { and: Filter not: Filter! min: Int! }
type Query { me: User! }`

// c16OtherVars: the same operation text with every provided variable changed (booleans flipped,
// type names replaced by another type of the schema).
func c16OtherVars(r *hx.Rand, env *c16Env, cs ioCase) (ioCase, bool) {
	if len(cs.Vars) == 0 {
		return cs, false
	}
	var names []string
	for n := range env.gs.Schema.Types {
		names = append(names, n)
	}
	sort.Strings(names)
	out := cs
	out.Vars = map[string]interface{}{}
	keys := make([]string, 0, len(cs.Vars))
	for k := range cs.Vars {
		keys = append(keys, k)
	}
	sort.Strings(keys)
	changed := false
	for _, k := range keys {
		switch v := cs.Vars[k].(type) {
		case bool:
			out.Vars[k] = !v
			changed = true
		case string:
			n := hx.Pick(r, names)
			out.Vars[k] = n
			changed = changed || n != v
		default:
			out.Vars[k] = v
		}
	}
	return out, changed
}

// c16Batch: the standard query four times in ONE batch (the gateway answers the entries of a batch
// concurrently) — each entry must be answered like the query sent alone: resolving introspection
// reads the merged schema and must leave it as it is.
func c16Batch(ctx *Ctx, idx int, env *c16Env) {
	q := stdQuery()
	single, _ := env.post(q, nil)
	body := []interface{}{}
	for i := 0; i < 4; i++ {
		body = append(body, map[string]interface{}{"query": q})
	}
	b, _ := json.Marshal(body)
	r := httptest.NewRequest("POST", "/", bytes.NewReader(b))
	r.Header.Set("Content-Type", "application/json")
	w := httptest.NewRecorder()
	env.gw.Handler(w, r)
	var as []gwAnswer
	d := json.NewDecoder(bytes.NewReader(w.Body.Bytes()))
	d.UseNumber()
	cs := ioCase{Kind: "batch", SDL: env.gs.SDL, Query: q}
	ctx.Rep.Case(fmt.Sprintf("batch/%d", env.ix), true)
	ctx.Rep.Count("sequence:standard query four times in one batch")
	if err := d.Decode(&as); err != nil || len(as) != 4 {
		ctx.Rep.Fail(hx.Failure{Kind: "property-fails", Detail: fmt.Sprintf("a batch of four standard introspection queries is not answered by an array of four results (%v)", err), Case: cs, Index: idx})
		return
	}
	want := hx.Canon(map[string]interface{}{"data": single.Data, "errors": single.Errors})
	for i, a := range as {
		if got := hx.Canon(map[string]interface{}{"data": a.Data, "errors": a.Errors}); got != want {
			ctx.Rep.Fail(hx.Failure{Kind: "property-fails", Detail: fmt.Sprintf("entry %d of a batch of four standard introspection queries is answered differently from the same query sent alone", i), Case: cs, Index: idx})
			return
		}
	}
}

func runC16(ctx *Ctx) error {
	ctx.Rep.Rule = "case = (generated schema, introspection operation, variables) through the real gateway HTTP handler and through " +
		"IntrospectionResolver.ResolveIntrospectionFields, compared with Model.Introspect.resolve, with Spec.select(Spec.introspect) and with Go oracles " +
		"(standard query: reported ⇔ held by *ast.Schema; __type vs __schema.types; stacking a second gateway); distinct = distinct (schema index, query text, variables); " +
		"non-trivial = the operation validates and selects __schema or __type"
	idx := 0
	// pinned witnesses
	for _, w := range c16Witnesses {
		s, err := gqlparser.LoadSchema(&ast.Source{Name: "corpus", Input: w.sdl})
		if err != nil {
			return err
		}
		env, err := c16NewEnv(-1, &igSchema{SDL: w.sdl, Schema: s, Feat: []string{"corpus"}})
		if err != nil {
			return err
		}
		c16Check(ctx, idx, env, ioCase{Kind: "witness", Query: w.query})
		idx++
	}
	nSchemas, nOps, nTvt := 90, 30, 3
	if ctx.Thorough() {
		nSchemas, nOps, nTvt = 1200, 50, 6
	}
	var envs []*c16Env
	for i, sdl := range igCorpus {
		s, err := gqlparser.LoadSchema(&ast.Source{Name: "corpus", Input: sdl})
		if err != nil {
			return fmt.Errorf("corpus schema %d: %v", i, err)
		}
		env, err := c16NewEnv(i, &igSchema{SDL: sdl, Schema: s, Feat: []string{"corpus"}})
		if err != nil {
			return err
		}
		envs = append(envs, env)
	}
	for i := 0; i < nSchemas; i++ {
		r := ctx.Rand.Fork()
		prof := igWild
		if i%2 == 0 {
			prof = igSafe
		}
		gs, err := igGenerate(r, prof)
		if err != nil {
			ctx.Rep.Count("generator:schema-rejected")
			ctx.Rep.Note(err.Error())
			continue
		}
		env, err := c16NewEnv(len(igCorpus)+i, gs)
		if err != nil {
			ctx.Rep.Fail(hx.Failure{Kind: "harness-error", Detail: "NewGateway: " + err.Error(), Case: ioCase{SDL: gs.SDL}})
			continue
		}
		envs = append(envs, env)
	}
	for _, env := range envs {
		for _, f := range env.gs.Feat {
			ctx.Rep.Count("schema:" + f)
		}
		c16Std(ctx, idx, env)
		idx++
		c16Stack(ctx, idx, env, false)
		idx++
		for k := 0; k < nOps; k++ {
			r := ctx.Rand.Fork()
			cs := genOp(r, env.gs.Schema, k%2 != 0)
			c16Check(ctx, idx, env, cs)
			idx++
			// the same document again on the same gateway with other variable values: an answer must
			// depend on the variables of THIS request only (nothing remembered per document text)
			if cs2, ok := c16OtherVars(r, env, cs); ok {
				ctx.Rep.Count("sequence:same document, other variables")
				c16Check(ctx, idx, env, cs2)
				idx++
			}
		}
		for k := 0; k < nTvt; k++ {
			c16TypeVsTypes(ctx, idx, env, genTypeVsTypes(ctx.Rand.Fork(), env.gs.Schema))
			idx++
		}
		c16Batch(ctx, idx, env)
		idx++
	}
	return nil
}
