package main

// Schema generator shared by C15 and C16: SDL covering every type-system feature the two
// properties talk about. Everything is drawn from one hx.Rand, so a case replays from its seed.

import (
	"fmt"
	"sort"
	"strings"

	"github.com/vektah/gqlparser/v2"
	"github.com/vektah/gqlparser/v2/ast"
	"verif/harness/hx"
)

// igProfile selects which features the generator may use.
type igProfile struct {
	ArgDefaults      bool // field / directive argument defaults
	InputDefaults    bool // input field defaults
	Deprecation      bool // @deprecated on fields and enum values
	DeprecatedNoWhy  bool // @deprecated without reason
	SpecifiedBy      bool // scalar @specifiedBy(url:)
	DirectiveDefs    bool // directive definitions (with arguments)
	CustomRoots      bool // schema { query: RootQ … }
	DeepWrappers     bool // more than 7 list/non-null wrappers
	IfaceImplIface   bool // interface implements interface
	TrickyDescr      bool // descriptions with quotes
	AppliedDirective bool // applications of custom directives (not visible through introspection)
}

var igSafe = igProfile{DirectiveDefs: true, IfaceImplIface: true}
var igWild = igProfile{ArgDefaults: true, InputDefaults: true, Deprecation: true, DeprecatedNoWhy: true, SpecifiedBy: true,
	DirectiveDefs: true, CustomRoots: true, DeepWrappers: true, IfaceImplIface: true, TrickyDescr: true, AppliedDirective: true}

type igSchema struct {
	SDL    string
	Schema *ast.Schema
	Feat   []string // features present (sorted)
}

type igen struct {
	r    *hx.Rand
	p    igProfile
	feat map[string]bool
	b    strings.Builder

	scalars []string
	enums   map[string][]string
	enumNs  []string
	inputs  []string
	inFlds  map[string][]string // input -> "name: Type" field names with their named type
	inFldT  map[string]map[string]string
	ifaces  []string
	ifFlds  map[string][]string // interface -> field lines (without deprecation)
	objects []string
	unions  []string
	dirs    []string // custom directive names usable on FIELD_DEFINITION
}

func (g *igen) f(s string)           { g.feat[s] = true }
func (g *igen) w(s string, a ...any) { fmt.Fprintf(&g.b, s, a...) }

func (g *igen) descr(what string) string {
	if !g.r.Chance(1, 3) {
		return ""
	}
	g.f("description")
	d := "about " + what
	if g.p.TrickyDescr && g.r.Chance(1, 4) {
		g.f("description-with-quote")
		d = "the \\\"" + what + "\\\" thing"
	}
	return "\"" + d + "\" "
}

// wrap draws list / non-null wrappers around a named type.
func (g *igen) wrap(named string) string {
	depth := 0
	switch x := g.r.Intn(20); {
	case x < 7:
		depth = 0
	case x < 12:
		depth = 1
	case x < 16:
		depth = 2
	case x < 18:
		depth = 3
	default:
		depth = g.r.Range(4, 7)
	}
	if g.p.DeepWrappers && g.r.Chance(1, 400) {
		depth = g.r.Range(8, 11)
		g.f("wrappers>7")
	}
	t := named
	// build from the inside out; never two consecutive "!"
	last := ""
	for i := 0; i < depth; i++ {
		if last != "!" && g.r.Chance(2, 5) {
			t += "!"
			last = "!"
		} else {
			t = "[" + t + "]"
			last = "]"
		}
	}
	if depth > 0 {
		g.f(fmt.Sprintf("wrappers=%d", minInt(depth, 8)))
	}
	return t
}

func innerNamed(t string) string { return strings.Trim(t, "[]!") }

// literal draws a default value literal (GraphQL syntax) for a type expression.
func (g *igen) literal(t string, depth int) string {
	nullable := !strings.HasSuffix(t, "!")
	if nullable && g.r.Chance(1, 12) {
		return "null"
	}
	t = strings.TrimSuffix(t, "!")
	if strings.HasPrefix(t, "[") {
		el := t[1 : len(t)-1]
		n := g.r.Intn(3)
		parts := make([]string, n)
		for i := range parts {
			parts[i] = g.literal(el, depth+1)
		}
		g.f("default:list")
		return "[" + strings.Join(parts, ", ") + "]"
	}
	switch t {
	case "Int":
		g.f("default:Int")
		return hx.Pick(g.r, []string{"0", "5", "-3", "42"})
	case "Float":
		g.f("default:Float")
		return hx.Pick(g.r, []string{"1.5", "0.25", "-2.5"})
	case "Boolean":
		g.f("default:Boolean")
		return hx.Pick(g.r, []string{"true", "false"})
	case "String":
		g.f("default:String")
		return hx.Pick(g.r, []string{`"hi"`, `""`, `"he\"y"`, `"a b"`, `"<x>"`})
	case "ID":
		g.f("default:ID")
		return hx.Pick(g.r, []string{`"id1"`, `7`})
	}
	if vs, ok := g.enums[t]; ok {
		g.f("default:enum")
		return hx.Pick(g.r, vs)
	}
	if fl, ok := g.inFlds[t]; ok && depth < 2 {
		g.f("default:object")
		var parts []string
		for _, fn := range fl {
			ft := g.inFldT[t][fn]
			if strings.HasSuffix(ft, "!") || g.r.Chance(1, 2) {
				parts = append(parts, fn+": "+g.literal(ft, depth+1))
			}
		}
		return "{" + strings.Join(parts, ", ") + "}"
	}
	// custom scalar
	g.f("default:custom-scalar")
	return hx.Pick(g.r, []string{`"2020-01-01"`, `3`})
}

func (g *igen) inputType() string {
	pool := append([]string{"Int", "Float", "String", "Boolean", "ID"}, g.scalars...)
	pool = append(pool, g.enumNs...)
	pool = append(pool, g.inputs...)
	return g.wrap(hx.Pick(g.r, pool))
}

func (g *igen) outputType() string {
	pool := append([]string{"Int", "Float", "String", "Boolean", "ID"}, g.scalars...)
	pool = append(pool, g.enumNs...)
	pool = append(pool, g.objects...)
	pool = append(pool, g.objects...)
	pool = append(pool, g.ifaces...)
	pool = append(pool, g.unions...)
	return g.wrap(hx.Pick(g.r, pool))
}

func (g *igen) args() string {
	n := 0
	if g.r.Chance(2, 5) {
		n = g.r.Range(1, 3)
	}
	if n == 0 {
		return ""
	}
	g.f("field-args")
	names := []string{"first", "after", "filter", "flag", "ids"}
	parts := make([]string, n)
	for i := 0; i < n; i++ {
		t := g.inputType()
		p := g.descr("arg") + names[i] + ": " + t
		if g.p.ArgDefaults && g.r.Chance(1, 2) {
			g.f("arg-default")
			p += " = " + g.literal(t, 0)
		}
		parts[i] = p
	}
	return "(" + strings.Join(parts, ", ") + ")"
}

func (g *igen) deprecated() string {
	if !g.p.Deprecation || !g.r.Chance(1, 5) {
		return ""
	}
	if g.p.DeprecatedNoWhy && g.r.Chance(1, 3) {
		g.f("deprecated-without-reason")
		return " @deprecated"
	}
	g.f("deprecated")
	return " @deprecated(reason: " + hx.Pick(g.r, []string{`"use other"`, `"old \"one\""`, `""`}) + ")"
}

func (g *igen) applied() string {
	if !g.p.AppliedDirective || len(g.dirs) == 0 || !g.r.Chance(1, 6) {
		return ""
	}
	g.f("applied-custom-directive")
	return " @" + hx.Pick(g.r, g.dirs)
}

func (g *igen) fieldLine(name string) string {
	return g.descr("field "+name) + name + g.args() + ": " + g.outputType()
}

func igGenerate(r *hx.Rand, p igProfile) (*igSchema, error) {
	g := &igen{r: r, p: p, feat: map[string]bool{}, enums: map[string][]string{}, inFlds: map[string][]string{}, inFldT: map[string]map[string]string{}, ifFlds: map[string][]string{}}
	// custom scalars
	for _, s := range []string{"Date", "JSON"} {
		if r.Chance(1, 2) {
			g.scalars = append(g.scalars, s)
			g.f("custom-scalar")
			sb := ""
			if p.SpecifiedBy && r.Chance(1, 3) {
				g.f("specifiedBy")
				sb = ` @specifiedBy(url: "https://example.com/` + s + `")`
			}
			g.w("%sscalar %s%s\n", g.descr("scalar "+s), s, sb)
		}
	}
	// directive definitions
	if p.DirectiveDefs {
		for _, d := range []string{"tag", "auth"} {
			if !r.Chance(1, 2) {
				continue
			}
			g.f("directive-def")
			var args []string
			for i, an := range []string{"name", "level"}[:r.Intn(3)] {
				t := hx.Pick(r, []string{"String", "Int", "Boolean", "[String!]", "Int!"})
				a := g.descr("directive arg") + an + ": " + t
				if p.ArgDefaults && (r.Chance(1, 2) || strings.HasSuffix(t, "!")) {
					g.f("directive-arg-default")
					a += " = " + g.literal(t, 0)
				}
				args = append(args, a)
				_ = i
			}
			as := ""
			usable := true
			if len(args) > 0 {
				g.f("directive-args")
				as = "(" + strings.Join(args, ", ") + ")"
				for _, a := range args {
					if strings.Contains(a, "!") && !strings.Contains(a, "=") {
						usable = false
					}
				}
			}
			rep := ""
			if r.Chance(1, 4) {
				g.f("directive-repeatable")
				rep = " repeatable"
			}
			locs := []string{"FIELD_DEFINITION"}
			// every location of the specification can occur (executable and type-system ones)
			for _, l := range []string{"OBJECT", "ENUM_VALUE", "QUERY", "FIELD", "ARGUMENT_DEFINITION", "MUTATION", "SUBSCRIPTION",
				"FRAGMENT_DEFINITION", "FRAGMENT_SPREAD", "INLINE_FRAGMENT", "VARIABLE_DEFINITION", "SCHEMA", "SCALAR", "INTERFACE",
				"UNION", "ENUM", "INPUT_OBJECT", "INPUT_FIELD_DEFINITION"} {
				if r.Chance(1, 4) {
					locs = append(locs, l)
				}
			}
			g.w("%sdirective @%s%s%s on %s\n", g.descr("directive "+d), d, as, rep, strings.Join(locs, " | "))
			if usable {
				g.dirs = append(g.dirs, d)
			}
		}
	}
	// enums
	for _, e := range []string{"Color", "Status"}[:r.Range(1, 2)] {
		g.f("enum")
		vals := [][]string{{"RED", "GREEN", "BLUE"}, {"ACTIVE", "GONE", "UNKNOWN", "PENDING"}}[len(g.enumNs)]
		vals = vals[:r.Range(1, len(vals))]
		g.enums[e] = vals
		g.enumNs = append(g.enumNs, e)
		g.w("%senum %s {\n", g.descr("enum "+e), e)
		for i, v := range vals {
			dep := ""
			if i > 0 {
				dep = g.deprecated()
				if dep != "" {
					g.f("deprecated-enum-value")
				}
			}
			g.w("  %s%s%s\n", g.descr("value "+v), v, dep)
		}
		g.w("}\n")
	}
	// input objects
	for _, in := range []string{"Page", "Filter"}[:r.Intn(3)] {
		g.f("input-object")
		n := r.Range(1, 4)
		names := []string{"limit", "q", "only", "tags", "sub"}[:n]
		g.inFldT[in] = map[string]string{}
		var lines []string
		for _, fn := range names {
			t := g.inputType()
			l := g.descr("input field "+fn) + fn + ": " + t
			if p.InputDefaults && r.Chance(1, 2) {
				g.f("input-default")
				l += " = " + g.literal(t, 0)
			}
			lines = append(lines, l)
			g.inFldT[in][fn] = t
		}
		g.w("%sinput %s {\n  %s\n}\n", g.descr("input "+in), in, strings.Join(lines, "\n  "))
		g.inputs = append(g.inputs, in)
		g.inFlds[in] = names
	}
	// names of objects / unions are fixed first so that fields can refer to them
	g.objects = []string{"User", "Post", "Tag", "Item"}[:r.Range(1, 4)]
	nIf := r.Intn(3)
	g.ifaces = []string{"Node", "Named"}[:nIf]
	if len(g.objects) >= 2 && r.Chance(1, 2) {
		g.unions = append(g.unions, "SearchResult")
	}
	if len(g.objects) >= 1 && r.Chance(1, 4) {
		g.unions = append(g.unions, "Single")
	}
	// interfaces
	base := map[string]string{"Node": "id: ID!", "Named": "name: String"}
	for _, i := range g.ifaces {
		g.f("interface")
		lines := []string{base[i]}
		if r.Chance(1, 2) {
			lines = append(lines, "rel"+i+g.args()+": "+g.outputType())
		}
		impl := ""
		if p.IfaceImplIface && i == "Named" && len(g.ifaces) == 2 && r.Chance(1, 3) {
			g.f("interface-implements-interface")
			impl = " implements Node"
			lines = append(g.ifFlds["Node"], lines...)
		}
		g.ifFlds[i] = lines
		g.w("%sinterface %s%s {\n  %s\n}\n", g.descr("interface "+i), i, impl, strings.Join(lines, "\n  "))
	}
	ifaceImplNode := g.feat["interface-implements-interface"]
	// objects
	for _, o := range g.objects {
		g.f("object")
		var impls []string
		var lines []string
		seen := map[string]bool{}
		for _, i := range g.ifaces {
			if r.Chance(1, 2) {
				impls = append(impls, i)
			}
		}
		if ifaceImplNode && containsStr(impls, "Named") && !containsStr(impls, "Node") {
			impls = append([]string{"Node"}, impls...)
		}
		for _, i := range impls {
			for _, l := range g.ifFlds[i] {
				nm := strings.FieldsFunc(l, func(c rune) bool { return c == ':' || c == '(' })[0]
				if !seen[nm] {
					seen[nm] = true
					lines = append(lines, l)
				}
			}
		}
		for _, fn := range []string{"title", "count", "owner", "items", "meta"}[:r.Range(1, 5)] {
			lines = append(lines, g.fieldLine(fn)+g.deprecated()+g.applied())
		}
		is := ""
		if len(impls) > 0 {
			g.f("object-implements")
			is = " implements " + strings.Join(impls, " & ")
		}
		g.w("%stype %s%s {\n  %s\n}\n", g.descr("type "+o), o, is, strings.Join(lines, "\n  "))
	}
	for _, u := range g.unions {
		g.f("union")
		mem := g.objects[:1]
		if u == "SearchResult" {
			mem = g.objects[:r.Range(2, len(g.objects))]
		}
		g.w("%sunion %s = %s\n", g.descr("union "+u), u, strings.Join(mem, " | "))
	}
	// roots
	qn, mn, sn := "Query", "Mutation", "Subscription"
	custom := p.CustomRoots && r.Chance(1, 14)
	if custom {
		g.f("custom-root-names")
		qn, mn, sn = "RootQ", "RootM", "RootS"
	}
	hasM, hasS := r.Chance(1, 2), r.Chance(1, 4)
	rootBody := func(names []string) string {
		var ls []string
		for _, n := range names[:r.Range(1, len(names))] {
			ls = append(ls, g.fieldLine(n)+g.deprecated())
		}
		return strings.Join(ls, "\n  ")
	}
	g.w("type %s {\n  %s\n}\n", qn, rootBody([]string{"me", "search", "all", "byId"}))
	if hasM {
		g.f("mutation-root")
		g.w("type %s {\n  %s\n}\n", mn, rootBody([]string{"create", "remove"}))
	}
	if hasS {
		g.f("subscription-root")
		g.w("type %s {\n  %s\n}\n", sn, rootBody([]string{"changed"}))
	}
	if custom {
		g.w("schema {\n  query: %s\n", qn)
		if hasM {
			g.w("  mutation: %s\n", mn)
		}
		if hasS {
			g.w("  subscription: %s\n", sn)
		}
		g.w("}\n")
	}
	sdl := g.b.String()
	s, err := gqlparser.LoadSchema(&ast.Source{Name: "gen", Input: sdl})
	if err != nil {
		return nil, fmt.Errorf("generated SDL does not load: %v\n%s", err, sdl)
	}
	feats := make([]string, 0, len(g.feat))
	for k := range g.feat {
		feats = append(feats, k)
	}
	sort.Strings(feats)
	return &igSchema{SDL: sdl, Schema: s, Feat: feats}, nil
}

func minInt(a, b int) int {
	if a < b {
		return a
	}
	return b
}

func containsStr(xs []string, s string) bool {
	for _, x := range xs {
		if x == s {
			return true
		}
	}
	return false
}

// igCorpus: hand-written schemas run before the generated ones (every feature at least once).
var igCorpus = []string{
	`
"""
A bit like a film
"""
type Movie { id: ID! title: String @deprecated(reason: "Use something else") genres: [MovieGenre!]! }
enum MovieGenre { ACTION COMEDY HORROR @deprecated(reason: "too scary") DRAMA }
interface Person { name: String! }
type Cast implements Person { name: String! }
type Cinema { id: ID! name: String! }
union MovieOrCinema = Movie | Cinema
type Query { movie(id: ID!): Movie! movies: [Movie!]! somethingRandom: MovieOrCinema somePerson: Person }`,
	`
interface Node { id: ID! }
type A implements Node { id: ID! x(a: Int = 5, s: String = "hi", l: [Int!] = [1, 2]): [[String!]]! old: Int @deprecated }
type B implements Node { id: ID! }
union U = A | B
enum E { R G @deprecated(reason: "no") }
input In { a: Int = 5 s: String = "he\"y" e: E = R l: [Int] = [1, 2] o: In2 = {k: 1} }
input In2 { k: Int }
scalar Date @specifiedBy(url: "https://example.com/date")
directive @foo(a: Int = 1, b: String) repeatable on FIELD_DEFINITION | OBJECT
type Query { node(id: ID!): Node u: U f(i: In): Date }
type Mutation { m(i: In!): Boolean }`,
	`
interface Node { id: ID! }
interface Named implements Node { id: ID! name: String }
type T implements Node & Named { id: ID! name: String deep: [[[[[Int!]!]!]!]!]! }
type RootQ { t: T }
type RootM { t: T }
schema { query: RootQ mutation: RootM }`,
	`type Query { ping: String }`,
	// a directive argument with more than seven wrappers: the answer to the standard query is cut off
	`directive @shape(dims: [[[[[[[[Int]]]]]]]]) on FIELD_DEFINITION
type Query { ping: String @shape(dims: []) pong: Int }`,
}
