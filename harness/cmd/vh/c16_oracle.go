package main

// Oracles written in Go from the property statements, independent of the Lean model:
//   - goSpecStd: the spec-shaped answer to the standard introspection query, built directly
//     from gqlparser's *ast.Schema (cross-validates Lean's Spec.introspect, serves C15, and is
//     the "every X the validator knows is reported and vice versa" oracle of C16);
//   - jsonDiff: structural diff of two decoded JSON values.

import (
	"encoding/json"
	"fmt"
	"sort"
	"strings"

	"github.com/vektah/gqlparser/v2/ast"
	"verif/harness/hx"
)

const stdTypeRefLevels = 8 // kind/name at 8 levels, ofType at the first 7

func goKind(s *ast.Schema, name string) interface{} {
	if d, ok := s.Types[name]; ok {
		return string(d.Kind)
	}
	return nil
}

func goTypeRef(s *ast.Schema, t *ast.Type, level int) interface{} {
	if t == nil || level >= stdTypeRefLevels {
		return nil
	}
	m := map[string]interface{}{}
	var inner *ast.Type
	switch {
	case t.NonNull:
		m["kind"], m["name"] = "NON_NULL", nil
		c := *t
		c.NonNull = false
		inner = &c
	case t.Elem != nil:
		m["kind"], m["name"] = "LIST", nil
		inner = t.Elem
	default:
		if _, ok := s.Types[t.NamedType]; !ok {
			return nil
		}
		m["kind"], m["name"] = goKind(s, t.NamedType), t.NamedType
	}
	if level < stdTypeRefLevels-1 {
		m["ofType"] = goTypeRef(s, inner, level+1)
	}
	return m
}

func goNamedRef(s *ast.Schema, name string) interface{} {
	return goTypeRef(s, &ast.Type{NamedType: name}, 0)
}

func goDeprecation(ds ast.DirectiveList) (bool, interface{}) {
	d := ds.ForName("deprecated")
	if d == nil {
		return false, nil
	}
	if a := d.Arguments.ForName("reason"); a != nil && a.Value != nil {
		return true, a.Value.Raw
	}
	return true, "No longer supported" // the default declared by `directive @deprecated(reason: String = "No longer supported")`
}

func goInputValue(s *ast.Schema, name, desc string, t *ast.Type, def *ast.Value) map[string]interface{} {
	m := map[string]interface{}{"name": name, "description": desc, "type": goTypeRef(s, t, 0), "defaultValue": nil}
	if def != nil {
		m["defaultValue"] = def.String()
	}
	return m
}

func goArgs(s *ast.Schema, as ast.ArgumentDefinitionList) []interface{} {
	out := []interface{}{}
	for _, a := range as {
		out = append(out, goInputValue(s, a.Name, a.Description, a.Type, a.DefaultValue))
	}
	return out
}

func goFullType(s *ast.Schema, d *ast.Definition) map[string]interface{} {
	m := map[string]interface{}{"kind": string(d.Kind), "name": d.Name, "description": d.Description,
		"fields": nil, "inputFields": nil, "interfaces": nil, "enumValues": nil, "possibleTypes": nil}
	if d.Kind == ast.Object || d.Kind == ast.Interface {
		fs := []interface{}{}
		for _, f := range d.Fields {
			if strings.HasPrefix(f.Name, "__") {
				continue
			}
			dep, why := goDeprecation(f.Directives)
			fs = append(fs, map[string]interface{}{"name": f.Name, "description": f.Description, "args": goArgs(s, f.Arguments),
				"type": goTypeRef(s, f.Type, 0), "isDeprecated": dep, "deprecationReason": why})
		}
		m["fields"] = fs
		is := []interface{}{}
		for _, i := range d.Interfaces {
			is = append(is, goNamedRef(s, i))
		}
		m["interfaces"] = is
	}
	if d.Kind == ast.InputObject {
		fs := []interface{}{}
		for _, f := range d.Fields {
			fs = append(fs, goInputValue(s, f.Name, f.Description, f.Type, f.DefaultValue))
		}
		m["inputFields"] = fs
	}
	if d.Kind == ast.Enum {
		vs := []interface{}{}
		for _, e := range d.EnumValues {
			dep, why := goDeprecation(e.Directives)
			vs = append(vs, map[string]interface{}{"name": e.Name, "description": e.Description, "isDeprecated": dep, "deprecationReason": why})
		}
		m["enumValues"] = vs
	}
	if d.Kind == ast.Union {
		ps := []interface{}{}
		for _, t := range d.Types {
			ps = append(ps, goNamedRef(s, t))
		}
		m["possibleTypes"] = ps
	}
	if d.Kind == ast.Interface {
		// every object type that declares the interface, by name
		var names []string
		for _, o := range s.Types {
			if o.Kind == ast.Object && containsStr(o.Interfaces, d.Name) {
				names = append(names, o.Name)
			}
		}
		sort.Strings(names)
		ps := []interface{}{}
		for _, n := range names {
			ps = append(ps, goNamedRef(s, n))
		}
		m["possibleTypes"] = ps
	}
	return m
}

// goSpecStd: the answer the specification prescribes for the standard introspection query
// (the text pebbles sends, equal in shape to graphql-js' getIntrospectionQuery()).
func goSpecStd(s *ast.Schema) map[string]interface{} {
	names := make([]string, 0, len(s.Types))
	for k := range s.Types {
		names = append(names, k)
	}
	sort.Strings(names)
	types := []interface{}{}
	for _, n := range names {
		types = append(types, goFullType(s, s.Types[n]))
	}
	dnames := make([]string, 0, len(s.Directives))
	for k := range s.Directives {
		dnames = append(dnames, k)
	}
	sort.Strings(dnames)
	dirs := []interface{}{}
	for _, n := range dnames {
		d := s.Directives[n]
		locs := []interface{}{}
		for _, l := range d.Locations {
			locs = append(locs, string(l))
		}
		dirs = append(dirs, map[string]interface{}{"name": d.Name, "description": d.Description, "locations": locs, "args": goArgs(s, d.Arguments)})
	}
	root := func(d *ast.Definition) interface{} {
		if d == nil {
			return nil
		}
		return map[string]interface{}{"name": d.Name}
	}
	return map[string]interface{}{"__schema": map[string]interface{}{
		"queryType": root(s.Query), "mutationType": root(s.Mutation), "subscriptionType": root(s.Subscription),
		"types": types, "directives": dirs}}
}

// sortPossibleTypes sorts every `possibleTypes` array of a standard answer by name (the
// specification prescribes no order).
func sortPossibleTypes(std interface{}) {
	m, _ := std.(map[string]interface{})
	sch, _ := m["__schema"].(map[string]interface{})
	ts, _ := sch["types"].([]interface{})
	for _, t := range ts {
		tm, _ := t.(map[string]interface{})
		ps, ok := tm["possibleTypes"].([]interface{})
		if !ok {
			continue
		}
		sort.SliceStable(ps, func(i, j int) bool { return hx.Canon(ps[i]) < hx.Canon(ps[j]) })
	}
}

// normJSON round-trips a value through encoding/json so that both sides of a comparison are
// made of map[string]interface{}, []interface{}, string, json.Number, bool, nil.
func normJSON(v interface{}) interface{} {
	b, err := json.Marshal(v)
	if err != nil {
		return fmt.Sprintf("!marshal: %v", err)
	}
	var x interface{}
	d := json.NewDecoder(strings.NewReader(string(b)))
	d.UseNumber()
	if err := d.Decode(&x); err != nil {
		return string(b)
	}
	return x
}

type jdiff struct {
	Path []string    `json:"path"`
	Want interface{} `json:"want"`
	Got  interface{} `json:"got"`
}

type absentT struct{}

func (absentT) MarshalJSON() ([]byte, error) { return []byte(`"<absent>"`), nil }

var absent = absentT{}

func isAbsent(v interface{}) bool { _, ok := v.(absentT); return ok }

// jsonDiff lists the places where got differs from want (both normalised by normJSON).
func jsonDiff(want, got interface{}, path []string, out *[]jdiff) {
	if len(*out) > 40 {
		return
	}
	cp := func() []string { return append([]string{}, path...) }
	switch w := want.(type) {
	case map[string]interface{}:
		g, ok := got.(map[string]interface{})
		if !ok {
			*out = append(*out, jdiff{cp(), want, got})
			return
		}
		keys := map[string]bool{}
		for k := range w {
			keys[k] = true
		}
		for k := range g {
			keys[k] = true
		}
		ks := make([]string, 0, len(keys))
		for k := range keys {
			ks = append(ks, k)
		}
		sort.Strings(ks)
		for _, k := range ks {
			wv, wok := w[k]
			gv, gok := g[k]
			switch {
			case !wok:
				*out = append(*out, jdiff{append(cp(), k), absent, gv})
			case !gok:
				*out = append(*out, jdiff{append(cp(), k), wv, absent})
			default:
				jsonDiff(wv, gv, append(cp(), k), out)
			}
		}
	case []interface{}:
		g, ok := got.([]interface{})
		if !ok || len(g) != len(w) {
			*out = append(*out, jdiff{cp(), want, got})
			return
		}
		for i := range w {
			jsonDiff(w[i], g[i], append(cp(), fmt.Sprintf("[%d]", i)), out)
		}
	default:
		if hx.Canon(want) != hx.Canon(got) {
			*out = append(*out, jdiff{cp(), want, got})
		}
	}
}

// selWalk follows response keys down a selection set (fragments flattened, fields with the same
// response key merged); returns the name of the last field, the name of its parent field, and
// whether some selection set along the way carries a response key more than once (dup), and
// whether a field on the way has a response key equal to the NAME of an earlier field of its
// selection set that answers under another key (shadow).
func selWalk(ss ast.SelectionSet, path []string) (last, parent string, dup, shadow bool) {
	cur := ss
	for _, k := range path {
		if strings.HasPrefix(k, "[") {
			continue
		}
		fs := flatten(cur)
		// any field of this selection set with a repeated response key, or whose response key is
		// the name of an earlier field answering under another key, disturbs the whole object
		seenAlias, seenName := map[string]bool{}, map[string]bool{}
		for _, f := range fs {
			if seenAlias[f.Alias] {
				dup = true
			} else if seenName[f.Alias] {
				shadow = true
			}
			seenAlias[f.Alias] = true
			seenName[f.Name] = true
		}
		var names []string
		var sub ast.SelectionSet
		for _, f := range fs {
			if f.Alias == k {
				names = append(names, f.Name)
				sub = append(sub, f.Sub...)
			}
		}
		if len(names) == 0 {
			return "", last, dup, shadow
		}
		parent, last = last, names[0]
		cur = sub
	}
	return last, parent, dup, shadow
}

// hasDupKeys: does any selection set of the operation (fragments flattened) carry a response key
// twice?
func hasDupKeys(ss ast.SelectionSet) bool {
	seen := map[string]bool{}
	for _, f := range flatten(ss) {
		if seen[f.Alias] {
			return true
		}
		seen[f.Alias] = true
	}
	for _, f := range flatten(ss) {
		if hasDupKeys(f.Sub) {
			return true
		}
	}
	return false
}
