package main

// Introspection operations: a type-directed random generator (text), and the serialiser of a
// validated selection set into the wire format of lean/PebblesVerif/Driver/ISelJson.lean.

import (
	"fmt"
	"sort"
	"strings"

	"github.com/vektah/gqlparser/v2/ast"
	"verif/harness/hx"
)

type ifield struct {
	name   string
	typ    string // "" for a leaf
	incDep bool
	rare   bool // fields the resolver has no arm for: only drawn by the wild profile
}

var introTypes = map[string][]ifield{
	"__Schema": {{"description", "", false, true}, {"types", "__Type", false, false}, {"queryType", "__Type", false, false},
		{"mutationType", "__Type", false, false}, {"subscriptionType", "__Type", false, false}, {"directives", "__Directive", false, false}},
	"__Type": {{"kind", "", false, false}, {"name", "", false, false}, {"description", "", false, false},
		{"fields", "__Field", true, false}, {"interfaces", "__Type", false, false}, {"possibleTypes", "__Type", false, false},
		{"enumValues", "__EnumValue", true, false}, {"inputFields", "__InputValue", false, false}, {"ofType", "__Type", false, false},
		{"specifiedByURL", "", false, true}},
	"__Field": {{"name", "", false, false}, {"description", "", false, false}, {"args", "__InputValue", false, false},
		{"type", "__Type", false, false}, {"isDeprecated", "", false, false}, {"deprecationReason", "", false, false}},
	"__InputValue": {{"name", "", false, false}, {"description", "", false, false}, {"type", "__Type", false, false}, {"defaultValue", "", false, false}},
	"__EnumValue":  {{"name", "", false, false}, {"description", "", false, false}, {"isDeprecated", "", false, false}, {"deprecationReason", "", false, false}},
	"__Directive": {{"name", "", false, false}, {"description", "", false, false}, {"locations", "", false, false},
		{"args", "__InputValue", false, false}, {"isRepeatable", "", false, true}},
}

type ioCase struct {
	Kind     string                 `json:"kind"`
	Query    string                 `json:"query"`
	Vars     map[string]interface{} `json:"variables,omitempty"`
	SchemaIx int                    `json:"schema_index"`
	SDL      string                 `json:"sdl,omitempty"`
}

type opgen struct {
	r       *hx.Rand
	wild    bool
	frags   []string
	decls   []string
	vars    map[string]interface{}
	nvar    int
	nameSel bool // force an un-aliased `name` in types/directives selections (sorted, order-deterministic)
}

func (o *opgen) incDepArg() string {
	switch o.r.Intn(8) {
	case 0, 1, 2:
		return ""
	case 3, 4:
		return "(includeDeprecated: true)"
	case 5:
		return "(includeDeprecated: false)"
	}
	o.nvar++
	v := fmt.Sprintf("d%d", o.nvar)
	decl := "$" + v + ": Boolean"
	switch o.r.Intn(4) {
	case 0:
		decl += " = true" // default, not provided
	case 1:
		decl += " = false"
		o.vars[v] = true // provided overrides default
	case 2:
		o.vars[v] = o.r.Bool()
	case 3:
		// declared, no default, not provided
	}
	o.decls = append(o.decls, decl)
	return "(includeDeprecated: $" + v + ")"
}

var aliasPool = []string{"a", "b", "c", "x1", "y", "zz", "kind", "name", "n"}

// safe profile: aliases that are no field names (the planner's sanitiser drops a field whose
// response key equals the NAME of an earlier field), plus "name" when `name` itself is not selected
var safeAliasPool = []string{"a", "b", "c", "x1", "y", "zz", "n", "name"}

func (o *opgen) body(typ string, depth int) string {
	fields := introTypes[typ]
	type item struct{ key, text string }
	var items []item
	used := map[string]bool{}
	usedName := map[string]bool{}
	add := func(f ifield, force bool) {
		if f.typ != "" && depth <= 0 {
			return
		}
		if f.rare && !o.wild {
			return
		}
		key := f.name
		text := f.name
		if !force && o.r.Chance(1, 6) {
			if o.wild {
				key = hx.Pick(o.r, aliasPool)
			} else {
				key = hx.Pick(o.r, safeAliasPool)
			}
			text = key + ": " + f.name
		}
		if !o.wild && (usedName[f.name] || usedName[key] || used[f.name]) {
			return
		}
		if used[key] && !(o.wild && o.r.Chance(1, 3)) {
			return
		}
		used[key] = true
		usedName[f.name] = true
		if f.incDep {
			text += o.incDepArg()
		}
		if f.typ != "" {
			head := text
			text += " { " + o.body(f.typ, depth-1) + " }"
			if o.wild && o.r.Chance(1, 10) {
				// same response key, same field and arguments, another sub-selection: must be merged
				items = append(items, item{key, head + " { " + o.body(f.typ, depth-1) + " }"})
			}
		}
		items = append(items, item{key, text})
	}
	if o.nameSel && (typ == "__Type" || typ == "__Directive") {
		add(ifield{name: "name"}, true)
	}
	for _, f := range fields {
		p := 2
		if f.typ != "" {
			p = 3
		}
		if o.r.Chance(1, p) {
			add(f, false)
		}
	}
	if len(items) == 0 {
		for _, f := range fields {
			if f.typ == "" && !f.rare && !used[f.name] {
				add(f, true)
				break
			}
		}
	}
	if o.wild {
		if o.r.Chance(1, 8) {
			items = append(items, item{"__typename", "__typename"})
		}
		if len(items) > 0 && o.r.Chance(1, 12) {
			items = append(items, items[o.r.Intn(len(items))])
		}
	}
	// shuffle a little
	if o.r.Chance(1, 3) {
		p := o.r.Perm(len(items))
		sh := make([]item, len(items))
		for i, j := range p {
			sh[i] = items[j]
		}
		items = sh
	}
	texts := make([]string, len(items))
	for i, it := range items {
		texts[i] = it.text
	}
	// fragments around a suffix of the fields
	if len(texts) >= 2 && o.r.Chance(1, 5) {
		cut := o.r.Range(0, len(texts)-1)
		inner := strings.Join(texts[cut:], " ")
		var frag string
		switch o.r.Intn(3) {
		case 0:
			frag = "... on " + typ + " { " + inner + " }"
		case 1:
			frag = "... { " + inner + " }"
		default:
			name := fmt.Sprintf("F%d", len(o.frags)+1)
			o.frags = append(o.frags, "fragment "+name+" on "+typ+" { "+inner+" }")
			frag = "..." + name
		}
		texts = append(append([]string{}, texts[:cut]...), frag)
	}
	return strings.Join(texts, " ")
}

// typeNames lists candidate arguments for __type(name:): schema types, builtins, a missing one.
func typeNames(s *ast.Schema) []string {
	names := make([]string, 0, len(s.Types)+1)
	for k := range s.Types {
		names = append(names, k)
	}
	sort.Strings(names)
	return append(names, "NoSuchType")
}

func genOp(r *hx.Rand, s *ast.Schema, wild bool) ioCase {
	o := &opgen{r: r, wild: wild, vars: map[string]interface{}{}, nameSel: r.Chance(3, 4)}
	names := typeNames(s)
	// prefer user types
	var user []string
	for _, n := range names {
		if !strings.HasPrefix(n, "__") {
			user = append(user, n)
		}
	}
	pickName := func() string {
		if r.Chance(5, 6) {
			return hx.Pick(r, user)
		}
		return hx.Pick(r, names)
	}
	depth := r.Range(1, 4)
	var kind, root string
	switch r.Intn(6) {
	case 0, 1:
		kind = "type-literal"
		root = fmt.Sprintf("__type(name: %q) { %s }", pickName(), o.body("__Type", depth))
	case 2:
		kind = "type-variable"
		decl := "$v: String!"
		n := pickName()
		switch r.Intn(3) {
		case 0:
			o.vars["v"] = n
		case 1:
			decl = fmt.Sprintf("$v: String = %q", n)
			kind = "type-variable-default"
		case 2:
			decl = fmt.Sprintf("$v: String = %q", "NoSuchType")
			o.vars["v"] = n
		}
		o.decls = append(o.decls, decl)
		root = "__type(name: $v) { " + o.body("__Type", depth) + " }"
	case 3, 4:
		kind = "schema-partial"
		root = "__schema { " + o.body("__Schema", depth) + " }"
	default:
		kind = "mixed"
		root = fmt.Sprintf("t1: __type(name: %q) { %s } s: __schema { %s } t2: __type(name: %q) { %s }",
			pickName(), o.body("__Type", depth-1), o.body("__Schema", depth), pickName(), o.body("__Type", depth-1))
	}
	head := "query Q"
	if len(o.decls) > 0 {
		head += "(" + strings.Join(o.decls, ", ") + ")"
	}
	q := head + " { " + root + " }"
	if len(o.frags) > 0 {
		q += " " + strings.Join(o.frags, " ")
	}
	c := ioCase{Kind: kind, Query: q}
	if len(o.vars) > 0 {
		c.Vars = o.vars
	}
	return c
}

// graphql-js getIntrospectionQuery() with default options.
const graphqlJSIntrospectionQuery = `
query IntrospectionQuery {
  __schema {
    queryType { name }
    mutationType { name }
    subscriptionType { name }
    types { ...FullType }
    directives { name description locations args { ...InputValue } }
  }
}
fragment FullType on __Type {
  kind name description
  fields(includeDeprecated: true) { name description args { ...InputValue } type { ...TypeRef } isDeprecated deprecationReason }
  inputFields { ...InputValue }
  interfaces { ...TypeRef }
  enumValues(includeDeprecated: true) { name description isDeprecated deprecationReason }
  possibleTypes { ...TypeRef }
}
fragment InputValue on __InputValue { name description type { ...TypeRef } defaultValue }
fragment TypeRef on __Type {
  kind name
  ofType { kind name ofType { kind name ofType { kind name ofType { kind name ofType { kind name ofType { kind name ofType { kind name } } } } } } }
}`

// ---------------------------------------------------------------------------------------------
// AST → wire format

func ivalJSON(v *ast.Value) map[string]interface{} {
	if v == nil {
		return map[string]interface{}{"t": "lit", "j": nil}
	}
	if v.Kind == ast.Variable {
		m := map[string]interface{}{"t": "var", "n": v.Raw, "hd": false, "d": nil}
		if v.VariableDefinition != nil && v.VariableDefinition.DefaultValue != nil {
			d, err := v.VariableDefinition.DefaultValue.Value(nil)
			if err == nil {
				m["hd"], m["d"] = true, d
			}
		}
		return m
	}
	j, err := v.Value(nil)
	if err != nil {
		j = nil
	}
	return map[string]interface{}{"t": "lit", "j": j}
}

// selJSON serialises a selection set; fragment spreads become inline fragments (what the
// planner's sanitiser does before the resolver runs).
func selJSON(ss ast.SelectionSet) []interface{} {
	out := make([]interface{}, 0, len(ss))
	for _, s := range ss {
		switch s := s.(type) {
		case *ast.Field:
			args := make([]interface{}, 0, len(s.Arguments))
			for _, a := range s.Arguments {
				args = append(args, map[string]interface{}{"n": a.Name, "v": ivalJSON(a.Value)})
			}
			out = append(out, map[string]interface{}{"k": "f", "a": s.Alias, "n": s.Name, "args": args, "s": selJSON(s.SelectionSet)})
		case *ast.InlineFragment:
			out = append(out, map[string]interface{}{"k": "i", "s": selJSON(s.SelectionSet)})
		case *ast.FragmentSpread:
			if s.Definition != nil {
				out = append(out, map[string]interface{}{"k": "i", "s": selJSON(s.Definition.SelectionSet)})
			}
		}
	}
	return out
}

// expandSpreads returns a copy of the selection set in which every fragment spread is replaced
// by an inline fragment (the resolver's precondition; the original AST is left untouched).
func expandSpreads(ss ast.SelectionSet) ast.SelectionSet {
	var out ast.SelectionSet
	for _, s := range ss {
		switch s := s.(type) {
		case *ast.Field:
			c := *s
			c.SelectionSet = expandSpreads(s.SelectionSet)
			out = append(out, &c)
		case *ast.InlineFragment:
			c := *s
			c.SelectionSet = expandSpreads(s.SelectionSet)
			out = append(out, &c)
		case *ast.FragmentSpread:
			if s.Definition != nil {
				out = append(out, &ast.InlineFragment{TypeCondition: s.Definition.TypeCondition, SelectionSet: expandSpreads(s.Definition.SelectionSet), ObjectDefinition: s.ObjectDefinition})
			}
		}
	}
	return out
}

// flatSel is the harness' own view of a selection set for classification: fields in document
// order with fragments flattened.
type flatField struct {
	Alias, Name string
	Sub         ast.SelectionSet
}

func flatten(ss ast.SelectionSet) []flatField {
	var out []flatField
	for _, s := range ss {
		switch s := s.(type) {
		case *ast.Field:
			out = append(out, flatField{s.Alias, s.Name, s.SelectionSet})
		case *ast.InlineFragment:
			out = append(out, flatten(s.SelectionSet)...)
		case *ast.FragmentSpread:
			if s.Definition != nil {
				out = append(out, flatten(s.Definition.SelectionSet)...)
			}
		}
	}
	return out
}
