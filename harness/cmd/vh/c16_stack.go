package main

func c16Stack(ctx *Ctx, idx int, env *c16Env, replay bool) {}
