package main

// The closure of C16: a second gateway stacked on this one. The real remote introspector
// (introspection/remote.go) sends its standard query to the real gateway handler of the first
// one and must rebuild a schema equivalent to the one that gateway serves. Strict oracle on the
// schemas free of the reconstruction gaps recorded under C15 (no argument / input defaults, no
// deprecation, no repeatable directive, at most 7 wrappers, default root names); on every
// schema the outcome is compared with the model composition rebuild(resolve S standardQuery).

import (
	"encoding/json"
	"fmt"
	"strings"

	"github.com/buildbuildio/pebbles/introspection"
	"github.com/buildbuildio/pebbles/queryer"
	"github.com/buildbuildio/pebbles/requests"
	"github.com/vektah/gqlparser/v2/ast"
	"verif/harness/hx"
)

type gatewayQ struct{ env *c16Env }

func (g gatewayQ) Query(rs []*requests.Request) ([]map[string]interface{}, error) {
	out := make([]map[string]interface{}, len(rs))
	for i, r := range rs {
		ans, body := g.env.post(r.Query, r.Variables)
		if len(ans.Errors) > 0 {
			return nil, fmt.Errorf("downstream gateway: %s", strings.TrimSpace(body))
		}
		out[i] = ans.Data
	}
	return out, nil
}
func (g gatewayQ) Subscribe(*requests.Request, <-chan struct{}, chan *requests.Response) error {
	return nil
}
func (g gatewayQ) URL() string { return "http://gw/" }

// stackSafe: the schema has none of the features the reconstruction is known to lose (C15 findings).
func stackSafe(s *ast.Schema) bool {
	if maxWrapperDepth(s) > 7 {
		return false
	}
	if s.Query == nil || s.Query.Name != "Query" || (s.Mutation != nil && s.Mutation.Name != "Mutation") || (s.Subscription != nil && s.Subscription.Name != "Subscription") {
		return false
	}
	for _, d := range s.Types {
		if d.BuiltIn {
			continue
		}
		for _, f := range d.Fields {
			if f.DefaultValue != nil || f.Directives.ForName("deprecated") != nil {
				return false
			}
			for _, a := range f.Arguments {
				if a.DefaultValue != nil {
					return false
				}
			}
		}
		for _, e := range d.EnumValues {
			if e.Directives.ForName("deprecated") != nil {
				return false
			}
		}
	}
	for _, d := range s.Directives {
		if d.Position != nil && d.Position.Src != nil && d.Position.Src.BuiltIn {
			continue
		}
		if d.IsRepeatable {
			return false
		}
		for _, a := range d.Arguments {
			if a.DefaultValue != nil {
				return false
			}
		}
	}
	return true
}

func c16Stack(ctx *Ctx, idx int, env *c16Env, replay bool) {
	cs := ioCase{Kind: "stack", Query: stdQuery(), SchemaIx: env.ix, SDL: env.gs.SDL}
	s := env.gs.Schema
	safe := stackSafe(s)
	ctx.Rep.Count("op:stack")
	if safe {
		ctx.Rep.Count("stack:strict-oracle")
	}
	ctx.Rep.Case(fmt.Sprintf("%d/stack", env.ix), true)
	if env.customRootClass("unable to find type Query in schema") != "" {
		ctx.Rep.Count("stack:skipped(custom root names: every operation is refused)")
		return
	}
	var real c15Out
	if maxWrapperDepth(s) > 7 {
		// the cut ofType chain makes parseTypeRef panic in a goroutine: observe it in a child
		ans, _ := env.post(cs.Query, nil)
		real = c15RunRealInChild([]map[string]interface{}{ans.Data})
	} else {
		p := &introspection.ParallelRemoteSchemaIntrospector{Factory: func(string) queryer.Queryer { return gatewayQ{env} }}
		ss, err := p.IntrospectRemoteSchemas("http://gw/")
		switch {
		case err != nil:
			real = c15Out{Outcome: "error", Err: err.Error()}
		default:
			real = c15Out{Outcome: "ok", Schema: hx.Generic(hx.SchemaToJSON(ss[0])), schema: ss[0]}
		}
	}
	ctx.Rep.Count("stack:outcome:" + real.Outcome)
	if safe {
		if real.Outcome != "ok" {
			ctx.Rep.Fail(hx.Failure{Kind: "property-fails", Detail: "a second gateway cannot introspect this one: " + real.Outcome + " " + real.Err, Case: cs, Index: idx})
		} else {
			want, got := normSchemaJSON(env.sj), normSchemaJSON(real.Schema)
			var ds []jdiff
			jsonDiff(want, got, nil, &ds)
			if len(ds) > 0 {
				ctx.Rep.Fail(hx.Failure{Kind: "property-fails", Detail: fmt.Sprintf("the schema a second gateway rebuilds from this one differs at %d place(s), first at %s", len(ds), strings.Join(ds[0].Path, ".")),
					Case: cs, Index: idx, Impl: map[string]interface{}{"differences(served→rebuilt)": firstN(ds, 4)}})
			}
		}
	}
	if ctx.Driver == nil {
		return
	}
	op, err := c16LoadOp(s, cs.Query)
	if err != nil {
		ctx.Rep.Fail(hx.Failure{Kind: "harness-error", Detail: err.Error(), Case: cs, Index: idx})
		return
	}
	isel, err := env.internalSel(cs.Query, nil)
	if err != nil {
		ctx.Rep.Fail(hx.Failure{Kind: "harness-error", Detail: err.Error(), Case: cs, Index: idx})
		return
	}
	_ = op
	model, err := ctx.Driver.Call(map[string]interface{}{"op": "c16.stack", "schema": env.sj, "sel": selJSON(isel)})
	if err != nil {
		ctx.Rep.Fail(hx.Failure{Kind: "harness-error", Detail: err.Error(), Case: cs, Index: idx})
		return
	}
	ctx.Rep.Traces++
	mismatch := func(detail string, m interface{}) {
		ctx.Rep.Fail(hx.Failure{Kind: "model-mismatch", Detail: "stacked gateways: " + detail, Case: cs, Index: idx, Impl: map[string]interface{}{"outcome": real.Outcome, "err": real.Err}, Model: m})
	}
	switch model["outcome"] {
	case "panic":
		if real.Outcome != "panic" {
			mismatch("the model predicts a panic in parseTypeRef", model)
		}
	case "error":
		if real.Outcome != "error" {
			mismatch("the model predicts an error", model)
		}
	case "ok":
		ms := hx.SchemaFromJSON(model["schema"])
		reloaded, text, rerr := hx.Reload(ms, "http://gw/")
		switch {
		case rerr != nil && real.Outcome == "error":
		case rerr != nil || real.Outcome != "ok":
			mismatch(fmt.Sprintf("model reload error = %v, real outcome = %s %s", rerr, real.Outcome, real.Err), map[string]interface{}{"sdl": text})
		default:
			if hx.Canon(hx.SchemaToJSON(reloaded)) != hx.Canon(real.Schema) {
				var ds []jdiff
				jsonDiff(hx.Generic(hx.SchemaToJSON(reloaded)), real.Schema, nil, &ds)
				mismatch("rebuilt schema differs from rebuild(resolve S standardQuery)", map[string]interface{}{"differences(model→impl)": firstN(ds, 4)})
			}
		}
	}
	_ = json.Marshal
}
