package main

// C17 — subscription events are delivered once, in order, fully stitched.
//
// Scripted graphql-ws upstreams (one loopback listener per fake service) + raw websocket
// clients against the real Handler with the real MultiOpQueryer.Subscribe. Federations from
// fed.Generate (Subs), subscription operations from fed.GenOp, event histories = per-event
// variations of the Subscription roots over the federation's entity graph; the upstream answers
// every event with fed.Eval on ITS OWN schema, child steps go to the in-process fake services.
// Oracle (from the statement): per subscription id the client receives exactly the emitted
// events, in order, each equal to the reference evaluation of the client's operation on the
// merged schema for that event's data; upstream errors arrive as errors; no frame under a
// foreign id. Model: the frame sequence per id equals `c17.frames` (Model/SubEntry).

import (
	"bytes"
	"encoding/json"
	"fmt"
	"sort"
	"strings"
	"sync"
	"time"

	"github.com/vektah/gqlparser/v2"
	"github.com/vektah/gqlparser/v2/ast"
	"verif/harness/fed"
	"verif/harness/hx"
)

func init() {
	register("C17", runC17)
	registerReplay("C17", func(ctx *Ctx, raw json.RawMessage) error {
		var cs c17Case
		if err := json.Unmarshal(raw, &cs); err != nil {
			return err
		}
		c17Run(ctx, -1, cs.Seed, cs.Profile)
		return nil
	})
}

type c17Msg struct {
	Kind   string `json:"kind"` // data | errlist | errobj | complete | other
	K      int    `json:"k"`
	Errors bool   `json:"errors,omitempty"` // a data message that also carries errors
	Mode   string `json:"mode,omitempty"`   // "", "null", "empty": shape of the event's root value
}

type c17Sub struct {
	Conn  int      `json:"conn"`
	ID    string   `json:"id"`
	Op    *fed.Op  `json:"op"`
	Msgs  []c17Msg `json:"msgs"`
	Owner int      `json:"owner_service"`
}

type c17Case struct {
	Seed    uint64   `json:"seed"`
	Profile string   `json:"profile"`
	SDL     []string `json:"sdl,omitempty"`
	Subs    []c17Sub `json:"subs,omitempty"`
}

type c17Frame struct {
	ID      string
	Data    interface{}
	HasData bool
	Errors  []interface{}
}

func decodePayload(raw json.RawMessage) (data interface{}, hasData bool, errs []interface{}) {
	var m map[string]json.RawMessage
	if json.Unmarshal(raw, &m) != nil {
		return nil, false, nil
	}
	if d, ok := m["data"]; ok && string(d) != "null" {
		dec := json.NewDecoder(bytes.NewReader(d))
		dec.UseNumber()
		dec.Decode(&data)
		hasData = true
	}
	if e, ok := m["errors"]; ok {
		json.Unmarshal(e, &errs)
	}
	return
}

func c17Run(ctx *Ctx, idx int, seed uint64, profile string) {
	r := hx.NewRand(seed)
	cs := c17Case{Seed: seed, Profile: profile}
	var spec *fed.Spec
	for try := 0; try < 20; try++ {
		o := fed.DefaultGen()
		o.Subs = true
		spec = fed.Generate(r.Fork(), o)
		if len(spec.Subs) > 0 {
			break
		}
	}
	if len(spec.Subs) == 0 {
		return
	}
	data := fed.GenData(r, spec, fed.DefaultData())
	f, err := fed.Build(spec, data)
	if err != nil {
		ctx.Rep.Fail(hx.Failure{Kind: "harness-error", Detail: "build: " + err.Error(), Case: cs, Index: idx})
		return
	}
	for i := range f.Services {
		cs.SDL = append(cs.SDL, f.Services[i].SDL)
	}
	ups, err := fed.StartUpstreams(f)
	if err != nil {
		ctx.Rep.Fail(hx.Failure{Kind: "harness-error", Detail: err.Error(), Case: cs, Index: idx})
		return
	}
	defer ups.Close()
	mr, err := f.Merged()
	if err != nil {
		return // merge conflicts are C03-C05's subject
	}
	gw, err := f.NewGateway(fed.GatewayConfig{})
	if err != nil {
		return
	}
	gs := fed.ServeGateway(gw.Handler)
	defer gs.Close()

	nConn := r.Range(1, 2)
	type live struct {
		sub    *c17Sub
		up     *fed.UpSub
		opd    *ast.OperationDefinition
		want   []*c17Frame // oracle
		endErr bool        // the history contains an object-shaped error message
	}
	clients := make([]*fed.WSClient, nConn)
	got := make([]map[string][]*c17Frame, nConn)
	var gmu sync.Mutex
	var readErr []string
	var wg sync.WaitGroup
	for c := 0; c < nConn; c++ {
		cl, err := fed.DialWS(gs.WSURL())
		if err != nil {
			ctx.Rep.Fail(hx.Failure{Kind: "harness-error", Detail: "dial: " + err.Error(), Case: cs, Index: idx})
			return
		}
		clients[c] = cl
		got[c] = map[string][]*c17Frame{}
		cl.Init()
		wg.Add(1)
		go func(c int, cl *fed.WSClient) {
			defer wg.Done()
			for {
				fr, err := cl.ReadFrame(10 * time.Second)
				if err != nil {
					if strings.Contains(err.Error(), "malformed") {
						gmu.Lock()
						readErr = append(readErr, err.Error())
						gmu.Unlock()
					}
					return
				}
				if fr.Op != 1 {
					continue
				}
				m, err := fed.CheckTextFrame(fr)
				if err != nil {
					gmu.Lock()
					readErr = append(readErr, err.Error())
					gmu.Unlock()
					return
				}
				if m.Type != "data" {
					continue
				}
				d, has, errs := decodePayload(m.Payload)
				gmu.Lock()
				got[c][m.ID] = append(got[c][m.ID], &c17Frame{ID: m.ID, Data: d, HasData: has, Errors: errs})
				gmu.Unlock()
			}
		}(c, cl)
	}
	var lives []*live
	for c := 0; c < nConn; c++ {
		n := r.Range(1, 3)
		for k := 0; k < n; k++ {
			so := fed.SafeOps()
			op := fed.GenOp(r, mr.Schema, data, "subscription", so)
			if op == nil {
				continue
			}
			doc, gerr := gqlparser.LoadQuery(mr.Schema, op.Query)
			if gerr != nil {
				ctx.Rep.Fail(hx.Failure{Kind: "harness-error", Detail: "generated subscription invalid: " + gerr.Error(), Case: op, Index: idx})
				continue
			}
			var opd *ast.OperationDefinition
			if op.OpName != nil {
				opd = doc.Operations.ForName(*op.OpName)
			} else {
				opd = doc.Operations[0]
			}
			if c17ShadowProne(opd.SelectionSet) {
				// C01's open class (executor.FindSelection searches depth-first: a response name that
				// also occurs deeper in an EARLIER sibling is resolved to the wrong field; the same
				// operation fails identically as a plain query) — not this property's subject
				ctx.Rep.Count("skipped-c01-depth-first-shadowing")
				continue
			}
			// the id is the client's to choose: any string, also one that needs escaping inside JSON
			id := fmt.Sprintf("c%ds%d", c, k) + []string{"", "\"q", "\\b", "\nl", " ü\t"}[(c+2*k)%5]
			clients[c].Start(id, op.Query, op.Variables, op.OpName)
			up, err := ups.NextSub(2 * time.Second)
			if err != nil {
				ctx.Rep.Fail(hx.Failure{Kind: "property-fails", Detail: "a valid subscription operation did not reach its owning service: " + op.Query, Case: cs, Index: idx})
				continue
			}
			sub := &c17Sub{Conn: c, ID: id, Op: op, Owner: up.Service}
			lives = append(lives, &live{sub: sub, up: up, opd: opd})
		}
	}
	if len(lives) == 0 {
		return
	}
	// histories
	type sendItem struct {
		l    *live
		m    c17Msg
		send func()
	}
	var items [][]sendItem
	for _, l := range lives {
		n := r.Range(0, 4)
		if profile == "boundary" {
			n = 3
		}
		var seq []sendItem
		ended := false
		for k := 0; k < n; k++ {
			m := c17Msg{Kind: "data", K: k}
			switch x := r.Intn(12); {
			case x == 0:
				m.Mode = "null"
			case x == 1:
				m.Mode = "empty"
			case x == 2:
				m.Errors = true
			case x == 3:
				m.Kind = "errlist"
			case x == 4 && k == n-1:
				m.Kind = "errobj"
			case x == 5 && k == n-1:
				m.Kind = "complete"
			case x == 6:
				m.Kind = "other"
			}
			if profile == "boundary" {
				m = []c17Msg{{Kind: "data", K: 0, Mode: "null"}, {Kind: "data", K: 1, Mode: "empty"}, {Kind: "data", K: 2}}[k]
			}
			l.sub.Msgs = append(l.sub.Msgs, m)
			up, l2, mm := l.up, l, m
			switch m.Kind {
			case "data":
				dk := fed.VarySubRoots(r.Fork(), spec, data, fed.DefaultData(), m.Mode)
				svc := f.Services[up.Service]
				var payload map[string]interface{}
				var upErrs []interface{}
				if doc, gerr := gqlparser.LoadQuery(svc.Schema, up.Query); gerr == nil {
					var uop *ast.OperationDefinition
					if up.OpName != nil {
						uop = doc.Operations.ForName(*up.OpName)
					}
					if uop == nil && len(doc.Operations) > 0 {
						uop = doc.Operations[0]
					}
					ev := &fed.Eval{Schema: svc.Schema, Data: dk.Clone(), Vars: up.Vars}
					payload = ev.Execute(uop)
				} else {
					ctx.Rep.Fail(hx.Failure{Kind: "property-fails", Detail: "the sub-request sent to the owning service is invalid for it: " + gerr.Error() + ": " + up.Query, Case: cs, Index: idx})
				}
				if m.Errors {
					upErrs = []interface{}{map[string]interface{}{"message": fmt.Sprintf("e%d", m.K), "extensions": nil}}
					if m.K%2 == 1 {
						// a whole-event failure: `{"data": null, "errors": […]}` in a data frame
						payload = nil
						ctx.Rep.Count("event with errors and data null")
					}
				}
				if !ended {
					if m.Errors {
						l.want = append(l.want, &c17Frame{ID: l.sub.ID, Errors: upErrs})
					} else {
						ev := &fed.Eval{Schema: mr.Schema, Data: dk.Clone(), Vars: l.sub.Op.Variables}
						l.want = append(l.want, &c17Frame{ID: l.sub.ID, Data: ev.Execute(l.opd), HasData: true})
					}
				}
				seq = append(seq, sendItem{l2, mm, func() { up.SendData(payload, upErrs) }})
			case "errlist":
				if !ended {
					l.want = append(l.want, &c17Frame{ID: l.sub.ID, Errors: []interface{}{map[string]interface{}{"message": "boom"}}})
				}
				seq = append(seq, sendItem{l2, mm, func() { up.SendErrorList("boom") }})
			case "errobj":
				if !ended {
					l.want = append(l.want, &c17Frame{ID: l.sub.ID, Errors: []interface{}{map[string]interface{}{"message": "boom"}}})
					l.endErr = true
				}
				ended = true
				seq = append(seq, sendItem{l2, mm, func() { up.SendErrorObject("boom") }})
			case "complete":
				ended = true
				seq = append(seq, sendItem{l2, mm, func() { up.SendComplete() }})
			case "other":
				seq = append(seq, sendItem{l2, mm, func() { up.SendRaw([]byte(`{"type":"ka"}`)) }})
			}
		}
		items = append(items, seq)
		cs.Subs = append(cs.Subs, *l.sub)
	}
	// a random interleaving that keeps each subscription's order
	pos := make([]int, len(items))
	total := 0
	for _, s := range items {
		total += len(s)
	}
	for sent := 0; sent < total; {
		i := r.Intn(len(items))
		if pos[i] >= len(items[i]) {
			continue
		}
		items[i][pos[i]].send()
		pos[i]++
		sent++
		if r.Chance(1, 3) {
			time.Sleep(time.Duration(r.Intn(300)) * time.Microsecond)
		}
	}
	// wait for the expected number of frames (or a timeout), then a little more for extras
	deadline := time.Now().Add(3 * time.Second)
	for {
		done := true
		gmu.Lock()
		for _, l := range lives {
			need := len(l.want)
			if l.endErr {
				need-- // the documented finding: this frame never comes; do not wait for it
			}
			if len(got[l.sub.Conn][l.sub.ID]) < need {
				done = false
			}
		}
		gmu.Unlock()
		if done || time.Now().After(deadline) {
			break
		}
		time.Sleep(time.Millisecond)
	}
	time.Sleep(15 * time.Millisecond)
	for _, cl := range clients {
		cl.Terminate()
	}
	wg.Wait()
	for _, cl := range clients {
		cl.Abort()
	}

	// ---- compare
	key := fmt.Sprintf("%d|%s", seed, profile)
	nontrivial := false
	childCalls := len(f.AllCalls()) // sub-requests the gateway sent to services while stitching events
	if childCalls > 0 {
		ctx.Rep.Count("cases-with-child-step-calls")
	}
	for _, l := range lives {
		if len(l.want) >= 2 || childCalls > 0 {
			nontrivial = true
		}
	}
	ctx.Rep.Case(key, nontrivial)
	ctx.Rep.Count(fmt.Sprintf("subs=%d", len(lives)))
	if len(readErr) > 0 {
		ctx.Rep.Fail(hx.Failure{Kind: "property-fails", Detail: "the client read a frame that is not a whole well-formed message (C18's subject, seen here): " + readErr[0], Case: cs, Index: idx})
	}
	known := map[string]bool{}
	for _, l := range lives {
		known[fmt.Sprintf("%d/%s", l.sub.Conn, l.sub.ID)] = true
	}
	for c := range got {
		for id, fs := range got[c] {
			if !known[fmt.Sprintf("%d/%s", c, id)] {
				ctx.Rep.Fail(hx.Failure{Kind: "property-fails", Detail: fmt.Sprintf("connection %d received %d frame(s) under the foreign id %q", c, len(fs), id), Case: cs, Index: idx})
			}
		}
	}
	var entries []map[string]interface{}
	for _, l := range lives {
		ctx.Rep.Count(fmt.Sprintf("events=%d", len(l.sub.Msgs)))
		obs := got[l.sub.Conn][l.sub.ID]
		want := l.want
		class := ""
		if l.endErr && len(obs) == len(want)-1 {
			// everything but the object-shaped error arrived
			class = "upstream-error-object-dropped"
			ctx.Rep.Fail(hx.Failure{Kind: "property-fails", Class: class,
				Detail: fmt.Sprintf("subscription %s: the upstream's `error` message (object payload) was not forwarded: the subscription ended silently", l.sub.ID), Case: cs, Index: idx})
			want = want[:len(want)-1]
		}
		if len(obs) != len(want) {
			ctx.Rep.Fail(hx.Failure{Kind: "property-fails", Detail: fmt.Sprintf("subscription %s (%s): %d event frame(s) received, %d expected", l.sub.ID, l.sub.Op.Query, len(obs), len(want)),
				Case: cs, Impl: obs, Model: want, Index: idx})
		} else {
			for i := range want {
				w, o := want[i], obs[i]
				if len(w.Errors) > 0 {
					if len(o.Errors) == 0 || !strings.Contains(hx.Canon(o.Errors), hx.Canon(w.Errors[0].(map[string]interface{})["message"])) {
						ctx.Rep.Fail(hx.Failure{Kind: "property-fails", Detail: fmt.Sprintf("subscription %s event %d: upstream errors were not forwarded as errors", l.sub.ID, i), Case: cs, Impl: o, Model: w, Index: idx})
					}
					continue
				}
				if len(o.Errors) > 0 || hx.Canon(o.Data) != hx.Canon(w.Data) {
					ctx.Rep.Fail(hx.Failure{Kind: "property-fails", Detail: fmt.Sprintf("subscription %s event %d differs from the reference evaluation of %s", l.sub.ID, i, strings.TrimSpace(l.sub.Op.Query)),
						Case: cs, Impl: map[string]interface{}{"data": o.Data, "errors": o.Errors}, Model: w.Data, Index: idx})
					break
				}
			}
		}
		var msgs []map[string]interface{}
		for _, m := range l.sub.Msgs {
			msgs = append(msgs, map[string]interface{}{"kind": m.Kind, "k": m.K, "errors": m.Errors})
		}
		entries = append(entries, map[string]interface{}{"id": l.sub.ID, "msgs": msgs})
	}
	if len(ctx.Rep.Samples) < 3 && nontrivial {
		ctx.Rep.Sample(map[string]interface{}{"case": cs})
	}
	// ---- model: the frame sequence per id
	if ctx.Driver != nil {
		res, err := ctx.Driver.Call(map[string]interface{}{"op": "c17.frames", "entries": entries})
		if err != nil {
			ctx.Rep.Fail(hx.Failure{Kind: "harness-error", Detail: err.Error(), Case: cs, Index: idx})
			return
		}
		ctx.Rep.Traces++
		ents, _ := res["entries"].([]interface{})
		for i, e := range ents {
			em, _ := e.(map[string]interface{})
			fr, _ := em["frames"].([]interface{})
			l := lives[i]
			obs := got[l.sub.Conn][l.sub.ID]
			same := len(fr) == len(obs)
			if same {
				for j := range fr {
					fm, _ := fr[j].(map[string]interface{})
					if fm["id"] != obs[j].ID || (fm["errors"] == true) != (len(obs[j].Errors) > 0) {
						same = false
					}
				}
			}
			if !same {
				var o []string
				for _, x := range obs {
					o = append(o, fmt.Sprintf("%s errors=%v", x.ID, len(x.Errors) > 0))
				}
				sort.Strings(o[:0])
				ctx.Rep.Fail(hx.Failure{Kind: "model-mismatch", Detail: fmt.Sprintf("subscription %s: the frame sequence differs from the model's", l.sub.ID), Case: cs, Impl: o, Model: fr, Index: idx})
			}
		}
	}
}

func runC17(ctx *Ctx) error {
	ctx.Rep.Rule = "case = one generated federation with 1-2 client connections, 1-3 subscriptions each and an event history per subscription; " +
		"distinct = distinct generator seed; non-trivial = some subscription has ≥ 2 expected frames or stitching an event made the gateway call another service (child steps)"
	idx := 0
	for k := 0; k < 6; k++ {
		c17Run(ctx, idx, ctx.Seed*977+uint64(k), "boundary")
		idx++
	}
	n := 500
	if ctx.Thorough() {
		n = 4000
	}
	for k := 0; k < n; k++ {
		if ctx.Rep.Unlisted() >= 20 {
			ctx.Rep.Note("stopped generating after 20 unlisted failures")
			break
		}
		c17Run(ctx, idx, ctx.Rand.U64(), "gen")
		idx++
	}
	return nil
}

// flatFields lists the fields of a selection set with fragments expanded in place.
func flatFields(ss ast.SelectionSet) []*ast.Field {
	var out []*ast.Field
	for _, sel := range ss {
		switch x := sel.(type) {
		case *ast.Field:
			out = append(out, x)
		case *ast.InlineFragment:
			out = append(out, flatFields(x.SelectionSet)...)
		case *ast.FragmentSpread:
			if x.Definition != nil {
				out = append(out, flatFields(x.Definition.SelectionSet)...)
			}
		}
	}
	return out
}

func respName(f *ast.Field) string {
	if f.Alias != "" {
		return f.Alias
	}
	return f.Name
}

func namesBelow(f *ast.Field, acc map[string]bool) {
	for _, c := range flatFields(f.SelectionSet) {
		acc[respName(c)] = true
		namesBelow(c, acc)
	}
}

// c17ShadowProne: some selection set has a field whose response name also occurs somewhere
// below an earlier sibling.
func c17ShadowProne(ss ast.SelectionSet) bool {
	fs := flatFields(ss)
	for j, b := range fs {
		if len(b.SelectionSet) == 0 {
			continue
		}
		for _, a := range fs[:j] {
			below := map[string]bool{}
			namesBelow(a, below)
			if below[respName(b)] {
				return true
			}
		}
	}
	for _, f := range fs {
		if c17ShadowProne(f.SelectionSet) {
			return true
		}
	}
	return false
}
