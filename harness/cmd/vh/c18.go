package main

// C18 — subscription teardown is safe under every interleaving.
//
//  A. model side: `c18.explore` (exhaustive BFS with de-duplication over all interleavings of
//     one entry's teardown for small configurations; the model is chosen by the REGENERATED
//     facts of the source: protocol of the unchanged tree, or the repaired protocol with the
//     knobs the facts give) → witness schedules for fatal / stuck / leak / torn.
//  B. forced schedules: the witnesses, all schedules up to a depth and seeded random maximal
//     schedules of the model are FORCED on the real gateway through the verifhook controller,
//     one model step at a time, in a child process; after every step every goroutine must be
//     at the hook point the model says (trace conformance), a crash must happen exactly where
//     the model says (and is a violation of the property), at the end the property oracle:
//     upstream closed, goroutines gone, frames whole.
//  C. connection-write schedules (two writers, Write by Write) from Model/ConnWrite.
//  D. perturbed stress scripts (free running, seeded delays at every hook point), property
//     oracle + free-running conformance of the recorded hook traces (`c18.accept`); scripts with
//     `start-refused` (Subscribe fails after the websocket handshake): the hook points of the
//     refused start's reader and closer against the establishment model (`c18.init.accept`,
//     Model/SubInit.lean, variant from the regenerated facts).

import (
	"bufio"
	"bytes"
	"encoding/json"
	"fmt"
	"os"
	"os/exec"
	"path/filepath"
	"strings"
	"time"

	"verif/harness/hx"
)

func init() {
	register("C18", runC18)
	registerReplay("C18", replayC18)
}

type c18Crash struct {
	Job      int    `json:"job"`
	LastStep int    `json:"last_step"`
	Label    string `json:"last_label"`
	Exit     string `json:"exit"`
	Stderr   string `json:"stderr"`
	Message  string `json:"message"`
	Timeout  bool   `json:"timeout,omitempty"`
	Free     bool   `json:"after_forced_part,omitempty"` // the crash happened after the forced steps, while the rest ran freely
}

// crashMessage extracts the runtime's first line ("panic: …" / "fatal error: …").
func crashMessage(stderr string) string {
	for _, l := range strings.Split(stderr, "\n") {
		if strings.HasPrefix(l, "panic: ") || strings.HasPrefix(l, "fatal error: ") {
			return l
		}
	}
	return ""
}

func stderrExcerpt(stderr string) string {
	lines := strings.Split(stderr, "\n")
	var out []string
	for i, l := range lines {
		if strings.HasPrefix(l, "panic: ") || strings.HasPrefix(l, "fatal error: ") {
			end := i + 12
			if end > len(lines) {
				end = len(lines)
			}
			out = lines[i:end]
			break
		}
	}
	if out == nil && len(lines) > 12 {
		out = lines[len(lines)-12:]
	} else if out == nil {
		out = lines
	}
	return strings.Join(out, "\n")
}

// c18RunChildren runs a job in child processes (restarting after each crash) and returns one
// result object per job item (nil where the child crashed) and the crashes.
func c18RunChildren(ctx *Ctx, job c18Job, n int, perChild time.Duration) ([]map[string]interface{}, map[int]*c18Crash, error) {
	results := make([]map[string]interface{}, n)
	crashes := map[int]*c18Crash{}
	dir, err := os.MkdirTemp("", "c18job")
	if err != nil {
		return nil, nil, err
	}
	defer os.RemoveAll(dir)
	start := 0
	for start < n {
		job.Start = start
		b, _ := json.Marshal(job)
		jf := filepath.Join(dir, fmt.Sprintf("job%d.json", start))
		if err := os.WriteFile(jf, b, 0o644); err != nil {
			return nil, nil, err
		}
		cmd := exec.Command(os.Args[0], "__c18child", "--tier", ctx.Tier, "--seed", fmt.Sprint(ctx.Seed))
		cmd.Env = append(os.Environ(), "VH_C18_JOB="+jf)
		var stdout, stderr bytes.Buffer
		cmd.Stdout, cmd.Stderr = &stdout, &stderr
		if err := cmd.Start(); err != nil {
			return nil, nil, err
		}
		done := make(chan error, 1)
		go func() { done <- cmd.Wait() }()
		timedOut := false
		var werr error
		select {
		case werr = <-done:
		case <-time.After(perChild):
			timedOut = true
			cmd.Process.Kill()
			werr = <-done
		}
		cur, lastStep, lastLabel := -1, -1, ""
		free := false
		allDone := false
		sc := bufio.NewScanner(&stdout)
		sc.Buffer(make([]byte, 1<<20), 1<<26)
		for sc.Scan() {
			var m map[string]interface{}
			if json.Unmarshal(sc.Bytes(), &m) != nil {
				continue
			}
			if _, ok := m["alldone"]; ok {
				allDone = true
				continue
			}
			if _, ok := m["begin"]; ok {
				cur = int(m["job"].(float64))
				lastStep, lastLabel = -1, ""
				free = false
				continue
			}
			if _, ok := m["end"]; ok {
				results[int(m["job"].(float64))] = m
				cur = -1
				continue
			}
			if _, ok := m["phase"]; ok {
				free = true
			}
			if st, ok := m["step"]; ok {
				lastStep = int(st.(float64))
				lastLabel, _ = m["label"].(string)
			}
		}
		if allDone {
			break
		}
		if cur < 0 {
			// died between jobs (or before the first): attribute to the next job
			cur = start
			for cur < n && results[cur] != nil {
				cur++
			}
			if cur >= n {
				break
			}
		}
		exit := "?"
		if werr != nil {
			exit = werr.Error()
		}
		crashes[cur] = &c18Crash{Job: cur, LastStep: lastStep, Label: lastLabel, Exit: exit,
			Stderr: stderrExcerpt(stderr.String()), Message: crashMessage(stderr.String()), Timeout: timedOut, Free: free}
		start = cur + 1
	}
	return results, crashes, nil
}

func fatalClass(msg string) string {
	switch {
	case strings.Contains(msg, "send on closed channel"):
		return "send-on-closed-channel"
	case strings.Contains(msg, "unlock of unlocked mutex"):
		return "unlock-of-unlocked-mutex"
	case strings.Contains(msg, "close of closed channel"):
		return "close-of-closed-channel"
	case strings.Contains(msg, "nil pointer"):
		return "nil-dereference"
	}
	return "other"
}

type c18Cfg struct {
	Evs       int  `json:"evs"`
	Fin       bool `json:"fin"`
	ExtraK    int  `json:"extraK"`
	Stop      bool `json:"stop"`
	Terminate bool `json:"terminate"`
	Bad       bool `json:"bad"`
	Gone      bool `json:"gone"`
}

// forceable: the harness cannot start a second Close on the same entry from outside (the
// handler deletes the entry from its dictionary), and it does not control whether a write to a
// peer that is gone succeeds.
func c18Forceable(labels []string) bool {
	gone := false
	for _, l := range labels {
		if l == "spawnK" {
			return false
		}
		if l == "clGone" {
			gone = true
		}
		if gone && (l == "lWrite:true" || l == "hCloseFrame:true") {
			return false
		}
	}
	return true
}

func isCurrent(facts map[string]interface{}) bool {
	b, _ := facts["isCurrent"].(bool)
	return b
}

func c18NumInt(v interface{}) int {
	xs := hx.NumInts([]interface{}{v})
	if len(xs) == 0 {
		return 0
	}
	return xs[0]
}

func c18StrList(v interface{}) []string {
	arr, _ := v.([]interface{})
	out := make([]string, 0, len(arr))
	for _, x := range arr {
		s, _ := x.(string)
		out = append(out, s)
	}
	return out
}

func strMap(v interface{}) map[string]string {
	m, _ := v.(map[string]interface{})
	out := map[string]string{}
	for k, x := range m {
		s, _ := x.(string)
		out[k] = s
	}
	return out
}

// c18Plan asks the model for the per-step expectations of a schedule.
func c18Plan(ctx *Ctx, id, proto string, cfg c18Cfg, labels []string) (*c18Sched, error) {
	res, err := ctx.Driver.Call(map[string]interface{}{"op": "c18.run", "proto": proto, "cfg": cfg, "schedule": labels})
	if err != nil {
		return nil, err
	}
	if acc, _ := res["accepted"].(bool); !acc {
		return nil, fmt.Errorf("schedule %s is not a run of the model: %v", id, res["reason"])
	}
	b, _ := json.Marshal(res["steps"])
	var steps []c18Step
	if err := json.Unmarshal(b, &steps); err != nil {
		return nil, err
	}
	// Go's select chooses at random among ready cases: a step at which Listen's select has
	// more than one ready case cannot be forced; force the prefix before it and let the rest run
	for k, st := range steps {
		if st.Ambiguous {
			if k == 0 {
				return nil, nil
			}
			return c18Plan(ctx, id, proto, cfg, labels[:k])
		}
	}
	s := &c18Sched{ID: id, Proto: proto, Labels: labels, Steps: steps}
	s.Final, _ = res["final"].(bool)
	s.Live, _ = res["live"].(bool)
	s.UpClosed, _ = res["upClosed"].(bool)
	s.Init = map[string]string{"L": "L.sel", "Cq": "Cq.recvQ", "Rq": "Rq.upRead", "H": "H.read"}
	return s, nil
}

func runC18(ctx *Ctx) error {
	ctx.Rep.Rule = "case = one forced schedule of the teardown model executed step by step on the real gateway (distinct = distinct label sequence), " +
		"one forced connection-write order, or one stress script (client × upstream actions with seeded delays; distinct = distinct action sequence); " +
		"non-trivial = the subscription is ended by at least one of stop / terminate / disconnect / upstream end while the model has ≥ 8 steps, or the script has ≥ 4 actions"
	if ctx.Driver == nil {
		return fmt.Errorf("C18 needs the model driver")
	}
	facts, err := ctx.Driver.Call(map[string]interface{}{"op": "c18.facts"})
	if err != nil {
		return err
	}
	proto, _ := facts["proto"].(string)
	locked, _ := facts["writesLocked"].(bool)
	// the source no longer has the shape the theorems are about: this run is the SEARCH for a
	// failing schedule (witnesses of the re-parametrised model first); it stops once it has some
	isFixed, _ := facts["isFixed"].(bool)
	search := !isFixed
	volume := ctx.Thorough() && !search
	ctx.Rep.Note(fmt.Sprintf("regenerated facts: protocol=%s knobs=%v writesLocked=%v isFixed=%v isCurrent=%v", proto, facts["knobs"], locked, facts["isFixed"], facts["isCurrent"]))

	// the establishment phase of Subscribe (Model/SubInit.lean, variant from the regenerated facts)
	initRes, err := ctx.Driver.Call(map[string]interface{}{"op": "c18.init.explore"})
	if err != nil {
		return err
	}
	{
		iw, _ := initRes["witnesses"].(map[string]interface{})
		var bad []string
		for _, n := range []string{"fatal", "leak"} {
			if w, ok := iw[n].(map[string]interface{}); ok {
				bad = append(bad, fmt.Sprintf("%s by %v", n, w["schedule"]))
			}
		}
		ctx.Rep.Note(fmt.Sprintf("establishment model: variant=%v (initRecognised=%v), %d states, %d transitions, exhaustive=%v, fatal/leak witnesses: %v",
			initRes["variant"], facts["initRecognised"], c18NumInt(initRes["states"]), c18NumInt(initRes["transitions"]), initRes["complete"], bad))
		if rec, _ := facts["initRecognised"].(bool); !rec {
			ctx.Rep.Fail(hx.Failure{Kind: "model-mismatch", Detail: "the establishment sequence of queryer.Subscribe no longer has the statement shape Model/SubInit.lean is the model of (see Gen/SubProto.lean: errChan, initSteps, closerBody, readerExit)", Model: facts})
		}
	}
	// ---------------- A. exploration
	cfgs := []c18Cfg{
		{Evs: 1, Fin: true, Stop: true},
		{Evs: 1, Fin: true, Stop: true, Terminate: true},
		{Evs: 0, Fin: false, Gone: true},
		{Evs: 1, Fin: true, Bad: true, Gone: true},
		{Evs: 2, Fin: true, Stop: true, ExtraK: 1},
	}
	if ctx.Thorough() {
		cfgs = append(cfgs, c18Cfg{Evs: 2, Fin: true, Stop: true, Terminate: true, Bad: true, Gone: true, ExtraK: 1},
			c18Cfg{Evs: 2, Fin: true, Stop: true, ExtraK: 2})
	}
	type witness struct {
		name   string
		cfg    c18Cfg
		labels []string
	}
	var witnesses []witness
	states, transitions := 0, 0
	allComplete := true
	for _, cfg := range cfgs {
		res, err := ctx.Driver.Call(map[string]interface{}{"op": "c18.explore", "cfg": cfg})
		if err != nil {
			return err
		}
		states += c18NumInt(res["states"])
		transitions += c18NumInt(res["transitions"])
		if c, _ := res["complete"].(bool); !c {
			allComplete = false
		}
		ws, _ := res["witnesses"].(map[string]interface{})
		for name, w := range ws {
			wm, _ := w.(map[string]interface{})
			witnesses = append(witnesses, witness{name: name, cfg: cfg, labels: c18StrList(wm["schedule"])})
		}
	}
	connRes, err := ctx.Driver.Call(map[string]interface{}{"op": "c18.conn", "frames": []int{1, 1}})
	if err != nil {
		return err
	}
	states += c18NumInt(connRes["states"])
	transitions += c18NumInt(connRes["transitions"])
	if ctx.Thorough() {
		r2, err := ctx.Driver.Call(map[string]interface{}{"op": "c18.conn", "frames": []int{2, 2, 1}})
		if err != nil {
			return err
		}
		states += c18NumInt(r2["states"])
		transitions += c18NumInt(r2["transitions"])
		if w, _ := r2["witnesses"].(map[string]interface{}); len(w) > 0 && connRes["witnesses"] == nil {
			connRes["witnesses"] = w
		}
	}
	ctx.Rep.Hist["model.states"] = states
	ctx.Rep.Hist["model.transitions"] = transitions
	ctx.Rep.Exhaustive = allComplete
	ctx.Rep.Note(fmt.Sprintf("exploration (%s protocol): %d states, %d transitions over %d configurations, exhaustive=%v; model witnesses: %d", proto, states, transitions, len(cfgs)+1, allComplete, len(witnesses)))
	for _, w := range witnesses {
		ctx.Rep.Note(fmt.Sprintf("model witness %s cfg=%+v: %s", w.name, w.cfg, strings.Join(w.labels, " ")))
	}

	// ---------------- B. forced schedules
	var scheds []c18Sched
	seen := map[string]bool{}
	add := func(id string, cfg c18Cfg, labels []string) error {
		key := strings.Join(labels, " ")
		if seen[key] || len(labels) == 0 || !c18Forceable(labels) {
			return nil
		}
		seen[key] = true
		s, err := c18Plan(ctx, id, proto, cfg, labels)
		if err != nil {
			return err
		}
		if s == nil || seen[strings.Join(s.Labels, " ")] && len(s.Labels) != len(labels) {
			return nil
		}
		seen[strings.Join(s.Labels, " ")] = true
		scheds = append(scheds, *s)
		return nil
	}
	// pinned witnesses of the unchanged protocol (W1, W2, W3, W5) when the tree has that protocol
	if proto == "current" {
		wcfg := c18Cfg{Evs: 1, Fin: true, Stop: true, Gone: true}
		pinned := map[string][]string{
			"W1": {"upEnd", "rqUpClose", "lRecvNil", "clStop", "kTryLock:0", "kReadClosed:0", "kUnlock:0", "lSendQ", "lLock", "lCloseQ", "lCloseC", "kSendC:0"},
			"W2": {"upEnd", "rqUpClose", "lRecvNil", "lSendQ", "lLock", "clStop", "kTryLock:0", "kReadClosed:0", "kUnlock:0", "lCloseQ", "lCloseC", "lCloseR", "lSetClosed", "lUnlock"},
			"W3": {"upEvent", "clStop", "kTryLock:0", "kReadClosed:0", "kUnlock:0", "kSendC:0", "lSendQ", "lLock", "lCloseQ", "lCloseC", "lCloseR", "rqSendPanic"},
		}
		for _, n := range []string{"W1", "W2", "W3"} {
			if err := add(n, wcfg, pinned[n]); err != nil {
				return err
			}
		}
		if err := add("W5", c18Cfg{Gone: true}, []string{"clGone", "hCloseFrame:false"}); err != nil {
			return err
		}
	}
	priority := len(scheds) // the pinned witnesses run first, then the connection-write orders
	for i, w := range witnesses {
		if err := add(fmt.Sprintf("witness-%s-%d", w.name, i), w.cfg, w.labels); err != nil {
			return err
		}
	}
	walks, depth, limit := 60, 8, 100
	if volume {
		walks, depth, limit = 300, 14, 1500
	}
	fcfgs := []c18Cfg{
		{Evs: 1, Fin: true, Stop: true},
		{Evs: 1, Fin: true, Stop: true, Terminate: true},
		{Evs: 1, Fin: false, Gone: true, Stop: true},
		{Evs: 2, Fin: true, Bad: true, Stop: true},
	}
	for ci, cfg := range fcfgs {
		res, err := ctx.Driver.Call(map[string]interface{}{"op": "c18.paths", "cfg": cfg, "walks": walks, "seed": int(ctx.Seed%100000) + ci})
		if err != nil {
			return err
		}
		for k, p := range res["paths"].([]interface{}) {
			if err := add(fmt.Sprintf("walk-%d-%d", ci, k), cfg, c18StrList(p)); err != nil {
				return err
			}
		}
		if ci < 2 {
			res, err = ctx.Driver.Call(map[string]interface{}{"op": "c18.paths", "cfg": cfg, "depth": depth, "limit": limit})
			if err != nil {
				return err
			}
			for k, p := range res["paths"].([]interface{}) {
				if err := add(fmt.Sprintf("prefix-%d-%d", ci, k), cfg, c18StrList(p)); err != nil {
					return err
				}
			}
		}
	}
	runForced := func(scheds []c18Sched) error {
		// in chunks: once plenty of failing schedules are known the search stops
		results := make([]map[string]interface{}, len(scheds))
		crashes := map[int]*c18Crash{}
		ran := 0
		for c0 := 0; c0 < len(scheds); c0 += 40 {
			c1 := c0 + 40
			if c1 > len(scheds) {
				c1 = len(scheds)
			}
			rs, crs, err := c18RunChildren(ctx, c18Job{Mode: "forced", Scheds: scheds[c0:c1]}, c1-c0, 10*time.Minute)
			if err != nil {
				return err
			}
			bad := 0
			for k, r := range rs {
				results[c0+k] = r
				if r != nil {
					if okk, _ := r["ok"].(bool); !okk {
						bad++
					}
				}
			}
			for k, cr := range crs {
				cr.Job += c0
				crashes[c0+k] = cr
				bad++
			}
			// a forced schedule is deterministic by construction: a step that "was not reached in time" on a
			// loaded machine must reproduce when the schedule is run once more, alone — otherwise it was the
			// harness's own time-out, not the code (counted, not reported)
			for k := c0; k < c1; k++ {
				r := results[k]
				if r == nil {
					continue
				}
				if okk, _ := r["ok"].(bool); okk {
					continue
				}
				if kind, _ := r["fail"].(string); kind == "leak" || kind == "torn" {
					continue // end-state observations, not time-outs
				}
				rs2, crs2, err2 := c18RunChildren(ctx, c18Job{Mode: "forced", Scheds: scheds[k : k+1]}, 1, 5*time.Minute)
				if err2 != nil || len(crs2) > 0 || rs2[0] == nil {
					continue
				}
				if ok2, _ := rs2[0]["ok"].(bool); ok2 {
					ctx.Rep.Count("forced: a non-conforming step did not reproduce when the schedule ran alone (harness time-out under load)")
					results[k] = rs2[0]
					bad--
				}
			}
			ran = c1
			if len(crashes) >= 30 || bad >= 30 || (search && (len(crashes) > 0 || bad > 0)) {
				ctx.Rep.Note(fmt.Sprintf("forced schedules: stopped after %d of %d (plenty of failing schedules found)", ran, len(scheds)))
				break
			}
		}
		scheds = scheds[:ran]
		for i := range scheds {
			s := &scheds[i]
			ender := false
			for _, l := range s.Labels {
				if strings.HasPrefix(l, "cl") || l == "upEnd" {
					ender = true
				}
			}
			ctx.Rep.Case("forced|"+strings.Join(s.Labels, " "), ender && len(s.Labels) >= 8)
			ctx.Rep.Count("forced")
			modelFatal := -1
			modelMsg := ""
			for k, st := range s.Steps {
				if st.Fatal != nil {
					modelFatal, modelMsg = k, *st.Fatal
					break
				}
			}
			cs := map[string]interface{}{"kind": "forced", "sched": s}
			if cr, ok := crashes[i]; ok {
				ctx.Rep.Count("forced.crash")
				what := cr.Message
				if cr.Timeout {
					what = "the child process did not finish (deadlock?)"
				}
				if cr.Free {
					ctx.Rep.Traces++ // every forced step conformed
					ctx.Rep.Fail(hx.Failure{Kind: "property-fails", Detail: fmt.Sprintf("forced schedule %s: after its %d forced steps, while the rest of the teardown ran freely, the gateway process crashed: %s", s.ID, len(s.Steps), what),
						Case: cs, Impl: cr, Index: i})
				} else if modelFatal >= 0 && cr.LastStep == modelFatal && fatalClass(cr.Message) == fatalClass(modelMsg) {
					ctx.Rep.Traces++
					ctx.Rep.Fail(hx.Failure{Kind: "property-fails", Detail: fmt.Sprintf("forced schedule %s crashes the gateway process at step %d (%s): %s — as the model of this protocol predicts (%s)", s.ID, cr.LastStep, cr.Label, what, modelMsg),
						Case: cs, Impl: cr, Model: map[string]interface{}{"fatal_at": modelFatal, "fatal": modelMsg}, Index: i})
				} else {
					ctx.Rep.Fail(hx.Failure{Kind: "property-fails", Detail: fmt.Sprintf("forced schedule %s: the gateway process crashed at step %d (%s): %s", s.ID, cr.LastStep, cr.Label, what),
						Case: cs, Impl: cr, Index: i})
					ctx.Rep.Fail(hx.Failure{Kind: "model-mismatch", Detail: fmt.Sprintf("forced schedule %s: crash at step %d (%s) but the model says fatal_at=%d %s", s.ID, cr.LastStep, cr.Label, modelFatal, modelMsg),
						Case: cs, Impl: cr, Index: i})
				}
				continue
			}
			r := results[i]
			if r == nil {
				ctx.Rep.Fail(hx.Failure{Kind: "harness-error", Detail: "no result for schedule " + s.ID, Case: cs, Index: i})
				continue
			}
			if okk, _ := r["ok"].(bool); okk {
				ctx.Rep.Traces++
				if len(ctx.Rep.Samples) < 2 {
					ctx.Rep.Sample(map[string]interface{}{"forced_schedule": s.Labels, "result": r})
				}
				continue
			}
			kind, _ := r["fail"].(string)
			detail, _ := r["detail"].(string)
			switch kind {
			case "leak", "torn":
				ctx.Rep.Count("forced." + kind)
				if kind == "leak" {
					ctx.Rep.Traces++ // every step conformed; the END state violates the property
				}
				ctx.Rep.Fail(hx.Failure{Kind: "property-fails", Detail: fmt.Sprintf("forced schedule %s: %s", s.ID, detail), Case: cs, Impl: r, Index: i})
			case "mismatch", "no-crash":
				ctx.Rep.Fail(hx.Failure{Kind: "model-mismatch", Detail: fmt.Sprintf("forced schedule %s: %s", s.ID, detail), Case: cs, Impl: r, Index: i})
			default:
				ctx.Rep.Fail(hx.Failure{Kind: "harness-error", Detail: fmt.Sprintf("forced schedule %s: %s", s.ID, detail), Case: cs, Impl: r, Index: i})
			}
		}

		return nil
	}
	if err := runForced(scheds[:priority]); err != nil {
		return err
	}
	// ---------------- C. connection-write orders
	var conns []c18ConnSched
	addConn := func(id string, labels []string) error {
		res, err := ctx.Driver.Call(map[string]interface{}{"op": "c18.conn.run", "frames": []int{1, 1}, "schedule": labels})
		if err != nil {
			return err
		}
		if acc, _ := res["accepted"].(bool); !acc {
			return nil
		}
		torn, _ := res["torn"].(bool)
		conns = append(conns, c18ConnSched{ID: id, Locked: locked, Labels: labels, Torn: torn})
		return nil
	}
	if locked {
		for k, ls := range [][]string{
			{"begin:0", "begin:1", "lock:0", "hdr:0", "pay:0", "unlock:0", "lock:1", "hdr:1", "pay:1", "unlock:1"},
			{"begin:0", "begin:1", "lock:1", "hdr:1", "pay:1", "unlock:1", "lock:0", "hdr:0", "pay:0", "unlock:0"},
			{"begin:0", "lock:0", "hdr:0", "begin:1", "pay:0", "unlock:0", "lock:1", "hdr:1", "pay:1", "unlock:1"},
			{"begin:1", "lock:1", "hdr:1", "begin:0", "pay:1", "unlock:1", "lock:0", "hdr:0", "pay:0", "unlock:0"},
		} {
			if err := addConn(fmt.Sprintf("conn-%d", k), ls); err != nil {
				return err
			}
		}
	} else {
		for k, ls := range [][]string{
			{"begin:0", "hdr:0", "begin:1", "hdr:1", "pay:1", "pay:0"}, // W4
			{"begin:0", "hdr:0", "begin:1", "hdr:1", "pay:0", "pay:1"},
			{"begin:1", "hdr:1", "begin:0", "hdr:0", "pay:0", "pay:1"},
			{"begin:0", "begin:1", "hdr:0", "pay:0", "hdr:1", "pay:1"},
			{"begin:0", "begin:1", "hdr:1", "pay:1", "hdr:0", "pay:0"},
		} {
			if err := addConn(fmt.Sprintf("conn-%d", k), ls); err != nil {
				return err
			}
		}
	}
	// the heartbeat as second writer (its first tick comes after 4 s): when the facts say that
	// not every frame write is under the write mutex, and in the thorough tier
	if !locked || ctx.Thorough() {
		n0 := len(conns)
		if locked {
			addConn("conn-hb-0", []string{"begin:1", "lock:1", "hdr:1", "begin:0", "pay:1", "unlock:1", "lock:0", "hdr:0", "pay:0", "unlock:0"})
		} else {
			addConn("conn-hb-0", []string{"begin:1", "hdr:1", "begin:0", "hdr:0", "pay:0", "pay:1"})
		}
		for k := n0; k < len(conns); k++ {
			conns[k].Hb = true
		}
		if !locked {
			// first the order that involves the heartbeat (the other pair may be locked)
			hb := conns[n0:]
			conns = append(append([]c18ConnSched{}, hb...), conns[:n0]...)
			// W4 with the handler's ack stays in front when the whole tree is unlocked
			if len(conns) > 1 && isCurrent(facts) {
				conns[0], conns[1] = conns[1], conns[0]
			}
		}
	}
	// the reply to a client ping as second writer (wsutil writes it on the connection the handler reads from)
	conns = append(conns, c18ConnSched{ID: "conn-pong", Locked: locked, Pong: true, Torn: !locked,
		Labels: []string{"hdr:data", "client ping", "pong (one Write) or wait for the write lock", "pay:data"}})
	cres, ccr, err := c18RunChildren(ctx, c18Job{Mode: "conn", Conns: conns}, len(conns), 3*time.Minute)
	if err != nil {
		return err
	}
	// like forced schedules: a write order is deterministic; a "step not reached" must reproduce alone
	for i := range conns {
		r := cres[i]
		if r == nil || ccr[i] != nil {
			continue
		}
		if okk, _ := r["ok"].(bool); okk {
			continue
		}
		if kind, _ := r["fail"].(string); kind == "torn" {
			continue
		}
		rs2, crs2, err2 := c18RunChildren(ctx, c18Job{Mode: "conn", Conns: conns[i : i+1]}, 1, 3*time.Minute)
		if err2 != nil || len(crs2) > 0 || rs2[0] == nil {
			continue
		}
		if ok2, _ := rs2[0]["ok"].(bool); ok2 {
			ctx.Rep.Count("conn: a non-conforming step did not reproduce when the order ran alone (harness time-out under load)")
			cres[i] = rs2[0]
		}
	}
	for i := range conns {
		c := &conns[i]
		ctx.Rep.Case("conn|"+strings.Join(c.Labels, " "), true)
		ctx.Rep.Count("conn")
		cs := map[string]interface{}{"kind": "conn", "conn": c}
		if cr, ok := ccr[i]; ok {
			ctx.Rep.Fail(hx.Failure{Kind: "property-fails", Detail: "connection-write order " + c.ID + ": the process crashed: " + cr.Message, Case: cs, Impl: cr, Index: i})
			continue
		}
		r := cres[i]
		if r == nil {
			continue
		}
		if okk, _ := r["ok"].(bool); okk {
			ctx.Rep.Traces++
			continue
		}
		kind, _ := r["fail"].(string)
		detail, _ := r["detail"].(string)
		switch kind {
		case "torn":
			ctx.Rep.Count("conn.torn")
			if c.Torn {
				ctx.Rep.Traces++
			}
			ctx.Rep.Fail(hx.Failure{Kind: "property-fails", Detail: fmt.Sprintf("write order %s (%s): the client does not receive whole frames: %s", c.ID, strings.Join(c.Labels, " "), detail), Case: cs, Impl: r, Index: i})
			if !c.Torn {
				ctx.Rep.Fail(hx.Failure{Kind: "model-mismatch", Detail: "write order " + c.ID + ": frames torn although the model says whole", Case: cs, Impl: r, Index: i})
			}
		case "mismatch":
			ctx.Rep.Fail(hx.Failure{Kind: "model-mismatch", Detail: "write order " + c.ID + ": " + detail, Case: cs, Impl: r, Index: i})
		default:
			ctx.Rep.Fail(hx.Failure{Kind: "harness-error", Detail: "write order " + c.ID + ": " + detail, Case: cs, Impl: r, Index: i})
		}
	}

	if err := runForced(scheds[priority:]); err != nil {
		return err
	}
	nForced := len(scheds)
	// ---------------- D. stress
	scripts := c18Scripts(ctx, volume)
	batch := 25
	accepted, acceptTried := 0, 0
	refusedAccepted, refusedTried := 0, 0
	stressBad := 0
	for b0 := 0; b0 < len(scripts); b0 += batch {
		b1 := b0 + batch
		if b1 > len(scripts) {
			b1 = len(scripts)
		}
		part := scripts[b0:b1]
		if stressBad >= 30 || (search && stressBad > 0) {
			ctx.Rep.Note(fmt.Sprintf("stress: stopped after %d of %d scripts (plenty of failing scripts found)", b0, len(scripts)))
			break
		}
		sres, scr, err := c18RunChildren(ctx, c18Job{Mode: "stress", Scripts: part}, len(part), 5*time.Minute)
		if err != nil {
			return err
		}
		stressBad += len(scr)
		for _, r := range sres {
			if r != nil {
				if okk, _ := r["ok"].(bool); !okk {
					stressBad++
				}
			}
		}
		for i := range part {
			sc := &part[i]
			var key []string
			for _, a := range sc.Actions {
				key = append(key, a.Who+"."+a.Act+a.ID)
			}
			ctx.Rep.Case("stress|"+strings.Join(key, " "), len(sc.Actions) >= 4)
			ctx.Rep.Count("stress")
			cs := map[string]interface{}{"kind": "stress", "script": sc}
			if cr, ok := scr[i]; ok {
				ctx.Rep.Count("stress.crash")
				what := cr.Message
				if cr.Timeout {
					what = "the child process did not finish (deadlock?)"
				}
				ctx.Rep.Fail(hx.Failure{Kind: "property-fails", Detail: fmt.Sprintf("stress script %s: the gateway process crashed: %s", sc.ID, what), Case: cs, Impl: cr, Index: b0 + i})
				continue
			}
			r := sres[i]
			if r == nil {
				continue
			}
			if okk, _ := r["ok"].(bool); !okk {
				kind, _ := r["fail"].(string)
				detail, _ := r["detail"].(string)
				ctx.Rep.Count("stress." + kind)
				k := "property-fails"
				if kind == "harness" {
					k = "harness-error"
				}
				ctx.Rep.Fail(hx.Failure{Kind: k, Detail: fmt.Sprintf("stress script %s: %s", sc.ID, detail), Case: cs, Impl: r, Index: b0 + i})
			}
			// free-running conformance of the recorded hook traces
			trs, _ := r["traces"].([]interface{})
			for _, t := range trs {
				tm, _ := t.(map[string]interface{})
				if rf, _ := tm["refused"].(bool); rf {
					// a start whose Subscribe failed after the handshake: the recorded hook points of
					// its reader and closer must be the projections of a MAXIMAL run of the
					// establishment model (variant from the regenerated facts) that ends with
					// exactly the observed goroutines exited
					refusedTried++
					ctx.Rep.Count("stress.refused-start-trace")
					res, err := ctx.Driver.Call(map[string]interface{}{"op": "c18.init.accept", "obs": tm["obs"], "done": tm["done"]})
					if err != nil {
						return err
					}
					if a, _ := res["accepted"].(bool); a {
						refusedAccepted++
						ctx.Rep.Traces++
					} else {
						ctx.Rep.Fail(hx.Failure{Kind: "model-mismatch", Detail: fmt.Sprintf("stress script %s: the hook trace of a refused start (Subscribe failed after the handshake) is not a maximal run of the %v establishment model", sc.ID, res["variant"]),
							Case: cs, Impl: tm, Model: res, Index: b0 + i})
					}
					continue
				}
				if c, _ := tm["complete"].(bool); !c {
					continue
				}
				if acceptTried >= 400 && !ctx.Thorough() {
					break
				}
				acceptTried++
				obs, _ := tm["obs"].(map[string]interface{})
				closer := c18StrList(tm["closer"])
				evs := 0
				if f, ok := tm["evs"].(float64); ok {
					evs = int(f)
				}
				names := []string{"K0"}
				if proto == "fixed" {
					names = []string{"C0", "C1"}
				}
				ok := false
				var last map[string]interface{}
				for _, nm := range names {
					o := map[string]interface{}{}
					for k, v := range obs {
						o[k] = v
					}
					if len(closer) > 0 {
						o[nm] = closer
					}
					res, err := ctx.Driver.Call(map[string]interface{}{"op": "c18.accept", "obs": o,
						"cfg": c18Cfg{Evs: evs, Fin: true, Stop: true, Terminate: true, Bad: true, Gone: true}})
					if err != nil {
						return err
					}
					last = res
					if a, _ := res["accepted"].(bool); a {
						ok = true
						break
					}
					if len(closer) == 0 {
						break
					}
				}
				if ok {
					accepted++
					ctx.Rep.Traces++
				} else {
					ctx.Rep.Fail(hx.Failure{Kind: "model-mismatch", Detail: fmt.Sprintf("stress script %s: the recorded hook trace of a subscription is not a run of the %s model", sc.ID, proto),
						Case: cs, Impl: tm, Model: last, Index: b0 + i})
				}
			}
		}
	}
	ctx.Rep.Note(fmt.Sprintf("forced schedules: %d (+%d connection-write orders); stress scripts: %d; free-running hook traces accepted by the model: %d/%d; traces of refused starts accepted by the establishment model: %d/%d", nForced, len(conns), len(scripts), accepted, acceptTried, refusedAccepted, refusedTried))
	return nil
}

// c18Scripts: boundary scripts first, then generated ones.
func c18Scripts(ctx *Ctx, volume bool) []c18Script {
	var out []c18Script
	cl := func(act, id string, d int) c18Action { return c18Action{Who: "cl", Act: act, ID: id, Delay: d} }
	up := func(act, id string, n, d int) c18Action {
		return c18Action{Who: "up", Act: act, ID: id, N: n, Delay: d}
	}
	corpus := [][]c18Action{
		{cl("init", "", 0), cl("start", "1", 0), up("event", "1", 0, 0), cl("stop", "1", 200), cl("terminate", "", 100)},
		{cl("init", "", 0), cl("start", "1", 0), up("complete", "1", 0, 0), cl("stop", "1", 0)},
		{cl("init", "", 0), cl("start", "1", 0), up("burst", "1", 5, 0), cl("stop", "1", 0), cl("stop", "1", 0)},
		{cl("init", "", 0), cl("start", "1", 0), cl("start", "1", 0), up("event", "1", 0, 0), cl("terminate", "", 200)},
		{cl("init", "", 0), cl("start", "1", 0), cl("start", "2", 0), up("burst", "1", 3, 0), up("burst", "2", 3, 0), cl("init", "", 0), cl("abort", "", 300)},
		{cl("init", "", 0), cl("start", "1", 0), cl("abort", "", 0)},
		{cl("init", "", 0), cl("start", "1", 0), cl("badjson", "", 0)},
		{cl("init", "", 0), cl("start", "1", 0), cl("nopayload", "9", 0)},
		{cl("init", "", 0), cl("start", "1", 0), cl("unknown", "", 0)},
		{cl("init", "", 0), cl("start", "1", 0), up("errobj", "1", 0, 0), cl("stop", "1", 50)},
		{cl("init", "", 0), cl("start", "1", 0), up("errlist", "1", 0, 0), up("event", "1", 0, 0), up("drop", "1", 0, 0), cl("stop", "1", 0)},
		{cl("init", "", 0), cl("start", "1", 0), cl("ping", "", 0), up("burst", "1", 4, 0), cl("ping", "", 0), cl("terminate", "", 200)},
		{cl("init", "", 0), cl("start", "1", 0), up("burstping", "1", 150, 0), cl("stop", "1", 200), cl("terminate", "", 100)},
		{cl("init", "", 0), cl("start", "1", 0), cl("start", "2", 0), up("burstping", "1", 80, 0), up("burstping", "2", 80, 0), cl("terminate", "", 300)},
		{cl("init", "", 0), cl("start-refused", "1", 0), cl("terminate", "", 200)},
		{cl("init", "", 0), cl("start", "1", 0), cl("start-refused", "2", 0), up("event", "1", 0, 0), cl("stop", "1", 100), cl("start-refused", "3", 0), cl("abort", "", 200)},
	}
	for k, acts := range corpus {
		for _, hd := range []int{0, 150} {
			out = append(out, c18Script{ID: fmt.Sprintf("corpus-%d-d%d", k, hd), Seed: ctx.Seed*131 + uint64(k), HookDelay: hd, Actions: acts, End: []string{"terminate", "abort"}[k%2]})
		}
	}
	// stop racing the upstream's completion, many timings
	races := 40
	n := 300
	if volume {
		races, n = 150, 2500
	}
	for k := 0; k < races; k++ {
		r := ctx.Rand.Fork()
		acts := []c18Action{cl("init", "", 0), cl("start", "1", 0)}
		if r.Bool() {
			acts = append(acts, up("event", "1", 0, 0))
		}
		if r.Bool() {
			acts = append(acts, up("complete", "1", 0, r.Intn(100)), cl("stop", "1", r.Intn(150)))
		} else {
			acts = append(acts, cl("stop", "1", r.Intn(100)), up("complete", "1", 0, r.Intn(150)))
		}
		out = append(out, c18Script{ID: fmt.Sprintf("race-%d", k), Seed: r.U64(), HookDelay: 50 + r.Intn(400), Actions: acts, End: []string{"terminate", "abort"}[r.Intn(2)]})
	}
	for k := 0; k < n; k++ {
		r := ctx.Rand.Fork()
		acts := []c18Action{cl("init", "", 0)}
		ids := []string{hx.Pick(r, []string{"1", "1", "a\"b", "x\\y", "n\nl"})} // the id is any string the client likes
		if r.Chance(1, 3) {
			ids = append(ids, "2")
		}
		for _, id := range ids {
			acts = append(acts, cl("start", id, r.Intn(100)))
		}
		if r.Chance(1, 8) {
			acts = append(acts, cl("start", ids[0], r.Intn(100))) // re-use of a live id
		}
		if r.Chance(1, 10) {
			acts = append(acts, cl("start-refused", "9", r.Intn(100))) // upstream resets right after the handshake
		}
		var mid []c18Action
		for _, id := range ids {
			m := r.Intn(4)
			for j := 0; j < m; j++ {
				if r.Chance(1, 3) {
					mid = append(mid, up("burst", id, 1+r.Intn(4), r.Intn(200)))
				} else {
					mid = append(mid, up("event", id, 0, r.Intn(200)))
				}
			}
			switch r.Intn(7) {
			case 0:
				mid = append(mid, up("complete", id, 0, r.Intn(200)))
			case 1:
				mid = append(mid, up("errobj", id, 0, r.Intn(200)))
			case 2:
				mid = append(mid, up("errlist", id, 0, r.Intn(200)))
			case 3:
				mid = append(mid, up("drop", id, 0, r.Intn(200)))
			}
			if r.Chance(2, 3) {
				mid = append(mid, cl("stop", id, r.Intn(200)))
				if r.Chance(1, 4) {
					mid = append(mid, cl("stop", id, r.Intn(100)))
				}
			}
		}
		if r.Chance(1, 5) {
			mid = append(mid, cl("ping", "", r.Intn(100)))
		}
		if r.Chance(1, 6) {
			mid = append(mid, cl("init", "", r.Intn(100)))
		}
		p := r.Perm(len(mid))
		for _, j := range p {
			acts = append(acts, mid[j])
		}
		switch r.Intn(8) {
		case 0:
			acts = append(acts, cl("terminate", "", r.Intn(300)))
		case 1:
			acts = append(acts, cl("abort", "", r.Intn(300)))
		case 2:
			acts = append(acts, cl("badjson", "", r.Intn(300)))
		case 3:
			acts = append(acts, cl("nopayload", "7", r.Intn(300)))
		case 4:
			acts = append(acts, cl("unknown", "", r.Intn(300)))
		}
		out = append(out, c18Script{ID: fmt.Sprintf("gen-%d", k), Seed: r.U64(), HookDelay: []int{0, 100, 400}[r.Intn(3)], Actions: acts, End: []string{"terminate", "abort"}[r.Intn(2)]})
	}
	return out
}

func replayC18(ctx *Ctx, raw json.RawMessage) error {
	var cs struct {
		Kind   string        `json:"kind"`
		Sched  *c18Sched     `json:"sched"`
		Conn   *c18ConnSched `json:"conn"`
		Script *c18Script    `json:"script"`
	}
	if err := json.Unmarshal(raw, &cs); err != nil {
		return err
	}
	var job c18Job
	switch {
	case cs.Sched != nil:
		job = c18Job{Mode: "forced", Scheds: []c18Sched{*cs.Sched}}
	case cs.Conn != nil:
		job = c18Job{Mode: "conn", Conns: []c18ConnSched{*cs.Conn}}
	case cs.Script != nil:
		job = c18Job{Mode: "stress", Scripts: []c18Script{*cs.Script}}
	default:
		return fmt.Errorf("replay case has no schedule")
	}
	reps := 1
	if job.Mode == "stress" {
		reps = 20 // timing dependent
	}
	for k := 0; k < reps; k++ {
		res, crashes, err := c18RunChildren(ctx, job, 1, 2*time.Minute)
		if err != nil {
			return err
		}
		ctx.Rep.Case(fmt.Sprintf("replay-%d", k), true)
		if cr, ok := crashes[0]; ok {
			fmt.Printf("replay: the gateway process crashed at step %d (%s): %s\n%s\n", cr.LastStep, cr.Label, cr.Message, cr.Stderr)
			ctx.Rep.Fail(hx.Failure{Kind: "property-fails", Detail: "replay: the gateway process crashed: " + cr.Message, Case: cs, Impl: cr})
			return nil
		}
		if okk, _ := res[0]["ok"].(bool); !okk {
			fmt.Printf("replay: %v: %v\n", res[0]["fail"], res[0]["detail"])
			ctx.Rep.Fail(hx.Failure{Kind: "property-fails", Detail: fmt.Sprint("replay: ", res[0]["fail"], ": ", res[0]["detail"]), Case: cs, Impl: res[0]})
			return nil
		}
	}
	fmt.Println("replay: no failure")
	return nil
}
