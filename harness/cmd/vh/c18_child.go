package main

// The C18 child process: runs forced schedules / connection-write schedules / stress scripts
// against the REAL gateway. A panic in a goroutine of the gateway (or a fatal runtime error)
// kills this process: the parent reads the progress lines printed so far, the exit status and
// stderr, and restarts a new child after the job that crashed.
//
// Protocol: job file (JSON) named by $VH_C18_JOB; one JSON object per line on stdout.

import (
	"encoding/json"
	"fmt"
	"os"
	"runtime"
	"sort"
	"strings"
	"sync"
	"time"

	"github.com/buildbuildio/pebbles/common/verifhook"
	"verif/harness/fed"
	"verif/harness/hx"
)

func init() { register("__c18child", runC18Child) }

type c18Step struct {
	Label      string            `json:"label"`
	Pos        map[string]string `json:"pos"`
	Fatal      *string           `json:"fatal"`
	Spawned    *int              `json:"spawned"`
	SpawnedByL bool              `json:"spawnedByL"`
	Ambiguous  bool              `json:"ambiguous"`
}

type c18Sched struct {
	ID     string            `json:"id"`
	Proto  string            `json:"proto"`
	Labels []string          `json:"labels"`
	Steps  []c18Step         `json:"steps"`
	Init   map[string]string `json:"init"`
	// model verdict on the end state
	Final    bool `json:"final"`
	Live     bool `json:"live"`
	UpClosed bool `json:"upClosed"`
}

type c18ConnSched struct {
	ID     string   `json:"id"`
	Locked bool     `json:"locked"`
	Labels []string `json:"labels"`
	Torn   bool     `json:"torn"`
	Hb     bool     `json:"hb,omitempty"`   // writer 1 is the heartbeat goroutine (first tick after 4 s) instead of the handler
	Pong   bool     `json:"pong,omitempty"` // writer 1 is wsutil's reply to a client ping, written while the handler reads
}

type c18Job struct {
	Mode    string         `json:"mode"` // forced | conn | stress
	Start   int            `json:"start"`
	Scheds  []c18Sched     `json:"scheds,omitempty"`
	Conns   []c18ConnSched `json:"conns,omitempty"`
	Scripts []c18Script    `json:"scripts,omitempty"`
}

var c18out = json.NewEncoder(os.Stdout)
var c18outMu sync.Mutex

func emit(v interface{}) {
	c18outMu.Lock()
	c18out.Encode(v)
	os.Stdout.Sync()
	c18outMu.Unlock()
}

func runC18Child(ctx *Ctx) error {
	b, err := os.ReadFile(os.Getenv("VH_C18_JOB"))
	if err != nil {
		return err
	}
	var job c18Job
	if err := json.Unmarshal(b, &job); err != nil {
		return err
	}
	switch job.Mode {
	case "forced":
		for i := job.Start; i < len(job.Scheds); i++ {
			emit(map[string]interface{}{"job": i, "begin": job.Scheds[i].ID})
			res := c18Forced(&job.Scheds[i])
			res["job"] = i
			res["end"] = job.Scheds[i].ID
			emit(res)
		}
	case "conn":
		for i := job.Start; i < len(job.Conns); i++ {
			emit(map[string]interface{}{"job": i, "begin": job.Conns[i].ID})
			res := c18Conn(&job.Conns[i])
			res["job"] = i
			res["end"] = job.Conns[i].ID
			emit(res)
		}
	case "stress":
		for i := job.Start; i < len(job.Scripts); i++ {
			emit(map[string]interface{}{"job": i, "begin": job.Scripts[i].ID})
			res := c18Stress(&job.Scripts[i])
			res["job"] = i
			res["end"] = job.Scripts[i].ID
			emit(res)
		}
	}
	emit(map[string]interface{}{"alldone": true})
	os.Stdout.Sync()
	os.Exit(0)
	return nil
}

// ---------------------------------------------------------------------------------------------
// a minimal federation: one service owning a subscription field without child steps

const c18SDL = "type Query { ping: String }\ntype Subscription { tick: Int }\n"

type c18Rig struct {
	ups  *fed.Upstreams
	gs   *fed.GatewayServer
	ctl  *fed.HookCtl
	base int
}

func c18NewRig(ctl *fed.HookCtl) (*c18Rig, error) {
	base := runtime.NumGoroutine()
	data := &fed.Data{Entities: map[string]*fed.Object{}, Roots: map[string]map[string]fed.Val{"Query": {}, "Subscription": {}}, Counters: map[string]int{}}
	f, err := fed.FromSDL([]string{c18SDL}, data)
	if err != nil {
		return nil, err
	}
	ups, err := fed.StartUpstreams(f)
	if err != nil {
		return nil, err
	}
	gw, err := f.NewGateway(fed.GatewayConfig{})
	if err != nil {
		ups.Close()
		return nil, err
	}
	verifhook.Set(ctl.At)
	gs := fed.ServeGateway(gw.Handler)
	return &c18Rig{ups: ups, gs: gs, ctl: ctl, base: base}, nil
}

func (r *c18Rig) close() {
	r.gs.Close()
	r.ups.Close()
	verifhook.Set(nil)
}

// goroutinesBack polls until the goroutine count is back to the baseline.
func goroutinesBack(base int, timeout time.Duration) int {
	deadline := time.Now().Add(timeout)
	left := 0
	for {
		left = runtime.NumGoroutine() - base
		if left <= 0 || time.Now().After(deadline) {
			break
		}
		time.Sleep(2 * time.Millisecond)
	}
	if left < 0 {
		left = 0
	}
	return left
}

// ---------------------------------------------------------------------------------------------
// forced schedules

func labelActors(proto, label string, lClosers map[int]bool) []string {
	name, arg := label, ""
	if i := strings.IndexByte(label, ':'); i >= 0 {
		name, arg = label[:i], label[i+1:]
	}
	switch {
	case name == "k":
		var n int
		fmt.Sscan(arg, &n)
		if lClosers[n] {
			return []string{"L"}
		}
		return []string{"C" + arg}
	case strings.HasPrefix(name, "k"):
		return []string{"K" + arg}
	case strings.HasPrefix(name, "lJoin"):
		return nil
	case strings.HasPrefix(name, "l"):
		return []string{"L"}
	case strings.HasPrefix(name, "cq"):
		return []string{"Cq"}
	case strings.HasPrefix(name, "rq"), strings.HasPrefix(name, "up"):
		return []string{"Rq"}
	case strings.HasPrefix(name, "h"), strings.HasPrefix(name, "cl"):
		return []string{"H"}
	}
	return nil
}

func doneOf(name, point string) bool {
	switch {
	case name == "L":
		return point == "L.done"
	case name == "H":
		return point == "H.done"
	case name == "Cq":
		return point == "Cq.done"
	case name == "Rq":
		return point == "Rq.done"
	default:
		return point == "K.done" || point == "C.done"
	}
}

func c18Forced(s *c18Sched) map[string]interface{} {
	res := map[string]interface{}{"kind": "forced"}
	fail := func(kind, detail string, extra map[string]interface{}) map[string]interface{} {
		res["fail"] = kind
		res["detail"] = detail
		for k, v := range extra {
			res[k] = v
		}
		return res
	}
	ctl := fed.NewHookCtl()
	ctl.Forced = true
	ctl.Hold = func(a *fed.Arrival) bool { return a.Point != "W.lock" }
	rig, err := c18NewRig(ctl)
	if err != nil {
		return fail("harness", err.Error(), nil)
	}
	var failMu sync.Mutex
	failGid := map[uint64]bool{}
	rig.gs.Conn.BeforeWrite = func(gid uint64, p []byte) error {
		failMu.Lock()
		defer failMu.Unlock()
		if failGid[gid] {
			return fmt.Errorf("injected: connection reset by peer")
		}
		return nil
	}
	client, err := fed.DialWS(rig.gs.WSURL())
	if err != nil {
		rig.close()
		return fail("harness", "dial: "+err.Error(), nil)
	}
	// reader: collects frames until the connection ends
	var frames []*fed.Frame
	var frameErr string
	readerDone := make(chan struct{})
	go func() {
		defer close(readerDone)
		for {
			f, err := client.ReadFrame(30 * time.Second)
			if err != nil {
				if strings.Contains(err.Error(), "malformed") {
					frameErr = err.Error()
				}
				return
			}
			if f.Op == 1 {
				if _, err := fed.CheckTextFrame(f); err != nil {
					frameErr = err.Error()
					return
				}
			}
			frames = append(frames, f)
		}
	}()
	names := map[string]uint64{}
	gidName := map[uint64]string{}
	bind := func(name string, gid uint64) { names[name] = gid; gidName[gid] = name }
	// waitPoint waits for an arrival at `point` from a goroutine not yet named
	waitNew := func(point string, timeout time.Duration) (uint64, bool) {
		var g uint64
		ok := ctl.WaitFor(timeout, func(log []*fed.Arrival) bool {
			for _, a := range log {
				if a.Point == point {
					if _, known := gidName[a.Gid]; !known {
						g = a.Gid
						return true
					}
				}
			}
			return false
		})
		return g, ok
	}
	waitHeld := func(name, point string, timeout time.Duration) bool {
		gid := names[name]
		deadline := time.Now().Add(timeout)
		for time.Now().Before(deadline) {
			if ctl.Held(gid) == point {
				return true
			}
			time.Sleep(300 * time.Microsecond)
		}
		return false
	}
	const T = 3 * time.Second
	// set-up: init, start
	g, ok := waitNew("H.read", T)
	if !ok {
		rig.close()
		return fail("harness", "handler did not reach H.read", nil)
	}
	bind("H", g)
	client.Init()
	ctl.Release(names["H"])
	time.Sleep(time.Millisecond)
	if !waitHeld("H", "H.read", T) {
		rig.close()
		return fail("harness", "handler did not come back to H.read after init", nil)
	}
	client.Start("1", "subscription { tick }", nil, nil)
	ctl.Release(names["H"])
	for _, p := range [][2]string{{"Cq", "Cq.recvQ"}, {"Rq", "Rq.upRead"}, {"L", "L.sel"}} {
		g, ok := waitNew(p[1], T)
		if !ok {
			rig.close()
			return fail("harness", "set-up: nobody reached "+p[1], nil)
		}
		bind(p[0], g)
	}
	time.Sleep(time.Millisecond)
	if !waitHeld("H", "H.read", T) {
		rig.close()
		return fail("harness", "handler did not come back to H.read after start", nil)
	}
	sub, err := rig.ups.NextSub(T)
	if err != nil {
		rig.close()
		return fail("harness", err.Error(), nil)
	}
	lClosers := map[int]bool{}
	doneSeen := func(name string) bool {
		gid, ok := names[name]
		if !ok {
			return false
		}
		for _, a := range ctl.Log() {
			if a.Gid == gid && doneOf(name, a.Point) {
				return true
			}
		}
		return false
	}
	observed := func(model map[string]string) map[string]string {
		o := map[string]string{}
		for name := range model {
			gid, known := names[name]
			switch {
			case !known && model[name] == "done":
				o[name] = "done" // a closer run (and finished) by a goroutine known under another name
			case !known:
				o[name] = "?"
			case doneSeen(name):
				o[name] = "done"
			default:
				o[name] = ctl.Last(gid)
			}
		}
		return o
	}
	prev := s.Init
	evn := 0
	connEnded := false
	for k, st := range s.Steps {
		name := st.Label
		if i := strings.IndexByte(name, ':'); i >= 0 {
			name = name[:i]
		}
		if st.SpawnedByL && st.Spawned != nil {
			lClosers[*st.Spawned] = true
		}
		// environment action
		switch name {
		case "upEvent":
			evn++
			sub.SendData(map[string]interface{}{"tick": evn}, nil)
		case "upEnd":
			sub.SendComplete()
		case "clStop":
			client.Stop("1")
		case "clTerminate":
			client.Terminate()
			connEnded = true
		case "clBad":
			client.SendRaw([]byte("{ this is not json"))
			connEnded = true
		case "clGone":
			client.Abort()
			connEnded = true
		case "hCloseFrame", "lWrite":
			if strings.HasSuffix(st.Label, ":false") {
				actor := "H"
				if name == "lWrite" {
					actor = "L"
				}
				failMu.Lock()
				failGid[names[actor]] = true
				failMu.Unlock()
			}
		}
		// who moves
		rel := map[string]bool{}
		for _, a := range labelActors(s.Proto, st.Label, lClosers) {
			rel[a] = true
		}
		for n, p := range st.Pos {
			if q, ok := prev[n]; ok && q != p {
				rel[n] = true
			}
		}
		emit(map[string]interface{}{"sched": s.ID, "step": k, "label": st.Label})
		for n := range rel {
			if gid, ok := names[n]; ok {
				ctl.Release(gid)
			}
		}
		if st.Fatal != nil {
			// the model says the process dies here; a panicking goroutine still runs its deferred
			// functions (and their hook points) before the runtime ends the process: let it through
			until := time.Now().Add(2 * time.Second)
			for time.Now().Before(until) {
				for n := range rel {
					if gid, ok := names[n]; ok {
						ctl.Release(gid)
					}
				}
				time.Sleep(time.Millisecond)
			}
			rig.close()
			return fail("no-crash", fmt.Sprintf("the model says step %d (%s) is fatal (%s) but the process is still alive", k, st.Label, *st.Fatal), nil)
		}
		// a goroutine spawned by this step: bind the newcomer
		if st.Spawned != nil && !st.SpawnedByL {
			nm := fmt.Sprintf("K%d", *st.Spawned)
			pt := "K.tryLock"
			if s.Proto == "fixed" {
				nm, pt = fmt.Sprintf("C%d", *st.Spawned), "C.lock"
			}
			g, ok := waitNew(pt, T)
			if !ok {
				rig.close()
				return fail("mismatch", fmt.Sprintf("step %d (%s): the model spawns %s but no new goroutine reached %s", k, st.Label, nm, pt), nil)
			}
			bind(nm, g)
		}
		// wait until everybody is where the model says
		deadline := time.Now().Add(T)
		var obs map[string]string
		for {
			obs = observed(st.Pos)
			same := true
			for n, p := range st.Pos {
				if obs[n] != p {
					same = false
				}
			}
			if same {
				break
			}
			if time.Now().After(deadline) {
				states := fed.GoroutineStates()
				gs := map[string]string{}
				for n, gid := range names {
					gs[n] = states[gid]
				}
				rig.close()
				return fail("mismatch", fmt.Sprintf("step %d (%s): goroutines are not where the model says", k, st.Label),
					map[string]interface{}{"model": st.Pos, "observed": obs, "goroutine_states": gs})
			}
			time.Sleep(300 * time.Microsecond)
		}
		prev = st.Pos
	}
	// end of the forced part: let everything run; end the connection if it has not ended; then
	// the property's oracle: upstream closed, every goroutine gone, frames whole
	upClosedBefore := sub.ClosedByGateway(30 * time.Millisecond)
	if s.UpClosed != upClosedBefore {
		res["upclosed_mismatch"] = fmt.Sprintf("model upClosed=%v, upstream observed closed=%v at the end of the schedule", s.UpClosed, upClosedBefore)
	}
	emit(map[string]interface{}{"sched": s.ID, "phase": "free"})
	ctl.ReleaseAll()
	if !connEnded {
		client.Abort()
	}
	deadline := time.Now().Add(1200 * time.Millisecond)
	upClosed := sub.ClosedByGateway(1200 * time.Millisecond)
	left := []string{}
	for {
		left = left[:0]
		states := fed.GoroutineStates()
		for n, gid := range names {
			if _, alive := states[gid]; alive {
				left = append(left, n+"@"+ctl.Last(gid)+"["+states[gid]+"]")
			}
		}
		if len(left) == 0 || time.Now().After(deadline) {
			break
		}
		time.Sleep(2 * time.Millisecond)
	}
	sort.Strings(left)
	client.Abort()
	<-readerDone
	rig.close()
	res["frames"] = len(frames)
	res["upstream_closed"] = upClosed
	res["left"] = left
	if frameErr != "" {
		return fail("torn", frameErr, nil)
	}
	if !upClosed || len(left) > 0 {
		return fail("leak", fmt.Sprintf("after the connection ended: upstream closed=%v, goroutines left: %v", upClosed, left), nil)
	}
	if v, ok := res["upclosed_mismatch"]; ok {
		return fail("mismatch", v.(string), nil)
	}
	res["ok"] = true
	return res
}

// ---------------------------------------------------------------------------------------------
// connection-write schedules: writer 0 = the Listen of subscription "1" (a data frame),
// writer 1 = the handler (the ack of a second connection_init)

// c18Pong: a data frame of Listen is held between its header and its payload write; the client
// pings; the reply (one Write of wsutil's control handler on the connection the handler reads from)
// either waits for the write lock (whole frames) or lands inside the data frame. The payload is
// released once the pong has been written or after 150 ms, whichever comes first.
func c18Pong(s *c18ConnSched) map[string]interface{} {
	res := map[string]interface{}{"kind": "conn"}
	fail := func(kind, detail string) map[string]interface{} {
		res["fail"] = kind
		res["detail"] = detail
		return res
	}
	ctl := fed.NewHookCtl()
	rig, err := c18NewRig(ctl)
	if err != nil {
		return fail("harness", err.Error())
	}
	defer rig.close()
	var mu sync.Mutex
	armed, held := false, false
	var holder uint64
	hdrWritten := make(chan struct{})
	pongDone := make(chan struct{})
	var wlog []string
	rig.gs.Conn.BeforeWrite = func(gid uint64, p []byte) error {
		mu.Lock()
		if !armed || len(p) == 0 {
			mu.Unlock()
			return nil
		}
		switch {
		case p[0] == 0x8A:
			wlog = append(wlog, "pong")
		case holder == 0 && p[0] == 0x81 && len(p) <= 10:
			holder = gid
			wlog = append(wlog, "hdr:data")
		case holder == gid && !held:
			held = true
			mu.Unlock()
			close(hdrWritten)
			select {
			case <-pongDone:
			case <-time.After(150 * time.Millisecond):
			}
			mu.Lock()
			wlog = append(wlog, "pay:data")
		}
		mu.Unlock()
		return nil
	}
	rig.gs.Conn.AfterWrite = func(gid uint64, p []byte) {
		mu.Lock()
		defer mu.Unlock()
		if armed && len(p) > 0 && p[0] == 0x8A {
			select {
			case <-pongDone:
			default:
				close(pongDone)
			}
		}
	}
	client, err := fed.DialWS(rig.gs.WSURL())
	if err != nil {
		return fail("harness", err.Error())
	}
	defer client.Abort()
	const T = 3 * time.Second
	client.Init()
	client.Start("1", "subscription { tick }", nil, nil)
	sub, err := rig.ups.NextSub(T)
	if err != nil {
		return fail("harness", err.Error())
	}
	if f, err := client.ReadFrame(T); err != nil || f.Op != 1 {
		return fail("harness", fmt.Sprint("no ack: ", err))
	}
	mu.Lock()
	armed = true
	mu.Unlock()
	sub.SendData(map[string]interface{}{"tick": 7}, nil)
	select {
	case <-hdrWritten:
	case <-time.After(T):
		return fail("harness", "the data frame's header write was not seen (is a frame still two writes?)")
	}
	client.SendPing([]byte("p"))
	torn := ""
	gotText, gotPong := false, false
	for !(gotText && gotPong) {
		f, err := client.ReadFrame(600 * time.Millisecond)
		if err != nil {
			if strings.Contains(err.Error(), "malformed") {
				torn = err.Error()
			} else if !gotText {
				torn = "the client could not read the data frame whole: " + err.Error()
			}
			break // no pong at all is not a torn frame
		}
		switch f.Op {
		case 1:
			m, err := fed.CheckTextFrame(f)
			if err != nil {
				torn = err.Error()
			} else if m.Type == "data" {
				gotText = true
			}
		case 0xA:
			if string(f.Payload) != "p" {
				torn = fmt.Sprintf("pong with a payload no ping carried: %q", f.Payload)
			}
			gotPong = true
		default:
			torn = fmt.Sprintf("unexpected frame opcode %d (%d bytes)", f.Op, len(f.Payload))
		}
		if torn != "" {
			break
		}
	}
	mu.Lock()
	armed = false
	res["write_log"] = append([]string(nil), wlog...)
	mu.Unlock()
	res["pong_seen"] = gotPong
	res["client_sees_torn"] = torn != ""
	if torn != "" {
		return fail("torn", torn)
	}
	res["ok"] = true
	return res
}

func c18Conn(s *c18ConnSched) map[string]interface{} {
	if s.Pong {
		return c18Pong(s)
	}
	res := map[string]interface{}{"kind": "conn"}
	fail := func(kind, detail string) map[string]interface{} {
		res["fail"] = kind
		res["detail"] = detail
		return res
	}
	ctl := fed.NewHookCtl()
	ctl.Forced = true
	armed := false
	var mu sync.Mutex
	ctl.Hold = func(a *fed.Arrival) bool {
		mu.Lock()
		defer mu.Unlock()
		return armed && s.Locked && a.Point == "W.lock"
	}
	rig, err := c18NewRig(ctl)
	if err != nil {
		return fail("harness", err.Error())
	}
	defer rig.close()
	// blocked writes: gid -> release channel
	type pend struct {
		rel chan struct{}
		n   int
	}
	pending := map[uint64]*pend{}
	var wlog []string
	gidW := map[uint64]int{}
	count := map[uint64]int{}
	rig.gs.Conn.BeforeWrite = func(gid uint64, p []byte) error {
		mu.Lock()
		if !armed {
			mu.Unlock()
			return nil
		}
		pd := &pend{rel: make(chan struct{}), n: count[gid]}
		count[gid]++
		pending[gid] = pd
		mu.Unlock()
		<-pd.rel
		mu.Lock()
		part := "hdr"
		if pd.n%2 == 1 {
			part = "pay"
		}
		if w, ok := gidW[gid]; ok {
			wlog = append(wlog, fmt.Sprintf("%s:%d", part, w))
		}
		mu.Unlock()
		return nil
	}
	written := map[uint64]int{}
	rig.gs.Conn.AfterWrite = func(gid uint64, p []byte) {
		mu.Lock()
		written[gid]++
		mu.Unlock()
	}
	client, err := fed.DialWS(rig.gs.WSURL())
	if err != nil {
		return fail("harness", err.Error())
	}
	const T = 3 * time.Second
	client.Init()
	client.Start("1", "subscription { tick }", nil, nil)
	sub, err := rig.ups.NextSub(T)
	if err != nil {
		return fail("harness", err.Error())
	}
	// ack frame
	if f, err := client.ReadFrame(T); err != nil || f.Op != 1 {
		return fail("harness", fmt.Sprint("no ack: ", err))
	}
	var gL, gH uint64
	ok := ctl.WaitFor(T, func(log []*fed.Arrival) bool {
		for _, a := range log {
			if a.Point == "L.sel" {
				gL = a.Gid
			}
			if a.Point == "H.read" {
				gH = a.Gid
			}
		}
		return gL != 0 && gH != 0
	})
	if !ok {
		return fail("harness", "Listen / handler not seen")
	}
	time.Sleep(5 * time.Millisecond) // the handler is back in its read
	mu.Lock()
	armed = true
	gidW[gL] = 0
	if !s.Hb {
		gidW[gH] = 1
	}
	mu.Unlock()
	gids := []uint64{gL, gH}
	if s.Hb {
		// the heartbeat goroutine: the first goroutine other than Listen and the handler that
		// reaches the write lock (repaired tree) or a connection Write (unchanged tree)
		gids[1] = 0
		deadline := time.Now().Add(7 * time.Second)
		for gids[1] == 0 && time.Now().Before(deadline) {
			if s.Locked {
				for _, a := range ctl.Log() {
					if a.Point == "W.lock" && a.Gid != gL && a.Gid != gH && ctl.Held(a.Gid) == "W.lock" {
						gids[1] = a.Gid
					}
				}
			}
			mu.Lock()
			for g := range pending {
				if g != gL && g != gH {
					gids[1] = g
				}
			}
			mu.Unlock()
			time.Sleep(2 * time.Millisecond)
		}
		if gids[1] == 0 {
			return fail("harness", "no heartbeat write within 7 s")
		}
		mu.Lock()
		gidW[gids[1]] = 1
		mu.Unlock()
	}
	waitPending := func(gid uint64) bool {
		deadline := time.Now().Add(T)
		for time.Now().Before(deadline) {
			mu.Lock()
			_, ok := pending[gid]
			mu.Unlock()
			if ok {
				return true
			}
			time.Sleep(300 * time.Microsecond)
		}
		return false
	}
	releaseWrite := func(gid uint64) bool {
		if !waitPending(gid) {
			return false
		}
		mu.Lock()
		pd := pending[gid]
		delete(pending, gid)
		before := written[gid]
		mu.Unlock()
		close(pd.rel)
		// the Write itself must have happened before the next step is taken
		deadline := time.Now().Add(T)
		for time.Now().Before(deadline) {
			mu.Lock()
			done := written[gid] > before
			mu.Unlock()
			if done {
				return true
			}
			time.Sleep(200 * time.Microsecond)
		}
		return false
	}
	for k, l := range s.Labels {
		var w int
		name := l
		if i := strings.IndexByte(l, ':'); i >= 0 {
			name = l[:i]
			fmt.Sscan(l[i+1:], &w)
		}
		if w > 1 {
			return fail("harness", "only two writers are instrumented")
		}
		gid := gids[w]
		emit(map[string]interface{}{"sched": s.ID, "step": k, "label": l})
		switch name {
		case "begin":
			if w == 0 {
				sub.SendData(map[string]interface{}{"tick": 7}, nil)
			} else if !s.Hb {
				client.Init()
			}
			if s.Locked {
				okk := false
				deadline := time.Now().Add(T)
				for time.Now().Before(deadline) {
					if ctl.Held(gid) == "W.lock" {
						okk = true
						break
					}
					time.Sleep(300 * time.Microsecond)
				}
				if !okk {
					return fail("mismatch", fmt.Sprintf("step %d (%s): the writer did not reach the write lock (W.lock)", k, l))
				}
			} else if !waitPending(gid) {
				return fail("mismatch", fmt.Sprintf("step %d (%s): the writer did not reach its header write", k, l))
			}
		case "lock":
			if !ctl.Release(gid) {
				return fail("mismatch", fmt.Sprintf("step %d (%s): the writer is not at W.lock", k, l))
			}
			if !waitPending(gid) {
				return fail("mismatch", fmt.Sprintf("step %d (%s): after taking the write lock the writer did not reach its header write (blocked on the mutex?)", k, l))
			}
		case "hdr":
			if !releaseWrite(gid) {
				return fail("mismatch", fmt.Sprintf("step %d (%s): no pending header write", k, l))
			}
			if !waitPending(gid) {
				return fail("mismatch", fmt.Sprintf("step %d (%s): the payload write did not follow", k, l))
			}
		case "pay":
			if !releaseWrite(gid) {
				return fail("mismatch", fmt.Sprintf("step %d (%s): no pending payload write", k, l))
			}
		case "unlock":
			time.Sleep(time.Millisecond)
		}
	}
	// what the client sees
	time.Sleep(5 * time.Millisecond)
	mu.Lock()
	armed = false
	for g, pd := range pending {
		close(pd.rel)
		delete(pending, g)
	}
	log := append([]string(nil), wlog...)
	mu.Unlock()
	ctl.ReleaseAll()
	res["write_log"] = log
	torn := ""
	nText := 0
	for nText < 2 {
		f, err := client.ReadFrame(300 * time.Millisecond)
		if err != nil {
			if strings.Contains(err.Error(), "malformed") {
				torn = err.Error()
			} else if nText < 2 {
				torn = "the client could not read two whole frames: " + err.Error()
			}
			break
		}
		if f.Op == 1 {
			if _, err := fed.CheckTextFrame(f); err != nil {
				torn = err.Error()
				break
			}
			nText++
		} else {
			torn = fmt.Sprintf("unexpected frame opcode %d (%d bytes)", f.Op, len(f.Payload))
			break
		}
	}
	client.Abort()
	res["client_sees_torn"] = torn != ""
	if torn != "" {
		res["fail"] = "torn"
		res["detail"] = torn
		return res
	}
	if s.Torn {
		return fail("mismatch", "the model says this write order tears frames but the client parsed two whole frames")
	}
	res["ok"] = true
	return res
}

var _ = hx.Canon
