package main

// C18 stress scripts: free-running client / upstream action sequences with seeded delays at
// every hook point, against the real gateway. Oracle (from the property statement): the
// process does not crash (the parent sees that), net/http recovered no handler panic, every
// frame the client reads is a complete well-formed message, after the connection ended every
// upstream connection is closed by the gateway and every goroutine started for the
// connection is gone.

import (
	"fmt"
	"runtime"
	"sort"
	"strings"
	"sync"
	"time"

	"verif/harness/fed"
)

type c18Action struct {
	Who   string `json:"who"` // cl | up
	Act   string `json:"act"`
	ID    string `json:"id,omitempty"`
	N     int    `json:"n,omitempty"`
	Delay int    `json:"delay_us"`
}

type c18Script struct {
	ID        string      `json:"id"`
	Seed      uint64      `json:"seed"`
	HookDelay int         `json:"hook_delay_us"`
	Actions   []c18Action `json:"actions"`
	End       string      `json:"end"` // terminate | abort : how the connection ends if the script did not end it
}

func mix(a, b uint64) uint64 {
	z := a + 0x9e3779b97f4a7c15*(b+1)
	z = (z ^ (z >> 30)) * 0xbf58476d1ce4e5b9
	z = (z ^ (z >> 27)) * 0x94d049bb133111eb
	return z ^ (z >> 31)
}

func strHash(s string) uint64 {
	var h uint64 = 1469598103934665603
	for i := 0; i < len(s); i++ {
		h = (h ^ uint64(s[i])) * 1099511628211
	}
	return h
}

func c18Stress(sc *c18Script) map[string]interface{} {
	res := map[string]interface{}{"kind": "stress"}
	fail := func(kind, detail string) map[string]interface{} {
		res["fail"] = kind
		res["detail"] = detail
		return res
	}
	ctl := fed.NewHookCtl()
	var cmu sync.Mutex
	counts := map[string]uint64{}
	if sc.HookDelay > 0 {
		ctl.Delay = func(a *fed.Arrival) time.Duration {
			cmu.Lock()
			n := counts[a.Point]
			counts[a.Point]++
			cmu.Unlock()
			h := mix(sc.Seed, strHash(a.Point)+n*7919)
			if h%3 == 0 {
				return 0
			}
			return time.Duration((h>>8)%uint64(sc.HookDelay)) * time.Microsecond
		}
	}
	base := runtime.NumGoroutine()
	rig, err := c18NewRig(ctl)
	if err != nil {
		return fail("harness", err.Error())
	}
	client, err := fed.DialWS(rig.gs.WSURL())
	if err != nil {
		rig.close()
		return fail("harness", "dial: "+err.Error())
	}
	var fmu sync.Mutex
	nFrames, nData := 0, 0
	frameErr := ""
	readerDone := make(chan struct{})
	go func() {
		defer close(readerDone)
		for {
			f, err := client.ReadFrame(20 * time.Second)
			if err != nil {
				if strings.Contains(err.Error(), "malformed") {
					fmu.Lock()
					frameErr = err.Error()
					fmu.Unlock()
				}
				return
			}
			fmu.Lock()
			nFrames++
			if f.Op == 1 {
				m, err := fed.CheckTextFrame(f)
				if err != nil {
					frameErr = err.Error()
					fmu.Unlock()
					return
				}
				if m.Type == "data" {
					nData++
				}
			}
			fmu.Unlock()
		}
	}()
	const T = 3 * time.Second
	subs := map[string]*fed.UpSub{}
	var allSubs []*fed.UpSub
	sent := map[*fed.UpSub]int{}
	ended := false
	nStarts := 0
	for _, a := range sc.Actions {
		if a.Delay > 0 {
			time.Sleep(time.Duration(a.Delay) * time.Microsecond)
		}
		if a.Who == "cl" {
			if ended {
				continue
			}
			switch a.Act {
			case "init":
				client.Init()
			case "start":
				client.Start(a.ID, "subscription { tick }", nil, nil)
				nStarts++
				s, err := rig.ups.NextSub(T)
				if err != nil {
					// the connection may have been ended by an earlier malformed message
					res["start_without_upstream"] = a.ID
					continue
				}
				subs[a.ID] = s
				allSubs = append(allSubs, s)
			case "start-refused":
				// the upstream accepts the websocket handshake and resets the connection: the
				// gateway's Subscribe fails after the dial; nothing it started may stay behind
				rig.ups.SetRefuseInit(true)
				client.Start(a.ID, "subscription { tick }", nil, nil)
				time.Sleep(15 * time.Millisecond)
				rig.ups.SetRefuseInit(false)
				res["refused_starts"] = 1
			case "stop":
				client.Stop(a.ID)
			case "terminate":
				client.Terminate()
				ended = true
			case "abort":
				client.Abort()
				ended = true
			case "badjson":
				client.SendRaw([]byte("{ not json"))
				ended = true
			case "nopayload":
				client.SendRaw([]byte(`{"type":"start","id":"` + a.ID + `"}`))
				ended = true
			case "unknown":
				client.SendRaw([]byte(`{"type":"bogus"}`))
				ended = true
			case "ping":
				client.SendPing([]byte("p"))
			}
			continue
		}
		s := subs[a.ID]
		if s == nil {
			continue
		}
		switch a.Act {
		case "event":
			sent[s]++
			s.SendData(map[string]interface{}{"tick": sent[s]}, nil)
		case "burst":
			for k := 0; k < a.N; k++ {
				sent[s]++
				s.SendData(map[string]interface{}{"tick": sent[s]}, nil)
			}
		case "burstping":
			// events and client pings interleaved: the pong (written by the handler's read loop) and the
			// data frames (written by Listen) share the connection
			for k := 0; k < a.N; k++ {
				sent[s]++
				s.SendData(map[string]interface{}{"tick": sent[s]}, nil)
				client.SendPing([]byte("p"))
			}
		case "complete":
			s.SendComplete()
		case "errobj":
			s.SendErrorObject("boom")
		case "errlist":
			sent[s]++
			s.SendErrorList("boom")
		case "drop":
			s.Drop()
		}
	}
	if !ended {
		time.Sleep(300 * time.Microsecond)
		if sc.End == "terminate" {
			client.Terminate()
		} else {
			client.Abort()
		}
	}
	// the connection has ended: everything started for it must go away
	notClosed := 0
	endBy := time.Now().Add(1500 * time.Millisecond)
	for _, s := range allSubs {
		if !s.ClosedByGateway(time.Until(endBy)) {
			notClosed++
		}
	}
	gids := map[uint64]string{}
	for _, a := range ctl.Log() {
		if _, ok := gids[a.Gid]; !ok {
			gids[a.Gid] = a.Point
		}
	}
	var left []string
	deadline := endBy
	for {
		left = left[:0]
		states := fed.GoroutineStates()
		for gid := range gids {
			if st, alive := states[gid]; alive {
				left = append(left, ctl.Last(gid)+"["+st+"]")
			}
		}
		if len(left) == 0 || time.Now().After(deadline) {
			break
		}
		time.Sleep(2 * time.Millisecond)
	}
	sort.Strings(left)
	client.Abort()
	<-readerDone
	serverLog := rig.gs.ServerLog()
	traces := c18Traces(ctl.Log(), sent, allSubs)
	rig.close()
	extra := goroutinesBack(base, T)
	res["frames"] = nFrames
	res["data_frames"] = nData
	res["subs"] = len(allSubs)
	res["traces"] = traces
	fmu.Lock()
	fe := frameErr
	fmu.Unlock()
	switch {
	case strings.Contains(serverLog, "panic"):
		first := serverLog
		if i := strings.IndexByte(first, '\n'); i >= 0 {
			first = first[:i]
		}
		return fail("handler-panic", "a handler goroutine panicked (recovered by net/http): "+first)
	case fe != "":
		return fail("torn", fe)
	case notClosed > 0 || len(left) > 0:
		return fail("leak", fmt.Sprintf("after the connection ended: %d of %d upstream connection(s) not closed by the gateway; goroutines left: %v", notClosed, len(allSubs), left))
	case extra > 0:
		return fail("leak", fmt.Sprintf("%d goroutine(s) above the baseline after everything was closed", extra))
	}
	res["ok"] = true
	return res
}

// c18Traces groups the recorded hook points per subscription entry (key = the entry's response
// channel) and per goroutine, in the form `c18.accept` takes.
func c18Traces(log []*fed.Arrival, sent map[*fed.UpSub]int, subs []*fed.UpSub) []map[string]interface{} {
	type gseq struct {
		gid    uint64
		points []string
	}
	byKey := map[string][]*gseq{}
	var keyOrder []string
	hByGid := map[uint64][]string{}
	var hOrder []uint64
	idx := map[string]map[uint64]*gseq{}
	exited := map[string]map[uint64]bool{} // key ↦ goroutines that passed their `*.done` point
	for _, a := range log {
		if strings.HasSuffix(a.Point, ".done") && a.Key != "" {
			if exited[a.Key] == nil {
				exited[a.Key] = map[uint64]bool{}
			}
			exited[a.Key][a.Gid] = true
		}
		if strings.HasPrefix(a.Point, "W.") || strings.HasSuffix(a.Point, ".done") {
			continue
		}
		if strings.HasPrefix(a.Point, "H.") {
			if _, ok := hByGid[a.Gid]; !ok {
				hOrder = append(hOrder, a.Gid)
			}
			if a.Point != "H.read" {
				hByGid[a.Gid] = append(hByGid[a.Gid], a.Point)
			} else if hByGid[a.Gid] == nil {
				hByGid[a.Gid] = []string{}
			}
			continue
		}
		if a.Key == "" {
			continue
		}
		if idx[a.Key] == nil {
			idx[a.Key] = map[uint64]*gseq{}
			keyOrder = append(keyOrder, a.Key)
		}
		g := idx[a.Key][a.Gid]
		if g == nil {
			g = &gseq{gid: a.Gid}
			idx[a.Key][a.Gid] = g
			byKey[a.Key] = append(byKey[a.Key], g)
		}
		g.points = append(g.points, a.Point)
	}
	var out []map[string]interface{}
	k := 0 // index among the ESTABLISHED subscriptions (the upstream only sees those)
	for _, key := range keyOrder {
		obs := map[string][]string{}
		var closer []string
		complete := true
		// a start whose Subscribe FAILED after the handshake: no Listen, no Close; the reader never
		// reached its read loop (its first hook point is the deferred block's `Rq.upClose`)
		var refusedRq, refusedCq *gseq
		hasL, hasEst := false, false
		for _, g := range byKey[key] {
			switch g.points[0] {
			case "L.sel":
				obs["L"] = g.points[1:]
				hasL = true
			case "Cq.recvQ":
				obs["Cq"] = g.points[1:]
				refusedCq = g
			case "Rq.upRead":
				obs["Rq"] = g.points[1:]
				hasEst = true
			case "Rq.upClose":
				refusedRq = g
				complete = false
			case "K.tryLock", "C.lock":
				closer = g.points
			default:
				complete = false
			}
		}
		if !hasL && !hasEst && len(closer) == 0 && (refusedRq != nil || refusedCq != nil) {
			// the establishment phase (Model/SubInit.lean): the hook points it has are `Cq.recvQ`,
			// `Cq.upClose`, `Rq.upClose`, `Rq.sendNil` and the two `*.done`; the writes, `fail`, the
			// sends on errCh and the caller pass no hook point, so the trace identifies the run only
			// up to these projections — plus the set of goroutines that have exited
			robs := map[string][]string{"Cq": {}, "Rq": {}}
			done := []string{}
			if refusedCq != nil {
				robs["Cq"] = refusedCq.points[1:]
				if exited[key][refusedCq.gid] {
					done = append(done, "Cq")
				}
			}
			if refusedRq != nil {
				robs["Rq"] = refusedRq.points
				if exited[key][refusedRq.gid] {
					done = append(done, "Rq")
				}
			}
			out = append(out, map[string]interface{}{"refused": true, "obs": robs, "done": done, "complete": false})
			continue
		}
		if obs["L"] == nil || obs["Cq"] == nil || obs["Rq"] == nil {
			complete = false
		}
		// the handler of the connection (one connection per script)
		if len(hOrder) > 0 {
			obs["H"] = hByGid[hOrder[0]]
		}
		evs := 0
		if k < len(subs) {
			evs = sent[subs[k]]
		}
		out = append(out, map[string]interface{}{"obs": obs, "closer": closer, "evs": evs, "complete": complete})
		k++
	}
	return out
}
