package main

// C19 — file uploads arrive at the owning service unchanged.
//
// Generated multipart layouts (single / batch; uploads at top-level, nested-object and list
// positions; optionally one file at two positions; random bytes incl. empty) go through the REAL
// requests.Parse, then — once per consuming step, with the per-step copy of the variables that
// executor.getVariables builds — through the REAL queryer.MultiOpQueryer.Query, whose HTTP client
// is a RoundTripper that re-parses what it receives (mime/multipart / JSON) and records it.
//
// Property oracle (from the statement, independent of the model): for every (file, position) of
// the client's map whose variable the step uses, the step's downstream call for that operation is
// multipart, its map names that position, and the part it names has the file's name and bytes;
// operations that use no upload go in the plain JSON call with their variables unchanged; nothing
// else is sent. Model: driver op c19.roundtrip (Model.Parse.parse, then Model.Upload.sendStep per step).

import (
	"bytes"
	"encoding/json"
	"fmt"
	"io"
	"mime"
	"mime/multipart"
	"net/http"
	"sort"
	"strconv"
	"strings"
	"sync"
	"sync/atomic"
	"time"

	"github.com/buildbuildio/pebbles/queryer"
	"github.com/buildbuildio/pebbles/requests"
	"verif/harness/hx"
)

func init() {
	register("C19", runC19)
	registerReplay("C19", func(ctx *Ctx, raw json.RawMessage) error {
		var cs c19Case
		if err := json.Unmarshal(raw, &cs); err != nil {
			return err
		}
		ctx.Rep.Rule = c19Rule
		c19Check(ctx, 0, cs)
		return nil
	})
}

const c19Rule = "case = multipart layout (operations, map, files) + consuming steps (variable selections) through real requests.Parse and real MultiOpQueryer.Query; " +
	"distinct = distinct (operations, map, file sizes, steps); non-trivial = Parse succeeded and at least one file was injected"

const c19ClassShared = "one file at several positions or consumed by two steps: a later part for the same upload is empty"
const c19ClassNested = "nested upload consumed by two steps: the second step sends plain JSON with null at the position"

type c19Case struct {
	Label    string     `json:"label"`
	Ops      string     `json:"operations"`
	Map      string     `json:"map"`
	Files    []mpFile   `json:"files"`
	Steps    [][]string `json:"steps"`              // per step: the variables it uses; null = all
	Safe     bool       `json:"safe"`               // drawn from the region the partial theorems cover
	Redirect bool       `json:"redirect,omitempty"` // the service answers the first call of every step with 307
	Big      int        `json:"big,omitempty"`      // >0: the first file's bytes are generated at run time (this many), not stored in the case
}

// withBig materialises the run-time bytes of a large-file case.
func (cs c19Case) withBig() c19Case {
	if cs.Big <= 0 || len(cs.Files) == 0 {
		return cs
	}
	out := cs
	out.Files = append([]mpFile(nil), cs.Files...)
	data := make([]byte, cs.Big)
	for i := range data {
		data[i] = byte(i*131 + i>>8)
	}
	out.Files[0].Data = data
	return out
}

// ---- what the downstream received

type c19Part struct {
	Filename string
	Data     []byte
}

type c19Call struct {
	Multipart  bool
	Query      string
	OpName     interface{}
	Variables  interface{}              // decoded JSON (UseNumber)
	Map        map[string][]string      // multipart
	Parts      map[string]c19Part       // multipart, by form key
	Batch      []map[string]interface{} // json call: the operations
	BadRequest string
}

type c19RT struct {
	calls         []c19Call
	uploadAnswer  string // "" = a good answer; otherwise the body every MULTIPART call is answered with
	redirectFirst bool   // the first call is answered 307 (a service behind a redirect): the client library re-sends the body
	redirected    bool
}

func (rt *c19RT) RoundTrip(r *http.Request) (*http.Response, error) {
	if rt.redirectFirst && !rt.redirected {
		rt.redirected = true
		io.Copy(io.Discard, r.Body)
		return &http.Response{StatusCode: 307, Body: io.NopCloser(strings.NewReader("")), Header: http.Header{"Location": []string{"http://svc/moved/"}}, Request: r}, nil
	}
	body, _ := io.ReadAll(r.Body)
	call := c19Call{}
	respond := func(s string) (*http.Response, error) {
		rt.calls = append(rt.calls, call)
		return &http.Response{StatusCode: 200, Body: io.NopCloser(strings.NewReader(s)), Header: http.Header{"Content-Type": []string{"application/json"}}}, nil
	}
	mt, params, err := mime.ParseMediaType(r.Header.Get("Content-Type"))
	if err == nil && strings.HasPrefix(mt, "multipart/") {
		call.Multipart = true
		call.Parts = map[string]c19Part{}
		mr := multipart.NewReader(bytes.NewReader(body), params["boundary"])
		for {
			p, err := mr.NextPart()
			if err != nil {
				break
			}
			data, _ := io.ReadAll(p)
			switch {
			case p.FileName() != "":
				call.Parts[p.FormName()] = c19Part{Filename: p.FileName(), Data: data}
			case p.FormName() == "operations":
				var op map[string]interface{}
				d := json.NewDecoder(bytes.NewReader(data))
				d.UseNumber()
				if d.Decode(&op) != nil {
					call.BadRequest = "operations field is not a JSON object: " + clip(string(data), 80)
				}
				call.Query, _ = op["query"].(string)
				call.OpName = op["operationName"]
				call.Variables = op["variables"]
			case p.FormName() == "map":
				if json.Unmarshal(data, &call.Map) != nil {
					call.BadRequest = "map field is not a JSON object of string lists: " + clip(string(data), 80)
				}
			default:
				call.BadRequest = "unexpected form field " + p.FormName()
			}
		}
		if rt.uploadAnswer != "" {
			return respond(rt.uploadAnswer)
		}
		eb, _ := json.Marshal(map[string]interface{}{"data": map[string]interface{}{"ok": true, "echo": call.Query}})
		return respond(string(eb))
	}
	d := json.NewDecoder(bytes.NewReader(body))
	d.UseNumber()
	if d.Decode(&call.Batch) != nil {
		call.BadRequest = "JSON call body is not an array of operations: " + clip(string(body), 80)
		return respond(`[]`)
	}
	out := make([]string, len(call.Batch))
	for i := range out {
		eb, _ := json.Marshal(map[string]interface{}{"data": map[string]interface{}{"ok": true, "echo": call.Batch[i]["query"]}})
		out[i] = string(eb)
	}
	return respond("[" + strings.Join(out, ",") + "]")
}

// stepRequest: what executor.getVariables + depth_executor_query build for one step — a fresh
// top-level map holding the selected variables (values shared with the client's request).
func stepRequest(client *requests.Request, names []string) *requests.Request {
	vars := map[string]interface{}{}
	if names == nil {
		for k, v := range client.Variables {
			vars[k] = v
		}
	} else {
		for _, n := range names {
			if client.Variables == nil {
				break
			}
			if v, ok := client.Variables[n]; ok {
				vars[n] = v
			}
		}
	}
	return &requests.Request{Query: client.Query, OperationName: client.OperationName, Variables: vars, Original: client.Original}
}

type c19Obs struct {
	Parse     parseObs
	Steps     [][]c19Call
	Error     string // Query returned an error / panicked
	Misplaced string // a result of Query is not the answer to the request at that position
}

func c19Run(cs c19Case) (obs c19Obs, hc httpCase) {
	hc = mpLayout{Ops: &cs.Ops, Map: &cs.Map, Files: cs.Files}.build(cs.Label)
	var res *requests.ParseRequestResponse
	func() {
		defer func() {
			if p := recover(); p != nil {
				obs.Parse = parseObs{Kind: "panic", Class: c07PanicClass(fmt.Sprint(p)), Msg: fmt.Sprint(p)}
			}
		}()
		r, err := requests.Parse(hc.request())
		if err != nil {
			obs.Parse = parseObs{Kind: "err", Class: c07ErrClass(err.Error()), Msg: clip(err.Error(), 200)}
			return
		}
		res = r
		obs.Parse = parseObs{Kind: "ok", Batch: r.IsBatchMode}
	}()
	if res == nil {
		return
	}
	for _, names := range cs.Steps {
		rt := &c19RT{redirectFirst: cs.Redirect}
		q := queryer.NewMultiOpQueryer("http://svc/", 1000).WithHTTPClient(&http.Client{Transport: rt})
		inputs := make([]*requests.Request, len(res.Requests))
		for i, r := range res.Requests {
			inputs[i] = stepRequest(r, names)
		}
		func() {
			defer func() {
				if p := recover(); p != nil {
					obs.Error = "Query panicked: " + fmt.Sprint(p)
				}
			}()
			results, err := q.Query(inputs)
			if err != nil {
				obs.Error = "Query failed: " + err.Error()
				return
			}
			// every answer names the operation it answers: result i must answer request i
			for i, in := range inputs {
				if i >= len(results) || results[i] == nil || fmt.Sprint(results[i]["echo"]) != in.Query {
					got := "<missing>"
					if i < len(results) && results[i] != nil {
						got = fmt.Sprint(results[i]["echo"])
					}
					obs.Misplaced = fmt.Sprintf("result %d of MultiOpQueryer.Query answers %q, request %d is %q", i, clip(got, 60), i, clip(in.Query, 60))
					break
				}
			}
		}()
		obs.Steps = append(obs.Steps, rt.calls)
	}
	return
}

// ---- the client's view of its own request (oracle side; stdlib only)

type c19Client struct {
	Batch   bool
	Ops     []map[string]interface{} // decoded operations (UseNumber)
	Want    [][]c19Want              // per operation
	FileBy  map[string]mpFile        // first file per key
	UseCnt  map[string]int           // positions per file key
	Invalid string
}

type c19Want struct {
	Key  string // file key
	Pos  string // position without the batch index, numeric parts normalised
	Top  string // top-level variable
	Deep bool   // below the top level
}

func normPos(parts []string) string {
	out := make([]string, len(parts))
	for i, p := range parts {
		if n, err := strconv.Atoi(p); err == nil && i >= 2 {
			out[i] = strconv.Itoa(n)
		} else {
			out[i] = p
		}
	}
	return strings.Join(out, ".")
}

func c19ClientView(cs c19Case) c19Client {
	c := c19Client{FileBy: map[string]mpFile{}, UseCnt: map[string]int{}}
	c.Batch = firstBracket([]byte(cs.Ops)) == true
	d := json.NewDecoder(strings.NewReader(cs.Ops))
	d.UseNumber()
	if c.Batch {
		if d.Decode(&c.Ops) != nil {
			c.Invalid = "operations"
		}
	} else {
		var one map[string]interface{}
		if d.Decode(&one) != nil {
			c.Invalid = "operations"
		}
		c.Ops = []map[string]interface{}{one}
	}
	var m map[string][]string
	if json.Unmarshal([]byte(cs.Map), &m) != nil {
		c.Invalid = "map"
	}
	for i := len(cs.Files) - 1; i >= 0; i-- {
		c.FileBy[cs.Files[i].Key] = cs.Files[i]
	}
	c.Want = make([][]c19Want, len(c.Ops))
	keys := make([]string, 0, len(m))
	for k := range m {
		keys = append(keys, k)
	}
	sort.Strings(keys)
	for _, k := range keys {
		for _, path := range m[k] {
			parts := strings.Split(path, ".")
			idx := 0
			if c.Batch {
				n, err := strconv.Atoi(parts[0])
				if err != nil || n < 0 || n >= len(c.Ops) {
					c.Invalid = "path " + path
					continue
				}
				idx, parts = n, parts[1:]
			}
			if len(parts) < 2 || parts[0] != "variables" {
				c.Invalid = "path " + path
				continue
			}
			c.Want[idx] = append(c.Want[idx], c19Want{Key: k, Pos: normPos(parts), Top: parts[1], Deep: len(parts) > 2})
			c.UseCnt[k]++
		}
	}
	return c
}

func selected(names []string, top string) bool {
	if names == nil {
		return true
	}
	return indexOfStr(names, top) >= 0
}

func selectJSON(vars interface{}, names []string) interface{} {
	out := map[string]interface{}{}
	m, _ := vars.(map[string]interface{})
	for k, v := range m {
		if selected(names, k) {
			out[k] = v
		}
	}
	return out
}

type c19Problem struct {
	Detail string
	Class  string
}

// c19Oracle checks every step's calls against the client's request.
func c19Oracle(cs c19Case, obs c19Obs) []c19Problem {
	var out []c19Problem
	cl := c19ClientView(cs)
	if obs.Parse.Kind == "panic" {
		return []c19Problem{{Detail: "requests.Parse panicked: " + obs.Parse.Msg}}
	}
	if cs.Safe && obs.Parse.Kind != "ok" {
		return []c19Problem{{Detail: "a well-formed multipart request was not decoded: " + obs.Parse.Class + " " + obs.Parse.Msg}}
	}
	if obs.Parse.Kind != "ok" || cl.Invalid != "" {
		return nil // not a well-formed request: the property says nothing (C07 covers the answer)
	}
	if obs.Misplaced != "" {
		out = append(out, c19Problem{Detail: obs.Misplaced})
	}
	if obs.Error != "" {
		out = append(out, c19Problem{Detail: obs.Error})
	}
	fullSent := map[string]int{}   // file key → parts that carried its bytes so far (all steps)
	partsSent := map[string]int{}  // file key → parts so far
	consumedBy := map[string]int{} // position id → steps that were expected to deliver it so far
	for s, calls := range obs.Steps {
		names := cs.Steps[s]
		byQuery := map[string][]c19Call{}
		var plain []map[string]interface{}
		jsonCalls := 0
		for _, c := range calls {
			if c.BadRequest != "" {
				out = append(out, c19Problem{Detail: fmt.Sprintf("step %d: %s", s, c.BadRequest)})
			}
			if c.Multipart {
				byQuery[c.Query] = append(byQuery[c.Query], c)
			} else {
				jsonCalls++
				plain = append(plain, c.Batch...)
			}
		}
		if jsonCalls > 1 {
			out = append(out, c19Problem{Detail: fmt.Sprintf("step %d: %d JSON calls", s, jsonCalls)})
		}
		for i, op := range cl.Ops {
			query, _ := op["query"].(string)
			var want []c19Want
			for _, w := range cl.Want[i] {
				if selected(names, w.Top) {
					want = append(want, w)
				}
			}
			wantVars := hx.Canon(canonGo(selectJSON(op["variables"], names)))
			mp := byQuery[query]
			delete(byQuery, query)
			var inPlain []map[string]interface{}
			for _, p := range plain {
				if q, _ := p["query"].(string); q == query {
					inPlain = append(inPlain, p)
				}
			}
			if len(want) == 0 {
				// no upload used: plain JSON, unchanged, and no file
				if len(mp) > 0 {
					out = append(out, c19Problem{Detail: fmt.Sprintf("step %d operation %d uses no upload but was sent as multipart", s, i)})
				}
				if len(inPlain) != 1 {
					out = append(out, c19Problem{Detail: fmt.Sprintf("step %d operation %d appears %d times in the JSON call", s, i, len(inPlain))})
				} else if got := hx.Canon(canonGo(inPlain[0]["variables"])); got != wantVars {
					out = append(out, c19Problem{Detail: fmt.Sprintf("step %d operation %d: variables changed on the way: %s instead of %s", s, i, clip(got, 200), clip(wantVars, 200))})
				}
				continue
			}
			posID := func(w c19Want) string { return fmt.Sprintf("%d|%s", i, w.Pos) }
			if len(mp) == 0 {
				// expected a multipart call; classify the known nested-shared gap narrowly
				known := len(inPlain) == 1 && s > 0
				for _, w := range want {
					if !(w.Deep && consumedBy[posID(w)] > 0) {
						known = false
					}
				}
				if known && hx.Canon(canonGo(inPlain[0]["variables"])) != wantVars {
					known = false // something else than "null where the file was" differs
				}
				cls := ""
				if known {
					cls = c19ClassNested
				}
				out = append(out, c19Problem{Class: cls, Detail: fmt.Sprintf("step %d operation %d: %d file(s) expected at %s but the operation was sent without multipart (JSON call, null at the position)", s, i, len(want), want[0].Pos)})
				for _, w := range want {
					consumedBy[posID(w)]++
				}
				continue
			}
			if len(mp) > 1 || len(inPlain) > 0 {
				out = append(out, c19Problem{Detail: fmt.Sprintf("step %d operation %d sent %d multipart calls and %d times in the JSON call", s, i, len(mp), len(inPlain))})
			}
			call := mp[0]
			if got := hx.Canon(canonGo(call.Variables)); got != wantVars {
				out = append(out, c19Problem{Detail: fmt.Sprintf("step %d operation %d: multipart variables %s instead of %s", s, i, clip(got, 200), clip(wantVars, 200))})
			}
			if hx.Canon(call.OpName) != hx.Canon(op["operationName"]) {
				out = append(out, c19Problem{Detail: fmt.Sprintf("step %d operation %d: operationName changed", s, i)})
			}
			// position → part
			at := map[string][]c19Part{}
			for key, positions := range call.Map {
				p, ok := call.Parts[key]
				if !ok {
					out = append(out, c19Problem{Detail: fmt.Sprintf("step %d operation %d: map names part %s that was not sent", s, i, key)})
					continue
				}
				for _, pos := range positions {
					at[normPos(strings.Split(pos, "."))] = append(at[normPos(strings.Split(pos, "."))], p)
				}
			}
			if len(call.Parts) != len(call.Map) {
				out = append(out, c19Problem{Detail: fmt.Sprintf("step %d operation %d: %d parts for %d map entries", s, i, len(call.Parts), len(call.Map))})
			}
			// deliveries in a deterministic order; an empty part is the known gap only if another
			// part of the same upload carried the bytes (same request earlier, or an earlier step)
			type pend struct {
				w c19Want
				p c19Part
			}
			var empties []pend
			for _, w := range want {
				f := cl.FileBy[w.Key]
				ps := at[w.Pos]
				delete(at, w.Pos)
				consumedBy[posID(w)]++
				if len(ps) != 1 {
					cls := ""
					if len(ps) == 0 && s > 0 && w.Deep && consumedBy[posID(w)] > 1 {
						cls = c19ClassNested
					}
					out = append(out, c19Problem{Class: cls, Detail: fmt.Sprintf("step %d operation %d: %d parts at %s (file %s)", s, i, len(ps), w.Pos, w.Key)})
					continue
				}
				p := ps[0]
				partsSent[w.Key]++
				switch {
				case p.Filename != f.Filename:
					out = append(out, c19Problem{Detail: fmt.Sprintf("step %d operation %d: part at %s has file name %q, the client sent %q", s, i, w.Pos, p.Filename, f.Filename)})
				case bytes.Equal(p.Data, f.Data):
					if len(f.Data) > 0 {
						fullSent[w.Key]++
					}
				case len(p.Data) == 0:
					empties = append(empties, pend{w, p})
				default:
					out = append(out, c19Problem{Detail: fmt.Sprintf("step %d operation %d: part at %s has %d bytes that are not the file's %d bytes", s, i, w.Pos, len(p.Data), len(f.Data))})
				}
			}
			for _, e := range empties {
				cls := ""
				if fullSent[e.w.Key] == 1 && partsSent[e.w.Key] > 1 {
					cls = c19ClassShared
				}
				out = append(out, c19Problem{Class: cls, Detail: fmt.Sprintf("step %d operation %d: part at %s (file %s, %q) arrived empty; the file has %d bytes", s, i, e.w.Pos, e.w.Key, e.p.Filename, len(cl.FileBy[e.w.Key].Data))})
			}
			for pos := range at {
				out = append(out, c19Problem{Detail: fmt.Sprintf("step %d operation %d: a part was sent at %s, where the client put no file", s, i, pos)})
			}
		}
		for q := range byQuery {
			out = append(out, c19Problem{Detail: fmt.Sprintf("step %d: multipart call for an operation the client did not send: %s", s, clip(q, 60))})
		}
		if len(plain) > len(cl.Ops) {
			out = append(out, c19Problem{Detail: fmt.Sprintf("step %d: JSON call carries %d operations, the client sent %d", s, len(plain), len(cl.Ops))})
		}
	}
	return out
}

// ---- canonical forms for the model comparison

type c19CanonCall struct {
	Kind  string         `json:"kind"`
	Req   int            `json:"req"`
	Vars  interface{}    `json:"vars"`
	Parts []string       `json:"parts,omitempty"` // "position <- file name"
	Fresh map[string]int `json:"fresh,omitempty"` // file name → parts carrying the bytes (non-empty files only)
}

func c19CanonImpl(cs c19Case, cl c19Client, calls []c19Call) []c19CanonCall {
	reqOf := map[string]int{}
	for i, op := range cl.Ops {
		q, _ := op["query"].(string)
		reqOf[q] = i
	}
	byName := map[string]mpFile{}
	for _, f := range cs.Files {
		byName[f.Filename] = f
	}
	var out []c19CanonCall
	for _, c := range calls {
		if c.Multipart {
			cc := c19CanonCall{Kind: "multipart", Req: reqOf[c.Query], Vars: canonGo(c.Variables), Fresh: map[string]int{}}
			for key, positions := range c.Map {
				p := c.Parts[key]
				for _, pos := range positions {
					cc.Parts = append(cc.Parts, pos+" <- "+p.Filename)
				}
				if f, ok := byName[p.Filename]; ok && len(f.Data) > 0 {
					if bytes.Equal(p.Data, f.Data) {
						cc.Fresh[p.Filename]++
					} else {
						cc.Fresh[p.Filename] += 0
					}
				}
			}
			sort.Strings(cc.Parts)
			out = append(out, cc)
		} else {
			for _, op := range c.Batch {
				q, _ := op["query"].(string)
				out = append(out, c19CanonCall{Kind: "json", Req: reqOf[q], Vars: canonGo(op["variables"])})
			}
		}
	}
	sort.SliceStable(out, func(i, j int) bool { return out[i].Req < out[j].Req })
	return out
}

func numInt(v interface{}) int {
	switch n := v.(type) {
	case json.Number:
		i, _ := n.Int64()
		return int(i)
	case float64:
		return int(n)
	}
	return -1
}

func c19CanonModel(step interface{}, entries []string, files map[string]formFile) []c19CanonCall {
	var out []c19CanonCall
	calls, _ := step.([]interface{})
	for _, c := range calls {
		m, _ := c.(map[string]interface{})
		if m["kind"] == "multipart" {
			cc := c19CanonCall{Kind: "multipart", Req: numInt(m["req"]), Fresh: map[string]int{}}
			if m["vars"] != nil {
				cc.Vars = canonModel(m["vars"], entries, files)
			}
			parts, _ := m["parts"].([]interface{})
			for _, p := range parts {
				pm, _ := p.(map[string]interface{})
				k := numInt(pm["file"])
				name, size := "?", 0
				if k >= 0 && k < len(entries) {
					name, size = files[entries[k]].Name, len(files[entries[k]].Data)
				}
				cc.Parts = append(cc.Parts, strings.Join(strList(pm["path"]), ".")+" <- "+name)
				if size > 0 {
					if fresh, _ := pm["fresh"].(bool); fresh {
						cc.Fresh[name]++
					} else {
						cc.Fresh[name] += 0
					}
				}
			}
			sort.Strings(cc.Parts)
			out = append(out, cc)
		} else {
			reqs, _ := m["reqs"].([]interface{})
			for _, r := range reqs {
				rm, _ := r.(map[string]interface{})
				cc := c19CanonCall{Kind: "json", Req: numInt(rm["req"])}
				if rm["vars"] != nil {
					cc.Vars = canonModel(rm["vars"], entries, files)
				}
				out = append(out, cc)
			}
		}
	}
	sort.SliceStable(out, func(i, j int) bool { return out[i].Req < out[j].Req })
	return out
}

var c19KnownRecorded = map[string]int{}

func c19Check(ctx *Ctx, idx int, cs c19Case) {
	report := cs // what a failure records (without run-time bytes)
	cs = cs.withBig()
	obs, hc := c19Run(cs)
	c19Judge(ctx, idx, cs, report, obs, hc)
}

func c19Judge(ctx *Ctx, idx int, cs, report c19Case, obs c19Obs, hc httpCase) {
	rep := ctx.Rep
	cl := c19ClientView(cs)
	injected := 0
	for _, w := range cl.Want {
		injected += len(w)
	}
	sizes := ""
	for _, f := range cs.Files {
		sizes += fmt.Sprintf("%s:%d,", f.Key, len(f.Data))
	}
	rep.Case(cs.Ops+"\x00"+cs.Map+"\x00"+sizes+fmt.Sprint(cs.Steps), obs.Parse.Kind == "ok" && injected > 0)
	if cs.Big > 0 {
		rep.Count(fmt.Sprintf("large file: %d bytes", cs.Big))
	}
	rep.Count("profile:" + map[bool]string{true: "safe", false: "wild"}[cs.Safe])
	rep.Count("parse:" + obs.Parse.Kind)
	rep.Count(fmt.Sprintf("steps:%d", len(cs.Steps)))
	if cl.Batch {
		rep.Count("mode:batch")
	} else {
		rep.Count("mode:single")
	}
	for _, ws := range cl.Want {
		for _, w := range ws {
			if w.Deep {
				rep.Count("position:nested-or-list")
			} else {
				rep.Count("position:top-level")
			}
		}
	}
	for _, n := range cl.UseCnt {
		if n > 1 {
			rep.Count("file at several positions")
		}
	}
	if obs.Parse.Kind == "ok" && injected > 1 {
		rep.Sample(map[string]interface{}{"label": cs.Label, "operations": clip(cs.Ops, 200), "map": clip(cs.Map, 160), "steps": cs.Steps,
			"downstream_calls_step0": func() int {
				if len(obs.Steps) > 0 {
					return len(obs.Steps[0])
				}
				return 0
			}()})
	}
	// ---- implementation vs property
	for _, p := range c19Oracle(cs, obs) {
		if cs.Safe {
			p.Class = "" // inside the region the partial theorems cover nothing is excused
		}
		if p.Class != "" {
			rep.Count("known:" + p.Class)
			// the report keeps a bounded number of failures: record a few witnesses per known
			// class (all are counted), so that they can never crowd out an unclassified failure
			c19KnownRecorded[p.Class]++
			if c19KnownRecorded[p.Class] > 3 {
				continue
			}
		}
		rep.Fail(hx.Failure{Kind: "property-fails", Class: p.Class, Detail: p.Detail, Case: report, Index: idx})
	}
	// ---- implementation vs model
	if ctx.Driver == nil {
		return
	}
	view := hc.decode()
	req := map[string]interface{}{"op": "c19.roundtrip"}
	for k, v := range view.Input {
		req[k] = v
	}
	steps := make([]interface{}, len(cs.Steps))
	for i, s := range cs.Steps {
		if s != nil {
			steps[i] = s
		}
	}
	req["steps"] = steps
	res, err := ctx.Driver.Call(req)
	if err != nil {
		rep.Fail(hx.Failure{Kind: "harness-error", Detail: err.Error(), Case: report, Index: idx})
		return
	}
	rep.Traces++
	mk, _ := res["kind"].(string)
	if mk != obs.Parse.Kind {
		// with several failing map entries the error/panic kind may depend on Go's map order; C07
		// compares over all orders — here only ok-vs-not-ok is compared
		if mk == "ok" || obs.Parse.Kind == "ok" {
			rep.Fail(hx.Failure{Kind: "model-mismatch", Detail: "requests.Parse " + obs.Parse.Kind + " " + obs.Parse.Class + ", Model.Parse.parse " + mk, Case: report, Model: res, Index: idx})
		}
		return
	}
	if mk != "ok" || obs.Error != "" {
		return
	}
	entries := strList(res["entries"])
	msteps, _ := res["steps"].([]interface{})
	for s := range cs.Steps {
		var ms interface{}
		if s < len(msteps) {
			ms = msteps[s]
		}
		impl := hx.Canon(c19CanonImpl(cs, cl, obs.Steps[s]))
		model := hx.Canon(c19CanonModel(ms, entries, view.Files))
		if impl != model {
			rep.Fail(hx.Failure{Kind: "model-mismatch", Detail: fmt.Sprintf("step %d: downstream calls of MultiOpQueryer.Query differ from Model.Upload.sendStep", s),
				Case: report, Impl: clip(impl, 900), Model: clip(model, 900), Index: idx})
			return
		}
	}
}

// ---------------------------------------------------------------------------------------------
// generator

type c19Pos struct {
	Path string // variables.<…>
	Top  string
}

func c19Scalar(r *hx.Rand) jv {
	return hx.Pick(r, []jv{jStr("x"), jStr(""), jNum("1"), jNum("-3"), jNum("2.5"), jBool(true), jNull(), jStr("a.b"), jArr(jNum("1"), jStr("y")), jObj(kv("k", jStr("v")), kv("n", jNull()))})
}

// c19Tree: a variables object with null leaves at top-level, nested-object and list positions.
func c19Tree(r *hx.Rand) (jv, []c19Pos) {
	o := jObj()
	var pos []c19Pos
	names := []string{"file", "files", "input", "doc", "note", "items", "meta"}
	perm := r.Perm(len(names))
	n := r.Range(1, 5)
	for _, pi := range perm[:n] {
		name := names[pi]
		switch r.Intn(7) {
		case 0, 1:
			o = o.with(name, jNull())
			pos = append(pos, c19Pos{"variables." + name, name})
		case 2:
			k := r.Range(1, 4)
			xs := make([]jv, k)
			for i := range xs {
				xs[i] = jNull()
				pos = append(pos, c19Pos{fmt.Sprintf("variables.%s.%d", name, i), name})
			}
			o = o.with(name, jArr(xs...))
		case 3:
			o = o.with(name, jObj(kv("title", jStr("t")), kv("attachment", jNull())))
			pos = append(pos, c19Pos{"variables." + name + ".attachment", name})
		case 4:
			o = o.with(name, jObj(kv("a", jObj(kv("b", jNull()), kv("list", jArr(jNull(), jNull())))), kv("z", jNum("7"))))
			pos = append(pos, c19Pos{"variables." + name + ".a.b", name}, c19Pos{"variables." + name + ".a.list.0", name}, c19Pos{"variables." + name + ".a.list.1", name})
		default:
			o = o.with(name, c19Scalar(r))
		}
	}
	return o, pos
}

func c19Gen(r *hx.Rand, safe bool) c19Case {
	batch := r.Chance(1, 2)
	nreq := 1
	if batch {
		nreq = r.Range(1, 4)
	}
	var reqs []jv
	type fullPos struct {
		path string
		top  string
		req  int
	}
	var positions []fullPos
	tops := map[string]bool{}
	for i := 0; i < nreq; i++ {
		tree, pos := c19Tree(r)
		if r.Chance(1, 5) {
			tree, pos = jObj(kv("note", c19Scalar(r))), nil // an operation without any upload slot
		}
		q := jObj(kv("query", jStr(fmt.Sprintf("mutation R%d($file: Upload) { upload(file: $file) }", i))), kv("variables", tree))
		if r.Chance(1, 3) {
			q = q.with("operationName", jStr(fmt.Sprintf("R%d", i)))
		}
		reqs = append(reqs, q)
		for _, p := range pos {
			path := p.Path
			if batch {
				path = strconv.Itoa(i) + "." + path
			}
			positions = append(positions, fullPos{path, p.Top, i})
			tops[p.Top] = true
		}
		for _, m := range tree.obj {
			tops[m.k] = true
		}
	}
	cs := c19Case{Safe: safe}
	if batch {
		cs.Ops = jArr(reqs...).String()
	} else {
		cs.Ops = reqs[0].String()
	}
	nfiles := r.Range(1, 4)
	if nfiles > len(positions) {
		nfiles = len(positions)
	}
	perm := r.Perm(len(positions))
	next := 0
	var mapKVs []jkv
	var usedTops []string
	for k := 0; k < nfiles; k++ {
		data := make([]byte, hx.Pick(r, []int{0, 1, 7, 64, 1000, 5000}))
		for i := range data {
			data[i] = byte(r.Intn(256))
		}
		cs.Files = append(cs.Files, mpFile{Key: strconv.Itoa(k), Filename: fmt.Sprintf("upload-%d%s", k, hx.Pick(r, []string{".bin", ".txt", " copy.pdf", "-é.png", "%20report.pdf", " 100%25-cotton.png", "+a&b=c.txt", ";v=1.dat"})), Data: data})
		np := 1
		if !safe && r.Chance(1, 3) {
			np = r.Range(2, 3) // one file used at several positions
		}
		var paths []jv
		for j := 0; j < np && next < len(perm); j++ {
			p := positions[perm[next]]
			next++
			path := p.path
			if !safe && r.Chance(1, 12) { // a list index written differently
				parts := strings.Split(path, ".")
				if _, err := strconv.Atoi(parts[len(parts)-1]); err == nil {
					parts[len(parts)-1] = hx.Pick(r, []string{"+", "0"}) + parts[len(parts)-1]
					path = strings.Join(parts, ".")
				}
			}
			paths = append(paths, jStr(path))
			usedTops = append(usedTops, p.top)
		}
		mapKVs = append(mapKVs, kv(strconv.Itoa(k), jArr(paths...)))
	}
	if len(mapKVs) == 0 {
		// no slot at all: send a file nobody uses and a map with an empty list (Parse accepts it)
		cs.Files = append(cs.Files, mpFile{Key: "0", Filename: "unused.bin", Data: []byte("u")})
		mapKVs = append(mapKVs, kv("0", jArr()))
	}
	cs.Map = jObj(mapKVs...).String()
	// steps
	cs.Steps = [][]string{nil}
	var allTops []string
	for t := range tops {
		allTops = append(allTops, t)
	}
	sort.Strings(allTops)
	switch r.Intn(4) {
	case 0: // a selection of variables
		var sel []string
		for _, t := range allTops {
			if r.Chance(2, 3) {
				sel = append(sel, t)
			}
		}
		if sel == nil {
			sel = []string{}
		}
		cs.Steps = [][]string{sel}
	case 1: // the owning step, then a step that uses none of the upload variables
		var rest []string
		for _, t := range allTops {
			if indexOfStr(usedTops, t) < 0 {
				rest = append(rest, t)
			}
		}
		if rest == nil {
			rest = []string{}
		}
		cs.Steps = [][]string{nil, rest}
	}
	if !safe && r.Chance(1, 2) { // a second step that uses the same variables again
		cs.Steps = append(cs.Steps, nil)
	}
	cs.Label = fmt.Sprintf("c19/%s/%s", map[bool]string{true: "safe", false: "wild"}[safe], map[bool]string{true: "batch", false: "single"}[batch])
	return cs
}

func c19Corpus() []c19Case {
	f := func(keys ...string) []mpFile {
		out := mpFiles(keys...)
		for i := range out {
			out[i].Data = []byte("bytes of file " + out[i].Key)
		}
		return out
	}
	return []c19Case{
		{Label: "corpus/top-level", Safe: true, Ops: `{"query":"mutation R0($file: Upload){ upload(file: $file) }","variables":{"file":null,"note":"n"}}`, Map: `{"0":["variables.file"]}`, Files: f("0"), Steps: [][]string{nil}},
		{Label: "corpus/nested-and-list", Safe: true, Ops: `{"query":"mutation R0 { inc }","variables":{"input":{"attachment":null,"title":"t"},"files":[null,null,null]}}`,
			Map: `{"0":["variables.input.attachment"],"1":["variables.files.2"],"2":["variables.files.0"]}`, Files: f("0", "1", "2"), Steps: [][]string{nil}},
		{Label: "corpus/batch", Safe: true, Ops: `[{"query":"mutation R0 { inc }","variables":{"file":null}},{"query":"mutation R1 { inc }","variables":{"x":1}},{"query":"mutation R2 { inc }","variables":{"doc":{"a":{"b":null}}},"operationName":"R2"}]`,
			Map: `{"0":["0.variables.file"],"1":["2.variables.doc.a.b"]}`, Files: f("0", "1"), Steps: [][]string{nil}},
		{Label: "corpus/owner-only", Safe: true, Ops: `{"query":"mutation R0 { inc }","variables":{"file":null,"note":"n","meta":{"k":[1,2]}}}`, Map: `{"0":["variables.file"]}`, Files: f("0"),
			Steps: [][]string{{"file"}, {"note", "meta"}}},
		{Label: "corpus/empty-file", Safe: true, Ops: `{"query":"mutation R0 { inc }","variables":{"file":null}}`, Map: `{"0":["variables.file"]}`,
			Files: []mpFile{{Key: "0", Filename: "empty.bin", Data: []byte{}}}, Steps: [][]string{nil}},
		// larger than net/http's in-memory limit for multipart forms (32 MiB): the upload is spilled to a temporary file
		{Label: "corpus/large-file-spilled-to-disk", Safe: true, Big: 32<<20 + 4096, Ops: `{"query":"mutation R0($file: Upload){ upload(file: $file) }","variables":{"file":null}}`, Map: `{"0":["variables.file"]}`,
			Files: []mpFile{{Key: "0", Filename: "large.bin"}}, Steps: [][]string{nil}},
		{Label: "corpus/one-mebibyte", Safe: true, Big: 1 << 20, Ops: `{"query":"mutation R0($file: Upload){ upload(file: $file) }","variables":{"file":null}}`, Map: `{"0":["variables.file"]}`,
			Files: []mpFile{{Key: "0", Filename: "mib.bin"}}, Steps: [][]string{nil}},
		{Label: "corpus/service-behind-a-redirect", Safe: true, Redirect: true, Ops: `{"query":"mutation R0($file: Upload){ upload(file: $file) }","variables":{"file":null,"note":"n"}}`, Map: `{"0":["variables.file"]}`, Files: f("0"), Steps: [][]string{nil}},
		{Label: "corpus/batch-behind-a-redirect", Safe: true, Redirect: true, Ops: `[{"query":"mutation R0 { inc }","variables":{"file":null}},{"query":"mutation R1 { inc }","variables":{"x":1}}]`,
			Map: `{"0":["0.variables.file"]}`, Files: f("0"), Steps: [][]string{nil}},
		// pinned witnesses of the two open findings
		{Label: "corpus/shared-file", Ops: `{"query":"mutation R0 { inc }","variables":{"a":null,"b":null}}`, Map: `{"0":["variables.a","variables.b"]}`, Files: f("0"), Steps: [][]string{nil}},
		{Label: "corpus/shared-file-two-requests", Ops: `[{"query":"mutation R0 { inc }","variables":{"a":null}},{"query":"mutation R1 { inc }","variables":{"a":null}}]`, Map: `{"0":["0.variables.a","1.variables.a"]}`, Files: f("0"), Steps: [][]string{nil}},
		{Label: "corpus/top-level-two-steps", Ops: `{"query":"mutation R0 { inc }","variables":{"file":null}}`, Map: `{"0":["variables.file"]}`, Files: f("0"), Steps: [][]string{nil, nil}},
		{Label: "corpus/nested-two-steps", Ops: `{"query":"mutation R0 { inc }","variables":{"in":{"f":null}}}`, Map: `{"0":["variables.in.f"]}`, Files: f("0"), Steps: [][]string{nil, nil}},
		// malformed maps: the property says nothing about the answer, but injection must not panic (C19_inject_total)
		{Label: "corpus/negative-list-index", Ops: `{"query":"mutation R0 { inc }","variables":{"files":[null]}}`, Map: `{"0":["variables.files.-1"]}`, Files: f("0"), Steps: [][]string{nil}},
		{Label: "corpus/batch-path-index-only", Ops: `[{"query":"mutation R0 { inc }","variables":{"file":null}}]`, Map: `{"0":["0"]}`, Files: f("0"), Steps: [][]string{nil}},
		{Label: "corpus/batch-index-out-of-range", Ops: `[{"query":"mutation R0 { inc }","variables":{"file":null}}]`, Map: `{"0":["3.variables.file"]}`, Files: f("0"), Steps: [][]string{nil}},
		{Label: "corpus/list-two-steps", Ops: `{"query":"mutation R0 { inc }","variables":{"files":[null,null]}}`, Map: `{"0":["variables.files.1"]}`, Files: f("0"), Steps: [][]string{{"files"}, {"files"}}},
	}
}

// c19BarrierRT holds every downstream call until n calls have arrived (or a short wait elapsed) and
// only then lets the inner transport READ the body: uploads of concurrent client requests are in
// flight at the same time, as they are in the gateway (batch entries and plan steps run in parallel).
type c19BarrierRT struct {
	inner   *c19RT
	arrived *int32
	n       int32
}

func (b c19BarrierRT) RoundTrip(r *http.Request) (*http.Response, error) {
	atomic.AddInt32(b.arrived, 1)
	for k := 0; k < 400 && atomic.LoadInt32(b.arrived) < b.n; k++ {
		time.Sleep(500 * time.Microsecond)
	}
	return b.inner.RoundTrip(r)
}

// c19Concurrent: n independent single-file uploads sent downstream concurrently; each is judged
// alone with the same oracle and model comparison as a sequential case.
func c19Concurrent(ctx *Ctx, idx int, r *hx.Rand, n int) {
	cases := make([]c19Case, n)
	obs := make([]c19Obs, n)
	hcs := make([]httpCase, n)
	reqs := make([]*requests.ParseRequestResponse, n)
	for i := range cases {
		data := make([]byte, 200+r.Intn(3000))
		for k := range data {
			data[k] = byte(r.Intn(256))
		}
		cases[i] = c19Case{Label: fmt.Sprintf("concurrent/%d-of-%d", i, n), Safe: true,
			Ops:   fmt.Sprintf(`{"query":"mutation R%d($file: Upload){ upload(file: $file) }","variables":{"file":null,"n":%d}}`, i, i),
			Map:   `{"0":["variables.file"]}`,
			Files: []mpFile{{Key: "0", Filename: fmt.Sprintf("f%d.bin", i), Data: data}}, Steps: [][]string{nil}}
		hcs[i] = mpLayout{Ops: &cases[i].Ops, Map: &cases[i].Map, Files: cases[i].Files}.build(cases[i].Label)
		res, err := requests.Parse(hcs[i].request())
		if err != nil {
			ctx.Rep.Fail(hx.Failure{Kind: "harness-error", Detail: "concurrent stream: " + err.Error(), Case: cases[i], Index: idx})
			return
		}
		reqs[i] = res
		obs[i].Parse = parseObs{Kind: "ok", Batch: res.IsBatchMode}
	}
	var arrived int32
	var wg sync.WaitGroup
	for i := range cases {
		wg.Add(1)
		go func(i int) {
			defer wg.Done()
			rt := &c19RT{}
			q := queryer.NewMultiOpQueryer("http://svc/", 1).WithHTTPClient(&http.Client{Transport: c19BarrierRT{rt, &arrived, int32(n)}})
			inputs := make([]*requests.Request, len(reqs[i].Requests))
			for k, rq := range reqs[i].Requests {
				inputs[k] = stepRequest(rq, nil)
			}
			func() {
				defer func() {
					if p := recover(); p != nil {
						obs[i].Error = "Query panicked: " + fmt.Sprint(p)
					}
				}()
				if _, err := q.Query(inputs); err != nil {
					obs[i].Error = "Query failed: " + err.Error()
				}
			}()
			obs[i].Steps = append(obs[i].Steps, rt.calls)
		}(i)
	}
	wg.Wait()
	ctx.Rep.Count(fmt.Sprintf("concurrent uploads: %d at once", n))
	for i := range cases {
		c19Judge(ctx, idx+i, cases[i], cases[i], obs[i], hcs[i])
	}
}

// c19UploadFault: the service answers the multipart sub-request of an upload with something that
// is not a result (`null`, `{}`, errors). The failure must be reported, and the operation must
// not be sent a second time (as a plain JSON call with the file variable nulled).
func c19UploadFault(ctx *Ctx, idx int, cs c19Case, answer string) {
	cs = cs.withBig()
	hc := mpLayout{Ops: &cs.Ops, Map: &cs.Map, Files: cs.Files}.build(cs.Label)
	res, err := requests.Parse(hc.request())
	if err != nil || len(cs.Files) == 0 {
		return
	}
	rt := &c19RT{uploadAnswer: answer}
	q := queryer.NewMultiOpQueryer("http://svc/", 1000).WithHTTPClient(&http.Client{Transport: rt})
	inputs := make([]*requests.Request, len(res.Requests))
	for i, r := range res.Requests {
		inputs[i] = stepRequest(r, nil)
	}
	var qerr error
	pan := ""
	func() {
		defer func() {
			if p := recover(); p != nil {
				pan = fmt.Sprint(p)
			}
		}()
		_, qerr = q.Query(inputs)
	}()
	ctx.Rep.Case("upload-fault\x00"+answer+"\x00"+cs.Ops+"\x00"+cs.Map, true)
	ctx.Rep.Count("upload answered with " + answer)
	multipart, jsonOps := 0, 0
	for _, c := range rt.calls {
		if c.Multipart {
			multipart++
		} else {
			jsonOps += len(c.Batch)
		}
	}
	report := map[string]interface{}{"case": cs, "upload_answer": answer}
	switch {
	case pan != "":
		ctx.Rep.Fail(hx.Failure{Kind: "property-fails", Detail: "MultiOpQueryer.Query panicked when an upload was answered with " + answer + ": " + pan, Case: report, Index: idx})
	case multipart == 0:
		return // no file reached a position that is sent (nothing to judge)
	case qerr == nil:
		ctx.Rep.Fail(hx.Failure{Kind: "property-fails", Detail: "an upload sub-request answered with " + answer + " (no result) was reported as a success", Case: report, Index: idx})
	case multipart+jsonOps > len(inputs):
		ctx.Rep.Fail(hx.Failure{Kind: "property-fails", Detail: fmt.Sprintf("an upload answered with %s was sent again: %d operation(s), %d multipart call(s) + %d operation(s) in JSON calls", answer, len(inputs), multipart, jsonOps), Case: report, Index: idx})
	}
}

func runC19(ctx *Ctx) error {
	ctx.Rep.Rule = c19Rule
	idx := 0
	for _, cs := range c19Corpus() {
		c19Check(ctx, idx, cs)
		idx++
	}
	for k, rounds := 0, 6*ctx.Budget; k < rounds; k++ {
		r := ctx.Rand.Fork()
		c19Concurrent(ctx, 1000000+k*100, r, []int{2, 8, 32, 64}[k%4])
	}
	for k, n := 0, 200*ctx.Budget; k < n; k++ {
		r := ctx.Rand.Fork()
		cs := c19Gen(r, true)
		c19UploadFault(ctx, 2000000+k, cs, hx.Pick(r, []string{"null", "{}", `{"data":null}`, `{"errors":[{"message":"boom"}]}`, "[]", "not json"}))
	}
	safe, wild := 9000*ctx.Budget, 4000*ctx.Budget
	for k := 0; k < safe; k++ {
		c19Check(ctx, idx, c19Gen(ctx.Rand.Fork(), true))
		idx++
	}
	for k := 0; k < wild; k++ {
		c19Check(ctx, idx, c19Gen(ctx.Rand.Fork(), false))
		idx++
	}
	return nil
}
