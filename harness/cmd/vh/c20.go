package main

import (
	"encoding/json"
	"fmt"
	"runtime"
	"sort"
	"strings"
	"sync"
	"time"

	"github.com/buildbuildio/pebbles/common"
	"verif/harness/hx"
)

func init() {
	register("C20", runC20)
	registerReplay("C20", func(ctx *Ctx, raw json.RawMessage) error {
		var cs c20Case
		if err := json.Unmarshal(raw, &cs); err != nil {
			return err
		}
		for k := 0; k < 25; k++ { // schedule-dependent: repeat
			c20Check(ctx, k, cs)
		}
		return nil
	})
}

type c20Case struct {
	Ok       []bool `json:"ok"`
	MapDelay []int  `json:"map_delay_us"`
	RedDelay []int  `json:"reduce_delay_us"`
}

type c20Obs struct {
	Trace      [][]interface{} `json:"trace"`
	Acc        []int           `json:"acc"`
	Errs       []string        `json:"errs"`
	Hang       bool            `json:"hang,omitempty"`
	Panic      string          `json:"panic,omitempty"`
	Goroutines int             `json:"goroutines_left"`
}

func spin(us int) {
	if us <= 0 {
		return
	}
	if us%3 == 0 {
		runtime.Gosched()
	}
	time.Sleep(time.Duration(us) * time.Microsecond)
}

// c20Run drives the real common.AsyncMapReduce with instrumented closures.
func c20Run(cs c20Case) c20Obs {
	var mu sync.Mutex
	var trace [][]interface{}
	logEv := func(t string, i int) {
		mu.Lock()
		trace = append(trace, []interface{}{t, i})
		mu.Unlock()
	}
	n := len(cs.Ok)
	payload := make([]int, n)
	for i := range payload {
		payload[i] = i
	}
	base := runtime.NumGoroutine()
	type ret struct {
		acc  []int
		errs []string
		pan  string
	}
	done := make(chan ret, 1)
	go func() {
		var r ret
		defer func() {
			if p := recover(); p != nil {
				r.pan = fmt.Sprint(p)
			}
			done <- r
		}()
		acc, errs := common.AsyncMapReduce(payload, []int{},
			func(i int) (int, error) {
				logEv("mb", i)
				spin(cs.MapDelay[i])
				logEv("me", i)
				if !cs.Ok[i] {
					return 0, fmt.Errorf("e%d", i)
				}
				return i, nil
			},
			func(acc []int, v int) []int {
				logEv("rb", v)
				spin(cs.RedDelay[v])
				acc = append(acc, v)
				logEv("re", v)
				return acc
			})
		mu.Lock()
		trace = append(trace, []interface{}{"ret"})
		mu.Unlock()
		r.acc = acc
		for _, e := range errs {
			r.errs = append(r.errs, e.Message)
		}
	}()
	var obs c20Obs
	select {
	case r := <-done:
		obs.Acc, obs.Errs, obs.Panic = r.acc, r.errs, r.pan
	case <-time.After(5 * time.Second):
		obs.Hang = true
	}
	// goroutines started by the call must be gone (allow the scheduler a moment)
	left := 0
	for k := 0; k < 200; k++ {
		left = runtime.NumGoroutine() - base - 1 // -1: our own runner goroutine may still be exiting
		if left <= 0 {
			break
		}
		time.Sleep(500 * time.Microsecond)
	}
	if left < 0 {
		left = 0
	}
	obs.Goroutines = left
	mu.Lock()
	obs.Trace = append([][]interface{}(nil), trace...)
	mu.Unlock()
	return obs
}

// c20Oracle checks the property statement directly on the observed trace (independent of the model).
func c20Oracle(cs c20Case, o c20Obs) string {
	if o.Hang {
		return "helper did not return (hang)"
	}
	if o.Panic != "" {
		return "helper panicked: " + o.Panic
	}
	n := len(cs.Ok)
	mb, me, rb, re := make([]int, n), make([]int, n), make([]int, n), make([]int, n)
	open := -1
	seenRet := false
	var redOrder []int
	for _, ev := range o.Trace {
		t := ev[0].(string)
		if t == "ret" {
			seenRet = true
			continue
		}
		i := ev[1].(int)
		if seenRet {
			return fmt.Sprintf("event %s %d after the helper returned", t, i)
		}
		switch t {
		case "mb":
			mb[i]++
		case "me":
			me[i]++
			if mb[i] == 0 {
				return "mapEnd before mapBegin"
			}
		case "rb":
			if open != -1 {
				return fmt.Sprintf("reduce of %d started while reduce of %d in progress", i, open)
			}
			open = i
			rb[i]++
		case "re":
			if open != i {
				return "reduceEnd without matching reduceBegin"
			}
			open = -1
			re[i]++
			redOrder = append(redOrder, i)
		}
	}
	if !seenRet {
		return "no return event"
	}
	var wantErrs []string
	for i := 0; i < n; i++ {
		if mb[i] != 1 || me[i] != 1 {
			return fmt.Sprintf("item %d mapped %d times", i, mb[i])
		}
		want := 0
		if cs.Ok[i] {
			want = 1
		} else {
			wantErrs = append(wantErrs, fmt.Sprintf("e%d", i))
		}
		if rb[i] != want || re[i] != want {
			return fmt.Sprintf("item %d reduced %d times, want %d", i, re[i], want)
		}
	}
	if !hx.EqInts(redOrder, o.Acc) {
		return fmt.Sprintf("returned accumulator %v differs from reduce order %v", o.Acc, redOrder)
	}
	got := hx.SortedStrings(o.Errs)
	sort.Strings(wantErrs)
	if strings.Join(got, ",") != strings.Join(wantErrs, ",") {
		return fmt.Sprintf("returned errors %v, want %v", got, wantErrs)
	}
	if o.Goroutines > 0 {
		return fmt.Sprintf("%d goroutine(s) left behind", o.Goroutines)
	}
	return ""
}

// c20Check runs one case: oracle (impl vs property) and trace conformance (impl vs model).
var c20Hung bool

func c20Check(ctx *Ctx, idx int, cs c20Case) {
	if c20Hung {
		return // a hang was already found
	}
	o := c20Run(cs)
	if o.Hang {
		c20Hung = true
	}
	pat := make([]byte, len(cs.Ok))
	for i, b := range cs.Ok {
		pat[i] = '0'
		if b {
			pat[i] = '1'
		}
	}
	key := string(pat) + "|" + hx.Canon(o.Trace)
	ctx.Rep.Case(key, len(cs.Ok) >= 2)
	ctx.Rep.Count(fmt.Sprintf("n=%d", len(cs.Ok)))
	if len(ctx.Rep.Samples) < 3 && len(cs.Ok) >= 2 {
		ctx.Rep.Sample(map[string]interface{}{"case": cs, "trace": o.Trace, "acc": o.Acc, "errs": o.Errs})
	}
	if msg := c20Oracle(cs, o); msg != "" {
		ctx.Rep.Fail(hx.Failure{Kind: "property-fails", Detail: msg, Case: cs, Impl: o, Index: idx})
		return
	}
	if ctx.Driver == nil {
		return
	}
	if len(cs.Ok) > 300 {
		// the model's trace acceptor works on lists (quadratic in the trace length): very large
		// inputs are judged by the property oracle above only
		ctx.Rep.Count("large input: oracle only (trace not replayed on the model)")
		return
	}
	res, err := ctx.Driver.Call(map[string]interface{}{"op": "c20.accept", "ok": cs.Ok, "trace": o.Trace})
	if err != nil {
		ctx.Rep.Fail(hx.Failure{Kind: "harness-error", Detail: err.Error(), Case: cs, Index: idx})
		return
	}
	ctx.Rep.Traces++
	if acc, _ := res["accepted"].(bool); !acc {
		ctx.Rep.Fail(hx.Failure{Kind: "model-mismatch", Detail: "observed trace is not a run of the model", Case: cs, Impl: o, Model: res, Index: idx})
		return
	}
	macc := hx.NumInts(res["acc"])
	if !hx.EqInts(macc, o.Acc) || res["final"] != true || res["fault"] != false {
		ctx.Rep.Fail(hx.Failure{Kind: "model-mismatch", Detail: "model end state differs from returned values", Case: cs, Impl: o, Model: res, Index: idx})
	}
}

func c20Gen(r *hx.Rand, maxN int) c20Case {
	n := r.Range(0, maxN)
	if r.Chance(1, 10) {
		n = r.Range(0, 2)
	}
	cs := c20Case{Ok: make([]bool, n), MapDelay: make([]int, n), RedDelay: make([]int, n)}
	mode := r.Intn(4) // 0 all ok, 1 all fail, 2-3 mixed
	for i := 0; i < n; i++ {
		switch mode {
		case 0:
			cs.Ok[i] = true
		case 1:
			cs.Ok[i] = false
		default:
			cs.Ok[i] = r.Chance(2, 3)
		}
		if r.Chance(1, 2) {
			cs.MapDelay[i] = r.Intn(300)
		}
		if r.Chance(1, 2) {
			cs.RedDelay[i] = r.Intn(300)
		}
	}
	return cs
}

func runC20(ctx *Ctx) error {
	ctx.Rep.Rule = "case = (success/error pattern, seeded delays in map/reduce closures) run through the real common.AsyncMapReduce; " +
		"distinct = distinct (pattern, observed event trace); non-trivial = at least 2 items"
	idx := 0
	// corpus: boundary shapes first
	for _, ok := range [][]bool{{}, {true}, {false}, {true, true}, {false, false}, {true, false}, {false, true, false, true}} {
		cs := c20Case{Ok: ok, MapDelay: make([]int, len(ok)), RedDelay: make([]int, len(ok))}
		for i := range ok {
			cs.RedDelay[i] = 200
		}
		c20Check(ctx, idx, cs)
		idx++
	}
	// large inputs: any fixed internal limit (worker pool, semaphore, channel buffer) shows up only
	// past its threshold, so sizes around powers of two and GOMAXPROCS are always included
	bigs := []int{runtime.GOMAXPROCS(0) + 1, 33, 65, 129, 257, 1025}
	if ctx.Thorough() {
		bigs = append(bigs, 2049, 4097, 10001)
	}
	for _, n := range bigs {
		for mode := 0; mode < 3; mode++ {
			r := ctx.Rand.Fork()
			cs := c20Case{Ok: make([]bool, n), MapDelay: make([]int, n), RedDelay: make([]int, n)}
			for i := 0; i < n; i++ {
				cs.Ok[i] = mode == 0 || (mode == 2 && r.Chance(2, 3))
				if r.Chance(1, 8) {
					cs.MapDelay[i] = r.Intn(50)
				}
			}
			ctx.Rep.Count(fmt.Sprintf("large n=%d", n))
			c20Check(ctx, idx, cs)
			idx++
		}
	}
	maxN, cases := 8, 300
	if ctx.Thorough() {
		maxN, cases = 64, 6000
		// all success/error patterns for n <= 6
		for n := 0; n <= 6; n++ {
			for bits := 0; bits < 1<<uint(n); bits++ {
				r := ctx.Rand.Fork()
				cs := c20Case{Ok: make([]bool, n), MapDelay: make([]int, n), RedDelay: make([]int, n)}
				for i := 0; i < n; i++ {
					cs.Ok[i] = bits&(1<<uint(i)) != 0
					cs.MapDelay[i] = r.Intn(100)
					cs.RedDelay[i] = r.Intn(100)
				}
				c20Check(ctx, idx, cs)
				idx++
			}
		}
	}
	// generated cases (sequential: the goroutine-leak check counts goroutines of the process)
	for k := 0; k < cases; k++ {
		c20Check(ctx, idx+k, c20Gen(ctx.Rand.Fork(), maxN))
	}
	// model-side exhaustive exploration of small configurations (sanity of the executable model)
	if ctx.Driver != nil {
		for _, ok := range [][]bool{{}, {true}, {false}, {true, false}, {true, true, false}} {
			res, err := ctx.Driver.Call(map[string]interface{}{"op": "c20.explore", "ok": ok})
			if err != nil {
				return err
			}
			if res["bad"] != nil {
				ctx.Rep.Fail(hx.Failure{Kind: "model-mismatch", Detail: fmt.Sprintf("model exploration found %v", res["bad"]), Case: ok})
			}
		}
	}
	return nil
}
