package main

import "os"

// flushReport writes the report gathered so far to the --out path, so that the failures found
// (with their replayable cases) survive if the real code later kills the process (a panic in a
// goroutine of the gateway cannot be recovered by the harness). Called after a failure is recorded.
func flushReport(ctx *Ctx) {
	for i, a := range os.Args {
		if a == "--out" && i+1 < len(os.Args) {
			ctx.Rep.Write(os.Args[i+1])
			return
		}
		if len(a) > 6 && a[:6] == "--out=" {
			ctx.Rep.Write(a[6:])
			return
		}
	}
}
