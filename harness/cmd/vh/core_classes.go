package main

import (
	"strings"

	"github.com/vektah/gqlparser/v2/ast"

	"verif/harness/fed"
)

// Known-finding classes of the planner/executor family = a DECIDABLE INPUT CLASS (a predicate on
// the operation / schema / data, evaluated on the case itself, not on generator tags) ∧ a FAILURE
// MODE. A failure outside every class, or inside a class but failing differently, is a violation.

type opFacts struct {
	DirectiveVariable bool // a variable is used inside a directive
	Directive         bool // any @skip/@include
	RootTypename      bool // __typename selected at the operation root
	AliasedHelper     bool // id/__typename aliased away, or another field aliased to id/__typename
	DuplicateKey      bool // a response key occurs twice at one level (through fragments), or an alias equals a sibling field's name
	MultiSpread       bool // a named fragment is spread more than once
	PlainNodeRoot     bool // node(id:) at the root selecting plain fields (not only inline fragments)
	NodeRoot          bool
	Abstract          bool // a field of interface/union type (other than node) is selected
	VarDefault        bool // a variable declares a default value
	VarNamedID        bool // a client variable is called `id`, like the executor's own $id of child steps
	DirectiveOnHelper bool // a client-selected field named id/__typename carries a directive (@skip/@include)
	FragDirectiveVar  bool // a variable is used inside a directive of an inline fragment / fragment spread
	EmptyListDefault  bool // a variable's declared default is, or contains, an EMPTY list literal (`= []`, `= {tags: []}`)
}

// hasEmptyList: the value is an empty list literal or contains one (through lists and input objects).
func hasEmptyList(v *ast.Value) bool {
	if v == nil {
		return false
	}
	if v.Kind == ast.ListValue && len(v.Children) == 0 {
		return true
	}
	for _, c := range v.Children {
		if hasEmptyList(c.Value) {
			return true
		}
	}
	return false
}

func analyseOp(schema *ast.Schema, doc *ast.QueryDocument, op *ast.OperationDefinition) opFacts {
	var f opFacts
	for _, vd := range op.VariableDefinitions {
		if vd.DefaultValue != nil {
			f.VarDefault = true
			if hasEmptyList(vd.DefaultValue) {
				f.EmptyListDefault = true
			}
		}
		if vd.Variable == "id" {
			f.VarNamedID = true
		}
	}
	spreads := map[string]int{}
	var dirs func(ds ast.DirectiveList) bool
	dirs = func(ds ast.DirectiveList) (usesVariable bool) {
		for _, d := range ds {
			f.Directive = true
			for _, a := range d.Arguments {
				if a.Value != nil && a.Value.Kind == ast.Variable {
					f.DirectiveVariable = true
					usesVariable = true
				}
			}
		}
		return usesVariable
	}
	var walk func(ss ast.SelectionSet, root bool)
	var keysAt func(ss ast.SelectionSet, keys map[string]string, names map[string]bool)
	keysAt = func(ss ast.SelectionSet, keys map[string]string, names map[string]bool) {
		for _, s := range ss {
			switch s := s.(type) {
			case *ast.Field:
				k := s.Alias
				if k == "" {
					k = s.Name
				}
				if _, dup := keys[k]; dup {
					f.DuplicateKey = true
				}
				keys[k] = s.Name
				names[s.Name] = true
			case *ast.InlineFragment:
				keysAt(s.SelectionSet, keys, names)
			case *ast.FragmentSpread:
				if s.Definition != nil {
					keysAt(s.Definition.SelectionSet, keys, names)
				}
			}
		}
	}
	walk = func(ss ast.SelectionSet, root bool) {
		keys, names := map[string]string{}, map[string]bool{}
		keysAt(ss, keys, names)
		for k, n := range keys {
			if k != n && names[k] {
				f.DuplicateKey = true // alias equal to a sibling's field name
			}
			if (n == "id" || n == "__typename") && k != n {
				f.AliasedHelper = true
			}
			if (k == "id" || k == "__typename") && k != n {
				f.AliasedHelper = true
			}
		}
		for _, s := range ss {
			switch s := s.(type) {
			case *ast.Field:
				dirs(s.Directives)
				if (s.Name == "id" || s.Name == "__typename") && len(s.Directives) > 0 {
					f.DirectiveOnHelper = true
				}
				if root && s.Name == "__typename" {
					f.RootTypename = true
				}
				if root && s.Name == "node" {
					f.NodeRoot = true
					for _, c := range s.SelectionSet {
						if _, isFrag := c.(*ast.InlineFragment); !isFrag {
							f.PlainNodeRoot = true
						}
					}
				}
				if s.Definition != nil && s.Definition.Type != nil && !(root && s.Name == "node") {
					if d := schema.Types[s.Definition.Type.Name()]; d != nil && (d.Kind == ast.Interface || d.Kind == ast.Union) {
						f.Abstract = true
					}
				}
				walk(s.SelectionSet, false)
			case *ast.InlineFragment:
				if dirs(s.Directives) {
					f.FragDirectiveVar = true
				}
				walk(s.SelectionSet, root)
			case *ast.FragmentSpread:
				if dirs(s.Directives) {
					f.FragDirectiveVar = true
				}
				spreads[s.Name]++
				if spreads[s.Name] > 1 {
					f.MultiSpread = true
				}
				if s.Definition != nil && spreads[s.Name] == 1 {
					walk(s.Definition.SelectionSet, root)
				}
			}
		}
	}
	walk(op.SelectionSet, true)
	return f
}

type dataFacts struct {
	HashInID bool
}

func analyseData(d *fed.Data) dataFacts {
	var f dataFacts
	for id := range d.Entities {
		if strings.Contains(id, "#") {
			f.HashInID = true
		}
	}
	return f
}

// failureMode: coarse enum of how a C01 run failed.
func failureMode(invalid string, errs []string, dataDiffers bool) string {
	switch {
	case invalid != "":
		if strings.Contains(invalid, "is not defined") {
			return "invalid-subrequest/undefined-variable"
		}
		if strings.Contains(invalid, "conflict") {
			return "invalid-subrequest/field-conflict"
		}
		if strings.Contains(invalid, "Cannot query field") {
			return "invalid-subrequest/unknown-field"
		}
		if strings.Contains(invalid, "Expected {, found }") {
			// the sub-request does not even parse: a field or fragment printed without its selection set
			return "invalid-subrequest/empty-selection"
		}
		return "invalid-subrequest/other"
	case len(errs) > 0:
		e := errs[0]
		switch {
		case strings.Contains(e, "invalid URL escape"):
			return "error/internal-service-url"
		case strings.Contains(e, "could not find the id"):
			return "error/missing-id"
		case strings.Contains(e, "could not find id in path"):
			return "error/empty-id-in-path"
		case strings.Contains(e, "wasn't a map"):
			return "error/null-list-entry"
		case strings.Contains(e, "was not a list"), strings.Contains(e, "not an object"):
			return "error/shape"
		}
		return "error/other"
	case dataDiffers:
		return "wrong-data"
	}
	return ""
}

// c01Classes: (class id, input predicate, admitted failure modes), in priority order.
type c01ClassDef struct {
	id    string
	in    func(o opFacts, d dataFacts, shadow bool) bool
	modes []string
}

var c01Classes = []c01ClassDef{
	{"directive-variable-on-kept-fragment", func(o opFacts, d dataFacts, sh bool) bool { return o.FragDirectiveVar }, []string{"invalid-subrequest/undefined-variable"}},
	{"skipped-helper-id", func(o opFacts, d dataFacts, sh bool) bool { return o.DirectiveOnHelper }, []string{"error/missing-id", "wrong-data"}},
	{"directive-on-flattened-selection", func(o opFacts, d dataFacts, sh bool) bool { return o.Directive }, []string{"wrong-data"}},
	{"root-typename", func(o opFacts, d dataFacts, sh bool) bool { return o.RootTypename }, []string{"error/internal-service-url"}},
	{"aliased-helper", func(o opFacts, d dataFacts, sh bool) bool { return o.AliasedHelper }, []string{"error/missing-id", "invalid-subrequest/field-conflict", "wrong-data"}},
	{"duplicate-response-key", func(o opFacts, d dataFacts, sh bool) bool { return o.DuplicateKey }, []string{"wrong-data", "invalid-subrequest/field-conflict"}},
	{"plain-node-root", func(o opFacts, d dataFacts, sh bool) bool { return o.PlainNodeRoot }, []string{"wrong-data"}},
	{"node-root-fragment", func(o opFacts, d dataFacts, sh bool) bool { return o.NodeRoot }, []string{"invalid-subrequest/unknown-field", "error/internal-service-url", "wrong-data", "error/missing-id"}},
	{"abstract-type-selection", func(o opFacts, d dataFacts, sh bool) bool { return o.Abstract }, []string{"invalid-subrequest/unknown-field", "invalid-subrequest/empty-selection", "wrong-data", "error/missing-id"}},
	{"variable-named-id", func(o opFacts, d dataFacts, sh bool) bool { return o.VarNamedID }, []string{"invalid-subrequest/other", "wrong-data", "invalid-subrequest/undefined-variable"}},
}

func classify(o opFacts, d dataFacts, shadow bool, mode string) string {
	for _, c := range c01Classes {
		if !c.in(o, d, shadow) {
			continue
		}
		for _, m := range c.modes {
			if m == mode {
				return c.id
			}
		}
	}
	return ""
}
