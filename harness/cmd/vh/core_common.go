package main

import (
	"encoding/json"
	"fmt"
	"os"
	"path/filepath"
	"sort"
	"strings"

	"github.com/buildbuildio/pebbles/merger"
	"github.com/buildbuildio/pebbles/planner"
	"github.com/buildbuildio/pebbles/requests"
	"github.com/vektah/gqlparser/v2"
	"github.com/vektah/gqlparser/v2/ast"
	"github.com/vektah/gqlparser/v2/parser"

	"verif/harness/fed"
	"verif/harness/hx"
)

// ---------------------------------------------------------------------------------------------
// shared by the planner/executor checks (C01, C02, C06, C13)

// coreCase is self-contained: federation and data are regenerated from FedSeed + profile.
type coreCase struct {
	FedSeed  uint64                 `json:"fed_seed"`
	Abstract bool                   `json:"abstract"`
	WildData bool                   `json:"wild_data"`
	Query    string                 `json:"query"`
	Vars     map[string]interface{} `json:"variables,omitempty"`
	OpName   *string                `json:"operationName,omitempty"`
	Kind     string                 `json:"kind"`
	Features []string               `json:"features,omitempty"`
	Pinned   bool                   `json:"pinned,omitempty"`  // this exact input is answered correctly by the unchanged tree: a failure on it is never a known finding
	Sibling  string                 `json:"sibling,omitempty"` // non-empty: the document also holds `query Sibling {…}` and OpName selects the main operation
	// Fed, when present, replaces regeneration from FedSeed: failure records and corpus files
	// carry the federation itself, so they stay valid when the generators change.
	Fed *fedDump `json:"fed,omitempty"`
}

type fedDump struct {
	Spec *fed.Spec `json:"spec,omitempty"`
	SDLs []string  `json:"sdls,omitempty"` // hand-written service schemas (instead of Spec)
	Data *fed.Data `json:"data"`
}

type coreFed struct {
	F      *fed.Fed
	Merged *merger.MergeResult
}

func buildCoreFedCase(cs coreCase) (*coreFed, error) {
	if cs.Fed != nil && len(cs.Fed.SDLs) > 0 && cs.Fed.Data != nil {
		if cs.Fed.Data.Counters == nil {
			cs.Fed.Data.Counters = map[string]int{}
		}
		f, err := fed.FromSDL(cs.Fed.SDLs, cs.Fed.Data)
		if err != nil {
			return nil, err
		}
		mr, err := f.Merged()
		if err != nil {
			return nil, fmt.Errorf("merge: %w", err)
		}
		return &coreFed{F: f, Merged: mr}, nil
	}
	if cs.Fed != nil && cs.Fed.Spec != nil && cs.Fed.Data != nil {
		if cs.Fed.Data.Counters == nil {
			cs.Fed.Data.Counters = map[string]int{}
		}
		f, err := fed.Build(cs.Fed.Spec, cs.Fed.Data)
		if err != nil {
			return nil, err
		}
		mr, err := f.Merged()
		if err != nil {
			return nil, fmt.Errorf("merge: %w", err)
		}
		return &coreFed{F: f, Merged: mr}, nil
	}
	return buildCoreFed(cs.FedSeed, cs.Abstract, cs.WildData)
}

// withDump returns the case with its federation embedded (for failure records).
func withDump(cs coreCase, cf *coreFed) coreCase {
	if cs.Fed != nil && len(cs.Fed.SDLs) > 0 {
		return cs
	}
	cs.Fed = &fedDump{Spec: cf.F.Spec, Data: cf.F.Data}
	return cs
}

// ---------------------------------------------------------------------------------------------
// hand-written federation: an INTERFACE whose fields are declared by different services (the
// generator's interfaces have one home service). Every query of spreadInterfaceQueries is
// answered correctly by the unchanged tree, so these cases are PINNED: any failure on them is
// reported whatever class the operation's features fall in.

var spreadSDLs = []string{
	`interface Node { id: ID! }
interface Media { id: ID! title: String! }
type Book implements Node & Media { id: ID! title: String! pages: Int }
type Film implements Node & Media { id: ID! title: String! }
type Query { feed: [Media!]! top: Media node(id: ID!): Node }
`,
	`interface Node { id: ID! }
interface Media { id: ID! cover(size: Int): String! rating: Int }
type Book implements Node & Media { id: ID! cover(size: Int): String! rating: Int }
type Film implements Node & Media { id: ID! cover(size: Int): String! rating: Int runtime: Int }
type Query { node(id: ID!): Node }
`}

func spreadData() *fed.Data {
	sc := func(v interface{}) fed.Val { return fed.Val{Kind: "scalar", Scalar: v} }
	ref := func(id string) fed.Val { return fed.Val{Kind: "ref", Ref: id} }
	d := &fed.Data{Entities: map[string]*fed.Object{}, Roots: map[string]map[string]fed.Val{"Query": {}}, Counters: map[string]int{}}
	add := func(id, typ string, fields map[string]fed.Val) {
		d.Entities[id] = &fed.Object{Type: typ, ID: id, Fields: fields}
		d.Order = append(d.Order, id)
	}
	add("b1", "Book", map[string]fed.Val{"title": sc("Dune"), "pages": sc(412), "cover": sc("c-b1"), "rating": sc(5)})
	add("f1", "Film", map[string]fed.Val{"title": sc("Alien"), "cover": sc("c-f1"), "rating": sc(4), "runtime": sc(117)})
	add("b2", "Book", map[string]fed.Val{"title": sc("Emma"), "pages": sc(300), "cover": sc("c-b2"), "rating": fed.Null()})
	d.Roots["Query"]["feed"] = fed.Val{Kind: "list", List: []fed.Val{ref("b1"), ref("f1"), ref("b2")}}
	d.Roots["Query"]["top"] = ref("f1")
	return d
}

var spreadInterfaceQueries = []string{
	`{ feed { title } }`,
	`{ feed { cover } }`,
	`{ feed { title cover(size: 1) } }`,
	`{ feed { small: cover(size: 1) big: cover(size: 2) } }`,
	`{ feed { title small: cover(size: 1) big: cover(size: 2) rating } }`,
	`{ top { small: cover(size: 1) big: cover(size: 2) r: rating t: title } }`,
	`query($s: Int){ feed { a: cover(size: $s) b: cover(size: 2) } }`,
	`query($s: Int = 9){ top { a: cover(size: $s) b: cover c: cover(size: 3) } }`,
	`{ feed { id title rating } }`,
	`{ top { rating x: rating } }`,
	`{ feed { __typename title cover } }`,
	`{ feed { title ... on Book { pages } } }`,
	// not pinned: `{ feed { ... on Film { a: cover(size: 1) … runtime } title } }` fails on the unchanged
	// tree (finding C01-abstract-type-selection: `Cannot query field "node" on type "Book"`)
}

// a second hand-written federation: one interface declared identically by two services, each of
// which owns ONE of its implementations (and a root field returning the interface).
var splitImplSDLs = []string{
	`interface Node { id: ID! }
interface Media { id: ID! title: String! }
type Book implements Node & Media { id: ID! title: String! pages: Int }
type Query { books: [Media!]! node(id: ID!): Node }
`,
	`interface Node { id: ID! }
interface Media { id: ID! title: String! }
type Film implements Node & Media { id: ID! title: String! runtime: Int }
type Query { films: [Media!]! best: Media node(id: ID!): Node }
`}

func splitImplData() *fed.Data {
	d := spreadData()
	d.Roots["Query"] = map[string]fed.Val{
		"books": {Kind: "list", List: []fed.Val{{Kind: "ref", Ref: "b1"}, {Kind: "ref", Ref: "b2"}}},
		"films": {Kind: "list", List: []fed.Val{{Kind: "ref", Ref: "f1"}}},
		"best":  {Kind: "ref", Ref: "f1"},
	}
	return d
}

var splitImplQueries = []string{
	`{ books { title } }`,
	`{ films { title } }`,
	`{ books { title } films { title } }`,
	`{ best { id title } }`,
	`{ films { t: title ... on Film { runtime } } }`,
	`{ books { title ... on Book { pages } } best { title } }`,
}

func spreadInterfaceCases() []coreCase {
	var out []coreCase
	for _, q := range splitImplQueries {
		out = append(out, coreCase{Query: q, Kind: "query", Pinned: true, Features: []string{"directed:interface implementations in different services"},
			Fed: &fedDump{SDLs: splitImplSDLs, Data: splitImplData()}})
	}
	for _, q := range spreadInterfaceQueries {
		cs := coreCase{Query: q, Kind: "query", Pinned: true, Features: []string{"directed:interface spread over services"},
			Fed: &fedDump{SDLs: spreadSDLs, Data: spreadData()}}
		if strings.Contains(q, "$s: Int)") {
			cs.Vars = map[string]interface{}{"s": 7}
		}
		out = append(out, cs)
	}
	return out
}

// loadCorpus reads the pinned cases of a property from $VERIF_DIR/corpus/<prop>/*.json.
func loadCorpus(prop string) []coreCase {
	dir := os.Getenv("VERIF_DIR")
	if dir == "" {
		dir = "."
	}
	files, _ := filepath.Glob(filepath.Join(dir, "corpus", prop, "*.json"))
	sort.Strings(files)
	var out []coreCase
	for _, f := range files {
		b, err := os.ReadFile(f)
		if err != nil {
			continue
		}
		var rec struct {
			Case    *coreCase `json:"case"`
			Failure struct {
				Case *coreCase `json:"case"`
			} `json:"failure"`
		}
		if json.Unmarshal(b, &rec) == nil {
			if rec.Case != nil {
				out = append(out, *rec.Case)
			} else if rec.Failure.Case != nil {
				out = append(out, *rec.Failure.Case)
			}
		}
	}
	return out
}

func buildCoreFed(seed uint64, abstract, wildData bool) (*coreFed, error) {
	r := hx.NewRand(seed)
	o := fed.DefaultGen()
	o.Abstract = abstract
	o.Subs = false
	spec := fed.Generate(r, o)
	do := fed.DefaultData()
	if wildData {
		do.IDs = fed.IDWild
		do.NullObjElems = true
	}
	data := fed.GenData(r, spec, do)
	f, err := fed.Build(spec, data)
	if err != nil {
		return nil, err
	}
	mr, err := f.Merged()
	if err != nil {
		return nil, fmt.Errorf("merge: %w", err)
	}
	return &coreFed{F: f, Merged: mr}, nil
}

func tumToJSON(tm merger.TypeURLMap) []interface{} {
	names := make([]string, 0, len(tm))
	for k := range tm {
		names = append(names, k)
	}
	sort.Strings(names)
	out := make([]interface{}, 0, len(names))
	for _, n := range names {
		p := tm[n]
		fns := make([]string, 0, len(p.Fields))
		for f := range p.Fields {
			fns = append(fns, f)
		}
		sort.Strings(fns)
		fs := make([]interface{}, 0, len(fns))
		for _, f := range fns {
			fs = append(fs, map[string]interface{}{"name": f, "url": p.Fields[f]})
		}
		out = append(out, map[string]interface{}{"type": n, "fields": fs, "isNode": p.IsImplementsNode})
	}
	return out
}

// loadOp parses + validates the client operation against the merged schema and selects it the
// way gateway.queryHandler does.
func loadOp(schema *ast.Schema, query string, opName *string) (*ast.QueryDocument, *ast.OperationDefinition, error) {
	doc, gerr := gqlparser.LoadQuery(schema, query)
	if gerr != nil {
		return nil, nil, gerr
	}
	var op *ast.OperationDefinition
	if opName != nil {
		op = doc.Operations.ForName(*opName)
	} else if len(doc.Operations) == 1 {
		op = doc.Operations[0]
	}
	if op == nil {
		return doc, nil, fmt.Errorf("operation not selectable")
	}
	return doc, op, nil
}

// ---- normalisation of selection-set JSON (harness printer and driver printer share the shape)

func normSel(v interface{}, syntactic bool) interface{} {
	m, ok := v.(map[string]interface{})
	if !ok {
		return v
	}
	out := map[string]interface{}{}
	for k, x := range m {
		out[k] = x
	}
	switch m["k"] {
	case "f":
		alias, _ := m["alias"].(string)
		name, _ := m["name"].(string)
		if alias == name {
			alias = ""
		}
		out["alias"] = alias
		if ads, ok := m["argDefs"].([]interface{}); ok {
			n := make([]interface{}, 0, len(ads))
			for _, a := range ads {
				am, _ := a.(map[string]interface{})
				n = append(n, map[string]interface{}{"name": am["name"], "type": am["type"], "default": am["default"]})
			}
			out["argDefs"] = n
		}
		if syntactic {
			delete(out, "type")
			delete(out, "argDefs")
			out["args"] = stripKey(m["args"], "et")
			out["dirs"] = stripKey(m["dirs"], "et")
		}
	case "i", "s":
		if syntactic {
			delete(out, "pk")
			delete(out, "pn")
		}
	}
	if sub, ok := m["sub"].([]interface{}); ok {
		out["sub"] = normSels(sub, syntactic)
	}
	return out
}

// stripKey removes a key at every depth of a JSON value.
func stripKey(v interface{}, key string) interface{} {
	switch x := v.(type) {
	case map[string]interface{}:
		out := map[string]interface{}{}
		for k, e := range x {
			if k != key {
				out[k] = stripKey(e, key)
			}
		}
		return out
	case []interface{}:
		out := make([]interface{}, len(x))
		for i, e := range x {
			out[i] = stripKey(e, key)
		}
		return out
	}
	return v
}

func normSels(vs []interface{}, syntactic bool) []interface{} {
	out := make([]interface{}, 0, len(vs))
	for _, v := range vs {
		out = append(out, normSel(v, syntactic))
	}
	return out
}

func toGeneric(v interface{}) interface{} {
	b, _ := json.Marshal(v)
	var x interface{}
	d := json.NewDecoder(strings.NewReader(string(b)))
	d.UseNumber()
	d.Decode(&x)
	return x
}

// ---- the real plan as JSON in the driver's shape

func headerOfQueryString(qs string) map[string]interface{} {
	h := map[string]interface{}{"kind": "query", "name": nil, "varDecls": []interface{}{}}
	doc, err := parser.ParseQuery(&ast.Source{Input: qs})
	if err != nil || len(doc.Operations) != 1 {
		h["kind"] = "unparsable: " + qs
		return h
	}
	op := doc.Operations[0]
	h["kind"] = string(op.Operation)
	if op.Name != "" {
		h["name"] = op.Name
	}
	var decls []string
	for _, vd := range op.VariableDefinitions {
		decls = append(decls, "$"+vd.Variable+": "+vd.Type.String())
	}
	sort.Strings(decls)
	d := make([]interface{}, len(decls))
	for i, s := range decls {
		d[i] = s
	}
	h["varDecls"] = d
	return h
}

func realStepToJSON(s *planner.QueryPlanStep) map[string]interface{} {
	ip := make([]interface{}, 0, len(s.InsertionPoint))
	for _, p := range s.InsertionPoint {
		ip = append(ip, p)
	}
	vl := make([]interface{}, 0, len(s.VariablesList))
	for _, v := range s.VariablesList {
		vl = append(vl, v)
	}
	then := make([]interface{}, 0, len(s.Then))
	for _, t := range s.Then {
		then = append(then, realStepToJSON(t))
	}
	var opn interface{}
	if s.OperationName != nil {
		opn = *s.OperationName
	}
	return map[string]interface{}{"url": s.URL, "parentType": s.ParentType, "ip": ip,
		"sels":          normSels(toGeneric(hx.SelSetToJSON(s.SelectionSet)).([]interface{}), false),
		"variablesList": vl, "opName": opn, "header": headerOfQueryString(s.QueryString), "then": sortSteps(then)}
}

func sortSteps(steps []interface{}) []interface{} {
	sort.SliceStable(steps, func(i, j int) bool { return hx.Canon(steps[i]) < hx.Canon(steps[j]) })
	return steps
}

func normModelStep(v interface{}) interface{} {
	m, ok := v.(map[string]interface{})
	if !ok {
		return v
	}
	out := map[string]interface{}{}
	for k, x := range m {
		out[k] = x
	}
	if sels, ok := m["sels"].([]interface{}); ok {
		out["sels"] = normSels(sels, false)
	}
	if then, ok := m["then"].([]interface{}); ok {
		n := make([]interface{}, 0, len(then))
		for _, t := range then {
			n = append(n, normModelStep(t))
		}
		out["then"] = sortSteps(n)
	}
	return out
}

func scrubToJSON(sf planner.ScrubFields) []interface{} {
	out := []interface{}{}
	keys := make([]string, 0, len(sf))
	for k := range sf {
		keys = append(keys, k)
	}
	sort.Strings(keys)
	for _, k := range keys {
		tnames := make([]string, 0)
		for t := range sf[k] {
			tnames = append(tnames, t)
		}
		sort.Strings(tnames)
		for _, t := range tnames {
			fs := append([]string{}, sf[k][t]...)
			sort.Strings(fs)
			out = append(out, fmt.Sprintf("%s#%s=%s", k, t, strings.Join(fs, ",")))
		}
	}
	return out
}

func modelScrubToJSON(v interface{}) []interface{} {
	var lines []string
	arr, _ := v.([]interface{})
	for _, e := range arr {
		em, _ := e.(map[string]interface{})
		var path []string
		for _, p := range em["path"].([]interface{}) {
			path = append(path, p.(string))
		}
		for _, t := range em["types"].([]interface{}) {
			tm := t.(map[string]interface{})
			var fs []string
			for _, f := range tm["fields"].([]interface{}) {
				fs = append(fs, f.(string))
			}
			sort.Strings(fs)
			lines = append(lines, fmt.Sprintf("%s#%s=%s", strings.Join(path, "."), tm["type"], strings.Join(fs, ",")))
		}
	}
	sort.Strings(lines)
	out := make([]interface{}, len(lines))
	for i, l := range lines {
		out[i] = l
	}
	return out
}

// realPlan runs the real SequentialPlanner on the merged schema.
func realPlan(cf *coreFed, op *ast.OperationDefinition, cs coreCase) (*planner.QueryPlan, error) {
	var sp planner.SequentialPlanner
	return sp.Plan(&planner.PlanningContext{
		Operation:  op,
		Request:    &requests.Request{Query: cs.Query, Variables: cs.Vars, OperationName: cs.OpName},
		Schema:     cf.Merged.Schema,
		TypeURLMap: cf.Merged.TypeURLMap,
	})
}

// driverCtx is the common part of core.* driver requests.
func driverCtx(cf *coreFed, op *ast.OperationDefinition, cs coreCase) map[string]interface{} {
	svcs := make([]interface{}, 0, len(cf.F.Services))
	for _, s := range cf.F.Services {
		svcs = append(svcs, map[string]interface{}{"url": s.URL, "schema": hx.SchemaToJSON(s.Schema)})
	}
	var vars interface{}
	if cs.Vars != nil {
		vars = cs.Vars
	}
	return map[string]interface{}{"schema": hx.SchemaToJSON(cf.Merged.Schema), "tum": tumToJSON(cf.Merged.TypeURLMap),
		"services": svcs, "data": cf.F.Data.ToJSON(), "operation": hx.OpToJSON(op), "variables": vars}
}

// prune is the tolerated difference of C01: objects left empty are dropped, and so are non-empty
// lists consisting only of such objects.
func prune(v interface{}) interface{} {
	switch x := v.(type) {
	case map[string]interface{}:
		out := map[string]interface{}{}
		for k, e := range x {
			p := prune(e)
			if m, ok := p.(map[string]interface{}); ok && len(m) == 0 {
				continue
			}
			if l, ok := p.([]interface{}); ok && len(l) > 0 {
				allEmpty := true
				for _, el := range l {
					if m, ok := el.(map[string]interface{}); !ok || len(m) != 0 {
						allEmpty = false
					}
				}
				if allEmpty {
					continue
				}
			}
			out[k] = p
		}
		return out
	case []interface{}:
		out := make([]interface{}, len(x))
		for i, e := range x {
			out[i] = prune(e)
		}
		return out
	}
	return v
}

// subRequestKey renders one received sub-request canonically: service, operation keyword,
// syntactic AST of the query (re-parsed), variables.
func subRequestKey(url string, query string, vars map[string]interface{}) string {
	doc, err := parser.ParseQuery(&ast.Source{Input: query})
	if err != nil || len(doc.Operations) != 1 {
		return url + "|unparsable|" + query
	}
	op := doc.Operations[0]
	return url + "|" + string(op.Operation) + "|" + hx.Canon(normSels(toGeneric(hx.SelSetToJSON(op.SelectionSet)).([]interface{}), true)) + "|" + canonVars(vars)
}

func canonVars(vars map[string]interface{}) string {
	if len(vars) == 0 {
		return "{}"
	}
	return hx.Canon(vars)
}

func modelSubRequestKey(url string, rq map[string]interface{}) string {
	h, _ := rq["header"].(map[string]interface{})
	kind, _ := h["kind"].(string)
	sels, _ := rq["sels"].([]interface{})
	vars, _ := rq["variables"].(map[string]interface{})
	return url + "|" + kind + "|" + hx.Canon(normSels(sels, true)) + "|" + canonVars(vars)
}

// foreignLookupID: a follow-up lookup `node(id: $id)` must carry, as $id, the id of an entity of
// the data set (the id found at its insertion point) — never a value that came from the client.
// Returns a description of the offending value, or "".
func foreignLookupID(cf *coreFed, c *fed.Call) string {
	if !strings.Contains(c.Query, "node(id: $id)") {
		return ""
	}
	v, ok := c.Variables["id"]
	if !ok {
		return "no id variable at all"
	}
	s, isStr := v.(string)
	if !isStr {
		return "id = " + hx.Canon(v)
	}
	if _, exists := cf.F.Data.Entities[s]; !exists {
		return "id = " + hx.Canon(v)
	}
	return ""
}
