// vh: the verification harness. One sub-command per property; each drives the REAL pebbles
// code in-process (built from /repo's working tree with -tags verif), pipes the same inputs to
// the Lean model driver and compares. Output: a JSON report for ./check.
package main

import (
	"encoding/json"
	"flag"
	"fmt"
	"os"
	"sort"
	"strconv"

	"verif/harness/hx"
)

type Ctx struct {
	Prop   string
	Tier   string
	Seed   uint64
	Rand   *hx.Rand
	Driver *hx.Driver // nil when --driver none (model unavailable: impl-vs-oracle search only)
	Rep    *hx.Report
	Replay string // path of a replay file, or ""
	Budget int    // multiplier: 1 quick, larger for thorough
}

func (c *Ctx) Thorough() bool { return c.Tier == "thorough" }

type runner func(*Ctx) error

var registry = map[string]runner{}

func register(id string, f runner) { registry[id] = f }

// replayers re-run one recorded case (the "case" object of a failure record).
var replayers = map[string]func(*Ctx, json.RawMessage) error{}

func registerReplay(id string, f func(*Ctx, json.RawMessage) error) { replayers[id] = f }

func runReplay(ctx *Ctx, path string) error {
	b, err := os.ReadFile(path)
	if err != nil {
		return err
	}
	var rec struct {
		Failure struct {
			Case json.RawMessage `json:"case"`
		} `json:"failure"`
		Case json.RawMessage `json:"case"`
	}
	if err := json.Unmarshal(b, &rec); err != nil {
		return err
	}
	raw := rec.Failure.Case
	if len(raw) == 0 {
		raw = rec.Case
	}
	if len(raw) == 0 {
		return fmt.Errorf("replay file %s carries no case (proof-only violation: re-run ./check %s)", path, ctx.Prop)
	}
	f, ok := replayers[ctx.Prop]
	if !ok {
		return fmt.Errorf("no replayer for %s", ctx.Prop)
	}
	return f(ctx, raw)
}

func main() {
	if len(os.Args) < 2 {
		ids := make([]string, 0)
		for k := range registry {
			ids = append(ids, k)
		}
		sort.Strings(ids)
		fmt.Fprintln(os.Stderr, "usage: vh <property> [--tier quick|thorough] [--seed N] [--driver path|none] [--out file] [--replay file]; properties:", ids)
		os.Exit(2)
	}
	prop := os.Args[1]
	fs := flag.NewFlagSet("vh", flag.ExitOnError)
	tier := fs.String("tier", "quick", "quick|thorough")
	seedS := fs.String("seed", "1", "seed")
	drv := fs.String("driver", "none", "path to pvdriver or none")
	out := fs.String("out", "", "report file")
	replay := fs.String("replay", "", "replay file")
	fs.Parse(os.Args[2:])
	seed, _ := strconv.ParseUint(*seedS, 10, 64)
	f, ok := registry[prop]
	if !ok {
		fmt.Fprintln(os.Stderr, "unknown property", prop)
		os.Exit(2)
	}
	ctx := &Ctx{Prop: prop, Tier: *tier, Seed: seed, Rand: hx.NewRand(seed), Rep: hx.NewReport(prop, *tier, seed), Replay: *replay, Budget: 1}
	if *tier == "thorough" {
		ctx.Budget = 20
	}
	ctx.Rep.AutoPath = *out
	if *drv != "none" {
		d, err := hx.StartDriver(*drv)
		if err != nil {
			fmt.Fprintln(os.Stderr, "cannot start driver:", err)
			os.Exit(3)
		}
		ctx.Driver = d
		defer d.Close()
	}
	var err error
	if *replay != "" {
		err = runReplay(ctx, *replay)
	} else {
		err = f(ctx)
	}
	if ctx.Driver != nil {
		ctx.Rep.DriverCalls = ctx.Driver.N
	}
	if err != nil {
		ctx.Rep.Note("harness error: " + err.Error())
		ctx.Rep.Fail(hx.Failure{Kind: "harness-error", Detail: err.Error()})
	}
	if *out != "" {
		if werr := ctx.Rep.Write(*out); werr != nil {
			fmt.Fprintln(os.Stderr, "cannot write report:", werr)
			os.Exit(3)
		}
	}
	fmt.Printf("vh %s: %d evaluations, %d distinct non-trivial, %d failures\n", prop, ctx.Rep.Evaluations, ctx.Rep.Nontrivial, len(ctx.Rep.Failures))
}
