package main

// Shared by C03, C04, C05: generator of service schema sets (SDL strings), conflict injectors,
// the runner of the REAL merger (merger.ExtendMergerFunc / merger.SanitizeNodeMergerFunc, each
// call on freshly loaded schemas, under recover), the canonical item view of a schema, and the
// call of the Lean model (driver op c03.merge).

import (
	"encoding/json"
	"fmt"
	"sort"
	"strings"

	"github.com/buildbuildio/pebbles/merger"
	"github.com/buildbuildio/pebbles/planner"
	"github.com/vektah/gqlparser/v2"
	"github.com/vektah/gqlparser/v2/ast"

	"verif/harness/hx"
)

// ---------------------------------------------------------------------------------------------
// the case

type mgCase struct {
	SDL          []string `json:"sdl"`
	URLs         []string `json:"urls"`
	Mode         string   `json:"mode"`                    // extend | sanitize
	Inject       string   `json:"inject,omitempty"`        // conflict kind injected into a mergeable base
	BrokenUnions []string `json:"broken_unions,omitempty"` // unions whose def.Types is cleared after loading ("broken remote union")
	Tags         []string `json:"tags,omitempty"`          // generator features (histogram only)
}

func (c mgCase) key() string { b, _ := json.Marshal(c); return string(b) }

// ---------------------------------------------------------------------------------------------
// abstract federation → SDL

type gArg struct{ Name, Type, Default string }
type gField struct {
	Name, Type, Default, Desc, Dirs string
	Args                            []gArg
}
type gType struct {
	Kind, Name, Desc, Dirs string
	Impl, Members, Values  []string
	Fields                 []gField
}
type gService struct {
	Types      []*gType
	Directives []string
}

func (s *gService) get(name string) *gType {
	for _, t := range s.Types {
		if t.Name == name {
			return t
		}
	}
	return nil
}

func (s *gService) ensure(kind, name string) *gType {
	if t := s.get(name); t != nil {
		return t
	}
	t := &gType{Kind: kind, Name: name}
	s.Types = append(s.Types, t)
	return t
}

func (t *gType) has(f string) bool {
	for _, x := range t.Fields {
		if x.Name == f {
			return true
		}
	}
	return false
}

func mgDescSDL(d string) string {
	if d == "" {
		return ""
	}
	return `"""` + d + `""" `
}

func (s *gService) SDL() string {
	var b strings.Builder
	for _, d := range s.Directives {
		b.WriteString(d + "\n")
	}
	for _, t := range s.Types {
		b.WriteString(mgDescSDL(t.Desc))
		switch t.Kind {
		case "scalar":
			fmt.Fprintf(&b, "scalar %s%s\n", t.Name, t.Dirs)
		case "union":
			fmt.Fprintf(&b, "union %s%s", t.Name, t.Dirs)
			if len(t.Members) > 0 {
				b.WriteString(" = " + strings.Join(t.Members, " | "))
			}
			b.WriteString("\n")
		case "enum":
			fmt.Fprintf(&b, "enum %s%s { %s }\n", t.Name, t.Dirs, strings.Join(t.Values, " "))
		default:
			kw := map[string]string{"object": "type", "interface": "interface", "input": "input"}[t.Kind]
			fmt.Fprintf(&b, "%s %s", kw, t.Name)
			if len(t.Impl) > 0 {
				b.WriteString(" implements " + strings.Join(t.Impl, " & "))
			}
			b.WriteString(t.Dirs + " {\n")
			for _, f := range t.Fields {
				b.WriteString("  " + mgDescSDL(f.Desc) + f.Name)
				if len(f.Args) > 0 {
					as := make([]string, len(f.Args))
					for i, a := range f.Args {
						as[i] = a.Name + ": " + a.Type
						if a.Default != "" {
							as[i] += " = " + a.Default
						}
					}
					b.WriteString("(" + strings.Join(as, ", ") + ")")
				}
				b.WriteString(": " + f.Type)
				if f.Default != "" {
					b.WriteString(" = " + f.Default)
				}
				b.WriteString(f.Dirs + "\n")
			}
			b.WriteString("}\n")
		}
	}
	return b.String()
}

type fedGen struct {
	r    *hx.Rand
	n    int
	svc  []*gService
	tags map[string]bool
}

func (g *fedGen) tag(s string) { g.tags[s] = true }

func (g *fedGen) subset(min, max int) []int {
	if max > g.n {
		max = g.n
	}
	if min > max {
		min = max
	}
	k := g.r.Range(min, max)
	p := g.r.Perm(g.n)[:k]
	sort.Ints(p)
	return p
}

func mgWrapType(r *hx.Rand, base string) string {
	switch r.Intn(8) {
	case 0, 1, 2:
		return base
	case 3:
		return base + "!"
	case 4:
		return "[" + base + "]"
	case 5:
		return "[" + base + "!]!"
	case 6:
		return "[" + base + "!]"
	default:
		return "[[" + base + "]]"
	}
}

var mgBuiltinScalars = []string{"Int", "String", "Boolean", "Float", "ID"}

// outputBases: names usable as a field type inside service s
func (g *fedGen) outputBases(s *gService) []string {
	out := append([]string{}, mgBuiltinScalars...)
	for _, t := range s.Types {
		if t.Kind != "input" && t.Name != "Query" && t.Name != "Mutation" && t.Name != "Subscription" {
			out = append(out, t.Name)
		}
	}
	return out
}

func (g *fedGen) inputBases(s *gService) []string {
	out := append([]string{}, mgBuiltinScalars...)
	for _, t := range s.Types {
		if t.Kind == "input" || t.Kind == "enum" || t.Kind == "scalar" {
			out = append(out, t.Name)
		}
	}
	return out
}

func (g *fedGen) defaultFor(s *gService, base, wrapped string) string {
	if strings.HasPrefix(wrapped, "[") || g.r.Chance(1, 2) {
		return ""
	}
	switch base {
	case "Int":
		return fmt.Sprint(g.r.Intn(9))
	case "String":
		return `"d` + fmt.Sprint(g.r.Intn(3)) + `"`
	case "Boolean":
		return "true"
	case "Float":
		return "1.5"
	}
	if t := s.get(base); t != nil && t.Kind == "enum" && len(t.Values) > 0 {
		return t.Values[0]
	}
	return ""
}

func (g *fedGen) args(s *gService) []gArg {
	var out []gArg
	for k := 0; k < []int{0, 0, 0, 1, 1, 2}[g.r.Intn(6)]; k++ {
		base := hx.Pick(g.r, g.inputBases(s))
		w := mgWrapType(g.r, base)
		a := gArg{Name: fmt.Sprintf("a%d", k), Type: w}
		if !strings.HasSuffix(w, "!") || g.r.Chance(1, 3) {
			a.Default = g.defaultFor(s, base, w)
		}
		out = append(out, a)
	}
	return out
}

func (g *fedGen) field(s *gService, name string, bases []string) gField {
	f := gField{Name: name, Type: mgWrapType(g.r, hx.Pick(g.r, bases)), Args: g.args(s)}
	if g.r.Chance(1, 6) {
		f.Desc = "about " + name
	}
	return f
}

// generate builds a mergeable base federation.
func (g *fedGen) generate() {
	r := g.r
	g.svc = make([]*gService, g.n)
	for i := range g.svc {
		g.svc[i] = &gService{}
	}
	letters := []string{"a", "b", "c"}
	type shared struct {
		name, kind, mode string // mode: identical | disjoint | mixed
		at               []int
	}
	var nodes, values []shared
	for k := 0; k < r.Intn(4); k++ {
		nodes = append(nodes, shared{name: "N" + letters[k], kind: "object", at: g.subset(1, 3)})
	}
	for k := 0; k < r.Intn(4); k++ {
		m := []string{"identical", "identical", "disjoint", "disjoint", "single"}[r.Intn(5)]
		sh := shared{name: "V" + letters[k], kind: "object", mode: m}
		switch m {
		case "single":
			sh.at, sh.mode = g.subset(1, 1), "disjoint"
		default:
			sh.at = g.subset(2, g.n)
		}
		if g.n >= 3 && len(sh.at) >= 3 && r.Chance(1, 12) {
			sh.mode = "mixed"
			g.tag("mixed identical/disjoint value type")
		}
		values = append(values, sh)
	}
	addAt := func(sh *shared, s int) {
		for _, x := range sh.at {
			if x == s {
				return
			}
		}
		sh.at = append(sh.at, s)
		sort.Ints(sh.at)
	}
	// unions first: members must be present wherever the union is
	type uni struct {
		name    string
		members []string
		at      []int
	}
	var unions []uni
	objNames := func() []string {
		var o []string
		for _, x := range nodes {
			o = append(o, x.name)
		}
		for _, x := range values {
			o = append(o, x.name)
		}
		return o
	}
	for k := 0; k < r.Intn(3); k++ {
		u := uni{name: "U" + letters[k], at: g.subset(1, 3)}
		cands := objNames()
		for _, p := range r.Perm(len(cands)) {
			if len(u.members) < r.Intn(4) {
				u.members = append(u.members, cands[p])
			}
		}
		for _, m := range u.members {
			for i := range nodes {
				if nodes[i].name == m {
					for _, s := range u.at {
						addAt(&nodes[i], s)
					}
				}
			}
			for i := range values {
				if values[i].name == m {
					for _, s := range u.at {
						addAt(&values[i], s)
					}
				}
			}
		}
		if len(u.members) == 0 {
			g.tag("union with 0 members")
		}
		unions = append(unions, u)
	}
	// interfaces: declared identically; implementers carry the interface's field
	type iface struct {
		name  string
		at    map[int]bool
		impls []string
	}
	var ifaces []iface
	implOf := map[string]map[int][]string{} // type -> service -> interfaces implemented there
	for k := 0; k < r.Intn(3); k++ {
		it := iface{name: "F" + letters[k], at: map[int]bool{}}
		for _, s := range g.subset(1, 2) {
			it.at[s] = true
		}
		cands := objNames()
		want := r.Intn(4)
		for _, p := range r.Perm(len(cands)) {
			if len(it.impls) >= want {
				break
			}
			it.impls = append(it.impls, cands[p])
		}
		for _, m := range it.impls {
			if implOf[m] == nil {
				implOf[m] = map[int][]string{}
			}
			for i := range nodes {
				if nodes[i].name == m { // a Node type carries the interface (and its field) in ONE service
					s := hx.Pick(r, nodes[i].at)
					implOf[m][s] = append(implOf[m][s], it.name)
					it.at[s] = true
				}
			}
			for i := range values {
				if values[i].name == m {
					if values[i].mode == "identical" {
						for _, s := range values[i].at {
							implOf[m][s] = append(implOf[m][s], it.name)
							it.at[s] = true
						}
					} else {
						s := hx.Pick(r, values[i].at)
						implOf[m][s] = append(implOf[m][s], it.name)
						it.at[s] = true
					}
				}
			}
		}
		if len(it.impls) == 0 {
			g.tag("interface with 0 implementers")
		}
		ifaces = append(ifaces, it)
	}
	// declare everything (no fields yet) so that field types can refer to what a service has
	for _, sh := range nodes {
		for _, s := range sh.at {
			g.svc[s].ensure("interface", "Node").Fields = []gField{{Name: "id", Type: "ID!"}}
			t := g.svc[s].ensure("object", sh.name)
			t.Impl = append([]string{"Node"}, implOf[sh.name][s]...)
		}
		if len(sh.at) > 1 {
			g.tag("node type split across services")
		}
	}
	for _, sh := range values {
		for _, s := range sh.at {
			t := g.svc[s].ensure("object", sh.name)
			t.Impl = append(t.Impl, implOf[sh.name][s]...)
		}
	}
	for _, it := range ifaces {
		for s := range it.at {
			g.svc[s].ensure("interface", it.name)
		}
	}
	for _, u := range unions {
		for _, s := range u.at {
			g.svc[s].ensure("union", u.name).Members = append([]string{}, u.members...)
		}
	}
	for k := 0; k < r.Intn(3); k++ { // enums
		name := "E" + letters[k]
		at := g.subset(1, g.n)
		extend := len(at) > 1 && r.Chance(1, 3)
		for j, s := range at {
			t := g.svc[s].ensure("enum", name)
			t.Values = []string{"A", "B"}
			if extend {
				t.Values = append(t.Values, fmt.Sprintf("X%d", j))
				g.tag("enum extended by another service")
			}
			if r.Chance(1, 5) {
				t.Desc = "enum " + name
			}
		}
	}
	if r.Chance(1, 3) { // custom scalar
		for _, s := range g.subset(1, g.n) {
			g.svc[s].ensure("scalar", "Sa")
		}
		g.tag("custom scalar")
	}
	type inp struct {
		name, mode string
		at         []int
	}
	var inputs []inp
	for k := 0; k < r.Intn(3); k++ {
		in := inp{name: "I" + letters[k], mode: []string{"identical", "disjoint"}[r.Intn(2)], at: g.subset(1, g.n)}
		for _, s := range in.at {
			g.svc[s].ensure("input", in.name)
		}
		inputs = append(inputs, in)
	}
	// custom directives
	dirs := []string{}
	for k := 0; k < []int{0, 0, 1, 1, 2}[r.Intn(5)]; k++ {
		name := "d" + letters[k]
		def := "directive @" + name
		if r.Chance(1, 2) {
			def += "(x: Int = 1)"
		}
		if r.Chance(1, 14) {
			def += " repeatable"
			g.tag("repeatable directive")
		}
		def += " on FIELD_DEFINITION | OBJECT | ENUM | INPUT_OBJECT | INTERFACE"
		for _, s := range g.subset(1, g.n) {
			g.svc[s].Directives = append(g.svc[s].Directives, def)
		}
		dirs = append(dirs, name)
	}
	useDir := func(s *gService) string {
		if len(s.Directives) == 0 || !r.Chance(1, 5) {
			return ""
		}
		d := hx.Pick(r, s.Directives)
		return " @" + strings.Fields(strings.TrimPrefix(d, "directive @"))[0][:2]
	}
	_ = dirs
	// fields
	for _, it := range ifaces {
		for s := range it.at {
			g.svc[s].get(it.name).Fields = []gField{{Name: "label" + it.name, Type: "String"}}
		}
	}
	addIfaceFields := func(t *gType) {
		for _, i := range t.Impl {
			if i != "Node" && !t.has("label"+i) {
				t.Fields = append(t.Fields, gField{Name: "label" + i, Type: "String"})
			}
		}
	}
	for _, sh := range nodes {
		nf := r.Range(0, 5)
		for k := 0; k < nf; k++ {
			s := hx.Pick(r, sh.at)
			t := g.svc[s].get(sh.name)
			t.Fields = append(t.Fields, g.field(g.svc[s], fmt.Sprintf("%s_f%d", strings.ToLower(sh.name), k), g.outputBases(g.svc[s])))
		}
		for _, s := range sh.at {
			t := g.svc[s].get(sh.name)
			t.Fields = append([]gField{{Name: "id", Type: "ID!"}}, t.Fields...)
			addIfaceFields(t)
			t.Dirs = useDir(g.svc[s])
		}
	}
	for _, sh := range values {
		switch sh.mode {
		case "identical":
			// types usable in ALL declaring services
			common := map[string]int{}
			for _, s := range sh.at {
				for _, b := range g.outputBases(g.svc[s]) {
					common[b]++
				}
			}
			var bases []string
			for b, c := range common {
				if c == len(sh.at) {
					bases = append(bases, b)
				}
			}
			sort.Strings(bases)
			var fs []gField
			withID := r.Chance(1, 4)
			if withID {
				fs = append(fs, gField{Name: "id", Type: "ID!"})
				g.tag("value type with id")
			}
			for k := 0; k < r.Range(1, 3); k++ {
				f := gField{Name: fmt.Sprintf("%s_s%d", strings.ToLower(sh.name), k), Type: mgWrapType(r, hx.Pick(r, bases))}
				if r.Chance(1, 3) {
					f.Args = []gArg{{Name: "a0", Type: "Int", Default: "3"}}
				}
				fs = append(fs, f)
			}
			for _, s := range sh.at {
				t := g.svc[s].get(sh.name)
				t.Fields = append([]gField{}, fs...)
				addIfaceFields(t)
			}
			g.tag("value type shared identically")
		default:
			for j, s := range sh.at {
				t := g.svc[s].get(sh.name)
				if sh.mode == "mixed" {
					t.Impl = nil
				}
				if sh.mode == "mixed" && j < 2 {
					t.Fields = []gField{{Name: "mx", Type: "Int"}, {Name: "my", Type: "String"}}
					continue
				}
				if r.Chance(1, 5) {
					t.Fields = append(t.Fields, gField{Name: "id", Type: "ID!"})
					g.tag("value type with id")
				}
				for k := 0; k < r.Range(1, 2); k++ {
					t.Fields = append(t.Fields, g.field(g.svc[s], fmt.Sprintf("%s_%d_%d", strings.ToLower(sh.name), s, k), g.outputBases(g.svc[s])))
				}
				addIfaceFields(t)
				t.Dirs = useDir(g.svc[s])
			}
			if len(sh.at) > 1 {
				g.tag("value type split disjointly")
			}
		}
	}
	for _, in := range inputs {
		var fs []gField
		for k := 0; k < r.Range(1, 3); k++ {
			fs = append(fs, gField{Name: fmt.Sprintf("%s_i%d", strings.ToLower(in.name), k), Type: hx.Pick(r, []string{"Int", "String", "Boolean", "[Int]", "Int!"})})
			if fs[k].Type == "Int" && r.Chance(1, 2) {
				fs[k].Default = "7"
			}
		}
		for j, s := range in.at {
			t := g.svc[s].get(in.name)
			if in.mode == "identical" || len(in.at) == 1 {
				t.Fields = append([]gField{}, fs...)
			} else {
				t.Fields = []gField{{Name: fmt.Sprintf("%s_%d", strings.ToLower(in.name), j), Type: "String"}}
			}
		}
	}
	// roots
	for s, sv := range g.svc {
		hasNode := sv.get("Node") != nil
		if r.Chance(9, 10) {
			q := &gType{Kind: "object", Name: "Query"}
			for k := 0; k < r.Range(0, 3); k++ {
				q.Fields = append(q.Fields, g.field(sv, fmt.Sprintf("q%d_%d", s, k), g.outputBases(sv)))
				if k == 0 {
					q.Fields[0].Dirs = useDir(sv)
				}
			}
			if hasNode && r.Chance(7, 10) {
				q.Fields = append(q.Fields, gField{Name: "node", Type: "Node", Args: []gArg{{Name: "id", Type: "ID!"}}})
			} else if hasNode {
				g.tag("service with Node types but without node")
			}
			if hasNode && r.Chance(1, 12) {
				q.Fields = append(q.Fields, gField{Name: fmt.Sprintf("lookup%d", s), Type: "Node", Args: []gArg{{Name: "id", Type: "ID!"}}})
				g.tag("node-shaped field not named node")
			}
			if len(q.Fields) == 0 {
				q.Fields = append(q.Fields, gField{Name: fmt.Sprintf("q%d_x", s), Type: "Int"})
			}
			if r.Chance(1, 8) {
				q.Desc = fmt.Sprintf("query of %d", s)
			}
			sv.Types = append(sv.Types, q)
		} else {
			g.tag("service without Query")
		}
		if r.Chance(3, 10) {
			m := &gType{Kind: "object", Name: "Mutation"}
			for k := 0; k < r.Range(1, 2); k++ {
				m.Fields = append(m.Fields, g.field(sv, fmt.Sprintf("m%d_%d", s, k), g.outputBases(sv)))
			}
			sv.Types = append(sv.Types, m)
			g.tag("Mutation root")
		}
		if r.Chance(3, 20) {
			sv.Types = append(sv.Types, &gType{Kind: "object", Name: "Subscription", Fields: []gField{g.field(sv, fmt.Sprintf("s%d_0", s), g.outputBases(sv))}})
			g.tag("Subscription root")
		}
		// an object needs at least one field
		for _, t := range sv.Types {
			if (t.Kind == "object" || t.Kind == "interface" || t.Kind == "input") && len(t.Fields) == 0 {
				t.Fields = []gField{{Name: fmt.Sprintf("%s_only%d", strings.ToLower(t.Name), s), Type: "String"}}
			}
		}
		if len(sv.Types) == 0 {
			sv.Types = append(sv.Types, &gType{Kind: "object", Name: "Query", Fields: []gField{{Name: fmt.Sprintf("q%d_x", s), Type: "Int"}}})
		}
	}
}

// conflict kinds of C05's statement (+ two that C03 cares about)
var c05Kinds = []string{"root-field-twice", "kind-mismatch", "node-impl-mismatch", "node-field-twice",
	"partial-overlap", "partial-overlap-input", "field-type-differs", "field-args-differ", "union-members-differ"}
var extraKinds = []string{"node-def-differs", "directive-conflict"}

// inject edits two services i != j so that they cannot be combined in the way `kind` names.
func (g *fedGen) inject(kind string) {
	r := g.r
	p := r.Perm(g.n)
	a, b := g.svc[p[0]], g.svc[p[1]]
	switch kind {
	case "root-field-twice":
		root := []string{"Query", "Query", "Mutation", "Subscription"}[r.Intn(4)]
		f := gField{Name: "dup", Type: "Int"}
		if r.Chance(1, 3) {
			f = gField{Name: "dup", Type: "String", Args: []gArg{{Name: "a", Type: "Int"}}}
		}
		ta, tb := a.ensure("object", root), b.ensure("object", root)
		ta.Fields = append(ta.Fields, f)
		if r.Chance(1, 2) { // identical or with another signature: both are conflicts
			f.Type = "Boolean"
		}
		tb.Fields = append(tb.Fields, f)
	case "kind-mismatch":
		a.Types = append(a.Types, &gType{Kind: "object", Name: "Xk", Fields: []gField{{Name: "v", Type: "Int"}}})
		switch r.Intn(5) {
		case 0:
			b.Types = append(b.Types, &gType{Kind: "enum", Name: "Xk", Values: []string{"A"}})
		case 1:
			b.Types = append(b.Types, &gType{Kind: "scalar", Name: "Xk"})
		case 2:
			b.Types = append(b.Types, &gType{Kind: "input", Name: "Xk", Fields: []gField{{Name: "v", Type: "Int"}}})
		case 3:
			b.Types = append(b.Types, &gType{Kind: "interface", Name: "Xk", Fields: []gField{{Name: "v", Type: "Int"}}})
		default:
			b.Types = append(b.Types, &gType{Kind: "object", Name: "Xm", Fields: []gField{{Name: "v", Type: "Int"}}}, &gType{Kind: "union", Name: "Xk", Members: []string{"Xm"}})
		}
	case "node-impl-mismatch":
		a.ensure("interface", "Node").Fields = []gField{{Name: "id", Type: "ID!"}}
		a.Types = append(a.Types, &gType{Kind: "object", Name: "Xn", Impl: []string{"Node"}, Fields: []gField{{Name: "id", Type: "ID!"}, {Name: "p", Type: "Int"}}})
		b.Types = append(b.Types, &gType{Kind: "object", Name: "Xn", Fields: []gField{{Name: "id", Type: "ID!"}, {Name: "q", Type: "Int"}}})
	case "node-field-twice":
		for _, s := range []*gService{a, b} {
			s.ensure("interface", "Node").Fields = []gField{{Name: "id", Type: "ID!"}}
		}
		a.Types = append(a.Types, &gType{Kind: "object", Name: "Xn", Impl: []string{"Node"}, Fields: []gField{{Name: "id", Type: "ID!"}, {Name: "p", Type: "Int"}, {Name: "both", Type: "String"}}})
		b.Types = append(b.Types, &gType{Kind: "object", Name: "Xn", Impl: []string{"Node"}, Fields: []gField{{Name: "id", Type: "ID!"}, {Name: "both", Type: "String"}}})
		if r.Chance(1, 2) {
			b.get("Xn").Fields = append(b.get("Xn").Fields, gField{Name: "q", Type: "Int"})
		}
	case "partial-overlap", "partial-overlap-input":
		k := "object"
		if kind == "partial-overlap-input" {
			k = "input"
		}
		fa := []gField{{Name: "x", Type: "Int"}, {Name: "y", Type: "Int"}}
		fb := []gField{{Name: "y", Type: "Int"}, {Name: "z", Type: "Int"}}
		switch r.Intn(5) {
		case 1:
			fb = []gField{{Name: "y", Type: "Int"}} // strict subset
		case 2:
			if k == "object" { // differ only by id
				fa = []gField{{Name: "id", Type: "ID!"}, {Name: "y", Type: "Int"}}
				fb = []gField{{Name: "y", Type: "Int"}}
			}
		case 3: // both declare a field NAMED id that is not the relay id (`id: ID!` without arguments), and differ elsewhere
			idf := gField{Name: "id", Type: hx.Pick(r, []string{"Int!", "String!", "ID", "[ID!]!", "Int"})}
			fa = []gField{idf, {Name: "x", Type: "Int"}}
			fb = []gField{idf, {Name: "z", Type: "Int"}}
			g.tag("overlap in a non-relay id field")
		case 4:
			if k == "object" { // `id` with an argument is an ordinary field too
				idf := gField{Name: "id", Type: "ID!", Args: []gArg{{Name: "v", Type: "Int"}}}
				fa = []gField{idf, {Name: "x", Type: "Int"}}
				fb = []gField{idf, {Name: "z", Type: "Int"}}
				g.tag("overlap in a non-relay id field")
			}
		}
		if r.Chance(1, 2) {
			fa, fb = fb, fa
		}
		a.Types = append(a.Types, &gType{Kind: k, Name: "Xp", Fields: fa})
		b.Types = append(b.Types, &gType{Kind: k, Name: "Xp", Fields: fb})
	case "field-type-differs":
		k := []string{"object", "object", "input", "interface"}[r.Intn(4)]
		ta, tb := "Int", hx.Pick(r, []string{"String", "Int!", "[Int]"})
		a.Types = append(a.Types, &gType{Kind: k, Name: "Xt", Fields: []gField{{Name: "w", Type: "Boolean"}, {Name: "x", Type: ta}}})
		b.Types = append(b.Types, &gType{Kind: k, Name: "Xt", Fields: []gField{{Name: "w", Type: "Boolean"}, {Name: "x", Type: tb}}})
	case "field-args-differ":
		fa := gField{Name: "x", Type: "Int", Args: []gArg{{Name: "a", Type: "Int"}}}
		fb := gField{Name: "x", Type: "Int"}
		switch r.Intn(7) {
		case 0:
			fb.Args = []gArg{{Name: "a", Type: "String"}}
		case 1:
			fb.Args = []gArg{{Name: "a", Type: "Int", Default: "5"}}
		case 2:
			fb.Args = []gArg{{Name: "a", Type: "Int"}, {Name: "b", Type: "Int"}}
		case 4: // the copies differ only in a LIST default
			fa.Args = []gArg{{Name: "a", Type: "[Int]", Default: "[1]"}}
			fb.Args = []gArg{{Name: "a", Type: "[Int]", Default: "[2, 3]"}}
		case 5: // a list default on one side only
			fa.Args = []gArg{{Name: "a", Type: "[String]", Default: `["x"]`}}
			fb.Args = []gArg{{Name: "a", Type: "[String]"}}
		case 6: // the copies differ only in an INPUT-OBJECT default
			for _, s := range []*gService{a, b} {
				s.Types = append(s.Types, &gType{Kind: "input", Name: "Xrange", Fields: []gField{{Name: "from", Type: "Int"}, {Name: "to", Type: "Int"}}})
			}
			fa.Args = []gArg{{Name: "a", Type: "Xrange", Default: "{from: 0, to: 10}"}}
			fb.Args = []gArg{{Name: "a", Type: "Xrange", Default: "{from: 0, to: 100}"}}
		}
		if r.Chance(1, 2) {
			fa, fb = fb, fa
		}
		k := []string{"object", "interface"}[r.Intn(2)]
		a.Types = append(a.Types, &gType{Kind: k, Name: "Xt", Fields: []gField{fa}})
		b.Types = append(b.Types, &gType{Kind: k, Name: "Xt", Fields: []gField{fb}})
	case "union-members-differ":
		for _, s := range []*gService{a, b} {
			s.Types = append(s.Types, &gType{Kind: "object", Name: "Xa", Fields: []gField{{Name: "v", Type: "Int"}}})
		}
		a.Types = append(a.Types, &gType{Kind: "object", Name: "Xb", Fields: []gField{{Name: "v", Type: "Int"}}}, &gType{Kind: "union", Name: "Xu", Members: []string{"Xa", "Xb"}})
		if r.Chance(1, 2) {
			b.Types = append(b.Types, &gType{Kind: "union", Name: "Xu", Members: []string{"Xa"}})
		} else {
			b.Types = append(b.Types, &gType{Kind: "object", Name: "Xc", Fields: []gField{{Name: "v", Type: "Int"}}}, &gType{Kind: "union", Name: "Xu", Members: []string{"Xa", "Xc"}})
		}
	case "node-def-differs":
		for _, s := range []*gService{a, b} {
			s.ensure("interface", "Node").Fields = []gField{{Name: "id", Type: "ID!"}}
		}
		b.get("Node").Fields = append(b.get("Node").Fields, gField{Name: "rev", Type: "Int"})
		for _, t := range b.Types {
			if t.Kind == "object" && len(t.Impl) > 0 && t.Impl[0] == "Node" && !t.has("rev") {
				t.Fields = append(t.Fields, gField{Name: "rev", Type: "Int"})
			}
		}
	case "directive-conflict":
		a.Directives = append(a.Directives, "directive @dx(x: Int) on FIELD_DEFINITION")
		b.Directives = append(b.Directives, "directive @dx(y: String) on FIELD_DEFINITION | OBJECT")
	}
}

// mgGenCase draws one case; inject == "" for a mergeable base.
func mgGenCase(r *hx.Rand, inject string) mgCase {
	g := &fedGen{r: r, tags: map[string]bool{}}
	g.n = []int{1, 2, 2, 2, 2, 3, 3, 3, 4, 4, 5}[r.Intn(11)]
	if inject != "" && g.n < 2 {
		g.n = 2
	}
	g.generate()
	if inject != "" {
		g.inject(inject)
	}
	c := mgCase{Mode: "extend", Inject: inject}
	if r.Chance(1, 4) {
		c.Mode = "sanitize"
	}
	for i, s := range g.svc {
		c.SDL = append(c.SDL, s.SDL())
		c.URLs = append(c.URLs, fmt.Sprintf("http://s%d/", i))
	}
	if inject == "" && r.Chance(1, 25) {
		for _, s := range g.svc {
			for _, t := range s.Types {
				if t.Kind == "union" && len(t.Members) > 0 {
					c.BrokenUnions = []string{t.Name}
				}
			}
		}
		if len(c.BrokenUnions) > 0 {
			g.tag("broken remote union (def.Types empty)")
		}
	}
	for t := range g.tags {
		c.Tags = append(c.Tags, t)
	}
	sort.Strings(c.Tags)
	return c
}

// ---------------------------------------------------------------------------------------------
// loading, canonical items

func mgLoadInputs(c mgCase, perm []int) ([]*merger.MergeInput, error) {
	out := make([]*merger.MergeInput, len(perm))
	for k, i := range perm {
		s, err := gqlparser.LoadSchema(&ast.Source{Name: fmt.Sprintf("s%d", i), Input: c.SDL[i]})
		if err != nil {
			return nil, fmt.Errorf("service %d: %v", i, err)
		}
		for _, u := range c.BrokenUnions {
			if d := s.Types[u]; d != nil && d.Kind == ast.Union {
				d.Types = nil
			}
		}
		out[k] = &merger.MergeInput{Schema: s, URL: c.URLs[i]}
	}
	return out, nil
}

func mgValStr(v *ast.Value) string {
	if v == nil {
		return "-"
	}
	return v.String()
}

func mgDirUseStr(d *ast.Directive) string {
	as := make([]string, len(d.Arguments))
	for i, a := range d.Arguments {
		as[i] = a.Name + ":"
		if a.Value != nil {
			as[i] += a.Value.String()
		}
	}
	return d.Name + "(" + strings.Join(as, ",") + ")"
}

// mgSchemaItems: the canonical view of a schema (what survives print+reload): one string per
// type / field / argument / enum value / union member / implemented interface / directive
// definition, plus descriptions and applied directives under separate prefixes. Definitions
// flagged BuiltIn and fields named __… are left out. Sorted.
func mgSchemaItems(s *ast.Schema) []string {
	var out []string
	for name, d := range s.Types {
		if d.BuiltIn {
			continue
		}
		out = append(out, "T|"+name+"|"+string(d.Kind))
		if d.Description != "" {
			out = append(out, "TD|"+name+"|"+d.Description)
		}
		for _, u := range d.Directives {
			out = append(out, "TU|"+name+"|"+mgDirUseStr(u))
		}
		for _, i := range d.Interfaces {
			out = append(out, "I|"+name+"|"+i)
		}
		for _, m := range d.Types {
			out = append(out, "M|"+name+"|"+m)
		}
		for _, e := range d.EnumValues {
			out = append(out, "E|"+name+"|"+e.Name)
		}
		for _, f := range d.Fields {
			if strings.HasPrefix(f.Name, "__") {
				continue
			}
			out = append(out, "F|"+name+"|"+f.Name+"|"+f.Type.String()+"|"+mgValStr(f.DefaultValue))
			if f.Description != "" {
				out = append(out, "FD|"+name+"|"+f.Name+"|"+f.Description)
			}
			for _, u := range f.Directives {
				out = append(out, "FU|"+name+"|"+f.Name+"|"+mgDirUseStr(u))
			}
			for _, a := range f.Arguments {
				out = append(out, "A|"+name+"|"+f.Name+"|"+a.Name+"|"+a.Type.String()+"|"+mgValStr(a.DefaultValue))
			}
		}
	}
	for name, d := range s.Directives {
		as := make([]string, len(d.Arguments))
		for i, a := range d.Arguments {
			as[i] = a.Name + ":" + a.Type.String() + "=" + mgValStr(a.DefaultValue)
		}
		ls := make([]string, len(d.Locations))
		for i, l := range d.Locations {
			ls[i] = string(l)
		}
		sort.Strings(as)
		sort.Strings(ls)
		out = append(out, fmt.Sprintf("D|%s|%s|%s|%v", name, strings.Join(as, ","), strings.Join(ls, ","), d.IsRepeatable))
	}
	sort.Strings(out)
	return mgDedupSorted(out)
}

func mgDedupSorted(xs []string) []string {
	out := xs[:0]
	for i, x := range xs {
		if i == 0 || x != xs[i-1] {
			out = append(out, x)
		}
	}
	return out
}

// core items: what C03's statement talks about (no descriptions, no applied directives)
func mgCoreItems(items []string) []string {
	var out []string
	for _, it := range items {
		switch it[:strings.Index(it, "|")] {
		case "T", "F", "A", "E", "M", "I", "D":
			out = append(out, it)
		}
	}
	return out
}

func mgTumItems(tm merger.TypeURLMap) []string {
	var out []string
	for T, p := range tm {
		out = append(out, fmt.Sprintf("N|%s|%v", T, p.IsImplementsNode))
		for f, u := range p.Fields {
			out = append(out, "R|"+T+"|"+f+"|"+u)
		}
	}
	sort.Strings(out)
	return out
}

// ---------------------------------------------------------------------------------------------
// the real merger

type mgOutcome struct {
	Perm    []int    `json:"perm"`
	Outcome string   `json:"outcome"` // ok | error | panic | invalid-input
	Kind    string   `json:"kind,omitempty"`
	Err     string   `json:"err,omitempty"`
	Items   []string `json:"items,omitempty"`
	Tum     []string `json:"tum,omitempty"`
	URLs    []string `json:"urls,omitempty"`

	schema *ast.Schema
	tm     merger.TypeURLMap
}

func mgErrKind(msg string) string {
	for _, p := range [][2]string{
		{"no source schemas", "no-source-schemas"}, {"name collision:", "name-collision"}, {"union collision:", "union-collision"},
		{"interface collision:", "interface-collision"}, {"node interface collision:", "node-interface-collision"},
		{"overlapping root types fields", "overlapping-root-fields"}, {"field collision:", "field-collision"},
		{"overlapping fields, not complete copy", "not-complete-copy"}, {"overlapping fields", "overlapping-fields"}} {
		if strings.HasPrefix(msg, p[0]) {
			return p[1]
		}
	}
	return "reload-error"
}

func runMerger(c mgCase, perm []int) (o mgOutcome) {
	o.Perm = perm
	in, err := mgLoadInputs(c, perm)
	if err != nil {
		o.Outcome, o.Err = "invalid-input", err.Error()
		return
	}
	defer func() {
		if p := recover(); p != nil {
			o.Outcome, o.Err = "panic", fmt.Sprint(p)
		}
	}()
	var m merger.Merger = merger.ExtendMergerFunc(nil)
	if c.Mode == "sanitize" {
		m = merger.SanitizeNodeMergerFunc(nil)
	}
	res, err := m.Merge(in)
	if err != nil {
		o.Outcome, o.Err, o.Kind = "error", err.Error(), mgErrKind(err.Error())
		return
	}
	o.Outcome = "ok"
	o.schema, o.tm = res.Schema, res.TypeURLMap
	o.Items = mgSchemaItems(res.Schema)
	o.Tum = mgTumItems(res.TypeURLMap)
	o.URLs = hx.SortedStrings(res.TypeURLMap.GetURLs())
	return
}

// getURLQueries: every (object type, field) of the result with two fallbacks
func getURLQueries(o mgOutcome, urls []string) [][]string {
	var qs [][]string
	names := make([]string, 0)
	for n, d := range o.schema.Types {
		if !d.BuiltIn && (d.Kind == ast.Object || d.Kind == ast.Interface) {
			names = append(names, n)
		}
	}
	sort.Strings(names)
	for _, n := range names {
		for _, f := range o.schema.Types[n].Fields {
			qs = append(qs, []string{n, f.Name, "%#!"}, []string{n, f.Name, urls[0]})
		}
	}
	if len(qs) > 60 {
		qs = qs[:60]
	}
	return qs
}

// implGetURLOp: GetURL as the planner calls it while planning an operation of the given kind (the
// answer for a field of a root type must not depend on which operation is being planned).
func implGetURLOp(o mgOutcome, kind ast.Operation, typename, fieldname, fallback string) string {
	pc := &planner.PlanningContext{TypeURLMap: o.tm, Operation: &ast.OperationDefinition{Operation: kind}}
	u, err := pc.GetURL(typename, fieldname, fallback)
	if err != nil {
		return "err"
	}
	return "ok:" + u
}

func implGetURL(o mgOutcome, qs [][]string) []string {
	pc := &planner.PlanningContext{TypeURLMap: o.tm}
	out := make([]string, len(qs))
	for i, q := range qs {
		u, err := pc.GetURL(q[0], q[1], q[2])
		if err != nil {
			out[i] = "err"
		} else {
			out[i] = "ok:" + u
		}
	}
	return out
}

// ---------------------------------------------------------------------------------------------
// the model

type mgModel struct {
	Outcome string
	Kind    string
	Kinds   []string
	Items   []string
	Tum     []string
	URLs    []string
	GetURL  []string
	ForType map[string][]string
	Raw     map[string]interface{}
}

func mgStrList(v interface{}) []string {
	arr, _ := v.([]interface{})
	out := make([]string, 0, len(arr))
	for _, x := range arr {
		s, _ := x.(string)
		out = append(out, s)
	}
	return out
}

// callModel runs the Lean model on the same (freshly loaded, permuted) inputs.
func callModel(ctx *Ctx, c mgCase, perm []int, qs [][]string) (*mgModel, error) {
	in, err := mgLoadInputs(c, perm)
	if err != nil {
		return nil, err
	}
	inputs := make([]interface{}, len(in))
	for i, x := range in {
		inputs[i] = map[string]interface{}{"schema": hx.SchemaToJSON(x.Schema), "url": x.URL}
	}
	res, err := ctx.Driver.Call(map[string]interface{}{"op": "c03.merge", "inputs": inputs, "mode": c.Mode, "geturl": qs})
	if err != nil {
		return nil, err
	}
	m := &mgModel{Raw: res}
	m.Outcome, _ = res["outcome"].(string)
	m.Kind, _ = res["kind"].(string)
	m.Kinds = mgStrList(res["kinds"])
	m.Items = mgDedupSorted(hx.SortedStrings(mgStrList(res["items"])))
	m.Tum = hx.SortedStrings(mgStrList(res["tumItems"]))
	m.URLs = hx.SortedStrings(mgStrList(res["urls"]))
	ga, _ := res["geturl"].([]interface{})
	for _, a := range ga {
		am, _ := a.(map[string]interface{})
		if u, ok := am["ok"].(string); ok {
			m.GetURL = append(m.GetURL, "ok:"+u)
		} else {
			m.GetURL = append(m.GetURL, "err")
		}
	}
	m.ForType = map[string][]string{}
	if ft, ok := res["forType"].([]interface{}); ok {
		for _, e := range ft {
			em, _ := e.(map[string]interface{})
			t, _ := em["type"].(string)
			m.ForType[t] = mgStrList(em["urls"])
		}
	}
	return m, nil
}

func mgEqStrs(a, b []string) bool {
	if len(a) != len(b) {
		return false
	}
	for i := range a {
		if a[i] != b[i] {
			return false
		}
	}
	return true
}

func mgDiffStrs(a, b []string) (onlyA, onlyB []string) {
	ma, mb := map[string]bool{}, map[string]bool{}
	for _, x := range a {
		ma[x] = true
	}
	for _, x := range b {
		mb[x] = true
	}
	for _, x := range a {
		if !mb[x] {
			onlyA = append(onlyA, x)
		}
	}
	for _, x := range b {
		if !ma[x] {
			onlyB = append(onlyB, x)
		}
	}
	return
}

// compareModel: implementation vs Lean model on one permutation. "" = agree.
func compareModel(ctx *Ctx, c mgCase, o mgOutcome) (string, interface{}) {
	if ctx.Driver == nil {
		return "", nil
	}
	var qs [][]string
	if o.Outcome == "ok" {
		qs = getURLQueries(o, c.URLs)
	}
	m, err := callModel(ctx, c, o.Perm, qs)
	if err != nil {
		return "driver: " + err.Error(), nil
	}
	ctx.Rep.Traces++
	switch o.Outcome {
	case "panic":
		if m.Outcome != "panic" {
			return "real merger panics (" + o.Err + "), model says " + m.Outcome, m.Raw
		}
	case "error":
		if o.Kind == "reload-error" {
			if m.Outcome != "ok" {
				return "real merger fails in format+reload (" + o.Err + "), model says " + m.Outcome + " " + m.Kind, m.Raw
			}
			ctx.Rep.Count("reload-error (gqlparser rejects what the model accepts: outside the model)")
			msg := o.Err
			if i := strings.Index(msg, ": "); i >= 0 {
				msg = msg[i+2:]
			}
			if f := strings.Fields(msg); len(f) > 4 {
				msg = "… " + strings.Join(f[len(f)-6:], " ")
			}
			ctx.Rep.Count("reload-error: " + msg)
			return "", nil
		}
		if m.Outcome != "error" {
			return "real merger rejects (" + o.Kind + "), model says " + m.Outcome, m.Raw
		}
		found := false
		for _, k := range m.Kinds {
			found = found || k == o.Kind
		}
		if !found {
			return fmt.Sprintf("error kind %s is not among the kinds the model allows at the failing step %v", o.Kind, m.Kinds), m.Raw
		}
	case "ok":
		if m.Outcome != "ok" {
			return "real merger accepts, model says " + m.Outcome + " " + m.Kind, m.Raw
		}
		if !mgEqStrs(o.Items, m.Items) {
			a, b := mgDiffStrs(o.Items, m.Items)
			return fmt.Sprintf("merged schema differs: only impl %v, only model %v", a, b), nil
		}
		if !mgEqStrs(o.Tum, m.Tum) {
			a, b := mgDiffStrs(o.Tum, m.Tum)
			return fmt.Sprintf("TypeURLMap differs: only impl %v, only model %v", a, b), nil
		}
		if !mgEqStrs(o.URLs, m.URLs) {
			return fmt.Sprintf("GetURLs differs: impl %v model %v", o.URLs, m.URLs), nil
		}
		if g := implGetURL(o, qs); !mgEqStrs(g, m.GetURL) {
			return fmt.Sprintf("GetURL differs on %v: impl %v model %v", qs, g, m.GetURL), nil
		}
		for T := range o.tm {
			ft, _ := o.tm.GetForType(T)
			if !mgEqStrs(ft, m.ForType[T]) && !(len(ft) == 0 && len(m.ForType[T]) == 0) {
				return fmt.Sprintf("GetForType(%s) differs: impl %v model %v", T, ft, m.ForType[T]), nil
			}
		}
	}
	return "", nil
}

// ---------------------------------------------------------------------------------------------
// permutations of a case

func mgCasePerms(c mgCase, r *hx.Rand) [][]int {
	n := len(c.SDL)
	if n <= 4 {
		return permutations(n)
	}
	id := make([]int, n)
	rev := make([]int, n)
	for i := range id {
		id[i], rev[i] = i, n-1-i
	}
	out := [][]int{id, rev}
	for k := 0; k < 6; k++ {
		out = append(out, r.Perm(n))
	}
	return out
}

func mgInputItems(c mgCase) ([][]string, []*ast.Schema, error) {
	id := make([]int, len(c.SDL))
	for i := range id {
		id[i] = i
	}
	in, err := mgLoadInputs(c, id)
	if err != nil {
		return nil, nil, err
	}
	items := make([][]string, len(in))
	schemas := make([]*ast.Schema, len(in))
	for i, x := range in {
		items[i] = mgSchemaItems(x.Schema)
		// a "broken remote union" declares its members through PossibleTypes only
		for n, d := range x.Schema.Types {
			if d.Kind == ast.Union && len(d.Types) == 0 {
				for _, m := range x.Schema.PossibleTypes[n] {
					items[i] = append(items[i], "M|"+n+"|"+m.Name)
				}
			}
		}
		items[i] = mgDedupSorted(hx.SortedStrings(items[i]))
		schemas[i] = x.Schema
	}
	return items, schemas, nil
}

func mgCountCase(ctx *Ctx, c mgCase, outs []mgOutcome) {
	ctx.Rep.Count(fmt.Sprintf("services=%d", len(c.SDL)))
	ctx.Rep.Count("mode=" + c.Mode)
	if c.Inject != "" {
		ctx.Rep.Count("inject=" + c.Inject)
	} else {
		ctx.Rep.Count("inject=none (mergeable base)")
	}
	for _, t := range c.Tags {
		ctx.Rep.Count("feature: " + t)
	}
	for _, o := range outs {
		k := o.Outcome
		if o.Outcome == "error" {
			k = "reject:" + o.Kind
		}
		ctx.Rep.Count("outcome " + k)
	}
}

// mgFailSet keeps the first failure of every category of one case (a defect shows under many permutations).
type mgFailSet struct {
	seen map[string]bool
	list []hx.Failure
}

func (fs *mgFailSet) add(cat string, f hx.Failure) {
	if fs.seen == nil {
		fs.seen = map[string]bool{}
	}
	if fs.seen[cat] {
		return
	}
	fs.seen[cat] = true
	fs.list = append(fs.list, f)
}

func mgIdentityOutcome(outs []mgOutcome) *mgOutcome {
	for k := range outs {
		id := true
		for i, x := range outs[k].Perm {
			id = id && i == x
		}
		if id {
			return &outs[k]
		}
	}
	return nil
}
