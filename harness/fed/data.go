package fed

import (
	"fmt"
	"sort"
	"strings"
	"sync"

	"verif/harness/hx"
)

// Val is a stored value: null | scalar | ref (entity id) | embedded object | list.
type Val struct {
	Kind   string      `json:"k"` // "null" "scalar" "ref" "obj" "list"
	Scalar interface{} `json:"s,omitempty"`
	Ref    string      `json:"r,omitempty"`
	Obj    *Object     `json:"o,omitempty"`
	List   []Val       `json:"l,omitempty"`
}

// Object is an entity (ID != "") or an embedded value object.
type Object struct {
	Type   string         `json:"type"`
	ID     string         `json:"id,omitempty"`
	Fields map[string]Val `json:"fields"`
}

// Data is the entity graph of the whole federation: "the union of the same data".
type Data struct {
	Entities map[string]*Object        `json:"entities"`
	Order    []string                  `json:"order"`
	Roots    map[string]map[string]Val `json:"roots"` // "Query"/"Mutation"/"Subscription" → field → value
	Counters map[string]int            `json:"-"`     // mutation side effects: field → number of executions
	mu       sync.Mutex
}

// Bump counts one execution of a mutation root field (services answer concurrently).
func (d *Data) Bump(field string) {
	d.mu.Lock()
	if d.Counters == nil {
		d.Counters = map[string]int{}
	}
	d.Counters[field]++
	d.mu.Unlock()
}

func Null() Val { return Val{Kind: "null"} }

// Clone copies the mutable part (counters); entities are immutable after generation.
func (d *Data) Clone() *Data {
	return &Data{Entities: d.Entities, Order: d.Order, Roots: d.Roots, Counters: map[string]int{}}
}

// IDAlphabet selects how entity ids look.
type IDAlphabet int

const (
	IDPlain IDAlphabet = iota // "N0_1"
	IDWild                    // may contain '#', ':', '.', be empty-looking, unicode, numeric
)

type DataOptions struct {
	MaxEntities  int
	IDs          IDAlphabet
	NullChance   int  // 1/n for nullable positions (0 = never)
	NullObjElems bool // allow null elements inside lists of objects (stream null-object-elements of C01: the element keeps its place, nothing is stitched there)
}

func DefaultData() DataOptions { return DataOptions{MaxEntities: 4, NullChance: 6} }

// GenData draws an entity graph for a federation description.
func GenData(r *hx.Rand, s *Spec, o DataOptions) *Data {
	d := &Data{Entities: map[string]*Object{}, Roots: map[string]map[string]Val{}, Counters: map[string]int{}}
	byType := map[string][]string{}
	for _, t := range s.Types {
		if !t.Node {
			continue
		}
		n := r.Range(1, o.MaxEntities)
		for k := 0; k < n; k++ {
			id := fmt.Sprintf("%s_%d", t.Name, k)
			if o.IDs == IDWild && r.Chance(1, 3) {
				id = hx.Pick(r, []string{"%s#%d", "%s:%d", "%s.%d", "%d%s", "ü%s %d", "%s/%d?"})
				id = fmt.Sprintf(strings.Replace(id, "%d%s", "%[2]d%[1]s", 1), t.Name, k)
			}
			d.Entities[id] = &Object{Type: t.Name, ID: id, Fields: map[string]Val{}}
			d.Order = append(d.Order, id)
			byType[t.Name] = append(byType[t.Name], id)
		}
	}
	var gen func(ty string, depth int) Val
	gen = func(ty string, depth int) Val {
		nonNull := strings.HasSuffix(ty, "!")
		inner := strings.TrimSuffix(ty, "!")
		if !nonNull && o.NullChance > 0 && r.Chance(1, o.NullChance) {
			return Null()
		}
		if strings.HasPrefix(inner, "[") {
			elem := inner[1 : len(inner)-1]
			n := r.Range(0, 4)
			out := Val{Kind: "list", List: []Val{}}
			for i := 0; i < n; i++ {
				el := gen(elem, depth+1)
				if el.Kind == "null" && !o.NullObjElems && !isScalarName(NamedType(elem)) {
					continue
				}
				out.List = append(out.List, el)
			}
			return out
		}
		switch inner {
		case "String", "ID":
			return Val{Kind: "scalar", Scalar: fmt.Sprintf("s%d", r.Intn(1000))}
		case "Int":
			return Val{Kind: "scalar", Scalar: r.Intn(1000)}
		case "Float":
			return Val{Kind: "scalar", Scalar: r.Intn(1000)}
		case "Boolean":
			return Val{Kind: "scalar", Scalar: r.Bool()}
		}
		for _, e := range s.Enums {
			if e == inner {
				return Val{Kind: "scalar", Scalar: hx.Pick(r, []string{"A", "B", "C"})}
			}
		}
		if a := s.Abstract(inner); a != nil {
			m := hx.Pick(r, a.Members)
			return Val{Kind: "ref", Ref: hx.Pick(r, byType[m])}
		}
		t := s.Type(inner)
		if t == nil {
			return Null()
		}
		if t.Node {
			return Val{Kind: "ref", Ref: hx.Pick(r, byType[inner])}
		}
		obj := &Object{Type: t.Name, Fields: map[string]Val{}}
		for _, f := range t.Fields {
			obj.Fields[f.Name] = gen(f.Type, depth+1)
		}
		return Val{Kind: "obj", Obj: obj}
	}
	for _, t := range s.Types {
		if !t.Node {
			continue
		}
		for _, id := range byType[t.Name] {
			for _, f := range t.Fields {
				d.Entities[id].Fields[f.Name] = gen(f.Type, 0)
			}
		}
	}
	for _, root := range []struct {
		name string
		fs   []FieldSpec
	}{{"Query", s.Query}, {"Mutation", s.Mutation}, {"Subscription", s.Subs}} {
		d.Roots[root.name] = map[string]Val{}
		for _, f := range root.fs {
			d.Roots[root.name][f.Name] = gen(f.Type, 0)
		}
	}
	return d
}

// EntityIDs lists the entity ids of a type, in creation order.
func (d *Data) EntityIDs(typ string) []string {
	var out []string
	for _, id := range d.Order {
		if d.Entities[id].Type == typ {
			out = append(out, id)
		}
	}
	return out
}

// CanonArgs renders coerced argument values canonically (sorted by name).
func CanonArgs(args map[string]interface{}) string {
	keys := make([]string, 0, len(args))
	for k := range args {
		keys = append(keys, k)
	}
	sort.Strings(keys)
	parts := make([]string, len(keys))
	for i, k := range keys {
		parts[i] = k + "=" + hx.Canon(args[k])
	}
	return strings.Join(parts, ",")
}

// AllEntityIDs lists every entity id, in creation order.
func (d *Data) AllEntityIDs() []string { return append([]string(nil), d.Order...) }
