package fed

import (
	"fmt"
	"strings"

	"verif/harness/hx"
)

// RepOptions steer GenDataRepeats.
type RepOptions struct {
	MaxEntities int // entities per node type (small ⇒ long lists necessarily repeat entities)
	MaxList     int // longest list (0..MaxList)
	LongChance  int // 1/n of the lists are drawn from the long range
	NullChance  int // as in DataOptions
}

func DefaultRep() RepOptions {
	return RepOptions{MaxEntities: 4, MaxList: 200, LongChance: 4, NullChance: 8}
}

// GenDataRepeats is GenData with result lists of widely varying length (0..MaxList) over few
// entities, so that the same entity occurs many times in one list and under many parents — the
// data shapes C12 is about (N+1 lookups, de-duplication, fan-out).
func GenDataRepeats(r *hx.Rand, s *Spec, o RepOptions) *Data {
	d := &Data{Entities: map[string]*Object{}, Roots: map[string]map[string]Val{}, Counters: map[string]int{}}
	byType := map[string][]string{}
	for _, t := range s.Types {
		if !t.Node {
			continue
		}
		n := r.Range(1, o.MaxEntities)
		for k := 0; k < n; k++ {
			id := fmt.Sprintf("%s_%d", t.Name, k)
			d.Entities[id] = &Object{Type: t.Name, ID: id, Fields: map[string]Val{}}
			d.Order = append(d.Order, id)
			byType[t.Name] = append(byType[t.Name], id)
		}
	}
	listLen := func(depth int) int {
		if depth > 0 { // lists inside lists of value objects stay short
			return r.Range(0, 3)
		}
		if o.LongChance > 0 && r.Chance(1, o.LongChance) {
			return r.Range(o.MaxList/4, o.MaxList)
		}
		switch r.Intn(4) {
		case 0:
			return 0
		case 1:
			return 1
		default:
			return r.Range(2, 12)
		}
	}
	var gen func(ty string, depth int) Val
	gen = func(ty string, depth int) Val {
		nonNull := strings.HasSuffix(ty, "!")
		inner := strings.TrimSuffix(ty, "!")
		if !nonNull && o.NullChance > 0 && r.Chance(1, o.NullChance) {
			return Null()
		}
		if strings.HasPrefix(inner, "[") {
			elem := inner[1 : len(inner)-1]
			n := listLen(depth)
			out := Val{Kind: "list", List: []Val{}}
			for i := 0; i < n; i++ {
				el := gen(elem, depth+1)
				if el.Kind == "null" && !isScalarName(NamedType(elem)) {
					continue
				}
				out.List = append(out.List, el)
			}
			return out
		}
		switch inner {
		case "String", "ID":
			return Val{Kind: "scalar", Scalar: fmt.Sprintf("s%d", r.Intn(1000))}
		case "Int", "Float":
			return Val{Kind: "scalar", Scalar: r.Intn(1000)}
		case "Boolean":
			return Val{Kind: "scalar", Scalar: r.Bool()}
		}
		for _, e := range s.Enums {
			if e == inner {
				return Val{Kind: "scalar", Scalar: hx.Pick(r, []string{"A", "B", "C"})}
			}
		}
		if a := s.Abstract(inner); a != nil {
			m := hx.Pick(r, a.Members)
			return Val{Kind: "ref", Ref: hx.Pick(r, byType[m])}
		}
		t := s.Type(inner)
		if t == nil {
			return Null()
		}
		if t.Node {
			return Val{Kind: "ref", Ref: hx.Pick(r, byType[inner])}
		}
		obj := &Object{Type: t.Name, Fields: map[string]Val{}}
		for _, f := range t.Fields {
			obj.Fields[f.Name] = gen(f.Type, depth+1)
		}
		return Val{Kind: "obj", Obj: obj}
	}
	for _, t := range s.Types {
		if !t.Node {
			continue
		}
		for _, id := range byType[t.Name] {
			for _, f := range t.Fields {
				d.Entities[id].Fields[f.Name] = gen(f.Type, 0)
			}
		}
	}
	for _, root := range []struct {
		name string
		fs   []FieldSpec
	}{{"Query", s.Query}, {"Mutation", s.Mutation}, {"Subscription", s.Subs}} {
		d.Roots[root.name] = map[string]Val{}
		for _, f := range root.fs {
			d.Roots[root.name][f.Name] = gen(f.Type, 0)
		}
	}
	return d
}
