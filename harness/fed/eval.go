package fed

import (
	"fmt"

	"github.com/vektah/gqlparser/v2/ast"
)

// Eval is the reference GraphQL executor over an entity graph: the "single server exposing
// schema S over data D". Fake services use it with their own schema; the oracle for the client
// operation uses it with the merged schema. (Cross-validated against the Lean Spec.eval.)
type Eval struct {
	Schema *ast.Schema
	Data   *Data
	Vars   map[string]interface{}
	Errors []string
}

type objRef struct {
	root string  // "Query"/"Mutation"/"Subscription" for the root pseudo-object
	obj  *Object // otherwise
}

func (o objRef) typeName() string {
	if o.obj != nil {
		return o.obj.Type
	}
	return o.root
}

// Execute runs one operation and returns `data` (nil if a non-null violation reached the root).
func (e *Eval) Execute(op *ast.OperationDefinition) map[string]interface{} {
	root := "Query"
	switch op.Operation {
	case ast.Mutation:
		root = "Mutation"
	case ast.Subscription:
		root = "Subscription"
	}
	res, ok := e.selSet(objRef{root: root}, op.SelectionSet)
	if !ok {
		return nil
	}
	return res
}

func (e *Eval) skip(dirs ast.DirectiveList) bool {
	for _, d := range dirs {
		if d.Name != "skip" && d.Name != "include" {
			continue
		}
		a := d.Arguments.ForName("if")
		if a == nil {
			continue
		}
		v, _ := a.Value.Value(e.Vars)
		b, _ := v.(bool)
		if d.Name == "skip" && b {
			return true
		}
		if d.Name == "include" && !b {
			return true
		}
	}
	return false
}

func (e *Eval) applies(o objRef, cond string) bool {
	if cond == "" || cond == o.typeName() {
		return true
	}
	for _, d := range e.Schema.PossibleTypes[cond] {
		if d.Name == o.typeName() {
			return true
		}
	}
	return false
}

type collected struct {
	key    string
	fields []*ast.Field
}

func (e *Eval) collect(o objRef, ss ast.SelectionSet, out *[]*collected) {
	for _, s := range ss {
		switch s := s.(type) {
		case *ast.Field:
			if e.skip(s.Directives) {
				continue
			}
			key := s.Alias
			if key == "" {
				key = s.Name
			}
			found := false
			for _, c := range *out {
				if c.key == key {
					c.fields = append(c.fields, s)
					found = true
				}
			}
			if !found {
				*out = append(*out, &collected{key: key, fields: []*ast.Field{s}})
			}
		case *ast.InlineFragment:
			if e.skip(s.Directives) || !e.applies(o, s.TypeCondition) {
				continue
			}
			e.collect(o, s.SelectionSet, out)
		case *ast.FragmentSpread:
			if e.skip(s.Directives) || s.Definition == nil || !e.applies(o, s.Definition.TypeCondition) {
				continue
			}
			e.collect(o, s.Definition.SelectionSet, out)
		}
	}
}

// selSet evaluates a selection set on an object; ok=false means a non-null violation propagates.
func (e *Eval) selSet(o objRef, ss ast.SelectionSet) (map[string]interface{}, bool) {
	var cs []*collected
	e.collect(o, ss, &cs)
	res := map[string]interface{}{}
	for _, c := range cs {
		f := c.fields[0]
		var sub ast.SelectionSet
		for _, ff := range c.fields {
			sub = append(sub, ff.SelectionSet...)
		}
		v, ok := e.field(o, f, sub)
		if !ok {
			return nil, false
		}
		res[c.key] = v
	}
	return res, true
}

func (e *Eval) args(f *ast.Field) map[string]interface{} {
	out := map[string]interface{}{}
	for _, a := range f.Arguments {
		v, err := a.Value.Value(e.Vars)
		if err != nil {
			continue
		}
		if a.Value.Kind == ast.Variable {
			if _, present := e.Vars[a.Value.Raw]; !present {
				if a.Value.VariableDefinition == nil || a.Value.VariableDefinition.DefaultValue == nil {
					continue // variable not provided: argument omitted
				}
			}
		}
		out[a.Name] = normNilSlices(v) // gqlparser yields a nil slice for the literal []
	}
	return out
}

func (e *Eval) field(o objRef, f *ast.Field, sub ast.SelectionSet) (interface{}, bool) {
	if f.Name == "__typename" {
		return o.typeName(), true
	}
	var stored Val
	var ftype *ast.Type
	if f.Definition != nil {
		ftype = f.Definition.Type
	}
	switch {
	case o.obj == nil && o.root == "Query" && f.Name == "node":
		args := e.args(f)
		id := fmt.Sprint(args["id"])
		ent, ok := e.Data.Entities[id]
		if !ok || e.Schema.Types[ent.Type] == nil || e.Schema.Types[ent.Type].Kind != ast.Object {
			return nil, true
		}
		stored = Val{Kind: "ref", Ref: id}
	case o.obj == nil:
		stored = e.Data.Roots[o.root][f.Name]
		if o.root == "Mutation" {
			e.Data.Bump(f.Name) // bookkeeping only: how often a mutation root field was executed
		}
	case f.Name == "id" && o.obj.ID != "":
		return o.obj.ID, true
	default:
		stored = o.obj.Fields[f.Name]
	}
	if stored.Kind == "" {
		stored = Null()
	}
	return e.complete(ftype, stored, f, sub)
}

func (e *Eval) complete(t *ast.Type, v Val, f *ast.Field, sub ast.SelectionSet) (interface{}, bool) {
	nonNull := t != nil && t.NonNull
	if v.Kind == "null" {
		if nonNull {
			e.Errors = append(e.Errors, "null for non-null field "+f.Name)
			return nil, false
		}
		return nil, true
	}
	if t != nil && t.Elem != nil {
		if v.Kind != "list" {
			e.Errors = append(e.Errors, "expected list for "+f.Name)
			return nil, !nonNull
		}
		out := make([]interface{}, 0, len(v.List))
		for _, el := range v.List {
			x, ok := e.complete(t.Elem, el, f, sub)
			if !ok {
				if nonNull {
					return nil, false
				}
				return nil, true
			}
			out = append(out, x)
		}
		return out, true
	}
	switch v.Kind {
	case "scalar":
		if len(f.Arguments) > 0 {
			if a := e.args(f); len(a) > 0 || true {
				if s, isStr := v.Scalar.(string); isStr {
					return s + "|" + CanonArgs(a), true
				}
			}
		}
		return v.Scalar, true
	case "ref":
		ent := e.Data.Entities[v.Ref]
		if ent == nil {
			if nonNull {
				e.Errors = append(e.Errors, "dangling ref "+v.Ref)
				return nil, false
			}
			return nil, true
		}
		res, ok := e.selSet(objRef{obj: ent}, sub)
		if !ok {
			if nonNull {
				return nil, false
			}
			return nil, true
		}
		return res, true
	case "obj":
		res, ok := e.selSet(objRef{obj: v.Obj}, sub)
		if !ok {
			if nonNull {
				return nil, false
			}
			return nil, true
		}
		return res, true
	case "list":
		// stored list under a non-list type: data contradicts the schema
		e.Errors = append(e.Errors, "unexpected list for "+f.Name)
		return nil, !nonNull
	}
	return nil, true
}

func normNilSlices(v interface{}) interface{} {
	switch x := v.(type) {
	case []interface{}:
		if x == nil {
			return []interface{}{}
		}
		for i := range x {
			x[i] = normNilSlices(x[i])
		}
		return x
	case map[string]interface{}:
		for k := range x {
			x[k] = normNilSlices(x[k])
		}
		return x
	}
	return v
}
