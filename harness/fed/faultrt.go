package fed

import (
	"bytes"
	"encoding/json"
	"fmt"
	"io"
	"net/http"
	"sort"
	"strings"
	"sync"

	pebbles "github.com/buildbuildio/pebbles"
	"github.com/buildbuildio/pebbles/planner"
	"github.com/buildbuildio/pebbles/queryer"
)

// Wire-level fault injection (added for the "faults" family, C09/C10): an http.RoundTripper
// layered over Transport that logs every downstream exchange as it went over the wire and
// rewrites chosen answers AFTER the fake service produced them. It complements Service.Fault
// (which decides inside the service): here the fault is expressed on the HTTP answer itself
// (status, raw body, array length, one element of the array), so arbitrary bodies can be
// produced and the log holds exactly what the gateway received.

// WireFault rewrites the answer of one downstream HTTP call.
//
// The call is selected either by (Service, HTTPCall) — HTTPCall is the per-service sequence
// number of the HTTP call, counted by the FaultRT — or, when MatchQuery is non-empty, by
// "the call of Service that carries a sub-request with this query text and these variables"
// (Position is then the position of that sub-request).
type WireFault struct {
	Service    int    `json:"service"`
	HTTPCall   int    `json:"http_call"`
	Position   int    `json:"position"`
	MatchQuery string `json:"match_query,omitempty"`
	MatchVars  string `json:"match_vars,omitempty"` // canonical JSON of the variables ("" = any)

	// Kind, call level: "transport" | "status" (Status; body kept) | "body" (Body verbatim, status 200)
	//   | "short" (drop the last element) | "long" (append {"data":{}}) | "dropat" (remove element Position)
	//   | "empty" ([]).
	// Kind, element level (element Position of the answer array): "errors" ({"data":null,"errors":Errors})
	//   | "errors+data" (add "errors":Errors to the real answer) | "nodata" ({}) | "nulldata" ({"data":null})
	//   | "noerrors-nodata" ({"errors":[]}) | "elem" (the element becomes Elem) | "data" (its data becomes Elem)
	//   | "mut" (shape mutation Mut applied to its data).
	Kind   string        `json:"kind"`
	Status int           `json:"status,omitempty"`
	Body   string        `json:"body,omitempty"`
	Errors []interface{} `json:"errors,omitempty"`
	Elem   interface{}   `json:"elem,omitempty"`
	Mut    *ShapeMut     `json:"mut,omitempty"`
}

// ShapeMut replaces one sub-value of a data object by a value of another shape.
// The target is the Pick-th (modulo the count) path of the object in sorted order.
type ShapeMut struct {
	Pick int    `json:"pick"`
	How  string `json:"how"` // see applyShape
}

// WireExchange is one downstream HTTP call as the gateway saw it.
type WireExchange struct {
	Seq          int      `json:"seq"`
	Service      int      `json:"service"`
	HTTPCall     int      `json:"http_call"`
	N            int      `json:"n"` // number of sub-requests in the call
	Queries      []string `json:"queries"`
	Vars         []string `json:"vars"` // canonical JSON per sub-request
	Status       int      `json:"status"`
	Body         string   `json:"body"`
	TransportErr string   `json:"transport_err,omitempty"`
	Applied      []int    `json:"applied,omitempty"` // indices into FaultRT.Faults that fired on this call
	MutPath      string   `json:"mut_path,omitempty"`
}

// FaultRT is the logging / fault-injecting RoundTripper.
type FaultRT struct {
	Fed    *Fed
	Inner  http.RoundTripper
	Faults []WireFault

	mu    sync.Mutex
	seq   int
	calls map[int]int
	Log   []*WireExchange
}

func (f *Fed) NewFaultRT(faults []WireFault) *FaultRT {
	return &FaultRT{Fed: f, Inner: &Transport{Fed: f}, Faults: faults, calls: map[int]int{}}
}

// SetFaults replaces the fault list (e.g. to [] for a fault-free follow-up request).
func (t *FaultRT) SetFaults(faults []WireFault) {
	t.mu.Lock()
	t.Faults = faults
	t.mu.Unlock()
}

// Exchanges returns a copy of the log, in order of arrival.
func (t *FaultRT) Exchanges() []*WireExchange {
	t.mu.Lock()
	defer t.mu.Unlock()
	return append([]*WireExchange(nil), t.Log...)
}

// ResetLog forgets the exchanges (the per-service call counters restart as well).
func (t *FaultRT) ResetLog() {
	t.mu.Lock()
	t.Log, t.calls, t.seq = nil, map[int]int{}, 0
	t.mu.Unlock()
}

// NewGatewayOver builds a real gateway whose queryers go through the given RoundTripper.
func (f *Fed) NewGatewayOver(rt http.RoundTripper, maxBatch int) (*pebbles.Gateway, error) {
	if maxBatch <= 0 {
		maxBatch = 3000
	}
	client := &http.Client{Transport: rt}
	return f.NewGateway(GatewayConfig{MaxBatch: maxBatch, Options: []pebbles.GatewayOption{
		pebbles.WithQueryerFactory(func(ctx *planner.PlanningContext, url string) queryer.Queryer {
			return queryer.NewMultiOpQueryer(url, maxBatch).WithHTTPClient(client)
		}),
	}})
}

func canonJSON(v interface{}) string {
	b, _ := json.Marshal(v) // encoding/json sorts map keys
	return string(b)
}

func (t *FaultRT) RoundTrip(r *http.Request) (*http.Response, error) {
	svc := -1
	for _, s := range t.Fed.Services {
		if strings.HasPrefix(r.URL.String(), s.URL) {
			svc = s.Index
		}
	}
	body, _ := io.ReadAll(r.Body)
	ex := &WireExchange{Service: svc}
	var reqs []wireReq
	if err := json.Unmarshal(body, &reqs); err == nil {
		ex.N = len(reqs)
		for _, q := range reqs {
			ex.Queries = append(ex.Queries, q.Query)
			ex.Vars = append(ex.Vars, canonJSON(q.Variables))
		}
	} else {
		ex.N = 1 // multipart or single: not rewritten below
	}
	t.mu.Lock()
	ex.Seq = t.seq
	t.seq++
	ex.HTTPCall = t.calls[svc]
	t.calls[svc]++
	t.Log = append(t.Log, ex)
	faults := t.Faults
	t.mu.Unlock()

	// which faults fire on this call
	type hit struct{ idx, pos int }
	var hits []hit
	for i, f := range faults {
		if f.Service != svc {
			continue
		}
		if f.MatchQuery != "" {
			for p := range ex.Queries {
				if ex.Queries[p] == f.MatchQuery && (f.MatchVars == "" || f.MatchVars == ex.Vars[p]) {
					hits = append(hits, hit{i, p})
					break
				}
			}
		} else if f.HTTPCall == ex.HTTPCall {
			hits = append(hits, hit{i, f.Position})
		}
	}
	for _, h := range hits {
		if faults[h.idx].Kind == "transport" {
			ex.Applied = append(ex.Applied, h.idx)
			ex.TransportErr = "injected transport error"
			// the service still receives the call (the failure is on the way back)
			r2 := r.Clone(r.Context())
			r2.Body = io.NopCloser(bytes.NewReader(body))
			if resp, err := t.Inner.RoundTrip(r2); err == nil {
				resp.Body.Close()
			}
			return nil, fmt.Errorf("injected transport error")
		}
	}
	r2 := r.Clone(r.Context())
	r2.Body = io.NopCloser(bytes.NewReader(body))
	resp, err := t.Inner.RoundTrip(r2)
	if err != nil {
		ex.TransportErr = err.Error()
		return nil, err
	}
	rb, _ := io.ReadAll(resp.Body)
	resp.Body.Close()
	status := resp.StatusCode
	for _, h := range hits {
		f := faults[h.idx]
		ex.Applied = append(ex.Applied, h.idx)
		switch f.Kind {
		case "status":
			status = f.Status
			continue
		case "body":
			rb = []byte(f.Body)
			continue
		}
		var arr []interface{}
		dec := json.NewDecoder(bytes.NewReader(rb))
		dec.UseNumber()
		if err := dec.Decode(&arr); err != nil {
			continue // an earlier fault already made the body a non-array
		}
		p := h.pos
		switch f.Kind {
		case "short":
			if len(arr) > 0 {
				arr = arr[:len(arr)-1]
			}
		case "long":
			arr = append(arr, map[string]interface{}{"data": map[string]interface{}{}})
		case "empty":
			arr = []interface{}{}
		case "dropat":
			if p < len(arr) {
				arr = append(arr[:p:p], arr[p+1:]...)
			}
		default:
			if p < 0 || p >= len(arr) {
				continue
			}
			el, _ := arr[p].(map[string]interface{})
			switch f.Kind {
			case "errors":
				arr[p] = map[string]interface{}{"data": nil, "errors": f.Errors}
			case "errors+data":
				if el != nil {
					el["errors"] = f.Errors
				}
			case "nodata":
				arr[p] = map[string]interface{}{}
			case "nulldata":
				arr[p] = map[string]interface{}{"data": nil}
			case "noerrors-nodata":
				arr[p] = map[string]interface{}{"errors": []interface{}{}}
			case "elem":
				arr[p] = f.Elem
			case "data":
				if el != nil {
					el["data"] = f.Elem
				}
			case "mut":
				if el != nil && f.Mut != nil {
					if d, ok := el["data"].(map[string]interface{}); ok {
						ex.MutPath = applyShape(d, *f.Mut)
					}
				}
			}
		}
		rb, _ = json.Marshal(arr)
	}
	ex.Status, ex.Body = status, string(rb)
	return &http.Response{StatusCode: status, Body: io.NopCloser(bytes.NewReader(rb)), Header: http.Header{"Content-Type": []string{"application/json"}}}, nil
}

// ---- shape mutations -------------------------------------------------------------------------

type shapeSite struct {
	path   string
	parent interface{} // map[string]interface{} or []interface{}
	key    string
	idx    int
}

func collectSites(v interface{}, path string, out *[]shapeSite) {
	switch x := v.(type) {
	case map[string]interface{}:
		keys := make([]string, 0, len(x))
		for k := range x {
			keys = append(keys, k)
		}
		sort.Strings(keys)
		for _, k := range keys {
			p := path + "/" + k
			*out = append(*out, shapeSite{path: p, parent: x, key: k})
			collectSites(x[k], p, out)
		}
	case []interface{}:
		for i := range x {
			p := fmt.Sprintf("%s/%d", path, i)
			*out = append(*out, shapeSite{path: p, parent: x, idx: i})
			collectSites(x[i], p, out)
		}
	}
}

// ShapeHows lists the shape mutations applyShape knows.
func ShapeHows() []string {
	return []string{"scalar", "string", "null", "emptylist", "listof", "emptyobj", "typenameobj", "drop", "dropid",
		"idobj", "idlist", "idnum", "idempty", "idnull", "appendscalar", "appendnull", "appendlist", "dup", "objof"}
}

// applyShape mutates d in place and returns the path it touched ("" if there was no site).
func applyShape(d map[string]interface{}, m ShapeMut) string {
	var sites []shapeSite
	collectSites(d, "", &sites)
	if len(sites) == 0 {
		return ""
	}
	s := sites[((m.Pick%len(sites))+len(sites))%len(sites)]
	var cur interface{}
	set := func(v interface{}) {
		if mp, ok := s.parent.(map[string]interface{}); ok {
			mp[s.key] = v
		} else if l, ok := s.parent.([]interface{}); ok {
			l[s.idx] = v
		}
	}
	if mp, ok := s.parent.(map[string]interface{}); ok {
		cur = mp[s.key]
	} else if l, ok := s.parent.([]interface{}); ok {
		cur = l[s.idx]
	}
	obj, _ := cur.(map[string]interface{})
	lst, isList := cur.([]interface{})
	switch m.How {
	case "scalar":
		set(json.Number("7"))
	case "string":
		set("zz")
	case "null":
		set(nil)
	case "emptylist":
		set([]interface{}{})
	case "listof":
		set([]interface{}{cur})
	case "emptyobj":
		set(map[string]interface{}{})
	case "typenameobj":
		set(map[string]interface{}{"__typename": "Zz"})
	case "objof":
		set(map[string]interface{}{"zz": cur})
	case "drop":
		if mp, ok := s.parent.(map[string]interface{}); ok {
			delete(mp, s.key)
		} else {
			set(nil)
		}
	case "dropid":
		if obj != nil {
			delete(obj, "id")
		} else {
			set(nil)
		}
	case "idobj", "idlist", "idnum", "idempty", "idnull":
		var idv interface{}
		switch m.How {
		case "idobj":
			idv = map[string]interface{}{"a": json.Number("1")}
		case "idlist":
			idv = []interface{}{json.Number("1")}
		case "idnum":
			idv = json.Number("5")
		case "idempty":
			idv = ""
		}
		if obj != nil {
			obj["id"] = idv
		} else if isList {
			for _, e := range lst {
				if em, ok := e.(map[string]interface{}); ok {
					em["id"] = idv
				}
			}
		} else {
			set(map[string]interface{}{"id": idv})
		}
	case "appendscalar":
		if isList {
			set(append(lst, json.Number("3")))
		} else {
			set(json.Number("3"))
		}
	case "appendnull":
		if isList {
			set(append(lst, nil))
		} else {
			set(nil)
		}
	case "appendlist":
		if isList {
			set(append(lst, []interface{}{}))
		} else {
			set([]interface{}{[]interface{}{}})
		}
	case "dup":
		if isList && len(lst) > 0 {
			set(append(lst, lst[0]))
		} else {
			set([]interface{}{cur, cur})
		}
	}
	return s.path + ":" + m.How
}
