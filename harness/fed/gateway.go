package fed

import (
	"bytes"
	"context"
	"encoding/json"
	"net/http"
	"net/http/httptest"
	"time"

	pebbles "github.com/buildbuildio/pebbles"
	"github.com/buildbuildio/pebbles/planner"
	"github.com/buildbuildio/pebbles/queryer"
	"github.com/vektah/gqlparser/v2"
	"github.com/vektah/gqlparser/v2/ast"
)

// sdlIntrospector hands the gateway each service's schema without any network: the schema is
// what gqlparser loads from the service's SDL (what a faithful remote introspection would give;
// the reconstruction itself is C15's subject).
type sdlIntrospector struct{ fed *Fed }

func (s sdlIntrospector) IntrospectRemoteSchemas(urls ...string) ([]*ast.Schema, error) {
	out := make([]*ast.Schema, len(urls))
	for i, u := range urls {
		for _, svc := range s.fed.Services {
			if svc.URL == u {
				// a fresh load per gateway: the merger mutates its inputs
				sch, err := gqlparser.LoadSchema(&ast.Source{Name: u, Input: svc.SDL})
				if err != nil {
					return nil, err
				}
				out[i] = sch
			}
		}
	}
	return out, nil
}

// GatewayConfig selects the configuration switches that must not change results (C01).
type GatewayConfig struct {
	MaxBatch int                     // downstream batch size (default 3000 like the gateway's default factory)
	Options  []pebbles.GatewayOption // e.g. WithMerger, WithPlanner, WithGetParentTypeFromIDFunc
	URLOrder []int                   // permutation of services (nil = natural order)
}

// NewGateway builds a real pebbles gateway over the fake services, no network.
func (f *Fed) NewGateway(cfg GatewayConfig) (*pebbles.Gateway, error) {
	mb := cfg.MaxBatch
	if mb <= 0 {
		mb = 3000
	}
	client := &http.Client{Transport: &Transport{Fed: f}}
	opts := []pebbles.GatewayOption{
		pebbles.WithRemoteSchemaIntrospector(sdlIntrospector{f}),
		pebbles.WithQueryerFactory(func(ctx *planner.PlanningContext, url string) queryer.Queryer {
			// like the gateway's default factory: bound to the context of the client request being served
			q := queryer.NewMultiOpQueryer(url, mb).WithHTTPClient(client)
			if ctx != nil && ctx.Request != nil && ctx.Request.Original != nil {
				q = q.WithContext(ctx.Request.Original.Context())
			}
			return q
		}),
	}
	opts = append(opts, cfg.Options...)
	urls := f.URLs()
	if cfg.URLOrder != nil {
		p := make([]string, len(cfg.URLOrder)) // may list a service twice
		for i, j := range cfg.URLOrder {
			p[i] = urls[j]
		}
		urls = p
	}
	return pebbles.NewGateway(urls, opts...)
}

// Response is a decoded gateway response (single mode).
type Response struct {
	Status  int
	Raw     []byte
	Data    interface{}   `json:"data"`
	Errors  []interface{} `json:"errors"`
	HasData bool
}

// Do sends one operation through the real HTTP handler.
func Do(g *pebbles.Gateway, query string, vars map[string]interface{}, opName *string) *Response {
	body := map[string]interface{}{"query": query}
	if vars != nil {
		body["variables"] = vars
	}
	if opName != nil {
		body["operationName"] = *opName
	}
	b, _ := json.Marshal(body)
	return DoRaw(g, "application/json", b)
}

// DoRaw posts a raw body through the real HTTP handler (recorder; panics propagate to the caller).
func DoRaw(g *pebbles.Gateway, contentType string, body []byte) *Response {
	req := httptest.NewRequest(http.MethodPost, "/", bytes.NewReader(body))
	if contentType != "" {
		req.Header.Set("Content-Type", contentType)
	}
	rec := httptest.NewRecorder()
	// like net/http: the request's context ends when the handler returns
	cctx, cancel := context.WithCancel(req.Context())
	req = req.WithContext(cctx)
	g.Handler(rec, req)
	cancel()
	res := &Response{Status: rec.Code, Raw: rec.Body.Bytes()}
	var m map[string]json.RawMessage
	if err := json.Unmarshal(res.Raw, &m); err == nil {
		if d, ok := m["data"]; ok {
			res.HasData = true
			dec := json.NewDecoder(bytes.NewReader(d))
			dec.UseNumber()
			dec.Decode(&res.Data)
		}
		if e, ok := m["errors"]; ok {
			json.Unmarshal(e, &res.Errors)
		}
	}
	return res
}

// DoRawTimeout is DoRaw with a deadline: nil when the handler has not returned in time (the
// goroutine running it is abandoned — the caller should stop using this gateway).
func DoRawTimeout(g *pebbles.Gateway, contentType string, body []byte, d time.Duration) *Response {
	ch := make(chan *Response, 1)
	go func() { ch <- DoRaw(g, contentType, body) }()
	select {
	case r := <-ch:
		return r
	case <-time.After(d):
		return nil
	}
}
