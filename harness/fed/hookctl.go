package fed

// HookCtl is the harness side of github.com/buildbuildio/pebbles/common/verifhook: every
// interleaving point of the gateway calls At (through verifhook.Set(ctl.At)).
//
// Two modes:
//   - forced: a goroutine arriving at a point is HELD there until Release; the harness then
//     drives the implementation through a schedule enumerated by the Lean model, one step
//     at a time, and compares where every goroutine is with where the model says it is;
//   - free: points are recorded (and optionally delayed by a seeded amount, to perturb the
//     schedule); the recorded per-goroutine sequences are checked for conformance afterwards.
//
// Points whose name ends in ".done" are notifications (never held).

import (
	"fmt"
	"runtime"
	"strconv"
	"strings"
	"sync"
	"time"
)

// Arrival is one call of verifhook.At.
type Arrival struct {
	Seq   int
	Gid   uint64
	Key   string // "%p" of the key object ("" for nil)
	Point string
	rel   chan struct{}
}

type HookCtl struct {
	mu     sync.Mutex
	cond   *sync.Cond
	Forced bool
	// Hold decides, in forced mode, whether an arrival is held (default: every non-.done point).
	Hold func(a *Arrival) bool
	// Delay returns a pause applied at a point in free mode (nil = none).
	Delay func(a *Arrival) time.Duration
	log   []*Arrival
	held  map[uint64]*Arrival // gid -> arrival it is held at
	last  map[uint64]string   // gid -> last point reached
	done  map[uint64]bool     // gid -> a ".done" point was seen for the goroutine's own function
	seq   int
}

func NewHookCtl() *HookCtl {
	c := &HookCtl{held: map[uint64]*Arrival{}, last: map[uint64]string{}, done: map[uint64]bool{}}
	c.cond = sync.NewCond(&c.mu)
	return c
}

func keyString(key interface{}) string {
	if key == nil {
		return ""
	}
	return fmt.Sprintf("%p", key)
}

// At has the signature of verifhook.Controller.
func (c *HookCtl) At(point string, key interface{}, gid uint64) {
	c.mu.Lock()
	a := &Arrival{Seq: c.seq, Gid: gid, Key: keyString(key), Point: point}
	c.seq++
	c.log = append(c.log, a)
	isDone := strings.HasSuffix(point, ".done")
	if !isDone {
		c.last[gid] = point
	}
	hold := c.Forced && !isDone
	if hold && c.Hold != nil {
		hold = c.Hold(a)
	}
	if hold {
		a.rel = make(chan struct{})
		c.held[gid] = a
	}
	delay := time.Duration(0)
	if !c.Forced && c.Delay != nil {
		delay = c.Delay(a)
	}
	c.cond.Broadcast()
	c.mu.Unlock()
	if hold {
		<-a.rel
	} else if delay > 0 {
		time.Sleep(delay)
	}
}

// Release lets the goroutine held at its current point go on. False if it is not held.
func (c *HookCtl) Release(gid uint64) bool {
	c.mu.Lock()
	a := c.held[gid]
	if a != nil {
		delete(c.held, gid)
	}
	c.mu.Unlock()
	if a == nil {
		return false
	}
	close(a.rel)
	return true
}

// ReleaseAll switches to free mode and releases everybody (used to drain at the end).
func (c *HookCtl) ReleaseAll() {
	c.mu.Lock()
	c.Forced = false
	hs := c.held
	c.held = map[uint64]*Arrival{}
	c.mu.Unlock()
	for _, a := range hs {
		close(a.rel)
	}
}

// Held returns the point the goroutine is held at ("" if not held).
func (c *HookCtl) Held(gid uint64) string {
	c.mu.Lock()
	defer c.mu.Unlock()
	if a := c.held[gid]; a != nil {
		return a.Point
	}
	return ""
}

// Last returns the last point the goroutine reached.
func (c *HookCtl) Last(gid uint64) string {
	c.mu.Lock()
	defer c.mu.Unlock()
	return c.last[gid]
}

// Log returns a copy of the arrivals so far.
func (c *HookCtl) Log() []*Arrival {
	c.mu.Lock()
	defer c.mu.Unlock()
	return append([]*Arrival(nil), c.log...)
}

// WaitFor blocks until pred (evaluated under the lock, on every new arrival and every 2 ms)
// holds or the timeout expires.
func (c *HookCtl) WaitFor(timeout time.Duration, pred func(log []*Arrival) bool) bool {
	deadline := time.Now().Add(timeout)
	for {
		c.mu.Lock()
		ok := pred(c.log)
		c.mu.Unlock()
		if ok {
			return true
		}
		if time.Now().After(deadline) {
			return false
		}
		time.Sleep(500 * time.Microsecond)
	}
}

// GoroutineStates parses runtime.Stack(all): gid -> wait status ("chan send", "select",
// "IO wait", "sync.Mutex.Lock", "running", ...). A goroutine that is absent has exited.
func GoroutineStates() map[uint64]string {
	buf := make([]byte, 1<<20)
	for {
		n := runtime.Stack(buf, true)
		if n < len(buf) {
			buf = buf[:n]
			break
		}
		buf = make([]byte, 2*len(buf))
	}
	out := map[uint64]string{}
	for _, block := range strings.Split(string(buf), "\n\n") {
		if !strings.HasPrefix(block, "goroutine ") {
			continue
		}
		line := block
		if i := strings.IndexByte(block, '\n'); i >= 0 {
			line = block[:i]
		}
		rest := strings.TrimPrefix(line, "goroutine ")
		sp := strings.IndexByte(rest, ' ')
		if sp < 0 {
			continue
		}
		id, err := strconv.ParseUint(rest[:sp], 10, 64)
		if err != nil {
			continue
		}
		st := rest[sp+1:]
		st = strings.TrimPrefix(st, "[")
		if j := strings.IndexAny(st, ",]"); j >= 0 {
			st = st[:j]
		}
		out[id] = st
	}
	return out
}
