package fed

import (
	"fmt"
	"sort"
	"strings"

	"github.com/buildbuildio/pebbles/merger"
	"github.com/vektah/gqlparser/v2"
	"github.com/vektah/gqlparser/v2/ast"

	"verif/harness/hx"
)

// Merged runs the real merger over freshly loaded service schemas.
func (f *Fed) Merged() (*merger.MergeResult, error) {
	inputs := make([]*merger.MergeInput, len(f.Services))
	for i, s := range f.Services {
		sch, err := gqlparser.LoadSchema(&ast.Source{Name: s.URL, Input: s.SDL})
		if err != nil {
			return nil, err
		}
		inputs[i] = &merger.MergeInput{Schema: sch, URL: s.URL}
	}
	var m merger.ExtendMergerFunc
	return m.Merge(inputs)
}

// OpOptions: which operation features the generator may use. The zero value plus Safe() is the
// "safe profile" (inside the region the partial theorems cover); Wild() adds the rest.
type OpOptions struct {
	MaxDepth      int
	Aliases       bool
	AliasCollide  bool // wild: alias equal to a sibling's name / duplicate response keys
	Args          bool
	Variables     bool
	VarDefaults   bool // wild
	Directives    bool // wild (@skip/@include, by literal and variable)
	InlineFrags   bool
	NamedFrags    bool
	MultiSpread   bool // wild: a named fragment spread more than once
	Typename      bool
	RootTypename  bool // wild
	AbstractFrags bool
	NodeRoot      bool // node(id:) at the root with fragments
	NodeRootPlain bool // wild: node(id:) { id }
	AliasHelpers  bool // wild: alias id/__typename
	VarReuse      bool // one variable used at several argument positions, of different nullability where the types allow it
	IDVar         bool // sometimes call a client variable `id`, the name the executor uses for its own lookups (C01/C02 open finding variable-named-id)
	EntityIDArgs  bool // String/ID argument values are sometimes the id of an existing entity (what an id-hint function recognises)
}

func SafeOps() OpOptions {
	return OpOptions{MaxDepth: 4, Aliases: true, Args: true, Variables: true, InlineFrags: true, NamedFrags: true, Typename: true}
}

func WildOps() OpOptions {
	o := SafeOps()
	o.AliasCollide, o.VarDefaults, o.Directives, o.MultiSpread, o.RootTypename = true, true, true, true, true
	o.AbstractFrags, o.NodeRoot, o.NodeRootPlain, o.AliasHelpers = true, true, true, true
	return o
}

// Op is a generated client operation.
type Op struct {
	Query     string                 `json:"query"`
	Variables map[string]interface{} `json:"variables,omitempty"`
	OpName    *string                `json:"operationName,omitempty"`
	Kind      string                 `json:"kind"`
	Features  []string               `json:"features"`
}

type opGen struct {
	r         *hx.Rand
	schema    *ast.Schema
	data      *Data
	o         OpOptions
	vars      map[string]interface{}
	varDefs   []string
	frags     []string
	nfrag     int
	nvar      int
	features  map[string]bool
	fragsOn   map[string][]string // fragment names by type condition (for re-spreading: MultiSpread)
	usedIDVar bool
	reusable  []reusableVar
}

type reusableVar struct{ name, typ string }

// GenOp draws a valid operation of the given kind ("query"/"mutation"/"subscription") against a schema.
func GenOp(r *hx.Rand, schema *ast.Schema, data *Data, kind string, o OpOptions) *Op {
	g := &opGen{r: r, schema: schema, data: data, o: o, vars: map[string]interface{}{}, features: map[string]bool{}}
	root := schema.Query
	switch kind {
	case "mutation":
		root = schema.Mutation
	case "subscription":
		root = schema.Subscription
	}
	if root == nil {
		return nil
	}
	maxRoot := 3
	if kind == "subscription" {
		maxRoot = 1
	}
	body := g.selSet(root, 0, maxRoot, true)
	name := ""
	var opName *string
	if r.Chance(1, 3) {
		name = "Op" + fmt.Sprint(r.Intn(100))
		g.features["named-op"] = true
	}
	head := kind
	if kind == "query" && name == "" && len(g.varDefs) == 0 && r.Chance(1, 2) {
		head = ""
	}
	if name != "" {
		head += " " + name
		if r.Chance(1, 2) {
			opName = &name
		}
	}
	if len(g.varDefs) > 0 {
		if head == "" {
			head = "query"
		}
		head += "(" + strings.Join(g.varDefs, ", ") + ")"
	}
	q := strings.TrimSpace(head+" "+body) + "\n" + strings.Join(g.frags, "\n")
	var feats []string
	for k := range g.features {
		feats = append(feats, k)
	}
	sort.Strings(feats)
	vars := g.vars
	if len(vars) == 0 {
		vars = nil
	}
	return &Op{Query: q, Variables: vars, OpName: opName, Kind: kind, Features: feats}
}

func (g *opGen) isComposite(t *ast.Type) bool {
	d := g.schema.Types[t.Name()]
	return d != nil && (d.Kind == ast.Object || d.Kind == ast.Interface || d.Kind == ast.Union)
}

func (g *opGen) literal(t *ast.Type) (lit string, val interface{}) {
	if t.Elem != nil {
		n := g.r.Range(0, 2)
		var ls []string
		vs := []interface{}{}
		for i := 0; i < n; i++ {
			l, v := g.literal(t.Elem)
			ls = append(ls, l)
			vs = append(vs, v)
		}
		return "[" + strings.Join(ls, ", ") + "]", vs
	}
	switch t.NamedType {
	case "Int":
		n := g.r.Range(1, 9)
		return fmt.Sprint(n), n
	case "Boolean":
		b := g.r.Bool()
		return fmt.Sprint(b), b
	case "String", "ID":
		if g.o.EntityIDArgs && g.data != nil && g.r.Chance(1, 2) {
			if ids := g.data.AllEntityIDs(); len(ids) > 0 {
				s := hx.Pick(g.r, ids)
				g.features["entity-id-argument"] = true
				return fmt.Sprintf("%q", s), s
			}
		}
		s := fmt.Sprintf("x%d", g.r.Intn(10))
		return fmt.Sprintf("%q", s), s
	}
	if d := g.schema.Types[t.NamedType]; d != nil && d.Kind == ast.Enum && len(d.EnumValues) > 0 {
		e := hx.Pick(g.r, d.EnumValues).Name
		return e, e
	}
	if d := g.schema.Types[t.NamedType]; d != nil && d.Kind == ast.InputObject {
		return g.inputLiteral(d, 0)
	}
	return "null", nil
}

// inputLiteral draws an input-object literal; leaves may be variables (nested declarations).
func (g *opGen) inputLiteral(d *ast.Definition, depth int) (string, interface{}) {
	var parts []string
	val := map[string]interface{}{}
	for _, f := range d.Fields {
		if g.r.Chance(1, 3) {
			continue
		}
		fd := g.schema.Types[f.Type.Name()]
		if fd != nil && fd.Kind == ast.InputObject {
			if depth >= 1 {
				continue
			}
			l, v := g.inputLiteral(fd, depth+1)
			parts = append(parts, f.Name+": "+l)
			val[f.Name] = v
			continue
		}
		if f.Type.Elem != nil {
			// list field: elements literal or variable
			n := g.r.Range(0, 2)
			var ls []string
			vs := []interface{}{}
			for i := 0; i < n; i++ {
				l, v := g.leafOrVar(f.Type.Elem)
				ls = append(ls, l)
				vs = append(vs, v)
			}
			parts = append(parts, f.Name+": ["+strings.Join(ls, ", ")+"]")
			val[f.Name] = vs
			continue
		}
		l, v := g.leafOrVar(f.Type)
		parts = append(parts, f.Name+": "+l)
		val[f.Name] = v
	}
	g.features["input-object"] = true
	return "{" + strings.Join(parts, ", ") + "}", val
}

// varName names the k-th variable of an operation. Neighbouring variables differ ONLY BY CASE
// (`v0`, `V0`, `v1`, `V1`, …): GraphQL names are case-sensitive, so they are different variables, and
// anything that orders, keys or compares variable names case-insensitively (a header sorted with
// strings.ToLower, a map keyed by the folded name) confuses exactly such a pair.
func varName(k int) string {
	if k%2 == 1 {
		return fmt.Sprintf("V%d", k/2)
	}
	return fmt.Sprintf("v%d", k/2)
}

// leafOrVar: a scalar literal, or a fresh variable declared with exactly this type
func (g *opGen) leafOrVar(t *ast.Type) (string, interface{}) {
	lit, val := g.literal(t)
	if g.o.Variables && g.r.Chance(1, 3) {
		vn := varName(g.nvar)
		g.nvar++
		g.varDefs = append(g.varDefs, "$"+vn+": "+t.String())
		g.vars[vn] = val
		g.features["nested-variable"] = true
		return "$" + vn, val
	}
	return lit, val
}

func (g *opGen) args(fd *ast.FieldDefinition) string {
	if len(fd.Arguments) == 0 {
		return ""
	}
	var parts []string
	for _, a := range fd.Arguments {
		if fd.Name == "node" && a.Name == "id" {
			continue
		}
		if !a.Type.NonNull && !g.o.Args {
			continue
		}
		if !a.Type.NonNull && g.r.Chance(1, 4) {
			continue
		}
		// an earlier variable whose declared type fits this position (same type, or its non-null form)
		if g.o.VarReuse && g.o.Variables && len(g.reusable) > 0 && g.r.Chance(1, 3) {
			var fit []string
			for _, rv := range g.reusable {
				if rv.typ == a.Type.String() || rv.typ == a.Type.String()+"!" {
					fit = append(fit, rv.name)
				}
			}
			if len(fit) > 0 {
				g.features["variable-reuse"] = true
				parts = append(parts, a.Name+": $"+hx.Pick(g.r, fit))
				continue
			}
		}
		nDefs, nVar := len(g.varDefs), g.nvar
		lit, val := g.literal(a.Type)
		if g.o.Variables && g.r.Chance(1, 2) {
			// the literal is replaced by one variable: variables declared inside it are dropped with it
			for k := nVar; k < g.nvar; k++ {
				delete(g.vars, varName(k))
			}
			g.varDefs, g.nvar = g.varDefs[:nDefs], nVar
			vn := varName(g.nvar)
			if !g.usedIDVar && g.r.Chance(1, 8) && g.o.IDVar {
				vn = "id" // a client variable that happens to be called like the executor's own $id
				g.usedIDVar = true
				g.features["variable-named-id"] = true
			}
			g.nvar++
			declared := a.Type.String()
			if g.o.VarReuse && !a.Type.NonNull && val != nil && g.r.Chance(1, 3) {
				declared += "!" // a stricter declaration than the position asks for is valid, and reusable at `T!` positions
			}
			def := "$" + vn + ": " + declared
			if g.o.VarReuse && vn != "id" {
				g.reusable = append(g.reusable, reusableVar{vn, declared})
			}
			if g.o.VarDefaults && g.r.Chance(1, 3) {
				def += " = " + lit
				g.features["var-default"] = true
				if g.r.Chance(1, 2) {
					g.vars[vn] = val
				}
			} else {
				g.vars[vn] = val
				if !a.Type.NonNull && !strings.HasSuffix(declared, "!") && g.r.Chance(1, 6) {
					g.vars[vn] = nil // an explicit null is a value: it must be forwarded
					g.features["null-variable"] = true
				}
			}
			g.varDefs = append(g.varDefs, def)
			g.features["variable"] = true
			parts = append(parts, a.Name+": $"+vn)
		} else {
			g.features["arg-literal"] = true
			parts = append(parts, a.Name+": "+lit)
		}
	}
	if len(parts) == 0 {
		return ""
	}
	return "(" + strings.Join(parts, ", ") + ")"
}

func (g *opGen) directive() string {
	if !g.o.Directives || !g.r.Chance(1, 8) {
		return ""
	}
	g.features["directive"] = true
	d := hx.Pick(g.r, []string{"skip", "include"})
	if g.o.Variables && g.r.Chance(1, 2) {
		vn := varName(g.nvar)
		g.nvar++
		g.varDefs = append(g.varDefs, "$"+vn+": Boolean!")
		g.vars[vn] = g.r.Bool()
		g.features["directive-variable"] = true
		return " @" + d + "(if: $" + vn + ")"
	}
	return fmt.Sprintf(" @%s(if: %v)", d, g.r.Bool())
}

// selSet draws a non-empty selection set on a composite type.
func (g *opGen) selSet(def *ast.Definition, depth, maxFields int, root bool) string {
	return g.selSetU(def, depth, maxFields, root, map[string]bool{})
}

// selSetU: `used` = response keys already taken at this object level (fragments on the same
// object share the level; the safe profile keeps response keys distinct).
func (g *opGen) selSetU(def *ast.Definition, depth, maxFields int, root bool, used map[string]bool) string {
	var parts []string
	names := map[string]bool{}
	for _, f := range def.Fields {
		names[f.Name] = true
	}
	addField := func(fd *ast.FieldDefinition) {
		key := fd.Name
		alias := ""
		if g.o.Aliases && g.r.Chance(1, 4) {
			alias = fmt.Sprintf("al%d", g.r.Intn(50))
			if g.o.AliasCollide && g.r.Chance(1, 3) && len(def.Fields) > 0 {
				alias = hx.Pick(g.r, def.Fields).Name
				g.features["alias-collide"] = true
			}
			if (fd.Name == "id" || fd.Name == "__typename") && !g.o.AliasHelpers {
				alias = ""
			}
			if alias != "" {
				key = alias
				g.features["alias"] = true
			}
		}
		if used[key] && !g.o.AliasCollide {
			return
		}
		if !g.o.AliasCollide && alias != "" && names[alias] {
			return // an alias equal to a sibling field's name is outside the safe profile
		}
		s := fd.Name
		if alias != "" {
			s = alias + ": " + fd.Name
		}
		if fd.Name == "node" && root {
			s2 := g.nodeRoot(alias)
			if s2 == "" {
				return
			}
			used[key] = true
			parts = append(parts, s2)
			return
		}
		s += g.args(fd) + g.directive()
		if g.isComposite(fd.Type) {
			if depth >= g.o.MaxDepth {
				s += " " + g.leafSel(g.schema.Types[fd.Type.Name()])
			} else {
				s += " " + g.selSet(g.schema.Types[fd.Type.Name()], depth+1, 4, false)
			}
		}
		used[key] = true
		parts = append(parts, s)
	}
	switch def.Kind {
	case ast.Union, ast.Interface:
		g.features["abstract"] = true
		if g.o.Typename && g.r.Chance(1, 2) {
			parts = append(parts, "__typename")
		}
		if def.Kind == ast.Interface {
			for _, fd := range def.Fields {
				if g.r.Chance(1, 2) && !strings.HasPrefix(fd.Name, "__") {
					addField(fd)
				}
			}
		}
		pts := g.schema.PossibleTypes[def.Name]
		for _, pt := range pts {
			if g.r.Chance(2, 3) {
				parts = append(parts, "... on "+pt.Name+" "+g.selSet(pt, depth+1, 3, false))
			}
		}
		if len(parts) == 0 {
			parts = append(parts, "__typename")
		}
		return "{ " + strings.Join(parts, " ") + " }"
	}
	var cands []*ast.FieldDefinition
	for _, fd := range def.Fields {
		if strings.HasPrefix(fd.Name, "__") {
			continue
		}
		if root && fd.Name == "node" && !g.o.NodeRoot {
			continue
		}
		if depth >= g.o.MaxDepth && g.isComposite(fd.Type) && g.r.Chance(2, 3) {
			continue
		}
		cands = append(cands, fd)
	}
	n := g.r.Range(1, maxFields)
	for k := 0; k < n && len(cands) > 0; k++ {
		fd := hx.Pick(g.r, cands)
		if !root && g.o.InlineFrags && g.r.Chance(1, 8) {
			// inline fragment on the same concrete type (or without condition)
			g.features["inline-frag"] = true
			cond := "... on " + def.Name + " "
			if g.r.Chance(1, 3) {
				cond = "... "
			}
			if d := g.directive(); d != "" {
				cond += strings.TrimSpace(d) + " "
				g.features["directive-on-fragment"] = true
			}
			parts = append(parts, cond+g.selSetU(def, depth+1, 2, false, used))
			continue
		}
		if !root && g.o.MultiSpread && len(g.fragsOn[def.Name]) > 0 && g.r.Chance(1, 3) {
			// spread an EXISTING fragment again, at another place
			g.features["multi-spread"] = true
			parts = append(parts, "..."+hx.Pick(g.r, g.fragsOn[def.Name]))
			continue
		}
		if !root && g.o.NamedFrags && g.r.Chance(1, 10) {
			g.features["named-frag"] = true
			fn := fmt.Sprintf("F%d", g.nfrag)
			g.nfrag++
			body := g.selSetU(def, depth+1, 2, false, used)
			g.frags = append(g.frags, "fragment "+fn+" on "+def.Name+" "+body)
			if g.fragsOn == nil {
				g.fragsOn = map[string][]string{}
			}
			g.fragsOn[def.Name] = append(g.fragsOn[def.Name], fn)
			parts = append(parts, "..."+fn)
			if g.o.MultiSpread && g.r.Chance(1, 3) {
				parts = append(parts, "..."+fn)
				g.features["multi-spread"] = true
			}
			continue
		}
		addField(fd)
	}
	if !root && g.o.Typename && g.r.Chance(1, 6) && !used["__typename"] {
		used["__typename"] = true
		parts = append(parts, "__typename")
		g.features["typename"] = true
	}
	if root && g.o.RootTypename && g.r.Chance(1, 10) {
		parts = append(parts, "__typename")
		g.features["root-typename"] = true
	}
	if len(parts) == 0 {
		lf := g.leafField(def)
		if used[lf] {
			lf = "__typename"
		}
		used[lf] = true
		parts = append(parts, lf)
	}
	return "{ " + strings.Join(parts, " ") + " }"
}

func (g *opGen) leafField(def *ast.Definition) string {
	for _, fd := range def.Fields {
		if !strings.HasPrefix(fd.Name, "__") && !g.isComposite(fd.Type) && len(fd.Arguments) == 0 {
			return fd.Name
		}
	}
	return "__typename"
}

func (g *opGen) leafSel(def *ast.Definition) string {
	if def.Kind != ast.Object {
		return "{ __typename }"
	}
	return "{ " + g.leafField(def) + " }"
}

// nodeRoot draws `node(id: "...") { ... on T { ... } }`.
func (g *opGen) nodeRoot(alias string) string {
	if len(g.data.Order) == 0 {
		return ""
	}
	id := hx.Pick(g.r, g.data.Order)
	ent := g.data.Entities[id]
	def := g.schema.Types[ent.Type]
	if def == nil {
		return ""
	}
	g.features["node-root"] = true
	head := "node"
	if alias != "" {
		head = alias + ": node"
	}
	head += fmt.Sprintf("(id: %q)", id)
	if g.o.NodeRootPlain && g.r.Chance(1, 4) {
		g.features["node-root-plain"] = true
		return head + " { id }"
	}
	return head + " { ... on " + def.Name + " " + g.selSet(def, 1, 3, false) + " }"
}

// GenTwinVarOp draws `query($tw: T, $Tw: T) { t0: f(a: $tw) … t1: f(a: $Tw) … }`: one root field
// with an argument, selected under two aliases with two variables whose names differ ONLY BY CASE
// and whose values are drawn independently. Both selections go to the same service, so one
// sub-request declares both variables: whatever orders, keys or compares variable names must
// treat them as the two different variables they are, and the same way on every run.
func GenTwinVarOp(r *hx.Rand, schema *ast.Schema, data *Data) *Op {
	g := &opGen{r: r, schema: schema, data: data, o: OpOptions{Args: true}, vars: map[string]interface{}{}, features: map[string]bool{}}
	if schema.Query == nil {
		return nil
	}
	var cands []*ast.FieldDefinition
	for _, fd := range schema.Query.Fields {
		if strings.HasPrefix(fd.Name, "__") || fd.Name == "node" || len(fd.Arguments) == 0 {
			continue
		}
		cands = append(cands, fd)
	}
	if len(cands) == 0 {
		return nil
	}
	fd := cands[r.Intn(len(cands))]
	a := fd.Arguments[r.Intn(len(fd.Arguments))]
	names := [][2]string{{"tw", "Tw"}, {"lang", "Lang"}, {"aB", "Ab"}, {"x", "X"}}[r.Intn(4)]
	sel := ""
	if g.isComposite(fd.Type) {
		sel = " " + g.leafSel(schema.Types[fd.Type.Name()])
	}
	var parts []string
	for k, vn := range names {
		var args []string
		for _, b := range fd.Arguments {
			if b == a {
				_, val := g.literal(b.Type)
				g.vars[vn] = val
				args = append(args, b.Name+": $"+vn)
			} else if b.Type.NonNull {
				lit, _ := g.literal(b.Type)
				args = append(args, b.Name+": "+lit)
			}
		}
		parts = append(parts, fmt.Sprintf("t%d: %s(%s)%s", k, fd.Name, strings.Join(args, ", "), sel))
	}
	q := fmt.Sprintf("query($%s: %s, $%s: %s) { %s }", names[0], a.Type.String(), names[1], a.Type.String(), strings.Join(parts, " "))
	return &Op{Query: q, Variables: g.vars, Kind: "query", Features: []string{"case-twin-variables"}}
}
