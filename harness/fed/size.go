package fed

import "github.com/vektah/gqlparser/v2/ast"

// CountNodes walks an operation over the data like Execute does, counting the objects the answer
// would contain, and gives up beyond limit (returns limit+1). It lets a harness skip operations
// whose answer would be too large to evaluate in reasonable time (queries only: no side effects).
func (e *Eval) CountNodes(op *ast.OperationDefinition, limit int) int {
	n := 0
	var walkVal func(v Val, sub ast.SelectionSet)
	var walk func(o objRef, ss ast.SelectionSet)
	walk = func(o objRef, ss ast.SelectionSet) {
		n++
		if n > limit {
			return
		}
		var cs []*collected
		e.collect(o, ss, &cs)
		for _, c := range cs {
			f := c.fields[0]
			if f.Name == "__typename" {
				continue
			}
			var sub ast.SelectionSet
			for _, ff := range c.fields {
				sub = append(sub, ff.SelectionSet...)
			}
			if len(sub) == 0 {
				continue
			}
			var stored Val
			switch {
			case o.obj == nil && o.root == "Query" && f.Name == "node":
				if id, ok := e.args(f)["id"].(string); ok {
					stored = Val{Kind: "ref", Ref: id}
				}
			case o.obj == nil:
				stored = e.Data.Roots[o.root][f.Name]
			default:
				stored = o.obj.Fields[f.Name]
			}
			walkVal(stored, sub)
			if n > limit {
				return
			}
		}
	}
	walkVal = func(v Val, sub ast.SelectionSet) {
		switch v.Kind {
		case "list":
			for _, el := range v.List {
				walkVal(el, sub)
				if n > limit {
					return
				}
			}
		case "ref":
			if ent := e.Data.Entities[v.Ref]; ent != nil {
				walk(objRef{obj: ent}, sub)
			}
		case "obj":
			walk(objRef{obj: v.Obj}, sub)
		}
	}
	root := "Query"
	switch op.Operation {
	case ast.Mutation:
		root = "Mutation"
	case ast.Subscription:
		root = "Subscription"
	}
	walk(objRef{root: root}, op.SelectionSet)
	if n > limit {
		return limit + 1
	}
	return n
}
