// Package fed: generated federation instances for the correspondence runs — service schemas
// (as SDL), an entity graph shared by all services ("the union of the same data"), a reference
// GraphQL evaluator, in-process fake services behind an http.RoundTripper, and a gateway
// constructor that needs no network.
package fed

import (
	"fmt"
	"sort"
	"strings"

	"verif/harness/hx"
)

// FieldSpec is one field of an object type as one service declares it.
type FieldSpec struct {
	Name  string
	Type  string    // GraphQL type string, e.g. "[User!]", "String", "Address"
	Args  []ArgSpec // scalar fields may take arguments (echoed into the value)
	Owner int       // index of the declaring service
}

type ArgSpec struct {
	Name string
	Type string // "Int", "String", "Boolean", "[Int!]", input type name ...
}

// TypeSpec describes an object type across the federation.
type TypeSpec struct {
	Name   string
	Node   bool        // implements Node (fields split across services) or value type (declared identically)
	Fields []FieldSpec // for value types Owner is ignored: every declaring service has all fields
	Ifaces []string    // additional interfaces implemented (besides Node)
}

// AbstractSpec is an interface or a union.
type AbstractSpec struct {
	Name    string
	Union   bool
	Members []string    // object types
	Fields  []FieldSpec // interface fields (each member has them too, owned by Home)
	HasID   bool        // interface declares id: ID!
	Home    int         // the one service that declares the abstract type (and every field returning it)
}

// Spec is the abstract description of a federation from which per-service SDL is printed.
type Spec struct {
	NumServices int
	Types       []*TypeSpec
	Abstracts   []*AbstractSpec
	Query       []FieldSpec // root fields, Owner = declaring service
	Mutation    []FieldSpec
	Subs        []FieldSpec
	NoNodeField map[int]bool // services that do not expose `node` (wild profile)
	Enums       []string     // shared enum E0 ... (values A,B,C) declared in every service that uses it
	Inputs      bool         // input type In0 { f0: Int, tags: [String!], sub: In0 } may be used by arguments
}

func (s *Spec) Type(name string) *TypeSpec {
	for _, t := range s.Types {
		if t.Name == name {
			return t
		}
	}
	return nil
}

func (s *Spec) Abstract(name string) *AbstractSpec {
	for _, a := range s.Abstracts {
		if a.Name == name {
			return a
		}
	}
	return nil
}

// NamedType strips list/non-null wrappers.
func NamedType(t string) string {
	return strings.Trim(t, "[]!")
}

func IsList(t string) bool { return strings.HasPrefix(t, "[") }

func isScalarName(n string) bool {
	switch n {
	case "String", "Int", "Boolean", "ID", "Float":
		return true
	}
	return false
}

// URL of service i.
func URL(i int) string { return fmt.Sprintf("http://svc%d.test/graphql", i) }

// usedTypes collects the named types reachable from the declarations of service i.
func (s *Spec) serviceTypes(i int) (objs map[string]bool, abstracts map[string]bool, enums map[string]bool) {
	objs, abstracts, enums = map[string]bool{}, map[string]bool{}, map[string]bool{}
	var visit func(tn string)
	visitField := func(f FieldSpec) {
		visit(NamedType(f.Type))
		for _, a := range f.Args {
			n := NamedType(a.Type)
			for _, e := range s.Enums {
				if e == n {
					enums[n] = true
				}
			}
		}
	}
	visit = func(tn string) {
		if isScalarName(tn) {
			return
		}
		for _, e := range s.Enums {
			if e == tn {
				enums[tn] = true
				return
			}
		}
		if a := s.Abstract(tn); a != nil {
			if abstracts[tn] {
				return
			}
			abstracts[tn] = true
			for _, m := range a.Members {
				visit(m)
			}
			return
		}
		t := s.Type(tn)
		if t == nil || objs[tn] {
			return
		}
		objs[tn] = true
		for _, f := range t.Fields {
			if !t.Node || f.Owner == i {
				visitField(f)
			}
		}
		for _, ifc := range t.Ifaces {
			if a := s.Abstract(ifc); a != nil && a.Home == i {
				visit(ifc)
			}
		}
	}
	for _, f := range s.Query {
		if f.Owner == i {
			visitField(f)
		}
	}
	for _, f := range s.Mutation {
		if f.Owner == i {
			visitField(f)
		}
	}
	for _, f := range s.Subs {
		if f.Owner == i {
			visitField(f)
		}
	}
	// a service that owns a field of a node type declares that type
	for _, t := range s.Types {
		if !t.Node {
			continue
		}
		for _, f := range t.Fields {
			if f.Owner == i {
				visit(t.Name)
			}
		}
	}
	return
}

// usesInput: does service i declare an argument of the input type
func (s *Spec) usesInput(i int) bool {
	has := func(f FieldSpec) bool {
		for _, a := range f.Args {
			if NamedType(a.Type) == "In0" {
				return true
			}
		}
		return false
	}
	for _, t := range s.Types {
		for _, f := range t.Fields {
			if (f.Owner == i || !t.Node) && has(f) {
				objs, _, _ := s.serviceTypes(i)
				if objs[t.Name] {
					return true
				}
			}
		}
	}
	for _, fs := range [][]FieldSpec{s.Query, s.Mutation, s.Subs} {
		for _, f := range fs {
			if f.Owner == i && has(f) {
				return true
			}
		}
	}
	return false
}

func printField(b *strings.Builder, f FieldSpec) {
	b.WriteString("  " + f.Name)
	if len(f.Args) > 0 {
		parts := make([]string, len(f.Args))
		for i, a := range f.Args {
			parts[i] = a.Name + ": " + a.Type
		}
		b.WriteString("(" + strings.Join(parts, ", ") + ")")
	}
	b.WriteString(": " + f.Type + "\n")
}

// SDL prints the schema of service i.
func (s *Spec) SDL(i int) string {
	objs, abstracts, enums := s.serviceTypes(i)
	var b strings.Builder
	anyNode := false
	for n := range objs {
		if s.Type(n).Node {
			anyNode = true
		}
	}
	if anyNode {
		b.WriteString("interface Node {\n  id: ID!\n}\n")
	}
	names := make([]string, 0, len(objs))
	for n := range objs {
		names = append(names, n)
	}
	sort.Strings(names)
	for _, n := range names {
		t := s.Type(n)
		var impl []string
		if t.Node {
			impl = append(impl, "Node")
		}
		for _, ifc := range t.Ifaces {
			if abstracts[ifc] {
				impl = append(impl, ifc)
			}
		}
		b.WriteString("type " + n)
		if len(impl) > 0 {
			b.WriteString(" implements " + strings.Join(impl, " & "))
		}
		b.WriteString(" {\n")
		if t.Node {
			b.WriteString("  id: ID!\n")
		}
		cnt := 0
		for _, f := range t.Fields {
			if !t.Node || f.Owner == i {
				printField(&b, f)
				cnt++
			}
		}
		if !t.Node && cnt == 0 {
			b.WriteString("  _empty: String\n")
		}
		b.WriteString("}\n")
	}
	anames := make([]string, 0, len(abstracts))
	for n := range abstracts {
		anames = append(anames, n)
	}
	sort.Strings(anames)
	for _, n := range anames {
		a := s.Abstract(n)
		if a.Union {
			b.WriteString("union " + n + " = " + strings.Join(a.Members, " | ") + "\n")
		} else {
			b.WriteString("interface " + n + " {\n")
			if a.HasID {
				b.WriteString("  id: ID!\n")
			}
			for _, f := range a.Fields {
				printField(&b, f)
			}
			b.WriteString("}\n")
		}
	}
	if s.usesInput(i) {
		b.WriteString("input In0 {\n  f0: Int\n  tags: [String!]\n  sub: In0\n}\n")
	}
	enames := make([]string, 0, len(enums))
	for n := range enums {
		enames = append(enames, n)
	}
	sort.Strings(enames)
	for _, n := range enames {
		b.WriteString("enum " + n + " {\n  A\n  B\n  C\n}\n")
	}
	b.WriteString("type Query {\n")
	if anyNode && !s.NoNodeField[i] {
		b.WriteString("  node(id: ID!): Node\n")
	}
	q := 0
	for _, f := range s.Query {
		if f.Owner == i {
			printField(&b, f)
			q++
		}
	}
	if q == 0 && !(anyNode && !s.NoNodeField[i]) {
		b.WriteString(fmt.Sprintf("  _svc%d: String\n", i))
	}
	b.WriteString("}\n")
	for _, root := range []struct {
		name string
		fs   []FieldSpec
	}{{"Mutation", s.Mutation}, {"Subscription", s.Subs}} {
		var mine []FieldSpec
		for _, f := range root.fs {
			if f.Owner == i {
				mine = append(mine, f)
			}
		}
		if len(mine) > 0 {
			b.WriteString("type " + root.name + " {\n")
			for _, f := range mine {
				printField(&b, f)
			}
			b.WriteString("}\n")
		}
	}
	return b.String()
}

// GenOptions steer the federation generator.
type GenOptions struct {
	MaxServices int
	Abstract    bool // interfaces and unions
	Mutations   bool
	Subs        bool
	Args        bool
	ValueTypes  bool
	StubRefs    bool // a service may reference a node type it contributes no field to
	Wild        bool // include shapes known to hit open findings (services without node, ...)
	WriteOnly   bool // a service other than the first may declare NO query field besides the relay `node` (it owns mutations and fields of Node types only)
}

func DefaultGen() GenOptions {
	return GenOptions{MaxServices: 3, Mutations: true, Args: true, ValueTypes: true, StubRefs: true}
}

var scalarTypes = []string{"String", "Int", "Boolean", "String!", "Int!"}

// Generate draws a federation description.
func Generate(r *hx.Rand, o GenOptions) *Spec {
	s := &Spec{NumServices: r.Range(1, o.MaxServices), NoNodeField: map[int]bool{}}
	nNode := r.Range(1, 4)
	nVal := 0
	if o.ValueTypes {
		nVal = r.Range(0, 2)
	}
	if o.Args && r.Chance(1, 2) {
		s.Enums = []string{"E0"}
	}
	s.Inputs = o.Args && r.Chance(1, 2)
	for v := 0; v < nVal; v++ {
		s.Types = append(s.Types, &TypeSpec{Name: fmt.Sprintf("V%d", v)})
	}
	for n := 0; n < nNode; n++ {
		s.Types = append(s.Types, &TypeSpec{Name: fmt.Sprintf("N%d", n), Node: true})
	}
	nodeNames := func() []string {
		var out []string
		for _, t := range s.Types {
			if t.Node {
				out = append(out, t.Name)
			}
		}
		return out
	}()
	valNames := func() []string {
		var out []string
		for _, t := range s.Types {
			if !t.Node {
				out = append(out, t.Name)
			}
		}
		return out
	}()
	genArgs := func() []ArgSpec {
		if !o.Args || !r.Chance(1, 4) {
			return nil
		}
		var as []ArgSpec
		for k := 0; k < r.Range(1, 2); k++ {
			ty := hx.Pick(r, []string{"Int", "String", "Boolean", "[Int!]", "Int!"})
			if s.Inputs && r.Chance(1, 4) {
				ty = "In0"
			}
			if len(s.Enums) > 0 && r.Chance(1, 4) {
				ty = "E0"
			}
			as = append(as, ArgSpec{Name: fmt.Sprintf("a%d", k), Type: ty})
		}
		return as
	}
	// value types: scalars and node refs (no value→value nesting beyond V1→V0 to keep them acyclic)
	for vi, vn := range valNames {
		t := s.Type(vn)
		for k := 0; k < r.Range(1, 3); k++ {
			ty := hx.Pick(r, scalarTypes)
			if r.Chance(1, 4) {
				ty = hx.Pick(r, nodeNames)
				if r.Chance(1, 3) {
					ty = "[" + ty + "]"
				}
			} else if vi > 0 && r.Chance(1, 5) {
				ty = valNames[0]
			} else if r.Chance(1, 5) {
				ty = hx.Pick(r, []string{"[Int]", "[String!]", "[String]!"}) // a list of scalars inside an embedded object
			}
			t.Fields = append(t.Fields, FieldSpec{Name: fmt.Sprintf("%sf%d", strings.ToLower(vn), k), Type: ty})
		}
	}
	// node types: fields split across 1..3 services
	for _, nn := range nodeNames {
		t := s.Type(nn)
		owners := r.Perm(s.NumServices)
		k := r.Range(1, 3)
		if k > len(owners) {
			k = len(owners)
		}
		owners = owners[:k]
		nf := r.Range(1, 5)
		for f := 0; f < nf; f++ {
			var ty string
			var args []ArgSpec
			switch r.Intn(10) {
			case 0, 1, 2, 3:
				ty = hx.Pick(r, scalarTypes)
				if args = genArgs(); len(args) > 0 {
					ty = hx.Pick(r, []string{"String", "String!"}) // fields with arguments echo them into a string
				}
			case 4, 5:
				ty = hx.Pick(r, nodeNames)
				if r.Chance(1, 4) {
					ty += "!"
				}
			case 6, 7:
				ty = "[" + hx.Pick(r, nodeNames) + hx.Pick(r, []string{"", "!"}) + "]" + hx.Pick(r, []string{"", "!"})
			case 8:
				if len(valNames) > 0 {
					ty = hx.Pick(r, valNames)
					if r.Chance(1, 3) {
						ty = "[" + ty + "]"
					}
				} else {
					ty = "String"
				}
			default:
				ty = "[" + hx.Pick(r, []string{"Int", "String"}) + "]"
			}
			t.Fields = append(t.Fields, FieldSpec{Name: fmt.Sprintf("%sf%d", strings.ToLower(nn), f), Type: ty, Args: args, Owner: hx.Pick(r, owners)})
		}
	}
	// abstract types: declared by exactly one home service, which owns the interface's fields on
	// every member and every field returning the abstract type
	if o.Abstract && len(nodeNames) >= 2 && r.Chance(2, 3) {
		mem := append([]string{}, nodeNames...)
		if len(mem) > 3 {
			mem = mem[:3]
		}
		home := r.Intn(s.NumServices)
		var a *AbstractSpec
		if r.Chance(1, 2) {
			a = &AbstractSpec{Name: "U0", Union: true, Members: mem, Home: home}
		} else {
			a = &AbstractSpec{Name: "I0", Members: mem, HasID: r.Chance(3, 4), Home: home}
			for _, m := range mem {
				mt := s.Type(m)
				mt.Fields = append(mt.Fields, FieldSpec{Name: "label", Type: "String", Owner: home})
				mt.Ifaces = append(mt.Ifaces, "I0")
			}
			a.Fields = []FieldSpec{{Name: "label", Type: "String"}}
		}
		s.Abstracts = append(s.Abstracts, a)
		if r.Chance(1, 2) {
			ty := a.Name
			if r.Chance(1, 2) {
				ty = "[" + ty + "]"
			}
			host := s.Type(hx.Pick(r, nodeNames))
			host.Fields = append(host.Fields, FieldSpec{Name: strings.ToLower(host.Name) + "abs", Type: ty, Owner: home})
		}
	}
	// root fields
	rootTypes := func(svc int) []string {
		var cands []string
		for _, nn := range nodeNames {
			t := s.Type(nn)
			owns := false
			for _, f := range t.Fields {
				if f.Owner == svc {
					owns = true
				}
			}
			if owns || o.StubRefs {
				cands = append(cands, nn)
			}
		}
		if len(cands) == 0 {
			cands = nodeNames
		}
		return cands
	}
	qn := 0
	for svc := 0; svc < s.NumServices; svc++ {
		nq := r.Range(1, 3)
		writeOnly := o.WriteOnly && svc > 0 && r.Chance(1, 2)
		if writeOnly {
			nq = 0
		}
		for k := 0; k < nq; k++ {
			var ty string
			var args []ArgSpec
			cands := rootTypes(svc)
			switch r.Intn(8) {
			case 0, 1:
				ty = hx.Pick(r, scalarTypes)
				if args = genArgs(); len(args) > 0 {
					ty = "String"
				}
			case 2, 3:
				ty = hx.Pick(r, cands)
			case 4, 5:
				ty = "[" + hx.Pick(r, cands) + hx.Pick(r, []string{"", "!"}) + "]"
			case 6:
				if len(valNames) > 0 {
					ty = hx.Pick(r, valNames)
				} else {
					ty = hx.Pick(r, cands)
				}
			default:
				if len(s.Abstracts) > 0 && s.Abstracts[0].Home == svc {
					ty = s.Abstracts[0].Name
					if r.Chance(1, 2) {
						ty = "[" + ty + "]"
					}
				} else {
					ty = "[" + hx.Pick(r, cands) + "]"
				}
			}
			s.Query = append(s.Query, FieldSpec{Name: fmt.Sprintf("q%d", qn), Type: ty, Args: args, Owner: svc})
			qn++
		}
		if o.Mutations && (r.Chance(1, 2) || writeOnly) {
			for k := 0; k < r.Range(1, 2); k++ {
				ty := "Int!"
				if r.Chance(1, 3) {
					ty = hx.Pick(r, rootTypes(svc))
				}
				margs := genArgs()
				if len(margs) > 0 && ty == "Int!" {
					ty = "String"
				}
				s.Mutation = append(s.Mutation, FieldSpec{Name: fmt.Sprintf("m%d", len(s.Mutation)), Type: ty, Args: margs, Owner: svc})
			}
		}
		if o.Subs && r.Chance(1, 2) {
			ty := hx.Pick(r, rootTypes(svc))
			s.Subs = append(s.Subs, FieldSpec{Name: fmt.Sprintf("s%d", len(s.Subs)), Type: ty, Owner: svc})
		}
		if o.Wild && s.NumServices > 1 && r.Chance(1, 5) {
			s.NoNodeField[svc] = true
		}
	}
	return s
}
