package fed

import (
	"fmt"
	"strings"

	"verif/harness/hx"
)

// VarySubRoots returns a copy of base in which the values of the Subscription root fields are
// drawn afresh over the SAME entity graph: one "event" of a subscription. mode: "" (normal),
// "null" (nullable roots are null), "empty" (list roots are empty).
func VarySubRoots(r *hx.Rand, s *Spec, base *Data, o DataOptions, mode string) *Data {
	d := *base
	d.Counters = map[string]int{}
	d.Roots = map[string]map[string]Val{}
	for k, v := range base.Roots {
		d.Roots[k] = v
	}
	var gen func(ty string, depth int) Val
	gen = func(ty string, depth int) Val {
		nonNull := strings.HasSuffix(ty, "!")
		inner := strings.TrimSuffix(ty, "!")
		if !nonNull && depth == 0 && mode == "null" {
			return Null()
		}
		if !nonNull && o.NullChance > 0 && r.Chance(1, o.NullChance) {
			return Null()
		}
		if strings.HasPrefix(inner, "[") {
			elem := inner[1 : len(inner)-1]
			n := r.Range(0, 4)
			if depth == 0 && mode == "empty" {
				n = 0
			}
			out := Val{Kind: "list", List: []Val{}}
			for i := 0; i < n; i++ {
				el := gen(elem, depth+1)
				if el.Kind == "null" && !o.NullObjElems && !isScalarName(NamedType(elem)) {
					continue
				}
				out.List = append(out.List, el)
			}
			return out
		}
		switch inner {
		case "String", "ID":
			return Val{Kind: "scalar", Scalar: fmt.Sprintf("s%d", r.Intn(1000))}
		case "Int", "Float":
			return Val{Kind: "scalar", Scalar: r.Intn(1000)}
		case "Boolean":
			return Val{Kind: "scalar", Scalar: r.Bool()}
		}
		for _, e := range s.Enums {
			if e == inner {
				return Val{Kind: "scalar", Scalar: hx.Pick(r, []string{"A", "B", "C"})}
			}
		}
		if a := s.Abstract(inner); a != nil {
			m := hx.Pick(r, a.Members)
			ids := base.EntityIDs(m)
			if len(ids) == 0 {
				return Null()
			}
			return Val{Kind: "ref", Ref: hx.Pick(r, ids)}
		}
		t := s.Type(inner)
		if t == nil {
			return Null()
		}
		if t.Node {
			ids := base.EntityIDs(inner)
			if len(ids) == 0 {
				return Null()
			}
			return Val{Kind: "ref", Ref: hx.Pick(r, ids)}
		}
		obj := &Object{Type: t.Name, Fields: map[string]Val{}}
		for _, f := range t.Fields {
			obj.Fields[f.Name] = gen(f.Type, depth+1)
		}
		return Val{Kind: "obj", Obj: obj}
	}
	subs := map[string]Val{}
	for _, f := range s.Subs {
		subs[f.Name] = gen(f.Type, 0)
	}
	d.Roots["Subscription"] = subs
	return &d
}
