package fed

import (
	"net/http"
	"sync"

	pebbles "github.com/buildbuildio/pebbles"
	"github.com/buildbuildio/pebbles/planner"
	"github.com/buildbuildio/pebbles/queryer"
	"github.com/buildbuildio/pebbles/requests"
)

// SubQueryer is a queryer whose Query goes to the fake services over the in-process transport
// (like the one NewGateway installs) and whose Subscribe needs no websocket: it records the
// root subscription request; the harness then evaluates that request at the fake service
// itself (Service.Answer) to produce root events.
type SubQueryer struct {
	*queryer.MultiOpQueryer
	log *SubLog
	url string
}

// SubLog collects the root subscription requests a gateway sent.
type SubLog struct {
	mu   sync.Mutex
	Reqs []SubReq
}

type SubReq struct {
	URL     string
	Request *requests.Request
}

func (l *SubLog) Take() []SubReq {
	l.mu.Lock()
	defer l.mu.Unlock()
	out := l.Reqs
	l.Reqs = nil
	return out
}

func (q *SubQueryer) Subscribe(req *requests.Request, closeCh <-chan struct{}, resCh chan *requests.Response) error {
	q.log.mu.Lock()
	q.log.Reqs = append(q.log.Reqs, SubReq{URL: q.url, Request: req})
	q.log.mu.Unlock()
	return nil
}

// SubQueryerFactory is a gateway option installing SubQueryers over the fake services.
func (f *Fed) SubQueryerFactory(log *SubLog, maxBatch int) pebbles.GatewayOption {
	if maxBatch <= 0 {
		maxBatch = 3000
	}
	// downstream calls are serialised: the fake services' mutation counters are plain maps, and a
	// gateway under test may (wrongly) run mutations concurrently
	client := &http.Client{Transport: &lockedTransport{inner: &Transport{Fed: f}}}
	return pebbles.WithQueryerFactory(func(ctx *planner.PlanningContext, url string) queryer.Queryer {
		q := queryer.NewMultiOpQueryer(url, maxBatch).WithHTTPClient(client)
		// like the gateway's default factory: a queryer made for an HTTP request lives as long as that
		// request (one kept and used for a later request finds its context cancelled)
		if ctx != nil && ctx.Request != nil && ctx.Request.Original != nil && ctx.Request.Original.Method == http.MethodPost {
			q = q.WithContext(ctx.Request.Original.Context())
		}
		return &SubQueryer{MultiOpQueryer: q, log: log, url: url}
	})
}

// ServiceByURL finds a fake service.
func (f *Fed) ServiceByURL(url string) *Service {
	for _, s := range f.Services {
		if s.URL == url {
			return s
		}
	}
	return nil
}

// RootEvent evaluates a recorded root subscription request at its service: the payload of one
// event as a faithful service would emit it (logged as a call of that service).
func (f *Fed) RootEvent(sr SubReq) *requests.Response {
	svc := f.ServiceByURL(sr.URL)
	if svc == nil {
		return &requests.Response{}
	}
	c := &Call{Service: svc.Index, HTTPCall: -1, Query: sr.Request.Query, Variables: sr.Request.Variables, OpName: sr.Request.OperationName}
	ans := svc.Answer(c)
	svc.mu.Lock()
	svc.Calls = append(svc.Calls, c)
	svc.mu.Unlock()
	resp := &requests.Response{}
	if d, ok := ans["data"].(map[string]interface{}); ok {
		resp.Data = d
	}
	return resp
}

type lockedTransport struct {
	mu    sync.Mutex
	inner http.RoundTripper
}

func (t *lockedTransport) RoundTrip(r *http.Request) (*http.Response, error) {
	t.mu.Lock()
	defer t.mu.Unlock()
	return t.inner.RoundTrip(r)
}
