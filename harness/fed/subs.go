package fed

// Subscriptions: a scripted graphql-ws UPSTREAM per fake service (the gateway's
// MultiOpQueryer.Subscribe dials ws://host/… with a real TCP dial, so each service gets a
// loopback listener; queries still go through the in-process Transport), a raw websocket
// CLIENT of the gateway, and a listener wrapper that makes the gateway's side of the client
// connection observable and schedulable Write by Write.

import (
	"bufio"
	"encoding/json"
	"errors"
	"fmt"
	"io"
	"log"
	"net"
	"net/http"
	"net/http/httptest"
	"strings"
	"sync"
	"sync/atomic"
	"time"

	"github.com/gobwas/ws"
	"github.com/gobwas/ws/wsutil"
)

// ---------------------------------------------------------------------------------------------
// upstream

// UpSub is one upstream subscription: the connection the gateway opened for one `start`.
type UpSub struct {
	Service int
	Query   string
	Vars    map[string]interface{}
	OpName  *string
	Started chan struct{} // closed when the gateway's start message has been read

	conn     net.Conn
	wmu      sync.Mutex
	closed   chan struct{} // closed when the gateway's side is observed closed (read error)
	closeOne sync.Once
	Sent     int32
}

// Upstreams are the loopback graphql-ws servers of a federation.
type Upstreams struct {
	Fed  *Fed
	lns  []net.Listener
	Subs chan *UpSub // every accepted upstream subscription, in accept order
	mu   sync.Mutex
	All  []*UpSub
	// RefuseInit makes the upstream close the connection right after the handshake (before
	// reading init/start).
	RefuseInit bool
}

// StartUpstreams gives every service of the federation a loopback listener and rewrites the
// service URLs to it. Call before NewGateway.
func StartUpstreams(f *Fed) (*Upstreams, error) {
	u := &Upstreams{Fed: f, Subs: make(chan *UpSub, 256)}
	for i, s := range f.Services {
		ln, err := net.Listen("tcp", "127.0.0.1:0")
		if err != nil {
			u.Close()
			return nil, err
		}
		u.lns = append(u.lns, ln)
		s.URL = "http://" + ln.Addr().String() + "/graphql"
		go u.serve(i, ln)
	}
	return u, nil
}

// SetRefuseInit switches the refusing behaviour (see RefuseInit) on or off.
func (u *Upstreams) SetRefuseInit(b bool) {
	u.mu.Lock()
	u.RefuseInit = b
	u.mu.Unlock()
}

func (u *Upstreams) Close() {
	for _, ln := range u.lns {
		ln.Close()
	}
	u.mu.Lock()
	all := append([]*UpSub(nil), u.All...)
	u.mu.Unlock()
	for _, s := range all {
		s.conn.Close()
	}
}

func (u *Upstreams) serve(idx int, ln net.Listener) {
	for {
		c, err := ln.Accept()
		if err != nil {
			return
		}
		go u.handle(idx, c)
	}
}

func (u *Upstreams) handle(idx int, c net.Conn) {
	up := ws.Upgrader{Protocol: func(p []byte) bool { return string(p) == "graphql-ws" }}
	if _, err := up.Upgrade(c); err != nil {
		c.Close()
		return
	}
	u.mu.Lock()
	refuse := u.RefuseInit
	u.mu.Unlock()
	if refuse {
		// reset the connection right after the handshake: the gateway's init/start writes fail
		if tc, ok := c.(*net.TCPConn); ok {
			tc.SetLinger(0)
		}
		c.Close()
		return
	}
	sub := &UpSub{Service: idx, conn: c, closed: make(chan struct{}), Started: make(chan struct{})}
	u.mu.Lock()
	u.All = append(u.All, sub)
	u.mu.Unlock()
	started := false
	for {
		msg, err := wsutil.ReadClientText(c)
		if err != nil {
			sub.closeOne.Do(func() { close(sub.closed) })
			if !started {
				close(sub.Started)
			}
			return
		}
		var m struct {
			Type    string `json:"type"`
			ID      string `json:"id"`
			Payload *struct {
				Query         string                 `json:"query"`
				Variables     map[string]interface{} `json:"variables"`
				OperationName *string                `json:"operationName"`
			} `json:"payload"`
		}
		if json.Unmarshal(msg, &m) != nil {
			continue
		}
		if m.Type == "start" && m.Payload != nil && !started {
			sub.Query, sub.Vars, sub.OpName = m.Payload.Query, m.Payload.Variables, m.Payload.OperationName
			started = true
			close(sub.Started)
			u.Subs <- sub
		}
	}
}

// NextSub waits for the next upstream subscription to be started by the gateway.
func (u *Upstreams) NextSub(timeout time.Duration) (*UpSub, error) {
	select {
	case s := <-u.Subs:
		return s, nil
	case <-time.After(timeout):
		return nil, errors.New("no upstream subscription within the timeout")
	}
}

// SendRaw writes one text message to the gateway.
func (s *UpSub) SendRaw(b []byte) error {
	s.wmu.Lock()
	defer s.wmu.Unlock()
	atomic.AddInt32(&s.Sent, 1)
	return wsutil.WriteServerText(s.conn, b)
}

// SendData emits one event: {"type":"data","id":"1","payload":{"data":…,"errors":…}}.
func (s *UpSub) SendData(data interface{}, errs []interface{}) error {
	p := map[string]interface{}{"data": data}
	if len(errs) > 0 {
		p["errors"] = errs
	}
	b, _ := json.Marshal(map[string]interface{}{"type": "data", "id": "1", "payload": p})
	return s.SendRaw(b)
}

func (s *UpSub) SendComplete() error {
	return s.SendRaw([]byte(`{"type":"complete","id":"1"}`))
}

// SendErrorObject: an `error` message whose payload is an object (graphql-ws GQL_ERROR).
func (s *UpSub) SendErrorObject(msg string) error {
	b, _ := json.Marshal(map[string]interface{}{"type": "error", "id": "1", "payload": map[string]interface{}{"message": msg}})
	return s.SendRaw(b)
}

// SendErrorList: an `error` message whose payload is a list of errors.
func (s *UpSub) SendErrorList(msg string) error {
	b, _ := json.Marshal(map[string]interface{}{"type": "error", "id": "1", "payload": []interface{}{map[string]interface{}{"message": msg}}})
	return s.SendRaw(b)
}

// Drop closes the upstream's side abruptly.
func (s *UpSub) Drop() { s.conn.Close() }

// ClosedByGateway reports whether the gateway has closed its side within the timeout.
func (s *UpSub) ClosedByGateway(timeout time.Duration) bool {
	select {
	case <-s.closed:
		return true
	case <-time.After(timeout):
		return false
	}
}

// ---------------------------------------------------------------------------------------------
// the gateway server with an observable client connection

// ConnEvent is one Write (or Close) on the gateway's side of a client connection.
type ConnEvent struct {
	Gid   uint64
	Bytes []byte // nil for Close
	Close bool
}

// ConnCtl observes / schedules the gateway's writes on client connections.
type ConnCtl struct {
	mu sync.Mutex
	// BeforeWrite is called (outside the lock) before each Write after the HTTP upgrade
	// response; it may block (to force interleavings) and may return an error to inject.
	BeforeWrite func(gid uint64, p []byte) error
	// AfterWrite is called after the underlying Write returned.
	AfterWrite func(gid uint64, p []byte)
	Log        []ConnEvent
	upgraded   map[net.Conn]bool
}

type schedConn struct {
	net.Conn
	ctl *ConnCtl
}

func (c *schedConn) Write(p []byte) (int, error) {
	ctl := c.ctl
	ctl.mu.Lock()
	up := ctl.upgraded[c.Conn]
	if !up && strings.HasPrefix(string(p), "HTTP/1.1 101") {
		ctl.upgraded[c.Conn] = true
		ctl.mu.Unlock()
		return c.Conn.Write(p)
	}
	bw := ctl.BeforeWrite
	ctl.mu.Unlock()
	if !up {
		return c.Conn.Write(p)
	}
	gid := curGid()
	if bw != nil {
		if err := bw(gid, p); err != nil {
			return 0, err
		}
	}
	ctl.mu.Lock()
	ctl.Log = append(ctl.Log, ConnEvent{Gid: gid, Bytes: append([]byte(nil), p...)})
	aw := ctl.AfterWrite
	ctl.mu.Unlock()
	n, err := c.Conn.Write(p)
	if aw != nil {
		aw(gid, p)
	}
	return n, err
}

func (c *schedConn) Close() error {
	c.ctl.mu.Lock()
	c.ctl.Log = append(c.ctl.Log, ConnEvent{Gid: curGid(), Close: true})
	c.ctl.mu.Unlock()
	return c.Conn.Close()
}

type schedListener struct {
	net.Listener
	ctl *ConnCtl
}

func (l *schedListener) Accept() (net.Conn, error) {
	c, err := l.Listener.Accept()
	if err != nil {
		return nil, err
	}
	return &schedConn{Conn: c, ctl: l.ctl}, nil
}

func curGid() uint64 {
	var buf [40]byte
	n := runtimeStack(buf[:])
	var id uint64
	for _, ch := range buf[len("goroutine "):n] {
		if ch < '0' || ch > '9' {
			break
		}
		id = id*10 + uint64(ch-'0')
	}
	return id
}

// GatewayServer serves a gateway's Handler on a loopback listener.
type GatewayServer struct {
	Srv  *httptest.Server
	Conn *ConnCtl
	errs *lockedBuf
}

type lockedBuf struct {
	mu sync.Mutex
	b  []byte
}

func (l *lockedBuf) Write(p []byte) (int, error) {
	l.mu.Lock()
	l.b = append(l.b, p...)
	l.mu.Unlock()
	return len(p), nil
}

// ServerLog returns what net/http logged (e.g. "http: panic serving …": a handler panic it recovered).
func (g *GatewayServer) ServerLog() string {
	g.errs.mu.Lock()
	defer g.errs.mu.Unlock()
	return string(g.errs.b)
}

func ServeGateway(handler http.HandlerFunc) *GatewayServer {
	ctl := &ConnCtl{upgraded: map[net.Conn]bool{}}
	srv := httptest.NewUnstartedServer(handler)
	srv.Listener = &schedListener{Listener: srv.Listener, ctl: ctl}
	lb := &lockedBuf{}
	srv.Config.ErrorLog = log.New(lb, "", 0)
	srv.Start()
	return &GatewayServer{Srv: srv, Conn: ctl, errs: lb}
}

func (g *GatewayServer) Close() {
	g.Srv.CloseClientConnections()
	g.Srv.Close()
}

func (g *GatewayServer) WSURL() string { return strings.Replace(g.Srv.URL, "http", "ws", 1) }

// ---------------------------------------------------------------------------------------------
// websocket client reading RAW frames

type WSClient struct {
	conn net.Conn
	br   *bufio.Reader
	wmu  sync.Mutex
}

func DialWS(url string) (*WSClient, error) {
	d := ws.Dialer{Timeout: 2 * time.Second, Protocols: []string{"graphql-ws"}}
	conn, br, _, err := d.Dial(nil2ctx(), url)
	if err != nil {
		return nil, err
	}
	c := &WSClient{conn: conn}
	if br != nil {
		c.br = br
	} else {
		c.br = bufio.NewReader(conn)
	}
	return c, nil
}

func (c *WSClient) SendRaw(b []byte) error {
	c.wmu.Lock()
	defer c.wmu.Unlock()
	return wsutil.WriteClientText(c.conn, b)
}

func (c *WSClient) Send(v interface{}) error {
	b, err := json.Marshal(v)
	if err != nil {
		return err
	}
	return c.SendRaw(b)
}

func (c *WSClient) Init() error { return c.Send(map[string]interface{}{"type": "connection_init"}) }

func (c *WSClient) Start(id, query string, vars map[string]interface{}, opName *string) error {
	p := map[string]interface{}{"query": query}
	if vars != nil {
		p["variables"] = vars
	}
	if opName != nil {
		p["operationName"] = *opName
	}
	return c.Send(map[string]interface{}{"type": "start", "id": id, "payload": p})
}

func (c *WSClient) Stop(id string) error {
	return c.Send(map[string]interface{}{"type": "stop", "id": id})
}

func (c *WSClient) Terminate() error {
	return c.Send(map[string]interface{}{"type": "connection_terminate"})
}

// SendPing writes a websocket ping control frame with the given payload.
func (c *WSClient) SendPing(p []byte) error {
	c.wmu.Lock()
	defer c.wmu.Unlock()
	return wsutil.WriteClientMessage(c.conn, ws.OpPing, p)
}

// Abort closes the TCP connection without a close frame.
func (c *WSClient) Abort() { c.conn.Close() }

// Frame is one raw frame as the client parsed it off the wire.
type Frame struct {
	Op      ws.OpCode
	Fin     bool
	Payload []byte
}

// ReadFrame reads the next raw frame. A frame that is not a well-formed server frame (reserved
// bits, masked, unknown opcode) is an error: that is what torn writes look like to a client.
func (c *WSClient) ReadFrame(timeout time.Duration) (*Frame, error) {
	c.conn.SetReadDeadline(time.Now().Add(timeout))
	h, err := ws.ReadHeader(c.br)
	if err != nil {
		return nil, err
	}
	if h.Rsv != 0 || h.Masked {
		return nil, fmt.Errorf("malformed frame header %+v", h)
	}
	switch h.OpCode {
	case ws.OpText, ws.OpBinary, ws.OpClose, ws.OpPing, ws.OpPong, ws.OpContinuation:
	default:
		return nil, fmt.Errorf("malformed frame header: opcode %d", h.OpCode)
	}
	if h.Length > 1<<24 {
		return nil, fmt.Errorf("malformed frame header: length %d", h.Length)
	}
	p := make([]byte, h.Length)
	if _, err := io.ReadFull(c.br, p); err != nil {
		return nil, err
	}
	return &Frame{Op: h.OpCode, Fin: h.Fin, Payload: p}, nil
}

// ServerMsg is a decoded text frame of the gateway.
type ServerMsg struct {
	Type    string          `json:"type"`
	ID      string          `json:"id"`
	Payload json.RawMessage `json:"payload"`
}

// CheckTextFrame: a text frame must be one complete JSON message with a known type.
func CheckTextFrame(f *Frame) (*ServerMsg, error) {
	if !f.Fin {
		return nil, errors.New("fragmented text frame")
	}
	var m ServerMsg
	if err := json.Unmarshal(f.Payload, &m); err != nil {
		return nil, fmt.Errorf("text frame is not a JSON message: %v: %q", err, trunc(f.Payload, 80))
	}
	switch m.Type {
	case "connection_ack", "ka", "data", "complete", "error", "connection_error":
	default:
		return nil, fmt.Errorf("text frame with unknown message type %q", m.Type)
	}
	return &m, nil
}

func trunc(b []byte, n int) string {
	if len(b) > n {
		return string(b[:n]) + "…"
	}
	return string(b)
}
