package fed

import (
	"context"
	"runtime"
)

func runtimeStack(buf []byte) int { return runtime.Stack(buf, false) }

func nil2ctx() context.Context { return context.Background() }
