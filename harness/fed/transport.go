package fed

import (
	"bytes"
	"encoding/json"
	"fmt"
	"io"
	"mime"
	"mime/multipart"
	"net/http"
	"strings"
	"sync"
	"time"

	"github.com/vektah/gqlparser/v2"
	"github.com/vektah/gqlparser/v2/ast"
)

// Call is one sub-request as a fake service received it.
type Call struct {
	Service    int                    `json:"service"`
	HTTPCall   int                    `json:"http_call"` // sequence number of the HTTP call at this service
	Position   int                    `json:"position"`  // position inside the batch
	BatchSize  int                    `json:"batch_size"`
	Query      string                 `json:"query"`
	Variables  map[string]interface{} `json:"variables"`
	OpName     *string                `json:"operationName"`
	Operation  string                 `json:"operation"` // query / mutation / subscription ("" if unparsable)
	RootFields []string               `json:"root_fields"`
	Invalid    string                 `json:"invalid,omitempty"` // gqlparser error against the service's OWN schema (C02 oracle)
	Multipart  bool                   `json:"multipart,omitempty"`
	Files      map[string][]byte      `json:"-"`
}

// Fault decides, per received call, whether to misbehave. Return nil for normal service.
type Fault func(c *Call) *FaultAction

type FaultAction struct {
	Kind string      // "eof" "transport" "status" "notjson" "notarray" "short" "long" "errors" "nodata" "nulldata" "replace"
	Data interface{} // for "replace": the data object to answer with; for "errors": the error list
}

// Service is one fake downstream.
type Service struct {
	Index  int
	URL    string
	SDL    string
	Schema *ast.Schema
	Data   *Data // shared with all services of the federation
	Fault  Fault
	Delay  func(c *Call) time.Duration // optional: slow answers

	mu    sync.Mutex
	Calls []*Call
	http  int
}

// Fed is a federation instance.
type Fed struct {
	Spec     *Spec
	Services []*Service
	Data     *Data
}

// Build loads every service schema of a spec and attaches the shared data.
func Build(spec *Spec, data *Data) (*Fed, error) {
	f := &Fed{Spec: spec, Data: data}
	for i := 0; i < spec.NumServices; i++ {
		sdl := spec.SDL(i)
		sch, err := gqlparser.LoadSchema(&ast.Source{Name: URL(i), Input: sdl})
		if err != nil {
			return nil, fmt.Errorf("service %d SDL invalid: %v\n%s", i, err, sdl)
		}
		f.Services = append(f.Services, &Service{Index: i, URL: URL(i), SDL: sdl, Schema: sch, Data: data})
	}
	return f, nil
}

// FromSDL builds a federation from explicit SDL strings.
func FromSDL(sdls []string, data *Data) (*Fed, error) {
	f := &Fed{Data: data}
	for i, sdl := range sdls {
		sch, err := gqlparser.LoadSchema(&ast.Source{Name: URL(i), Input: sdl})
		if err != nil {
			return nil, fmt.Errorf("service %d SDL invalid: %v", i, err)
		}
		f.Services = append(f.Services, &Service{Index: i, URL: URL(i), SDL: sdl, Schema: sch, Data: data})
	}
	return f, nil
}

func (f *Fed) URLs() []string {
	out := make([]string, len(f.Services))
	for i, s := range f.Services {
		out[i] = s.URL
	}
	return out
}

func (f *Fed) ResetLogs() {
	for _, s := range f.Services {
		s.mu.Lock()
		s.Calls, s.http = nil, 0
		s.mu.Unlock()
	}
}

// AllCalls returns the received sub-requests of all services (service order, arrival order).
func (f *Fed) AllCalls() []*Call {
	var out []*Call
	for _, s := range f.Services {
		s.mu.Lock()
		out = append(out, s.Calls...)
		s.mu.Unlock()
	}
	return out
}

// Answer evaluates one sub-request at this service.
func (s *Service) Answer(c *Call) map[string]interface{} {
	doc, gerr := gqlparser.LoadQuery(s.Schema, c.Query)
	if gerr != nil {
		c.Invalid = gerr.Error()
		return map[string]interface{}{"data": nil, "errors": []interface{}{map[string]interface{}{"message": "invalid at " + s.URL + ": " + gerr.Error()}}}
	}
	var op *ast.OperationDefinition
	if c.OpName != nil {
		op = doc.Operations.ForName(*c.OpName)
	} else if len(doc.Operations) == 1 {
		op = doc.Operations[0]
	}
	if op == nil {
		c.Invalid = "operation not found"
		return map[string]interface{}{"data": nil, "errors": []interface{}{map[string]interface{}{"message": "operation not found"}}}
	}
	c.Operation = string(op.Operation)
	for _, sel := range op.SelectionSet {
		if fld, ok := sel.(*ast.Field); ok {
			c.RootFields = append(c.RootFields, fld.Name)
		}
	}
	// every used variable must be declared (gqlparser validates that) and provided or defaulted
	ev := &Eval{Schema: s.Schema, Data: s.Data, Vars: c.Variables}
	data := ev.Execute(op)
	res := map[string]interface{}{"data": data}
	if len(ev.Errors) > 0 {
		errs := make([]interface{}, len(ev.Errors))
		for i, m := range ev.Errors {
			errs[i] = map[string]interface{}{"message": m}
		}
		res["errors"] = errs
	}
	return res
}

// Transport routes HTTP calls to the in-process fake services by URL.
type Transport struct{ Fed *Fed }

func (t *Transport) RoundTrip(r *http.Request) (*http.Response, error) {
	// like a real transport: a request whose context is already cancelled is not sent
	if err := r.Context().Err(); err != nil {
		return nil, err
	}
	var svc *Service
	for _, s := range t.Fed.Services {
		if strings.HasPrefix(r.URL.String(), s.URL) || r.URL.Host == hostOf(s.URL) {
			svc = s
		}
	}
	if svc == nil {
		return nil, fmt.Errorf("no fake service for %s", r.URL)
	}
	body, _ := io.ReadAll(r.Body)
	return svc.serve(r.Header.Get("Content-Type"), body)
}

func hostOf(u string) string {
	u = strings.TrimPrefix(u, "http://")
	if i := strings.Index(u, "/"); i >= 0 {
		u = u[:i]
	}
	return u
}

type wireReq struct {
	Query         string                 `json:"query"`
	Variables     map[string]interface{} `json:"variables"`
	OperationName *string                `json:"operationName"`
}

func jsonResp(status int, v interface{}) *http.Response {
	b, _ := json.Marshal(v)
	return &http.Response{StatusCode: status, Body: io.NopCloser(bytes.NewReader(b)), Header: http.Header{"Content-Type": []string{"application/json"}}}
}

func (s *Service) serve(contentType string, body []byte) (*http.Response, error) {
	s.mu.Lock()
	httpNo := s.http
	s.http++
	s.mu.Unlock()
	var reqs []wireReq
	single := false
	var files map[string][]byte
	mt, params, _ := mime.ParseMediaType(contentType)
	if mt == "multipart/form-data" {
		mr := multipart.NewReader(bytes.NewReader(body), params["boundary"])
		form, err := mr.ReadForm(32 << 20)
		if err != nil {
			return jsonResp(400, map[string]interface{}{"errors": []interface{}{map[string]interface{}{"message": "bad multipart"}}}), nil
		}
		var one wireReq
		ops := ""
		if v := form.Value["operations"]; len(v) > 0 {
			ops = v[0]
		}
		if err := json.Unmarshal([]byte(ops), &one); err != nil {
			return jsonResp(400, map[string]interface{}{"errors": []interface{}{map[string]interface{}{"message": "bad operations"}}}), nil
		}
		reqs, single = []wireReq{one}, true
		files = map[string][]byte{}
		for k, fhs := range form.File {
			for _, fh := range fhs {
				fl, _ := fh.Open()
				b, _ := io.ReadAll(fl)
				fl.Close()
				files[k+"/"+fh.Filename] = b
			}
		}
	} else if err := json.Unmarshal(body, &reqs); err != nil {
		var one wireReq
		if err2 := json.Unmarshal(body, &one); err2 != nil {
			return jsonResp(400, map[string]interface{}{"errors": []interface{}{map[string]interface{}{"message": "bad json"}}}), nil
		}
		reqs, single = []wireReq{one}, true
	}
	answers := make([]interface{}, len(reqs))
	var action *FaultAction
	for i, rq := range reqs {
		c := &Call{Service: s.Index, HTTPCall: httpNo, Position: i, BatchSize: len(reqs), Query: rq.Query, Variables: rq.Variables, OpName: rq.OperationName, Multipart: files != nil, Files: files}
		ans := s.Answer(c)
		if s.Delay != nil {
			if d := s.Delay(c); d > 0 {
				time.Sleep(d)
			}
		}
		s.mu.Lock()
		s.Calls = append(s.Calls, c)
		s.mu.Unlock()
		if s.Fault != nil {
			if a := s.Fault(c); a != nil {
				switch a.Kind {
				case "errors":
					ans = map[string]interface{}{"data": nil, "errors": a.Data}
				case "errors+data":
					ans["errors"] = a.Data
				case "nodata":
					ans = map[string]interface{}{}
				case "nulldata":
					ans = map[string]interface{}{"data": nil}
				case "replace":
					ans = map[string]interface{}{"data": a.Data}
				default:
					action = a
				}
			}
		}
		answers[i] = ans
	}
	if action != nil {
		switch action.Kind {
		case "transport":
			return nil, fmt.Errorf("injected transport error")
		case "eof":
			// the service received and executed the batch (it is in the call log); the connection broke
			// before any byte of the answer: what an http.Client reports as EOF
			return nil, io.EOF
		case "status":
			st := 500
			if n, ok := action.Data.(int); ok {
				st = n
			}
			return jsonResp(st, answers), nil
		case "notjson":
			return &http.Response{StatusCode: 200, Body: io.NopCloser(strings.NewReader("<html>oops")), Header: http.Header{}}, nil
		case "notarray":
			return jsonResp(200, map[string]interface{}{"data": map[string]interface{}{}}), nil
		case "short":
			if len(answers) > 0 {
				answers = answers[:len(answers)-1]
			}
		case "long":
			answers = append(answers, map[string]interface{}{"data": map[string]interface{}{}})
		}
	}
	if single {
		return jsonResp(200, answers[0]), nil
	}
	return jsonResp(200, answers), nil
}
