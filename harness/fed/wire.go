package fed

import "sort"

// Data → JSON for the Lean driver (parser: lean/PebblesVerif/Driver/AstJson.lean `parseData`).

func valToJSON(v Val) interface{} {
	switch v.Kind {
	case "scalar":
		return map[string]interface{}{"k": "scalar", "s": v.Scalar}
	case "ref":
		return map[string]interface{}{"k": "ref", "r": v.Ref}
	case "obj":
		return map[string]interface{}{"k": "obj", "t": v.Obj.Type, "f": fieldsToJSON(v.Obj.Fields)}
	case "list":
		l := make([]interface{}, 0, len(v.List))
		for _, x := range v.List {
			l = append(l, valToJSON(x))
		}
		return map[string]interface{}{"k": "list", "l": l}
	}
	return map[string]interface{}{"k": "null"}
}

func fieldsToJSON(fs map[string]Val) []interface{} {
	keys := make([]string, 0, len(fs))
	for k := range fs {
		keys = append(keys, k)
	}
	sort.Strings(keys)
	out := make([]interface{}, 0, len(keys))
	for _, k := range keys {
		out = append(out, map[string]interface{}{"k": k, "v": valToJSON(fs[k])})
	}
	return out
}

// ToJSON serialises the entity graph.
func (d *Data) ToJSON() map[string]interface{} {
	ents := make([]interface{}, 0, len(d.Order))
	for _, id := range d.Order {
		e := d.Entities[id]
		ents = append(ents, map[string]interface{}{"id": e.ID, "type": e.Type, "fields": fieldsToJSON(e.Fields)})
	}
	rnames := make([]string, 0, len(d.Roots))
	for k := range d.Roots {
		rnames = append(rnames, k)
	}
	sort.Strings(rnames)
	roots := make([]interface{}, 0, len(rnames))
	for _, k := range rnames {
		roots = append(roots, map[string]interface{}{"name": k, "fields": fieldsToJSON(d.Roots[k])})
	}
	return map[string]interface{}{"entities": ents, "roots": roots}
}
