module verif/harness

go 1.18

require (
	github.com/buildbuildio/pebbles v0.0.0
	github.com/gobwas/ws v1.1.0
	github.com/samber/lo v1.37.0
	github.com/vektah/gqlparser/v2 v2.5.1
)

require (
	github.com/agnivade/levenshtein v1.1.1 // indirect
	github.com/gobwas/httphead v0.1.0 // indirect
	github.com/gobwas/pool v0.2.1 // indirect
	golang.org/x/exp v0.0.0-20220303212507-bbda1eaf7a17 // indirect
)

replace github.com/buildbuildio/pebbles => /repo
