package hx

import (
	"github.com/vektah/gqlparser/v2/ast"
)

// AST → JSON for the Lean driver (parser: lean/PebblesVerif/Driver/AstJson.lean): exactly the
// parts of the validated AST that pebbles reads (DESIGN §4.7, Appendix F).

func ValueToJSON(v *ast.Value) interface{} {
	if v == nil {
		return nil
	}
	switch v.Kind {
	case ast.Variable:
		et := ""
		if v.ExpectedType != nil {
			et = v.ExpectedType.String()
		}
		return map[string]interface{}{"k": "var", "v": v.Raw, "et": et}
	case ast.IntValue:
		return map[string]interface{}{"k": "int", "v": v.Raw}
	case ast.FloatValue:
		return map[string]interface{}{"k": "float", "v": v.Raw}
	case ast.StringValue, ast.BlockValue:
		return map[string]interface{}{"k": "str", "v": v.Raw}
	case ast.BooleanValue:
		return map[string]interface{}{"k": "bool", "v": v.Raw == "true"}
	case ast.NullValue:
		return map[string]interface{}{"k": "null"}
	case ast.EnumValue:
		return map[string]interface{}{"k": "enum", "v": v.Raw}
	case ast.ListValue:
		vs := make([]interface{}, 0, len(v.Children))
		for _, c := range v.Children {
			vs = append(vs, ValueToJSON(c.Value))
		}
		return map[string]interface{}{"k": "list", "vs": vs}
	case ast.ObjectValue:
		fs := make([]interface{}, 0, len(v.Children))
		for _, c := range v.Children {
			fs = append(fs, map[string]interface{}{"name": c.Name, "value": ValueToJSON(c.Value)})
		}
		return map[string]interface{}{"k": "obj", "fs": fs}
	}
	return map[string]interface{}{"k": "null"}
}

func argsToJSON(as ast.ArgumentList) []interface{} {
	out := make([]interface{}, 0, len(as))
	for _, a := range as {
		out = append(out, map[string]interface{}{"name": a.Name, "value": ValueToJSON(a.Value)})
	}
	return out
}

func dirsToJSON(ds ast.DirectiveList) []interface{} {
	out := make([]interface{}, 0, len(ds))
	for _, d := range ds {
		out = append(out, map[string]interface{}{"name": d.Name, "args": argsToJSON(d.Arguments)})
	}
	return out
}

func objDef(d *ast.Definition) (kind, name string) {
	if d == nil {
		return "OBJECT", ""
	}
	return string(d.Kind), d.Name
}

func SelToJSON(s ast.Selection) interface{} {
	switch s := s.(type) {
	case *ast.Field:
		m := map[string]interface{}{"k": "f", "alias": s.Alias, "name": s.Name, "args": argsToJSON(s.Arguments), "dirs": dirsToJSON(s.Directives),
			"type": nil, "argDefs": []interface{}{}, "sub": SelSetToJSON(s.SelectionSet)}
		if s.Definition != nil {
			m["type"] = TypeToJSON(s.Definition.Type)
			m["argDefs"] = argDefsToJSON(s.Definition.Arguments)
		}
		return m
	case *ast.InlineFragment:
		k, n := objDef(s.ObjectDefinition)
		return map[string]interface{}{"k": "i", "cond": s.TypeCondition, "pk": k, "pn": n, "dirs": dirsToJSON(s.Directives), "sub": SelSetToJSON(s.SelectionSet)}
	case *ast.FragmentSpread:
		k, n := objDef(s.ObjectDefinition)
		cond := ""
		var sub ast.SelectionSet
		if s.Definition != nil {
			cond, sub = s.Definition.TypeCondition, s.Definition.SelectionSet
		}
		return map[string]interface{}{"k": "s", "name": s.Name, "cond": cond, "pk": k, "pn": n, "dirs": dirsToJSON(s.Directives), "sub": SelSetToJSON(sub)}
	}
	return nil
}

func SelSetToJSON(ss ast.SelectionSet) []interface{} {
	out := make([]interface{}, 0, len(ss))
	for _, s := range ss {
		out = append(out, SelToJSON(s))
	}
	return out
}

func OpToJSON(op *ast.OperationDefinition) map[string]interface{} {
	vds := make([]interface{}, 0, len(op.VariableDefinitions))
	for _, vd := range op.VariableDefinitions {
		vds = append(vds, map[string]interface{}{"name": vd.Variable, "type": TypeToJSON(vd.Type), "default": ValueToJSON(vd.DefaultValue)})
	}
	return map[string]interface{}{"kind": string(op.Operation), "name": op.Name, "varDefs": vds, "sels": SelSetToJSON(op.SelectionSet)}
}
