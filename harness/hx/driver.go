package hx

import (
	"bufio"
	"encoding/json"
	"fmt"
	"io"
	"os/exec"
	"sync"
)

// Driver is a pipe to the Lean model driver (pvdriver): one JSON line in, one JSON line out.
type Driver struct {
	cmd *exec.Cmd
	in  io.WriteCloser
	out *bufio.Reader
	mu  sync.Mutex
	N   int // number of calls
}

func StartDriver(path string) (*Driver, error) {
	cmd := exec.Command(path)
	in, err := cmd.StdinPipe()
	if err != nil {
		return nil, err
	}
	out, err := cmd.StdoutPipe()
	if err != nil {
		return nil, err
	}
	if err := cmd.Start(); err != nil {
		return nil, err
	}
	return &Driver{cmd: cmd, in: in, out: bufio.NewReaderSize(out, 1<<20)}, nil
}

// Call sends one request object and decodes the answer into a generic map.
func (d *Driver) Call(req map[string]interface{}) (map[string]interface{}, error) {
	d.mu.Lock()
	defer d.mu.Unlock()
	b, err := json.Marshal(req)
	if err != nil {
		return nil, err
	}
	if _, err := d.in.Write(append(b, '\n')); err != nil {
		return nil, fmt.Errorf("driver write: %w", err)
	}
	line, err := d.out.ReadBytes('\n')
	if err != nil {
		return nil, fmt.Errorf("driver read: %w", err)
	}
	d.N++
	var res map[string]interface{}
	dec := json.NewDecoder(bytesReader(line))
	dec.UseNumber()
	if err := dec.Decode(&res); err != nil {
		return nil, fmt.Errorf("driver answer not an object: %s", line)
	}
	if e, ok := res["error"]; ok {
		return res, fmt.Errorf("driver error: %v (%s)", e, line)
	}
	return res, nil
}

func (d *Driver) Close() {
	if d == nil {
		return
	}
	d.in.Close()
	d.cmd.Wait()
}
