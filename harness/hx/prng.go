// Package hx: shared harness helpers (PRNG, driver pipe, report).
package hx

// Rand is a splitmix64 generator: every random choice of a run derives from one state,
// so a disagreement replays exactly from (seed, case index).
type Rand struct{ s uint64 }

func NewRand(seed uint64) *Rand { return &Rand{s: seed} }

func (r *Rand) U64() uint64 {
	r.s += 0x9e3779b97f4a7c15
	z := r.s
	z = (z ^ (z >> 30)) * 0xbf58476d1ce4e5b9
	z = (z ^ (z >> 27)) * 0x94d049bb133111eb
	return z ^ (z >> 31)
}

// Fork derives an independent stream (per case), leaving r advanced by one step.
func (r *Rand) Fork() *Rand { return &Rand{s: r.U64()} }

// Intn returns a value in [0,n). n<=0 returns 0.
func (r *Rand) Intn(n int) int {
	if n <= 0 {
		return 0
	}
	return int(r.U64() % uint64(n))
}

// Range returns a value in [lo,hi].
func (r *Rand) Range(lo, hi int) int { return lo + r.Intn(hi-lo+1) }

func (r *Rand) Bool() bool { return r.U64()&1 == 1 }

// Chance returns true with probability num/den.
func (r *Rand) Chance(num, den int) bool { return r.Intn(den) < num }

func Pick[T any](r *Rand, xs []T) T { return xs[r.Intn(len(xs))] }

func (r *Rand) Perm(n int) []int {
	p := make([]int, n)
	for i := range p {
		p[i] = i
	}
	for i := n - 1; i > 0; i-- {
		j := r.Intn(i + 1)
		p[i], p[j] = p[j], p[i]
	}
	return p
}
