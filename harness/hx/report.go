package hx

import (
	"encoding/json"
	"os"
	"sync"
)

// Failure is one case on which something went wrong.
//
//	Kind "property-fails": the implementation violates the property oracle on this input.
//	Kind "model-mismatch": implementation and Lean model disagree (the correspondence broke).
//
// Class is the narrow signature (input class ∧ failure mode) used to match known findings;
// empty when the case is in no known class.
type Failure struct {
	Kind   string      `json:"kind"`
	Class  string      `json:"class,omitempty"`
	Detail string      `json:"detail"`
	Case   interface{} `json:"case"`
	Impl   interface{} `json:"impl,omitempty"`
	Model  interface{} `json:"model,omitempty"`
	Seed   uint64      `json:"seed"`
	Index  int         `json:"index"`
}

// Report is what a harness sub-command hands back to ./check.
type Report struct {
	AutoPath    string         `json:"-"` // where Fail writes the report early (see Fail)
	Property    string         `json:"property"`
	Tier        string         `json:"tier"`
	Seed        uint64         `json:"seed"`
	Evaluations int            `json:"evaluations"`
	Nontrivial  int            `json:"distinct_nontrivial"`
	Rule        string         `json:"rule"`
	Samples     []interface{}  `json:"samples"`
	Hist        map[string]int `json:"histogram"`
	Traces      int            `json:"traces_validated_against_impl"`
	DriverCalls int            `json:"driver_calls"`
	Failures    []Failure      `json:"failures"`
	Notes       []string       `json:"notes,omitempty"`
	Exhaustive  bool           `json:"exhaustive,omitempty"`

	mu       sync.Mutex
	distinct map[string]struct{}
	perClass map[string]int
	unlisted int
}

const (
	maxPerClass = 20
	maxUnlisted = 200
)

func NewReport(prop, tier string, seed uint64) *Report {
	return &Report{Property: prop, Tier: tier, Seed: seed, Hist: map[string]int{}, distinct: map[string]struct{}{}, Failures: []Failure{}, Samples: []interface{}{}}
}

// Count bumps a histogram bucket.
func (r *Report) Count(bucket string) {
	r.mu.Lock()
	r.Hist[bucket]++
	r.mu.Unlock()
}

// Case records one evaluated case; key identifies it for distinctness, nontrivial by the rule.
func (r *Report) Case(key string, nontrivial bool) {
	r.mu.Lock()
	defer r.mu.Unlock()
	r.Evaluations++
	if nontrivial {
		if _, ok := r.distinct[key]; !ok {
			r.distinct[key] = struct{}{}
			r.Nontrivial++
		}
	}
}

func (r *Report) Sample(v interface{}) {
	r.mu.Lock()
	defer r.mu.Unlock()
	if len(r.Samples) < 5 {
		r.Samples = append(r.Samples, v)
	}
}

func (r *Report) Fail(f Failure) {
	r.mu.Lock()
	defer r.mu.Unlock()
	f.Seed = r.Seed
	// Failures inside a documented known-finding class are kept up to a small number PER CLASS,
	// failures outside every class up to 200: a long run that reproduces one known finding hundreds
	// of times must not use up the room before a later stream reaches an unlisted failure (that is
	// how the thorough tier lost the null-object-elements failures behind 116 variable-named-id ones).
	if f.Class != "" {
		if r.perClass == nil {
			r.perClass = map[string]int{}
		}
		if r.perClass[f.Class] >= maxPerClass {
			r.Hist["failures not recorded: known class "+f.Class]++
			return
		}
		r.perClass[f.Class]++
	} else {
		if r.unlisted >= maxUnlisted {
			r.Hist["failures not recorded: outside every known class"]++
			return
		}
		r.unlisted++
	}
	r.Failures = append(r.Failures, f)
	// the first failures are written out at once: a harness that is killed later (a crash of the
	// real code in a goroutine, the time budget of a search) still leaves its concrete findings
	if r.AutoPath != "" && len(r.Failures) <= 10 {
		if b, err := json.MarshalIndent(r, "", " "); err == nil {
			if os.WriteFile(r.AutoPath+".tmp", b, 0o644) == nil {
				os.Rename(r.AutoPath+".tmp", r.AutoPath)
			}
		}
	}
}

// Unlisted counts the recorded failures that carry no known-finding class: once there are many,
// a slow harness (each failing case waits for frames that never come) may stop generating.
func (r *Report) Unlisted() int {
	r.mu.Lock()
	defer r.mu.Unlock()
	n := 0
	for _, f := range r.Failures {
		if f.Class == "" {
			n++
		}
	}
	return n
}

func (r *Report) Note(s string) {
	r.mu.Lock()
	r.Notes = append(r.Notes, s)
	r.mu.Unlock()
}

func (r *Report) Write(path string) error {
	b, err := json.MarshalIndent(r, "", " ")
	if err != nil {
		return err
	}
	return os.WriteFile(path, b, 0o644)
}
