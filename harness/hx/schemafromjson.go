package hx

import (
	"bytes"
	"encoding/json"

	"github.com/vektah/gqlparser/v2"
	"github.com/vektah/gqlparser/v2/ast"
	"github.com/vektah/gqlparser/v2/formatter"
)

// SchemaFromJSON is the inverse of SchemaToJSON as far as gqlparser's schema printer reads an
// *ast.Schema: types (kind, description, fields with arguments and defaults, interfaces, union
// members, enum values), directive definitions, root types. Default values arrive rendered
// (`Value.String()`); they are turned into values that print verbatim. Used to push the Lean
// model's output through the real formatter + LoadSchema.
func SchemaFromJSON(v interface{}) *ast.Schema {
	m, _ := v.(map[string]interface{})
	s := &ast.Schema{Types: map[string]*ast.Definition{}, Directives: map[string]*ast.DirectiveDefinition{},
		PossibleTypes: map[string][]*ast.Definition{}, Implements: map[string][]*ast.Definition{}}
	for _, t := range arr(m["types"]) {
		d := definitionFromJSON(t)
		s.Types[d.Name] = d
	}
	for _, dj := range arr(m["directives"]) {
		dm, _ := dj.(map[string]interface{})
		d := &ast.DirectiveDefinition{Position: &ast.Position{Src: &ast.Source{}}, Name: str(dm["name"]), Description: str(dm["desc"]),
			Arguments: argDefsFromJSON(dm["args"]), IsRepeatable: boolean(dm["repeatable"])}
		for _, l := range arr(dm["locations"]) {
			d.Locations = append(d.Locations, ast.DirectiveLocation(str(l)))
		}
		s.Directives[d.Name] = d
	}
	if n := str(m["query"]); n != "" {
		s.Query = rootDef(s, n)
	}
	if n := str(m["mutation"]); n != "" {
		s.Mutation = rootDef(s, n)
	}
	if n := str(m["subscription"]); n != "" {
		s.Subscription = rootDef(s, n)
	}
	return s
}

func rootDef(s *ast.Schema, n string) *ast.Definition {
	if d, ok := s.Types[n]; ok {
		return d
	}
	return &ast.Definition{Name: n}
}

func arr(v interface{}) []interface{} { a, _ := v.([]interface{}); return a }
func str(v interface{}) string        { s, _ := v.(string); return s }
func boolean(v interface{}) bool      { b, _ := v.(bool); return b }

func typeFromJSON(v interface{}) *ast.Type {
	m, ok := v.(map[string]interface{})
	if !ok {
		return nil
	}
	return &ast.Type{NamedType: str(m["name"]), Elem: typeFromJSON(m["elem"]), NonNull: boolean(m["nonNull"])}
}

// verbatim: a value whose String() is exactly the given text
func verbatim(v interface{}) *ast.Value {
	s, ok := v.(string)
	if !ok {
		return nil
	}
	return &ast.Value{Kind: ast.IntValue, Raw: s, Position: &ast.Position{}}
}

func dirUsesFromJSON(v interface{}) ast.DirectiveList {
	var out ast.DirectiveList
	for _, dj := range arr(v) {
		dm, _ := dj.(map[string]interface{})
		d := &ast.Directive{Name: str(dm["name"])}
		for _, aj := range arr(dm["args"]) {
			am, _ := aj.(map[string]interface{})
			d.Arguments = append(d.Arguments, &ast.Argument{Name: str(am["name"]), Value: verbatim(am["value"])})
		}
		out = append(out, d)
	}
	return out
}

func argDefsFromJSON(v interface{}) ast.ArgumentDefinitionList {
	out := ast.ArgumentDefinitionList{}
	for _, aj := range arr(v) {
		am, _ := aj.(map[string]interface{})
		out = append(out, &ast.ArgumentDefinition{Name: str(am["name"]), Description: str(am["desc"]), Type: typeFromJSON(am["type"]),
			DefaultValue: verbatim(am["default"]), Directives: dirUsesFromJSON(am["directives"])})
	}
	return out
}

func definitionFromJSON(v interface{}) *ast.Definition {
	m, _ := v.(map[string]interface{})
	d := &ast.Definition{Name: str(m["name"]), Kind: ast.DefinitionKind(str(m["kind"])), Description: str(m["desc"]),
		Directives: dirUsesFromJSON(m["directives"]), BuiltIn: boolean(m["builtIn"])}
	for _, fj := range arr(m["fields"]) {
		fm, _ := fj.(map[string]interface{})
		d.Fields = append(d.Fields, &ast.FieldDefinition{Name: str(fm["name"]), Description: str(fm["desc"]), Arguments: argDefsFromJSON(fm["args"]),
			Type: typeFromJSON(fm["type"]), DefaultValue: verbatim(fm["default"]), Directives: dirUsesFromJSON(fm["directives"])})
	}
	for _, i := range arr(m["interfaces"]) {
		d.Interfaces = append(d.Interfaces, str(i))
	}
	for _, t := range arr(m["members"]) {
		d.Types = append(d.Types, str(t))
	}
	for _, ej := range arr(m["enumValues"]) {
		em, _ := ej.(map[string]interface{})
		d.EnumValues = append(d.EnumValues, &ast.EnumValueDefinition{Name: str(em["name"]), Description: str(em["desc"]), Directives: dirUsesFromJSON(em["directives"])})
	}
	return d
}

// Reload prints a schema with gqlparser's formatter and loads the text again: the last step of
// introspectRemoteSchema (and of the merger).
func Reload(s *ast.Schema, name string) (*ast.Schema, string, error) {
	buf := bytes.NewBufferString("")
	formatter.NewFormatter(buf).FormatSchema(s)
	out, err := gqlparser.LoadSchema(&ast.Source{Name: name, Input: buf.String()})
	if err != nil {
		return nil, buf.String(), err
	}
	return out, buf.String(), nil
}

// Generic decodes a JSON-able value into generic maps/slices (json.Number for numbers).
func Generic(v interface{}) interface{} {
	b, err := json.Marshal(v)
	if err != nil {
		return nil
	}
	var x interface{}
	d := json.NewDecoder(bytes.NewReader(b))
	d.UseNumber()
	if d.Decode(&x) != nil {
		return nil
	}
	return x
}
