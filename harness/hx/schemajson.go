package hx

import (
	"sort"

	"github.com/vektah/gqlparser/v2/ast"
)

// SchemaToJSON serialises exactly the parts of *ast.Schema that pebbles reads, for the Lean
// driver (parser: lean/PebblesVerif/Driver/SchemaJson.lean). Go maps are emitted sorted by key.
func SchemaToJSON(s *ast.Schema) map[string]interface{} {
	names := make([]string, 0, len(s.Types))
	for k := range s.Types {
		names = append(names, k)
	}
	sort.Strings(names)
	types := make([]interface{}, 0, len(names))
	for _, n := range names {
		types = append(types, DefinitionToJSON(s.Types[n]))
	}
	dnames := make([]string, 0, len(s.Directives))
	for k := range s.Directives {
		dnames = append(dnames, k)
	}
	sort.Strings(dnames)
	dirs := make([]interface{}, 0, len(dnames))
	for _, n := range dnames {
		d := s.Directives[n]
		locs := make([]string, len(d.Locations))
		for i, l := range d.Locations {
			locs[i] = string(l)
		}
		dirs = append(dirs, map[string]interface{}{"name": d.Name, "desc": d.Description, "args": argDefsToJSON(d.Arguments), "locations": locs, "repeatable": d.IsRepeatable})
	}
	out := map[string]interface{}{
		"types": types, "directives": dirs,
		"possible": assocToJSON(s.PossibleTypes), "implements": assocToJSON(s.Implements),
		"query": nil, "mutation": nil, "subscription": nil,
	}
	if s.Query != nil {
		out["query"] = s.Query.Name
	}
	if s.Mutation != nil {
		out["mutation"] = s.Mutation.Name
	}
	if s.Subscription != nil {
		out["subscription"] = s.Subscription.Name
	}
	return out
}

func assocToJSON(m map[string][]*ast.Definition) []interface{} {
	keys := make([]string, 0, len(m))
	for k := range m {
		keys = append(keys, k)
	}
	sort.Strings(keys)
	out := make([]interface{}, 0, len(keys))
	for _, k := range keys {
		vals := make([]string, 0, len(m[k]))
		for _, d := range m[k] {
			if d != nil {
				vals = append(vals, d.Name)
			}
		}
		out = append(out, map[string]interface{}{"key": k, "values": vals})
	}
	return out
}

func TypeToJSON(t *ast.Type) interface{} {
	if t == nil {
		return nil
	}
	return map[string]interface{}{"name": t.NamedType, "elem": TypeToJSON(t.Elem), "nonNull": t.NonNull}
}

func dirUsesToJSON(ds ast.DirectiveList) []interface{} {
	out := make([]interface{}, 0, len(ds))
	for _, d := range ds {
		args := make([]interface{}, 0, len(d.Arguments))
		for _, a := range d.Arguments {
			v := ""
			if a.Value != nil {
				v = a.Value.String()
			}
			args = append(args, map[string]interface{}{"name": a.Name, "value": v})
		}
		out = append(out, map[string]interface{}{"name": d.Name, "args": args})
	}
	return out
}

func argDefsToJSON(as ast.ArgumentDefinitionList) []interface{} {
	out := make([]interface{}, 0, len(as))
	for _, a := range as {
		m := map[string]interface{}{"name": a.Name, "type": TypeToJSON(a.Type), "desc": a.Description, "default": nil, "directives": dirUsesToJSON(a.Directives)}
		if a.DefaultValue != nil {
			m["default"] = a.DefaultValue.String()
		}
		out = append(out, m)
	}
	return out
}

func FieldDefToJSON(f *ast.FieldDefinition) map[string]interface{} {
	m := map[string]interface{}{"name": f.Name, "args": argDefsToJSON(f.Arguments), "type": TypeToJSON(f.Type), "desc": f.Description, "default": nil, "directives": dirUsesToJSON(f.Directives)}
	if f.DefaultValue != nil {
		m["default"] = f.DefaultValue.String()
	}
	return m
}

func DefinitionToJSON(d *ast.Definition) map[string]interface{} {
	fields := make([]interface{}, 0, len(d.Fields))
	for _, f := range d.Fields {
		fields = append(fields, FieldDefToJSON(f))
	}
	evs := make([]interface{}, 0, len(d.EnumValues))
	for _, e := range d.EnumValues {
		evs = append(evs, map[string]interface{}{"name": e.Name, "desc": e.Description, "directives": dirUsesToJSON(e.Directives)})
	}
	ifs := append([]string{}, d.Interfaces...)
	mem := append([]string{}, d.Types...)
	return map[string]interface{}{
		"name": d.Name, "kind": string(d.Kind), "fields": fields, "interfaces": ifs, "members": mem,
		"enumValues": evs, "desc": d.Description, "directives": dirUsesToJSON(d.Directives), "builtIn": d.BuiltIn,
	}
}
