package hx

import (
	"bytes"
	"encoding/json"
	"io"
	"sort"
)

func bytesReader(b []byte) io.Reader { return bytes.NewReader(b) }

// Canon renders any JSON-able value with sorted object keys (encoding/json sorts map keys).
func Canon(v interface{}) string {
	b, err := json.Marshal(v)
	if err != nil {
		return "!marshal:" + err.Error()
	}
	var x interface{}
	d := json.NewDecoder(bytes.NewReader(b))
	d.UseNumber()
	if err := d.Decode(&x); err != nil {
		return string(b)
	}
	b2, _ := json.Marshal(x)
	return string(b2)
}

func SortedInts(xs []int) []int {
	c := append([]int(nil), xs...)
	sort.Ints(c)
	return c
}

func SortedStrings(xs []string) []string {
	c := append([]string(nil), xs...)
	sort.Strings(c)
	return c
}

func EqInts(a, b []int) bool {
	if len(a) != len(b) {
		return false
	}
	for i := range a {
		if a[i] != b[i] {
			return false
		}
	}
	return true
}

// NumInts converts a decoded JSON array of numbers to []int.
func NumInts(v interface{}) []int {
	arr, _ := v.([]interface{})
	out := make([]int, 0, len(arr))
	for _, x := range arr {
		switch n := x.(type) {
		case json.Number:
			i, _ := n.Int64()
			out = append(out, int(i))
		case float64:
			out = append(out, int(n))
		}
	}
	return out
}
