import PebblesVerif.Driver.All
/-! `pvdriver`: JSON-lines protocol. One JSON object per input line (`{"op": ..., ...}`), one
JSON object per output line. Unknown op ⇒ `{"error":"unknown-op"}`; never defaults silently. -/
open Lean PebblesVerif.Driver

def dispatch (op : String) (j : Json) : Json :=
  match allHandlers.findSome? (fun h => h op j) with
  | some r => r
  | none => Json.mkObj [("error", "unknown-op"), ("op", op)]

partial def loop (hin hout : IO.FS.Stream) : IO Unit := do
  let line ← hin.getLine
  if line.isEmpty then return ()
  let out := match Json.parse line with
    | .error e => Json.mkObj [("error", "bad-json"), ("detail", e)]
    | .ok j => dispatch (getStr j "op") j
  hout.putStrLn out.compress
  hout.flush
  loop hin hout

def main : IO Unit := do
  loop (← IO.getStdin) (← IO.getStdout)
