import PebblesVerif.Props.C01
open PebblesVerif
#print axioms C01_point_roundtrip_list
#print axioms C01_point_roundtrip_list_noid
#print axioms C01_point_roundtrip_obj
#print axioms C01_point_hash_breaks
