import PebblesVerif.Props.C01
import PebblesVerif.Props.C01Flat
import PebblesVerif.Props.C01FlatList
import PebblesVerif.Props.C01FlatNested
open PebblesVerif
#print axioms C01_point_roundtrip_list
#print axioms C01_point_roundtrip_list_noid
#print axioms C01_point_roundtrip_obj
#print axioms C01_point_hash_in_id
#print axioms C01_eval_schema_independent
#print axioms C01_eval_split
#print axioms C01_eval_node_lookup
#print axioms C01_sanitize_expands_spreads
#print axioms C01_helpers_only_prepended
#print axioms C01_one_hop
#print axioms C01_flat_one_hop
#print axioms C01_flat_one_hop_instance
#print axioms C01_flat_list_one_hop
#print axioms C01_flat_list_one_batch
#print axioms C01_flat_list_no_batch
#print axioms C01_flat_list_instance
#print axioms C01_flat_list_instance_dup
#print axioms C01_flat_list_instance_empty
#print axioms C01_flat_nested_one_hop
#print axioms C01_flat_nested_calls
#print axioms C01_flat_nested_calls_swapped
#print axioms C01_flat_nested_lookup_outer_only
#print axioms C01_flat_nested_lookup_inner_only
#print axioms C01_flat_nested_no_lookup
#print axioms C01_flat_nested_plan
#print axioms C01_flat_nested_insertion_points
#print axioms C01_flat_nested_instance
#print axioms C01_flat_nested_instance_first
#print axioms C01_flat_nested_instance_middle
#print axioms C01_find_selection_level_first
#print axioms C01_find_selection_depth_first_shadowed
#print axioms C01_planner_value_semantics
