import PebblesVerif.Props.C02
open PebblesVerif
#print axioms C02_header_declares
#print axioms C02_variables_forwarded
#print axioms C02_directive_variable_gap
