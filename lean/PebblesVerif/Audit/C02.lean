import PebblesVerif.Props.C02
open PebblesVerif
#print axioms C02_vars_facts
#print axioms C02_header_declares
#print axioms C02_variables_forwarded
#print axioms C02_value_forwarded
#print axioms C02_declared_default_forwarded
#print axioms C02_sent_value_kept
#print axioms C02_before_repair_directive_variable
#print axioms C02_before_repair_default_dropped
