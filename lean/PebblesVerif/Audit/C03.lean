import PebblesVerif.Props.C03
open PebblesVerif.Merge
#print axioms C03_facts
#print axioms C03_superset_partial
#print axioms C03_no_invention
#print axioms C03_node_union
#print axioms C03_superset_false_node
#print axioms C03_superset_false_directive
#print axioms C03_superset_false_original
#print axioms C03_superset_false_original_id
