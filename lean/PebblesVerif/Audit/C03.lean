import PebblesVerif.Props.C03
open PebblesVerif.Merge
#print axioms C03_facts
