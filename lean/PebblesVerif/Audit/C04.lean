import PebblesVerif.Props.C04
open PebblesVerif.Merge
#print axioms C04_facts
