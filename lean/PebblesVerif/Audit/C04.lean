import PebblesVerif.Props.C04
open PebblesVerif.Merge
#print axioms C04_facts
#print axioms C04_declares
#print axioms C04_total
#print axioms C04_total_result
#print axioms C04_root_owner
#print axioms C04_node_field_owner
#print axioms C04_node_iff
#print axioms C04_node_iff_result
#print axioms C04_urls
#print axioms C04_urls_are_services
#print axioms C04_urls_contributors
#print axioms C04_total_false_original
