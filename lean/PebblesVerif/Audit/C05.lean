import PebblesVerif.Props.C05
open PebblesVerif.Merge
#print axioms C05_facts
