import PebblesVerif.Props.C05
open PebblesVerif.Merge
#print axioms C05_facts
#print axioms C05_no_panic
#print axioms C05_no_panic_false_original
#print axioms C05_conflict_rejected_root_field
#print axioms C05_conflict_rejected_kind
#print axioms C05_conflict_rejected_node_impl
#print axioms C05_conflict_rejected_node_field
#print axioms C05_conflict_rejected_partial
#print axioms C05_conflict_rejected_signature
#print axioms C05_conflict_rejected_union
#print axioms C05_perm_two
#print axioms C05_perm_result_partial
#print axioms C05_perm_partial
#print axioms C05_perm_routes
#print axioms C05_perm_false
#print axioms C05_perm_false_node
#print axioms C05_perm_false_original
#print axioms C05_named_type_facts
#print axioms C05_id_exemption_exact
#print axioms C05_node_result_exact
#print axioms C05_before_repair_list_of_id
