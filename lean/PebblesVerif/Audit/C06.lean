import PebblesVerif.Props.C06
open PebblesVerif
#print axioms C06_route_char
#print axioms C06_unique_owner
#print axioms C06_root_once
#print axioms C06_keyword
#print axioms C06_root_batch_all_sent
