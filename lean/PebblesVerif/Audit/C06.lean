import PebblesVerif.Props.C06
import PebblesVerif.Props.C06Flat
open PebblesVerif
#print axioms C06_route_char
#print axioms C06_unique_owner
#print axioms C06_root_once
#print axioms C06_keyword
#print axioms C06_root_batch_all_sent
#print axioms C06_flat_mutation_plan
#print axioms C06_flat_mutation_walk
#print axioms C06_flat_mutation_calls
#print axioms C06_flat_mutation_calls_explicit
#print axioms C06_flat_mutation_fault
#print axioms C06_flat_mutation_only_expected
#print axioms C06_flat_mutation_calls_instance
#print axioms C06_flat_mutation_not_serial
#print axioms C06_flat_followup_plan
#print axioms C06_flat_followup_is_query
#print axioms C06_flat_followup_none
#print axioms C06_flat_followup_is_query_instance
