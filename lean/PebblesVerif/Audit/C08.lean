import PebblesVerif.Props.C08
open PebblesVerif.GatewayBatch
#print axioms C08_facts
#print axioms C08_place_any_order
#print axioms C08_order
#print axioms C08_len
#print axioms C08_empty
