import PebblesVerif.Props.C08
import PebblesVerif.Props.C08Batch
open PebblesVerif.GatewayBatch
#print axioms C08_facts
#print axioms C08_place_any_order
#print axioms C08_order
#print axioms C08_len
#print axioms C08_empty
#print axioms C08_emit_facts
#print axioms C08_batch_answers
#print axioms C08_batch_independent
#print axioms C08_batch_executes
#print axioms C08_batch_no_call
#print axioms C08_emit_batch
#print axioms C08_emit_single
#print axioms C08_response
