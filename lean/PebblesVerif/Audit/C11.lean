import PebblesVerif.Props.C11
open PebblesVerif.Chunk
#print axioms C11_gen_recognised
#print axioms C11_partition
#print axioms C11_size_le
#print axioms C11_size_le_direct
#print axioms C11_each_once
#print axioms C11_no_empty_call
#print axioms C11_calls_le
#print axioms C11_any_order
#print axioms C11_index
#print axioms C11_error_total
