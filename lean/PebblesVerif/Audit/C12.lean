import PebblesVerif.Props.C12
open PebblesVerif.IndexMap PebblesVerif.Levels
#print axioms C12_facts
#print axioms C12_dedup
#print axioms C12_targets
#print axioms C12_fanout
#print axioms C12_length_checked
#print axioms C12_key_injective
#print axioms C12_key_injective_requests
#print axioms C12_dedup_requests
#print axioms C12_one_call_per_level
#print axioms C12_levels_bound
