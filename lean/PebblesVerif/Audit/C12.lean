import PebblesVerif.Props.C12
import PebblesVerif.Props.C12Flat
open PebblesVerif.IndexMap PebblesVerif.Levels
#print axioms C12_facts
#print axioms C12_dedup
#print axioms C12_targets
#print axioms C12_fanout
#print axioms C12_length_checked
#print axioms C12_key_injective
#print axioms C12_key_injective_requests
#print axioms C12_dedup_requests
#print axioms C12_one_call_per_level
#print axioms C12_levels_bound
#print axioms PebblesVerif.C12_flat_list_calls_independent_of_length
#print axioms PebblesVerif.C12_flat_list_calls_same_for_all_lengths
#print axioms PebblesVerif.C12_flat_list_identical_lookups_once
#print axioms PebblesVerif.C12_flat_nested_one_call_per_service_per_level
#print axioms PebblesVerif.C12_flat_list_instance
#print axioms PebblesVerif.C12_flat_list_instance3
#print axioms PebblesVerif.C12_flat_list_instance_dup
#print axioms PebblesVerif.C12_flat_nested_instance
