import PebblesVerif.Props.C14
open PebblesVerif.Cache
#print axioms C14_refines
#print axioms C14_refines_from
#print axioms C14_conc
#print axioms C14_conc_cache_inv
#print axioms C14_conc_mutex
#print axioms C14_conc_progress
#print axioms C14_conc_terminates
#print axioms C14_key_collision_current
#print axioms C14_collision_breaks_refinement
#print axioms C14_shared_plan_mutation_current
#print axioms C14_key_fields_sufficient
#print axioms C14_planner_reads_within_key
#print axioms C14_key_determines_plan
#print axioms C14_refines_repaired
#print axioms C14_conc_repaired
