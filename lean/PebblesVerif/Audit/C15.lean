import PebblesVerif.Props.C15
open PebblesVerif PebblesVerif.C15Witness
#print axioms C15_gen_recognised
#print axioms C15_typeref_roundtrip
#print axioms C15_rebuild_partial
#print axioms C15_error_or_faithful_partial
#print axioms C15_witness_argument_default
#print axioms C15_witness_input_default
#print axioms C15_witness_deprecation
#print axioms C15_witness_repeatable
#print axioms C15_witness_depth
#print axioms C15_full_statement_is_false
#print axioms C15_malformed_typeref_is_error
