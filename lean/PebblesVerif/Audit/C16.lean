import PebblesVerif.Props.C16
open PebblesVerif PebblesVerif.C16Witness
#print axioms C16_gen_recognised
#print axioms C16_default_arm_type
#print axioms C16_no_default_arm
#print axioms C16_resolve_eq_spec_partial
#print axioms C16_typeref
#print axioms C16_typeref_wrapper
#print axioms C16_type_agrees_with_types
#print axioms C16_witness_typename
#print axioms C16_witness_isRepeatable
#print axioms C16_witness_specifiedBy
#print axioms C16_witness_duplicate_key
#print axioms C16_witness_order_leaks
#print axioms C16_witness_deprecated_no_reason
#print axioms C16_witness_custom_root
#print axioms C16_full_statement_is_false
