import PebblesVerif.Props.C17
import PebblesVerif.Props.C17Flat
open PebblesVerif.SubEntry
#print axioms C17_frames_prefix
#print axioms C17_frames
#print axioms C17_frames_events
#print axioms C17_ids
#print axioms C17_stitch
#print axioms C17_stitch_leaf
#print axioms C17_errors_forwarded_partial
#print axioms PebblesVerif.C17_flat_event_stitched
#print axioms PebblesVerif.C17_flat_event_stitched_instance
#print axioms PebblesVerif.C17_flat_history_stitched
#print axioms PebblesVerif.C17_flat_history_stitched_instance
