import PebblesVerif.Props.C18
import PebblesVerif.Props.C18Init
open PebblesVerif.C18
#print axioms C18_facts
#print axioms C18_knobs
#print axioms C18_current_unsafe_W1
#print axioms C18_current_unsafe_W2
#print axioms C18_current_unsafe_W3
#print axioms C18_current_unsafe_W4
#print axioms C18_current_unsafe_W5
#print axioms C18_inv
#print axioms C18_no_fatal
#print axioms C18_no_deadlock
#print axioms C18_terminates
#print axioms C18_ended_stable
#print axioms C18_quiescent
#print axioms C18_frames_whole
#print axioms C18_init_facts
#print axioms C18_init_no_fatal
#print axioms C18_init_no_deadlock
#print axioms C18_init_terminates
#print axioms C18_init_bounded
#print axioms C18_init_reports
#print axioms C18_init_handover
#print axioms C18_init_leak_before_repair
