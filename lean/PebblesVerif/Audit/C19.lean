import PebblesVerif.Props.C19
open PebblesVerif.Upload
#print axioms C19_facts
#print axioms C19_inject_extract
#print axioms C19_inject_extract_strings
#print axioms C19_inject_total
#print axioms C19_no_file_no_part
#print axioms C19_owner_only
#print axioms C19_delivery_fails_shared_file
#print axioms C19_delivery_partial
#print axioms C19_second_step_nested_gets_null
#print axioms C19_second_step_toplevel_gets_empty_part
#print axioms C19_extract_order_insensitive
