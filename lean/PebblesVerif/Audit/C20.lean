import PebblesVerif.Props.C20
open PebblesVerif.AMR
#print axioms C20_facts
#print axioms C20_inv
#print axioms C20_no_fault
#print axioms C20_serial
#print axioms C20_return_late
#print axioms C20_exact_once
#print axioms C20_map_once
#print axioms C20_progress
#print axioms C20_terminates
#print axioms C20_no_goroutine_left
#print axioms C20_result_is_fold
