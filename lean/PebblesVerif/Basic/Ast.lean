import PebblesVerif.Basic.Schema
import PebblesVerif.Basic.J
/-!
Validated operation ASTs as the planner sees them (DESIGN Appendix F): exactly the parts of
gqlparser's `ast.Field` / `ast.InlineFragment` / `ast.FragmentSpread` that pebbles reads.
`Sel.field` carries what `Field.Definition` carries (declared type and argument definitions);
fragments carry the kind and name of the enclosing type (`ObjectDefinition`).
Core Lean only.
-/
namespace PebblesVerif

/-- `ast.Value` -/
inductive Value where
  | var (n : String) (expected : String := "")   -- `ExpectedType.String()` set by the validator ("" for planner-made values)
  | int (s : String)
  | float (s : String)
  | str (s : String)
  | bool (b : Bool)
  | null
  | enum (s : String)
  | list (vs : List Value)
  | object (fs : List (String × Value))
  deriving Repr, Inhabited

structure Arg where
  name : String
  value : Value
  deriving Repr, Inhabited

structure Dir where
  name : String
  args : List Arg
  deriving Repr, Inhabited

inductive Sel where
  | field (alias name : String) (args : List Arg) (dirs : List Dir) (type : TypeRef)
      (argDefs : List ArgDef) (sub : List Sel)
  | inline (cond : String) (parentKind : Kind) (parentName : String) (dirs : List Dir) (sub : List Sel)
  | spread (name : String) (cond : String) (parentKind : Kind) (parentName : String) (dirs : List Dir)
      (sub : List Sel)
  deriving Repr, Inhabited

inductive OpKind where
  | query | mutation | subscription
  deriving Repr, Inhabited, DecidableEq

def OpKind.rootName : OpKind → String
  | .query => "Query" | .mutation => "Mutation" | .subscription => "Subscription"

def OpKind.keyword : OpKind → String
  | .query => "query" | .mutation => "mutation" | .subscription => "subscription"

structure VarDef where
  name : String
  type : TypeRef
  default : Option Value
  deriving Repr, Inhabited

structure Op where
  kind : OpKind
  name : String
  varDefs : List VarDef
  sels : List Sel
  deriving Repr, Inhabited

namespace Sel
def isField : Sel → Bool
  | .field .. => true
  | _ => false
/-- `common.SelectionSetToFields(ss, nil)`: fields, with inline fragments flattened
    (fragment spreads are dropped, exactly like the Go `switch`) -/
def toFields : List Sel → List Sel
  | [] => []
  | (s@(.field ..)) :: rest => s :: toFields rest
  | (.inline _ _ _ _ sub) :: rest => toFields sub ++ toFields rest
  | (.spread ..) :: rest => toFields rest
end Sel

end PebblesVerif
