/-!
JSON values as the models see them (DESIGN §4.1). Objects are association lists in insertion
order (Go `map[string]interface{}` iteration order is handled by explicit sorting/canonical
forms where it matters); numbers keep their textual form and are never compared as floats.
Core Lean only.
-/
namespace PebblesVerif

inductive J where
  | null
  | bool (b : Bool)
  | num (repr : String)
  | str (s : String)
  | arr (xs : List J)
  | obj (kvs : List (String × J))
  deriving Repr, Inhabited

namespace J

mutual
  def beq : J → J → Bool
    | .null, .null => true
    | .bool a, .bool b => a == b
    | .num a, .num b => a == b
    | .str a, .str b => a == b
    | .arr a, .arr b => beqL a b
    | .obj a, .obj b => beqO a b
    | _, _ => false
  def beqL : List J → List J → Bool
    | [], [] => true
    | x :: xs, y :: ys => beq x y && beqL xs ys
    | _, _ => false
  def beqO : List (String × J) → List (String × J) → Bool
    | [], [] => true
    | (k, x) :: xs, (l, y) :: ys => k == l && beq x y && beqO xs ys
    | _, _ => false
end

instance : BEq J := ⟨beq⟩

/-- first binding of a key (Go map lookup on a decoded object; decoded objects have unique keys) -/
def lookup (k : String) : List (String × J) → Option J
  | [] => none
  | (k', v) :: rest => if k = k' then some v else lookup k rest

def get? (j : J) (k : String) : Option J :=
  match j with
  | .obj kvs => lookup k kvs
  | _ => none

/-- set / insert a key (map assignment): replaces the first binding or appends -/
def setKey (k : String) (v : J) : List (String × J) → List (String × J)
  | [] => [(k, v)]
  | (k', v') :: rest => if k = k' then (k, v) :: rest else (k', v') :: setKey k v rest

def eraseKey (k : String) : List (String × J) → List (String × J)
  | [] => []
  | (k', v') :: rest => if k = k' then eraseKey k rest else (k', v') :: eraseKey k rest

def keys (kvs : List (String × J)) : List String := kvs.map (·.1)

def isObj : J → Bool | .obj _ => true | _ => false
def isArr : J → Bool | .arr _ => true | _ => false
def isNull : J → Bool | .null => true | _ => false

end J
end PebblesVerif
