/-!
GraphQL schemas as the models see them: exactly the parts of gqlparser's `*ast.Schema` that
pebbles reads (DESIGN Appendix F). Go maps (`Types`, `Directives`, `PossibleTypes`,
`Implements`) arrive as association lists sorted by key (the harness serialiser sorts), so any
dependence on Go map order must be modelled explicitly with an order oracle.
Core Lean only.
-/
namespace PebblesVerif

/-- `ast.Type`: a named type or a list, each possibly non-null -/
inductive TypeRef where
  | named (n : String)
  | list (t : TypeRef)
  | nonNull (t : TypeRef)
  deriving Repr, Inhabited, DecidableEq

namespace TypeRef
/-- `(*ast.Type).Name()`: the innermost named type -/
def name : TypeRef → String
  | .named n => n
  | .list t => t.name
  | .nonNull t => t.name
/-- `t.NonNull` of the outermost `ast.Type` -/
def isNonNull : TypeRef → Bool
  | .nonNull _ => true
  | _ => false
/-- `t.Elem != nil` of the outermost `ast.Type` (ignoring the non-null flag) -/
def isList : TypeRef → Bool
  | .list _ => true
  | .nonNull (.list _) => true
  | _ => false
/-- `(*ast.Type).String()` -/
def toString : TypeRef → String
  | .named n => n
  | .list t => "[" ++ t.toString ++ "]"
  | .nonNull t => t.toString ++ "!"
end TypeRef

inductive Kind where
  | scalar | object | interface | union | enum | inputObject
  deriving Repr, Inhabited, DecidableEq

def Kind.toString : Kind → String
  | .scalar => "SCALAR" | .object => "OBJECT" | .interface => "INTERFACE"
  | .union => "UNION" | .enum => "ENUM" | .inputObject => "INPUT_OBJECT"

/-- a directive application, arguments rendered with `Value.String()` -/
structure DirUse where
  name : String
  args : List (String × String)
  deriving Repr, Inhabited, DecidableEq

structure ArgDef where
  name : String
  type : TypeRef
  default : Option String     -- `DefaultValue.String()` if present
  desc : String := ""
  directives : List DirUse := []
  deriving Repr, Inhabited, DecidableEq

/-- `ast.FieldDefinition` (also used for input fields, which may carry a default) -/
structure FieldDef where
  name : String
  args : List ArgDef
  type : TypeRef
  default : Option String := none
  desc : String := ""
  directives : List DirUse := []
  deriving Repr, Inhabited, DecidableEq

structure EnumVal where
  name : String
  desc : String := ""
  directives : List DirUse := []
  deriving Repr, Inhabited, DecidableEq

/-- `ast.Definition` -/
structure TypeDef where
  name : String
  kind : Kind
  fields : List FieldDef := []
  interfaces : List String := []
  members : List String := []        -- `Types` of a union
  enumValues : List EnumVal := []
  desc : String := ""
  directives : List DirUse := []
  builtIn : Bool := false
  deriving Repr, Inhabited, DecidableEq

structure DirDef where
  name : String
  desc : String := ""
  args : List ArgDef := []
  locations : List String := []
  repeatable : Bool := false
  deriving Repr, Inhabited, DecidableEq

/-- `ast.Schema` -/
structure Schema where
  types : List TypeDef                      -- sorted by name
  directives : List DirDef := []            -- sorted by name
  possible : List (String × List String) := []   -- PossibleTypes: abstract type ↦ member names (in stored order)
  implements : List (String × List String) := [] -- Implements
  query : Option String := none
  mutation : Option String := none
  subscription : Option String := none
  deriving Repr, Inhabited

namespace Schema
def type? (s : Schema) (n : String) : Option TypeDef := s.types.find? (·.name == n)
def possibleOf (s : Schema) (n : String) : List String :=
  match s.possible.find? (·.1 == n) with
  | some (_, l) => l
  | none => []
end Schema

def TypeDef.field? (t : TypeDef) (n : String) : Option FieldDef := t.fields.find? (·.name == n)

end PebblesVerif
