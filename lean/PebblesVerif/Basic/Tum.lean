/-!
`merger.TypeURLMap` as the models see it: type name ↦ (field name ↦ URL, implements-Node flag).
Association lists (Go maps); lookups only — how the table is BUILT (`SetFromSchema`) is modelled
in Model/TypeURLMap.lean (merger family). Core Lean only.
-/
namespace PebblesVerif

structure TypeProps where
  fields : List (String × String)   -- field name ↦ URL
  isNode : Bool
  deriving Repr, Inhabited, DecidableEq

abbrev Tum := List (String × TypeProps)

namespace Tum
def props? (t : Tum) (typename : String) : Option TypeProps :=
  match t.find? (·.1 == typename) with
  | some (_, p) => some p
  | none => none

/-- `TypeURLMap.Get` -/
def get? (t : Tum) (typename fieldname : String) : Option String :=
  match props? t typename with
  | none => none
  | some p => match p.fields.find? (·.1 == fieldname) with
    | some (_, u) => some u
    | none => none

/-- `TypeURLMap.GetTypeIsImplementsNode`: `none` = type unknown to the table -/
def isNode? (t : Tum) (typename : String) : Option Bool := (props? t typename).map (·.isNode)

def dedup (l : List String) : List String :=
  l.foldl (fun acc x => if acc.contains x then acc else acc ++ [x]) []

/-- `TypeURLMap.GetURLs` (a set; Go map order — callers must not depend on the order) -/
def urls (t : Tum) : List String := dedup (t.flatMap (fun (_, p) => p.fields.map (·.2)))
end Tum

end PebblesVerif
