import PebblesVerif.Driver.SchemaJson
import PebblesVerif.Basic.Ast
import PebblesVerif.Spec.Data
/-! Wire formats: operations (harness/hx/astjson.go) and entity graphs (harness/fed/wire.go). -/
namespace PebblesVerif.Driver
open Lean PebblesVerif.Spec

partial def parseValue (j : Json) : Value :=
  match getStr j "k" with
  | "var" => .var (getStr j "v") (getStr j "et")
  | "int" => .int (getStr j "v")
  | "float" => .float (getStr j "v")
  | "str" => .str (getStr j "v")
  | "bool" => .bool (getBool j "v")
  | "enum" => .enum (getStr j "v")
  | "list" => .list ((getArr j "vs").map parseValue)
  | "obj" => .object ((getArr j "fs").map (fun f => (getStr f "name", parseValue ((getObj? f "value").getD .null))))
  | _ => .null

def parseArg (j : Json) : Arg := ⟨getStr j "name", parseValue ((getObj? j "value").getD .null)⟩
def parseDir (j : Json) : Dir := ⟨getStr j "name", (getArr j "args").map parseArg⟩

partial def parseSel (j : Json) : Sel :=
  match getStr j "k" with
  | "f" => .field (getStr j "alias") (getStr j "name") ((getArr j "args").map parseArg)
      ((getArr j "dirs").map parseDir)
      (match getObj? j "type" with | some (.null) | none => .named "" | some t => parseTypeRef t)
      ((getArr j "argDefs").map parseArgDef) ((getArr j "sub").map parseSel)
  | "i" => .inline (getStr j "cond") (parseKind (getStr j "pk")) (getStr j "pn")
      ((getArr j "dirs").map parseDir) ((getArr j "sub").map parseSel)
  | _ => .spread (getStr j "name") (getStr j "cond") (parseKind (getStr j "pk")) (getStr j "pn")
      ((getArr j "dirs").map parseDir) ((getArr j "sub").map parseSel)

def parseOp (j : Json) : Op :=
  { kind := match getStr j "kind" with | "mutation" => .mutation | "subscription" => .subscription | _ => .query,
    name := getStr j "name",
    varDefs := (getArr j "varDefs").map (fun v =>
      { name := getStr v "name", type := parseTypeRef ((getObj? v "type").getD .null),
        default := match getObj? v "default" with | some (.null) | none => none | some d => some (parseValue d) }),
    sels := (getArr j "sels").map parseSel }

partial def parseDVal (j : Json) : DVal :=
  match getStr j "k" with
  | "scalar" => .scalar (toJ ((getObj? j "s").getD .null))
  | "ref" => .ref (getStr j "r")
  | "obj" => .obj (getStr j "t") ((getArr j "f").map (fun f => (getStr f "k", parseDVal ((getObj? f "v").getD .null))))
  | "list" => .list ((getArr j "l").map parseDVal)
  | _ => .null

def parseFields (l : List Json) : List (String × DVal) :=
  l.map (fun f => (getStr f "k", parseDVal ((getObj? f "v").getD .null)))

def parseData (j : Json) : Data :=
  { entities := (getArr j "entities").map (fun e => ⟨getStr e "id", getStr e "type", parseFields (getArr e "fields")⟩),
    roots := (getArr j "roots").map (fun r => (getStr r "name", parseFields (getArr r "fields"))) }

def parseVars (j : Json) (k : String) : List (String × J) :=
  match getObj? j k with
  | some (.obj kvs) => kvs.toList.map (fun (k, v) => (k, toJ v))
  | _ => []

end PebblesVerif.Driver
