import PebblesVerif.Driver.Util
import PebblesVerif.Model.AsyncMapReduce
/-! Driver ops for the AsyncMapReduce model: trace acceptance (C20, reused by C08). -/
namespace PebblesVerif.Driver.DAMR
open Lean PebblesVerif.Driver PebblesVerif.AMR

/-- fire every enabled (unobservable) `errRecv`, in index order -/
def fireErrs (c : Cfg) (s : St) : St :=
  (List.range c.n).foldl (fun s i => match step? c s (.errRecv i) with
    | some s' => s' | none => s) s

/-- accept one *observable* event, inserting the unobservable ones canonically -/
def acceptObs (c : Cfg) (s : St) (e : Ev) : Option St :=
  let s := fireErrs c s
  match e with
  | .ret => do
      let s ← step? c s .waitPass
      let s ← step? c s .doneSend
      step? c s .ret
  | e => step? c s e

def parseEv (j : Json) : Option Ev :=
  match asArr j with
  | [t, i] => match asStr t with
    | "mb" => some (.mapBegin (asNat i))
    | "me" => some (.mapEnd (asNat i))
    | "rb" => some (.reduceBegin (asNat i))
    | "re" => some (.reduceEnd (asNat i))
    | _ => none
  | [t] => if asStr t = "ret" then some .ret else none
  | _ => none

def accept (c : Cfg) : St → Nat → List Json → Json
  | s, _, [] => obj [("accepted", true), ("acc", natArr s.acc), ("errs", natArr s.errs),
      ("fault", s.fault), ("final", decide (s.main = .returned)), ("mapped", natArr s.mapped)]
  | s, k, j :: js =>
    match parseEv j with
    | none => obj [("accepted", false), ("at", k), ("reason", "bad-event")]
    | some e => match acceptObs c s e with
      | none => obj [("accepted", false), ("at", k), ("event", j), ("reason", "not-enabled"),
          ("red", toString (repr s.red)), ("main", toString (repr s.main)), ("wg", s.wg)]
      | some s' => accept c s' (k + 1) js

/-- bounded exhaustive exploration of all interleavings (model-side search / sanity):
    returns number of states visited and whether any reachable state violates the executable
    forms of the C20 statements. -/
partial def explore (c : Cfg) (fuel : Nat) : Nat × Nat × Option String := Id.run do
  let mut frontier : List St := [init c]
  let mut states := 0
  let mut trans := 0
  let mut bad : Option String := none
  let mut depth := 0
  while !frontier.isEmpty && depth < fuel do
    let mut next : List St := []
    for s in frontier do
      states := states + 1
      if s.fault then bad := some "fault"
      let en := enabled c s
      if en.isEmpty && s.main != .returned then bad := some "deadlock"
      if s.main == .returned && (s.ws.any (· != .done) || s.red != .exited
          || s.acc.length + s.errs.length != c.n) then bad := some "early-return"
      for e in en do
        trans := trans + 1
        match step? c s e with
        | some s' => next := s' :: next
        | none => pure ()
    frontier := next
    depth := depth + 1
  return (states, trans, bad)

def handle : Handler
  | "c20.accept", j =>
    let c : Cfg := ⟨(getArr j "ok").map asBool⟩
    some (accept c (init c) 0 (getArr j "trace"))
  | "c20.explore", j =>
    let c : Cfg := ⟨(getArr j "ok").map asBool⟩
    let (st, tr, bad) := explore c 1000
    some (obj [("states", st), ("transitions", tr), ("bad", match bad with | some b => Json.str b | none => Json.null)])
  | _, _ => none

end PebblesVerif.Driver.DAMR
