import PebblesVerif.Driver.Util
import PebblesVerif.Model.Cache
import PebblesVerif.Model.CacheConc
import PebblesVerif.Gen.CacheKey
import Std.Data.HashSet
/-! Driver ops for the plan-cache models (C14).

Operations are identified by numbers (the harness' pool index); the harness supplies the key the
REAL `CachedPlanner.hash` computes for each of them; a plan is `(op it was planned for, child
steps cut off?)`, so the answer says which operation's plan each request was served.

* `c14.history` — `Model.Cache.runFrom` on a history of `(t1, t2, op, key, err, sub)`; a
  subscription's consumer cuts the child steps in place iff the regenerated facts say the
  source still writes through the plan (`Gen.CacheKey.facts.consumerPlanWrites ≠ []`).
* `c14.explore` — all interleavings of the lock-level system for k concurrent requests: the set
  of reachable final outcomes (hit vector, served-op vector). -/
namespace PebblesVerif.Driver.DCache
open Lean PebblesVerif.Driver PebblesVerif.Cache

abbrev Plan := Nat × Bool

structure OpInfo where
  id : Nat
  key : String
  err : Bool

def sysOf (ops : List OpInfo) : Sys Nat Plan String String :=
  { key := fun o => match ops.find? (·.id == o) with | some i => i.key | none => "?" ++ toString o,
    plain := fun o => match ops.find? (·.id == o) with
      | some i => if i.err then .error "planning error" else .ok (o, false)
      | none => .error "unknown op" }

def consumerWrites : Bool := !Gen.CacheKey.facts.consumerPlanWrites.isEmpty

def planJson : Except String Plan → Json
  | .ok (o, cut) => obj [("op", o), ("cut", cut)]
  | .error e => obj [("error", e)]

def history (j : Json) : Json :=
  let ttl := getNat j "ttl"
  let reqs := getArr j "reqs"
  let infos : List OpInfo := reqs.map (fun r => ⟨getNat r "op", getStr r "key", getBool r "err"⟩)
  let S := sysOf infos
  let hist : List (Req Nat Plan) := reqs.map (fun r =>
    { t1 := getNat r "t1", t2 := getNat r "t2", op := getNat r "op",
      write := if getBool r "sub" && consumerWrites then (fun p => (p.1, true)) else id })
  let outs := runFrom S ttl hist []
  obj [("hits", jarr (outs.map (fun o => Json.bool o.hit))), ("served", jarr (outs.map (fun o => planJson o.res))),
       ("consumer_writes", consumerWrites)]

open Conc in
def encPC : PC Plan String String → String
  | .start => "s" | .hashed => "h" | .scanning n => s!"S{n}" | .scanned d => s!"D{d}" | .deleting d => s!"X{d}"
  | .cleaned => "c" | .looking => "l" | .missed => "m" | .planned p => s!"p{p.1}" | .inserting p => s!"i{p.1}"
  | .done (.ok p) h => s!"d{p.1}{h}" | .done (.error _) _ => "e"

open Conc in
def encSt (s : Conc.St Plan String String) : String :=
  String.intercalate "," (s.pcs.map encPC) ++ "|" ++
    String.intercalate "," (s.cache.map (fun e => s!"{e.key}:{e.plan.1}:{e.expiry}")) ++ s!"|{s.readers}|{s.writer}"

open Conc in
def candidates (k : Nat) (clock : List Nat) : List Ev :=
  (List.range k).flatMap (fun i =>
    [.hash i, .scanDone i, .lockDelete i, .deleteDone i, .rlockLookup i, .lookupDone i, .plan i, .lockInsert i]
      ++ clock.flatMap (fun t => [.rlockScan i t, .insertDone i t]))

open Conc in
/-- breadth-first exploration of every interleaving; `clock` = the readings a `time.Now()` may return -/
partial def explore (c : Cfg Nat Plan String String) (cache₀ : Cache.St String Plan) (clock : List Nat) (limit : Nat) :
    Nat × Nat × List (List Bool × List (Option Nat)) × Option String := Id.run do
  let mut seen : Std.HashSet String := {}
  let mut frontier : List (Conc.St Plan String String) := [Conc.init c cache₀]
  seen := seen.insert (encSt (Conc.init c cache₀))
  let mut states := 0
  let mut trans := 0
  let mut finals : List (List Bool × List (Option Nat)) := []
  let mut bad : Option String := none
  let cands := candidates c.ops.length clock
  while !frontier.isEmpty && states < limit do
    let mut next : List (Conc.St Plan String String) := []
    for s in frontier do
      states := states + 1
      if s.writer && s.readers != 0 then bad := some "reader inside a write section"
      let mut any := false
      for e in cands do
        match step? c s e with
        | some s' =>
          any := true
          trans := trans + 1
          let k := encSt s'
          if !seen.contains k then
            seen := seen.insert k
            next := s' :: next
        | none => pure ()
      if !any then
        if s.pcs.all isDone then
          let out := (s.pcs.map (fun pc => match pc with | .done _ h => h | _ => false),
                      s.pcs.map (fun pc => match pc with | .done (.ok p) _ => some p.1 | _ => none))
          if !finals.contains out then finals := out :: finals
        else bad := some "deadlock"
    frontier := next
  if !frontier.isEmpty then bad := some "state limit reached"
  return (states, trans, finals, bad)

def handle : Handler
  | "c14.history", j => some (history j)
  | "c14.explore", j =>
    let reqs := getArr j "reqs"
    let infos : List OpInfo := reqs.map (fun r => ⟨getNat r "op", getStr r "key", getBool r "err"⟩)
    let c : Conc.Cfg Nat Plan String String := ⟨sysOf infos, getNat j "ttl", infos.map (·.id)⟩
    let clock := match (getArr j "clock").map asNat with | [] => [0] | l => l
    let warm : Cache.St String Plan := (getArr j "warm").map (fun w =>
      ⟨getStr w "key", (getNat w "op", false), getNat w "expiry"⟩)
    let (st, tr, finals, bad) := explore c warm clock 200000
    some (obj [("states", st), ("transitions", tr),
      ("finals", jarr (finals.map (fun (h, s) => obj [("hits", jarr (h.map Json.bool)),
        ("served", jarr (s.map (fun o => match o with | some n => toJson n | none => Json.null)))]))),
      ("bad", match bad with | some b => Json.str b | none => Json.null)])
  | _, _ => none

end PebblesVerif.Driver.DCache
