import PebblesVerif.Driver.Util
import PebblesVerif.Model.Chunk
/-! Driver op for the chunking model (C11). Requests are identified by their index; the
downstream answers request `j` with `j + 1000`; chunk calls listed in `fail` fail. -/
namespace PebblesVerif.Driver.DChunk
open Lean PebblesVerif.Driver PebblesVerif.Chunk

def handle : Handler
  | "c11.query", j =>
    let n := getNat j "n"
    let m := getNat j "m"
    let order := (getArr j "order").map asNat
    let failing := (getArr j "fail").map asNat    -- request indices whose chunk call fails
    let xs := List.range n
    let answer : List Nat → Option (List Nat) := fun c =>
      if c.any (fun r => failing.contains r) then none else some (c.map (· + 1000))
    if m = 0 ∧ !(Gen.Chunk.direct n m) then some (obj [("outcome", "panic"), ("reason", "division by zero")]) else
    let (chunks, out) := query m xs answer 0 order
    let outcome : Json := match out with
      | none => obj [("outcome", "error")]
      | some none => obj [("outcome", "panic")]
      | some (some r) => obj [("outcome", "ok"), ("result", natArr r)]
    some (outcome.mergeObj (obj [("chunks", jarr (chunks.map natArr)),
      ("direct", Gen.Chunk.direct n m)]))
  | _, _ => none

end PebblesVerif.Driver.DChunk
