import PebblesVerif.Driver.AstJson
import PebblesVerif.Model.Exec
import PebblesVerif.Model.SanitizeShared
/-! Driver ops of the planner/executor models (C01, C02, C06, C13): `core.plan`, `core.gateway`. -/
namespace PebblesVerif.Driver.DCore
open Lean PebblesVerif.Driver PebblesVerif PebblesVerif.Exec

partial def typeToJson : TypeRef → Json
  | .named n => if n == "" then Json.null else obj [("name", n), ("elem", Json.null), ("nonNull", false)]
  | .list t => obj [("name", ""), ("elem", typeToJson t), ("nonNull", false)]
  | .nonNull t => match typeToJson t with
    | .null => Json.null
    | j => j.setObjVal! "nonNull" true

partial def valueToJson : Value → Json
  | .var n et => obj [("k", "var"), ("v", n), ("et", et)]
  | .int s => obj [("k", "int"), ("v", s)]
  | .float s => obj [("k", "float"), ("v", s)]
  | .str s => obj [("k", "str"), ("v", s)]
  | .bool b => obj [("k", "bool"), ("v", b)]
  | .null => obj [("k", "null")]
  | .enum s => obj [("k", "enum"), ("v", s)]
  | .list vs => obj [("k", "list"), ("vs", jarr (vs.map valueToJson))]
  | .object fs => obj [("k", "obj"), ("fs", jarr (fs.map (fun (k, v) => obj [("name", k), ("value", valueToJson v)])))]

def argToJson (a : Arg) : Json := obj [("name", a.name), ("value", valueToJson a.value)]
def dirToJson (d : Dir) : Json := obj [("name", d.name), ("args", jarr (d.args.map argToJson))]
def argDefToJson (a : ArgDef) : Json :=
  obj [("name", a.name), ("type", typeToJson a.type), ("default", match a.default with | some s => Json.str s | none => Json.null)]

partial def selToJson : Sel → Json
  | .field alias name args dirs type argDefs sub =>
    obj [("k", "f"), ("alias", alias), ("name", name), ("args", jarr (args.map argToJson)),
      ("dirs", jarr (dirs.map dirToJson)), ("type", typeToJson type),
      ("argDefs", jarr (argDefs.map argDefToJson)), ("sub", jarr (sub.map selToJson))]
  | .inline cond pk pn dirs sub =>
    obj [("k", "i"), ("cond", cond), ("pk", pk.toString), ("pn", pn), ("dirs", jarr (dirs.map dirToJson)),
      ("sub", jarr (sub.map selToJson))]
  | .spread name cond pk pn dirs sub =>
    obj [("k", "s"), ("name", name), ("cond", cond), ("pk", pk.toString), ("pn", pn),
      ("dirs", jarr (dirs.map dirToJson)), ("sub", jarr (sub.map selToJson))]

def headerToJson (h : Header) : Json :=
  obj [("kind", h.kind.keyword), ("name", match h.name with | some n => Json.str n | none => Json.null),
    ("varDecls", strArr h.varDecls)]

partial def stepToJson (c : PCtx) (s : Step) : Json :=
  obj [("url", s.url), ("parentType", s.parentType), ("ip", strArr s.ip),
    ("sels", jarr (s.sels.map selToJson)),
    ("variablesList", strArr (variablesList s.sels)),
    ("opName", match stepOpName c s with | some n => Json.str n | none => Json.null),
    ("header", headerToJson (header c s)),
    ("then", jarr (s.thn.map (stepToJson c)))]

def scrubToJson (sf : Scrub) : Json :=
  jarr (sf.map (fun (path, types) => obj [("path", strArr path),
    ("types", jarr (types.map (fun (t, fs) => obj [("type", t), ("fields", strArr fs)])))]))

/-- deep canonical form: object keys sorted at every level -/
partial def canonJ : J → J
  | .obj kvs => .obj (Spec.sortKVs (kvs.map (fun (k, v) => (k, canonJ v))))
  | .arr xs => .arr (xs.map canonJ)
  | j => j

def faultToJson : Fault → Json
  | .err m => obj [("fault", "err"), ("msg", m)]
  | .panic w => obj [("fault", "panic"), ("msg", w)]

def parseTum (j : Json) (k : String) : Tum :=
  (getArr j k).map (fun t => (getStr t "type",
    { fields := (getArr t "fields").map (fun f => (getStr f "name", getStr f "url")), isNode := getBool t "isNode" }))

def parseCtx (j : Json) (op : Op) : PCtx :=
  { schema := parseSchema ((getObj? j "schema").getD .null), tum := parseTum j "tum",
    opKind := op.kind, opName := op.name }

def requestToJson (r : Request) : Json :=
  obj [("header", headerToJson r.header), ("sels", jarr (r.sels.map selToJson)),
    ("variables", Json.mkObj (r.vars.map (fun (k, v) => (k, ofJ v)))),
    ("opName", match r.opName with | some n => Json.str n | none => Json.null)]

def handle : Handler
  | "core.plan", j =>
    let op := parseOp ((getObj? j "operation").getD .null)
    let c := parseCtx j op
    -- `planFor`: the value-level model of the theorems (`plan`), the sharing sanitiser where a
    -- fragment is expanded more than once; where both apply they must agree (`sharedAgrees`)
    let render (r : G (List Step × Scrub)) : Json := match r with
      | .ok (steps, sf) => obj [("steps", jarr (steps.map (stepToJson c))), ("scrub", scrubToJson sf)]
      | .error f => faultToJson f
    let main := render (planFor c op)
    let agrees : Bool := multiSpread op || (render (planShared c op)).compress == main.compress
    some (main.setObjVal! "sharedAgrees" agrees |>.setObjVal! "multiSpread" (multiSpread op))
  | "core.gateway", j =>
    let op := parseOp ((getObj? j "operation").getD .null)
    let c := parseCtx j op
    let svcs : List Svc := (getArr j "services").map (fun s => ⟨getStr s "url", parseSchema ((getObj? s "schema").getD .null)⟩)
    let data := parseData ((getObj? j "data").getD .null)
    let reqVars : Option (List (String × J)) := match getObj? j "variables" with
      | some (.obj kvs) => some (kvs.toList.map (fun (k, v) => (k, toJ v)))
      | _ => none
    some (match gatewayWith planFor c {} op reqVars (specDownstream svcs data) with
      | .ok r => obj [("data", match r.data with | some kvs => ofJ (.obj kvs) | none => Json.null),
          ("errors", strArr r.errors),
          ("calls", jarr (r.calls.map (fun cl => obj [("url", cl.url), ("batch", jarr (cl.batch.map requestToJson))])))]
      | .error f => faultToJson f)
  | "core.gateway.perm", j =>
    -- the model under several orders of the Go maps it ranges over (routing table, scrub table)
    let op := parseOp ((getObj? j "operation").getD .null)
    let c := parseCtx j op
    let svcs : List Svc := (getArr j "services").map (fun s => ⟨getStr s "url", parseSchema ((getObj? s "schema").getD .null)⟩)
    let data := parseData ((getObj? j "data").getD .null)
    let reqVars : Option (List (String × J)) := match getObj? j "variables" with
      | some (.obj kvs) => some (kvs.toList.map (fun (k, v) => (k, toJ v)))
      | _ => none
    let rot {α : Type} (k : Nat) (l : List α) : List α := if l.isEmpty then l else l.drop (k % l.length) ++ l.take (k % l.length)
    let perms : List (Tum → Tum) × List (Scrub → Scrub) :=
      ([id, List.reverse, rot 1, rot 2],
       [id, fun sf => (sf.reverse.map (fun (p, ts) => (p, ts.reverse))), fun sf => (rot 1 sf).map (fun (p, ts) => (p, rot 1 ts)),
        fun sf => (rot 2 sf).map (fun (p, ts) => (p, rot 1 ts))])
    let outcomes := (perms.1.zip perms.2).map (fun (pt, ps) =>
      match gatewayWith planFor { c with tum := pt c.tum } {} op reqVars (specDownstream svcs data) ps with
      | .ok r => some (match r.data with | some kvs => (Spec.renderJ (canonJ (.obj kvs)), r.errors) | none => ("null", r.errors))
      | .error _ => none)
    some (match outcomes with
      | some (d0, e0) :: rest =>
        if e0.any (fun m => m.startsWith "not-modelled") then obj [("skipped", true)] else
        let same := rest.all (fun o => match o with | some (d, e) => d == d0 && e == e0 | none => false)
        -- canonical data of the identity order (full canonicalisation is done by the harness)
        let d := match gatewayWith planFor c {} op reqVars (specDownstream svcs data) with
          | .ok r => (match r.data with | some kvs => ofJ (.obj kvs) | none => Json.null)
          | .error _ => Json.null
        obj [("deterministic", same), ("data", d), ("errors", strArr e0),
          ("outcomes", jarr (outcomes.map (fun o => match o with | some (d, e) => obj [("d", d), ("e", strArr e)] | none => Json.str "fault")))]
      | _ => obj [("fault", "panic")])
  | _, _ => none

end PebblesVerif.Driver.DCore
