import PebblesVerif.Driver.Util
import PebblesVerif.Model.Errors
import PebblesVerif.Model.QueryBatch
import PebblesVerif.Model.GatewayFlow
import PebblesVerif.Model.ResultMerge
import PebblesVerif.Model.InsertionPoints
/-! Driver ops of the "faults" family (C09, C10): the decode path of one downstream exchange, the
error algebra, the gateway's step order, the merge functions, FindInsertionPoints. The decode path
and the insertion-point walk run at the facts regenerated from the CURRENT source tree
(`Gen.QueryBatchFacts.facts`), so the model follows the code that exists. -/
namespace PebblesVerif.Driver.DFaults
open Lean PebblesVerif PebblesVerif.Driver PebblesVerif.Errors

def encodeClient (es : List (Option Err)) : Json := jarr (es.map (fun e => ofJ (encodeErr e)))

def parsePath : List Json → List PathElem
  | [] => []
  | .str s :: rest => .name s :: parsePath rest
  | j :: rest => .index (asNat j) :: parsePath rest

def parseLocs (js : List Json) : List Loc :=
  js.map (fun j => ⟨getInt j "line", getInt j "column"⟩)

def parseParser (j : Json) : ParserErr :=
  { message := getStr j "message", path := parsePath (getArr j "path"), locations := parseLocs (getArr j "locations"),
    extensions := match getObj? j "extensions" with
      | some e => (match toJ e with | .obj kvs => kvs | _ => [])
      | none => [] }

/-- a Go error value: {"t":"nil"|"list"|"gql"|"parser"|"parserList"|"other", …} -/
partial def parseGoErr (j : Json) : GoErr :=
  match getStr j "t" with
  | "list" => .errorList ((getArr j "es").map parseGoErr)
  | "gql" => match getObj? j "e" with
    | some e => (match decodeErr (toJ e) with | .ok x => .gqlError x | .error _ => .gqlError none)
    | none => .gqlError none
  | "parser" => .parserError (parseParser j)
  | "parserList" => .parserList ((getArr j "es").map parseParser)
  | "other" => .other (getStr j "msg")
  | _ => .noError

def faultJson : QB.Fault → Json
  | .panic w => obj [("outcome", "panic"), ("what", w)]
  | .err cls e => obj [("outcome", "error"), ("class", cls), ("errors", encodeClient (clientErrors [.direct e]))]

def parseWire (j : Json) : QB.Wire :=
  if getBool j "transport" then .transportErr "transport error"
  else .resp (getNat j "status") (if getBool j "json" then (getObj? j "body").map toJ else none)

def handle : Handler
  | "c09.decode", j =>
    let child := (getArr j "child").map asBool
    let r := QB.decodeExchange Gen.QueryBatchFacts.facts (getStr j "url") child (parseWire j)
    some (match r with
      | .error f => faultJson f
      | .ok os => obj [("outcome", "ok"), ("results", jarr (os.map (fun o => ofJ (.obj o))))])
  | "c09.query", j =>
    -- MultiOpQueryer.Query on the direct path: queryBatch only (nil data map = null)
    let r := QB.queryBatch Gen.QueryBatchFacts.facts (getStr j "url") (getNat j "n") (parseWire j)
    some (match r with
      | .error f => faultJson f
      | .ok os => obj [("outcome", "ok"), ("results", jarr (os.map (fun o => match o with
          | none => Json.null | some kvs => ofJ (.obj kvs))))])
  | "c09.count", j =>
    some (match QB.countCheck Gen.QueryBatchFacts.facts (getNat j "n") (getNat j "k") with
      | .error f => faultJson f
      | .ok _ => obj [("outcome", "ok")])
  | "c09.merge", j =>
    let l := match (getObj? j "left").map toJ with | some (.obj kvs) => kvs | _ => []
    let r := match (getObj? j "right").map toJ with | some (.obj kvs) => kvs | _ => []
    let safe := Gen.QueryBatchFacts.facts.safeIdCompare
    let res := if getStr j "mode" = "top" then ResultMerge.mergeTop safe l r else ResultMerge.mergeObj safe l r
    some (match res with
      | .error w => obj [("outcome", "panic"), ("what", w)]
      | .ok m => obj [("outcome", "ok"), ("result", ofJ (.obj m))])
  | "c09.fip", j =>
    let sel := (getArr j "selection").map (fun x => IP.parseSel (toJ x))
    let chunk := match (getObj? j "result").map toJ with | some (.obj kvs) => kvs | _ => []
    let target := (getArr j "target").map asStr
    let start := (getArr j "start").map asStr
    some (match IP.findInsertionPoints Gen.QueryBatchFacts.facts target sel chunk start with
      | .error (.panic w) => obj [("outcome", "panic"), ("what", w)]
      | .error (.err cls _) => obj [("outcome", "error"), ("class", cls)]
      | .ok pts => obj [("outcome", "ok"), ("points", jarr (pts.map strArr))])
  | "c10.format", j =>
    -- ExtendErrorList folded over the given error values, then FormatError, then JSON
    let trees := (getArr j "trees").map parseGoErr
    some (obj [("errors", encodeClient (formatError (asErr (trees.foldl extend []))))])
  | "c10.flow", j =>
    let o : GatewayFlow.Outcomes := ⟨getBool j "valid", getBool j "operationFound", getBool j "planOk", getBool j "introspection"⟩
    let (a, s) := GatewayFlow.handle o
    some (obj [("answer", (reprStr a)), ("executes", s.executes), ("plans", s.plans), ("queryers", s.queryers)])
  | _, _ => none

end PebblesVerif.Driver.DFaults
