import PebblesVerif.Driver.Util
import PebblesVerif.Model.GatewayBatch
namespace PebblesVerif.Driver.DGatewayBatch
open Lean PebblesVerif.Driver PebblesVerif.GatewayBatch

def handle : Handler
  | "c08.place", j =>
    let n := getNat j "n"
    let order := (getArr j "order").map asNat
    let res := placeAll n (fun i => i) order
    some (obj [("ok", decide (res = some (spec n (fun i => i))))])
  | _, _ => none

end PebblesVerif.Driver.DGatewayBatch
