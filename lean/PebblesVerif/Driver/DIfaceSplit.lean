import PebblesVerif.Driver.Util
import PebblesVerif.Model.IfaceSplit
/-! Driver op for the interface-fragment model (C02).

* `c02.ifaceFragments` — `Model.IfaceSplit.fragmentTypes` with the regenerated facts: `inputs` (per
  service its url and the types that get a routing-table entry), `defs` (the possible types of the
  interface, in schema order), `loc` (the receiving service). Answer: the types that get a fragment. -/
namespace PebblesVerif.Driver.DIfaceSplit
open Lean PebblesVerif.Driver PebblesVerif.Model.IfaceSplit

def fragments (j : Json) : Json :=
  let inputs : List Input := (getArr j "inputs").map (fun i => { url := getStr i "url", types := (getArr i "types").map asStr })
  let defs := (getArr j "defs").map asStr
  let d := declaredOf Gen.IfaceSplit.recordsDeclaring inputs
  obj [("fragments", strArr (fragmentTypes Gen.IfaceSplit.skipsUndeclared d defs (getStr j "loc"))),
       ("records", Gen.IfaceSplit.recordsDeclaring), ("skips", Gen.IfaceSplit.skipsUndeclared)]

def handle : Handler
  | "c02.ifaceFragments", j => some (fragments j)
  | _, _ => none

end PebblesVerif.Driver.DIfaceSplit
