import PebblesVerif.Driver.Util
import PebblesVerif.Model.IndexMap
import PebblesVerif.Model.ExecLevels
/-! Driver ops for the executor models (C12).

* `c12.imap` — `Model.IndexMap.executeRequests` on a request list. The downstream answers batch
  position `t` with the number `t` (`down = "ok"`), with one answer too few / too many
  (`"short"` / `"long"`), or fails (`"error"`). Answer: per-request rendered key (null =
  skipped by the id hint), the batch as request indices, the index map, and per request slot
  the batch position it was served from (`-1` = synthetic `{node: nil}`, null = empty slot).
* `c12.levels` — per service, the number of plan depths at which it owns a step, and the calls
  of the depth loop when every step finds `fan` insertion points per parent. -/
namespace PebblesVerif.Driver.DIndexMap
open Lean PebblesVerif.Driver PebblesVerif.IndexMap

def parseReq (j : Json) : Req :=
  { parentType := getStr j "parentType",
    id := match j.getObjVal? "id" with
      | .ok (.str s) => some s
      | _ => none,
    others := getNat j "others",
    hash := (getArr j "hash").map asNat }

def parseHint (j : Json) : Option (String → Option String) :=
  match j.getObjVal? "hint" with
  | .ok (.obj kvs) => some (fun id => match kvs.toList.find? (fun (k, _) => k == id) with
      | some (_, .str t) => some t
      | _ => none)
  | _ => none

def imap (j : Json) : Json :=
  let reqs := (getArr j "reqs").map parseReq
  let hint := parseHint j
  let down := getStr j "down"
  let ks := keysOf hint reqs
  let st := build ks
  let query : List Nat → Except String (List Int) := fun b =>
    match down with
    | "error" => .error "downstream failed"
    | "short" => .ok ((List.range (b.length - 1)).map Int.ofNat)
    | "long" => .ok ((List.range (b.length + 1)).map Int.ofNat)
    | _ => .ok ((List.range b.length).map Int.ofNat)
  let res := executeRequests hint reqs query (-1 : Int)
  let base : List (String × Json) :=
    [("keys", jarr (ks.map (fun k => match k with | some c => Json.str (String.ofList c) | none => Json.null))),
     ("batch", natArr st.batch), ("skipped", natArr st.skipped),
     ("imap", jarr (st.imap.map (fun e => obj [("key", Json.str (String.ofList e.key)), ("target", e.target), ("indexes", natArr e.idxs)])))]
  match res with
  | .ok out => obj (base ++ [("outcome", Json.str "ok"),
      ("out", jarr (out.map (fun o => match o with | some (v : Int) => toJson v | none => Json.null)))])
  | .error (.err m) => obj (base ++ [("outcome", Json.str "error"), ("msg", Json.str m)])
  | .error (.panic m) => obj (base ++ [("outcome", Json.str "panic"), ("msg", Json.str m)])

instance : Inhabited Levels.Step := ⟨.mk "" []⟩

open PebblesVerif.Levels in
partial def parseStep (j : Json) : Step :=
  .mk (getStr j "url") ((getArr j "then").map parseStep)

open PebblesVerif.Levels in
def levels (j : Json) : Json :=
  let roots := (getArr j "roots").map parseStep
  let fuel := getNat j "depths"
  let fan := getNat j "fan"
  let urls := (getArr j "urls").map asStr
  let next : Nat → List Levels.Req → List Levels.Req := fun _ rs =>
    rs.flatMap (fun r => r.step.thens.flatMap (fun c => (List.range fan).map (fun t => ⟨c, t⟩)))
  let calls := run next fuel 0 (rootReqs roots)
  obj [("bound", Json.mkObj (urls.map (fun u => (u, toJson ((List.range fuel).filter (owns roots u)).length)))),
       ("calls", jarr (calls.map strArr)),
       ("count", Json.mkObj (urls.map (fun u => (u, toJson (calls.flatten.count u)))))]

def handle : Handler
  | "c12.imap", j => some (imap j)
  | "c12.levels", j => some (levels j)
  | _, _ => none

end PebblesVerif.Driver.DIndexMap
