import PebblesVerif.Driver.Util
import PebblesVerif.Driver.SchemaJson
import PebblesVerif.Driver.ISelJson
import PebblesVerif.Model.Introspect
import PebblesVerif.Spec.IntrospectSpec
import PebblesVerif.Model.Remote
import PebblesVerif.Driver.SchemaOut
import PebblesVerif.Spec.StandardAnswer
import PebblesVerif.Spec.IntrospectSupported
import PebblesVerif.Spec.RemoteSupported
/-! Driver ops of the introspection resolver (C16) and of the spec answer (C15, C16):
`c16.resolve` — `Model.Introspect.resolve` with the map orders the harness observed or chose;
`c16.spec`    — `Spec.select vars sel (Spec.introspect S)`;
`c16.full`    — `Spec.introspect S`;
`c15.rebuild` — `Model.Remote.rebuildResp` on the downstream answer;
`c16.stack`   — `rebuild (resolve S standardQuery)`;
`c16.supported`, `c15.supported` — the decidable feature predicates of the `_partial` theorems;
`c15.stdsel`, `c15.std` — `Spec.stdSel`, `Spec.standardAnswer S`. -/
namespace PebblesVerif.Driver.DIntrospect
open Lean PebblesVerif.Driver PebblesVerif

/-- the definitions named in `order`, in that order, followed by the ones it does not name -/
def reorder {α} (name : α → String) (xs : List α) (order : List String) : List α :=
  (order.filterMap (fun n => xs.find? (fun x => name x == n))) ++ xs.filter (fun x => !order.contains (name x))

def handle : Handler
  | "c16.resolve", j =>
    let S := parseSchema ((getObj? j "schema").getD .null)
    let sel := (getArr j "sel").map parseISel
    let vars := parseVarsI j "vars"
    let tyOrd := reorder (·.name) S.types ((getArr j "tyOrd").map asStr)
    let dirOrd := reorder (·.name) S.directives ((getArr j "dirOrd").map asStr)
    match Model.Introspect.resolve S tyOrd dirOrd vars sel with
    | some r => some (obj [("intro", true), ("result", ofJ r)])
    | none => some (obj [("intro", false), ("result", .null)])
  | "c16.spec", j =>
    let S := parseSchema ((getObj? j "schema").getD .null)
    let sel := (getArr j "sel").map parseISel
    let vars := parseVarsI j "vars"
    some (obj [("result", ofJ (Spec.select vars sel (Spec.introspect S)))])
  | "c16.full", j =>
    let S := parseSchema ((getObj? j "schema").getD .null)
    some (obj [("result", ofJ (Spec.introspect S))])
  | "c16.stack", j =>
    -- the closure: a second gateway introspecting this one (model ∘ model)
    let S := parseSchema ((getObj? j "schema").getD .null)
    let sel := (getArr j "sel").map parseISel
    match Model.Introspect.resolve S S.types S.directives [] sel with
    | none => some (obj [("outcome", "error"), ("err", "not-introspection")])
    | some ans =>
      match Model.Remote.rebuildResp [ans] with
      | .ok r => some (obj [("outcome", "ok"), ("schema", schemaOut r.schema), ("unknownKind", strArr r.unknownKind)])
      | .error e => some (obj [("outcome", if e == .panic then "panic" else "error"), ("err", e.tag)])
  | "c16.supported", j =>
    -- is the case inside the feature sets of C16_resolve_eq_spec_partial?
    let S := parseSchema ((getObj? j "schema").getD .null)
    let sel := (getArr j "sel").map parseISel
    some (obj [("schema", Spec.supportedSchema S), ("sel", Spec.supportedSel sel && Model.Introspect.isIntro sel)])
  | "c15.supported", j =>
    let S := parseSchema ((getObj? j "schema").getD .null)
    some (obj [("schema", Spec.supportedC15 S), ("c16schema", Spec.supportedSchema S)])
  | "c15.stdsel", _ => some (obj [("sel", jarr (Spec.stdSel.map iselOut))])
  | "c15.std", j =>
    let S := parseSchema ((getObj? j "schema").getD .null)
    some (obj [("result", ofJ (Spec.standardAnswer S))])
  | "c15.rebuild", j =>
    let resp := (getArr j "resp").map toJ
    match Model.Remote.rebuildResp resp with
    | .ok r => some (obj [("outcome", "ok"), ("schema", schemaOut r.schema), ("unknownKind", strArr r.unknownKind)])
    | .error e => some (obj [("outcome", if e == .panic then "panic" else "error"), ("err", e.tag)])
  | _, _ => none

end PebblesVerif.Driver.DIntrospect
