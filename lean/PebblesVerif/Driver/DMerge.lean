import PebblesVerif.Driver.Util
import PebblesVerif.Driver.SchemaJson
import PebblesVerif.Model.TypeURLMap
/-! Driver op for the merger and routing-table models (C03, C04, C05).

`c03.merge` — `{"inputs":[{"schema":<wire schema>,"url":"…"}…], "mode":"extend"|"sanitize",
"facts":"gen"|"original"|"expected", "geturl":[[type,field,fallback]…]}` ↦
`{"outcome":"ok"|"error"|"panic", "kind":…, "kinds":[every kind some map order could report],
"items":[canonical items of reloadView], "tumItems":[…], "urls":[…], (with "full":true also "schema", "tum")
"forType":[{"type","urls"}…], "geturl":[{"ok":url}|{"err":msg}…]}`. -/
namespace PebblesVerif.Driver.DMerge
open Lean PebblesVerif PebblesVerif.Driver PebblesVerif.Merge

def typeRefJ : TypeRef → Json
  | .named n => obj [("name", n), ("elem", Json.null), ("nonNull", false)]
  | .list t => obj [("name", ""), ("elem", typeRefJ t), ("nonNull", false)]
  | .nonNull (.named n) => obj [("name", n), ("elem", Json.null), ("nonNull", true)]
  | .nonNull (.list t) => obj [("name", ""), ("elem", typeRefJ t), ("nonNull", true)]
  | .nonNull t => typeRefJ t

def optJ : Option String → Json
  | some s => Json.str s
  | none => Json.null

def dirUseJ (d : DirUse) : Json :=
  obj [("name", d.name), ("args", jarr (d.args.map (fun (n, v) => obj [("name", n), ("value", v)])))]

def argDefJ (a : ArgDef) : Json :=
  obj [("name", a.name), ("type", typeRefJ a.type), ("default", optJ a.default), ("desc", a.desc),
       ("directives", jarr (a.directives.map dirUseJ))]

def fieldDefJ (f : FieldDef) : Json :=
  obj [("name", f.name), ("args", jarr (f.args.map argDefJ)), ("type", typeRefJ f.type), ("default", optJ f.default),
       ("desc", f.desc), ("directives", jarr (f.directives.map dirUseJ))]

def typeDefJ (d : TypeDef) : Json :=
  obj [("name", d.name), ("kind", d.kind.toString), ("fields", jarr (d.fields.map fieldDefJ)),
       ("interfaces", strArr d.interfaces), ("members", strArr d.members),
       ("enumValues", jarr (d.enumValues.map (fun e => obj [("name", e.name), ("desc", e.desc), ("directives", jarr (e.directives.map dirUseJ))]))),
       ("desc", d.desc), ("directives", jarr (d.directives.map dirUseJ)), ("builtIn", d.builtIn)]

def dirDefJ (d : DirDef) : Json :=
  obj [("name", d.name), ("desc", d.desc), ("args", jarr (d.args.map argDefJ)), ("locations", strArr d.locations),
       ("repeatable", d.repeatable)]

def assocJ (m : List (String × List String)) : Json :=
  jarr (m.map (fun (k, vs) => obj [("key", k), ("values", strArr vs)]))

def schemaJ (s : Schema) : Json :=
  obj [("types", jarr (s.types.map typeDefJ)), ("directives", jarr (s.directives.map dirDefJ)),
       ("possible", assocJ s.possible), ("implements", assocJ s.implements),
       ("query", optJ s.query), ("mutation", optJ s.mutation), ("subscription", optJ s.subscription)]

def tumJ (t : TUM.Table) : Json :=
  jarr (t.map (fun (T, p) => obj [("type", T), ("node", p.isNode),
    ("fields", jarr (p.fields.map (fun (f, u) => strArr [f, u])))]))

def dflt : Option String → String
  | some s => s
  | none => "-"

def dirUseS (d : DirUse) : String :=
  d.name ++ "(" ++ ",".intercalate (d.args.map (fun (n, v) => n ++ ":" ++ v)) ++ ")"

/-- the canonical item view (harness: `schemaItems`), unsorted -/
def itemsOf (s : Schema) : List String :=
  s.types.flatMap (fun d =>
    if d.builtIn then [] else
    ["T|" ++ d.name ++ "|" ++ d.kind.toString] ++
    (if d.desc == "" then [] else ["TD|" ++ d.name ++ "|" ++ d.desc]) ++
    d.directives.map (fun u => "TU|" ++ d.name ++ "|" ++ dirUseS u) ++
    d.interfaces.map (fun i => "I|" ++ d.name ++ "|" ++ i) ++
    d.members.map (fun m => "M|" ++ d.name ++ "|" ++ m) ++
    d.enumValues.map (fun e => "E|" ++ d.name ++ "|" ++ e.name) ++
    d.fields.flatMap (fun f =>
      if isBuiltinName f.name then [] else
      ["F|" ++ d.name ++ "|" ++ f.name ++ "|" ++ f.type.toString ++ "|" ++ dflt f.default] ++
      (if f.desc == "" then [] else ["FD|" ++ d.name ++ "|" ++ f.name ++ "|" ++ f.desc]) ++
      f.directives.map (fun u => "FU|" ++ d.name ++ "|" ++ f.name ++ "|" ++ dirUseS u) ++
      f.args.map (fun a => "A|" ++ d.name ++ "|" ++ f.name ++ "|" ++ a.name ++ "|" ++ a.type.toString ++ "|" ++ dflt a.default))) ++
  s.directives.map (fun d =>
    "D|" ++ d.name ++ "|" ++ ",".intercalate (TUM.sortStrings (d.args.map (fun a => a.name ++ ":" ++ a.type.toString ++ "=" ++ dflt a.default)))
      ++ "|" ++ ",".intercalate (TUM.sortStrings d.locations) ++ "|" ++ (if d.repeatable then "true" else "false"))

def tumItemsOf (t : TUM.Table) : List String :=
  t.flatMap (fun (T, p) => ("N|" ++ T ++ "|" ++ (if p.isNode then "true" else "false")) ::
    p.fields.map (fun (f, u) => "R|" ++ T ++ "|" ++ f ++ "|" ++ u))

def pickFacts (s : String) : Gen.Merge.Facts :=
  match s with
  | "original" => Gen.Merge.original
  | "expected" => Gen.Merge.expected
  | _ => Gen.Merge.facts

def kindsJ (es : List MergeErr) : Json := strArr (Tum.dedup (es.map (·.kind)))

def handle : Handler
  | "c03.merge", j =>
    let F := pickFacts (getStr j "facts")
    let inputs : List MergeInput := (getArr j "inputs").map (fun i =>
      { schema := parseSchema ((getObj? i "schema").getD .null), url := getStr i "url" })
    let sanitize := getStr j "mode" == "sanitize"
    match mergeSchema F inputs with
    | .error e => some (obj [("outcome", "error"), ("kind", e.kind), ("kinds", kindsJ (e :: mergeErrs F inputs))])
    | .ok s =>
      let tum := TUM.build F inputs
      let _ := s
      let final : Except Fault Schema := run F sanitize inputs
      let queries := (getArr j "geturl").map (fun q => (asArr q).map asStr)
      let answers := queries.map (fun q =>
        match q with
        | [T, f, fb] => (match TUM.getURL tum "%#!" T f fb with
          | .ok u => obj [("ok", u)]
          | .error m => obj [("err", m)])
        | _ => obj [("err", "bad query")])
      let common : List (String × Json) :=
        [("tumItems", strArr (tumItemsOf tum)), ("urls", strArr (TUM.getURLs tum)),
         ("forType", jarr (tum.map (fun (T, _) => obj [("type", T), ("urls", strArr ((TUM.getForType tum T).getD []))]))),
         ("geturl", jarr answers)]
      match final with
      | .error (.panic w) => some (obj ([("outcome", Json.str "panic"), ("what", Json.str w)] ++ common))
      | .error (.err e) => some (obj [("outcome", "error"), ("kind", e.kind), ("kinds", strArr [e.kind])])
      | .ok r => some (obj ([("outcome", Json.str "ok"), ("items", strArr (itemsOf r))] ++
        (if getBool j "full" then [("schema", schemaJ r), ("tum", tumJ tum)] else []) ++ common))
  | "c03.facts", _ =>
    let F := Gen.Merge.facts
    some (obj [("recognised", F.recognised), ("expected", decide (F = Gen.Merge.expected)),
      ("original", decide (F = Gen.Merge.original)),
      ("rootKeepsNodeField", F.rootKeepsNodeField), ("fieldSignatureChecked", F.fieldSignatureChecked),
      ("idSkipOnlyIfPresent", F.idSkipOnlyIfPresent), ("nodeFieldByName", F.nodeFieldByName),
      ("tumNodeFieldRootOnly", F.tumNodeFieldRootOnly), ("sanitizeGuardsNilQuery", F.sanitizeGuardsNilQuery)])
  | _, _ => none

end PebblesVerif.Driver.DMerge
