import PebblesVerif.Driver.Util
import PebblesVerif.Model.Parse
import PebblesVerif.Model.Envelope
import PebblesVerif.Spec.Upload
/-!
Driver ops of the requests family (C07, C19), all evaluated on the regenerated facts
`Gen.Requests.facts` (the tree as it is now):

* `c07.parse`   — `Model.Parse.parse` on decoded inputs, for every iteration order of the file map
                   (all permutations up to 5 entries; identity, reverse and rotations beyond);
* `c07.respond` — `Model.Envelope.respond` on a parse outcome and per-request outcomes;
* `c19.roundtrip` — parse, then `sendStep` for each consuming step (`Upload.afterStep` between steps).

Wire form of JSON documents with ordered members (Lean's `Json` objects are maps): `null`, `true`,
`"text"`, `{"n":"<numeral>"}`, `{"a":[…]}`, `{"o":[["k",v],…]}`. Variable trees go back as `null`,
`{"s":"b:true"|"n:…"|"s:…"}`, `{"u":k}`, `{"a":[…]}`, `{"o":[["k",v],…]}`.
-/
namespace PebblesVerif.Driver.DParse
open Lean PebblesVerif PebblesVerif.Driver PebblesVerif.Upload PebblesVerif.Parse PebblesVerif.Envelope
open PebblesVerif.Gen.Requests (facts)

partial def wireJ : Json → Option J
  | .null => some .null
  | .bool b => some (.bool b)
  | .str s => some (.str s)
  | j@(.obj _) =>
    match j.getObjVal? "n", j.getObjVal? "a", j.getObjVal? "o" with
    | .ok (.str r), _, _ => some (.num r)
    | _, .ok (.arr xs), _ => (xs.toList.mapM wireJ).map J.arr
    | _, _, .ok (.arr kvs) =>
      (kvs.toList.mapM (fun (kv : Json) => match kv with
        | Json.arr #[Json.str k, v] => (wireJ v).map (fun x => (k, x))
        | _ => none)).map J.obj
    | _, _, _ => none
  | _ => none

partial def vJson : V → Json
  | .null => .null
  | .scalar s => obj [("s", .str s)]
  | .upload k => obj [("u", toJson k)]
  | .list xs => obj [("a", jarr (xs.map vJson))]
  | .obj kvs => obj [("o", jarr (kvs.map (fun kv => jarr [.str kv.1, vJson kv.2])))]

def varsJson : Option (List (String × V)) → Json
  | none => .null
  | some m => vJson (.obj m)

def reqJson (r : Req) : Json :=
  obj [("query", .str r.query), ("vars", varsJson r.vars),
       ("op", match r.opName with | some s => .str s | none => .null)]

def outcomeJson : Res (List Req × Bool) → Json
  | .ok (reqs, batch) => obj [("kind", "ok"), ("batch", batch), ("requests", jarr (reqs.map reqJson))]
  | .err e => obj [("kind", "err"), ("class", .str e.name)]
  | .panic x => obj [("kind", "panic"), ("what", .str x.name)]

def insertAll {α} (x : α) : List α → List (List α)
  | [] => [[x]]
  | y :: ys => (x :: y :: ys) :: (insertAll x ys).map (y :: ·)

def perms {α} : List α → List (List α)
  | [] => [[]]
  | x :: xs => (perms xs).flatMap (insertAll x)

def rotations {α} (l : List α) : List (List α) :=
  (List.range l.length).map (fun k => l.drop k ++ l.take k)

/-- the iteration orders tried, and whether that is all of them -/
def orders {α} (l : List α) : List (List α) × Bool :=
  if l.length ≤ 5 then (perms l, true) else (rotations l ++ [l.reverse], false)

structure Input where
  method : String
  header : String
  payload : Payload
  fits : String → Bool

def optJ (j : Json) (k : String) : Option J :=
  match j.getObjVal? k with
  | .ok v => wireJ v
  | .error _ => none

/-- the harness sends both views (request body, multipart form); which one `Parse` looks at is
the model's decision (media type of the header), not the harness's -/
def readInput (j : Json) : Input :=
  let isMp := mediaType (getStr j "header") = facts.multipartContentType
  let fbOf (k : String) : Option Bool := match j.getObjVal? k with
    | .ok (.bool b) => some b
    | _ => none
  let nofit := (getArr j "nofit").map asStr
  { method := getStr j "method", header := getStr j "header",
    payload := { firstBracket := if isMp then fbOf "opsFb" else fbOf "fb",
                 body := if isMp then optJ j "ops" else optJ j "body",
                 formOk := getBool j "formOk",
                 map := optJ j "map", files := (getArr j "files").map asStr },
    fits := fun r => !nofit.contains r }

/-- the decoded file map's keys, in the numbering `parse` uses for upload ids -/
def entryKeys (p : Payload) : List String :=
  match p.map with
  | some mj => match decodeMap mj with
    | some es => es.map (·.1)
    | none => []
  | none => []

def callJson : Call → Json
  | .multipart r v parts =>
    obj [("kind", "multipart"), ("req", toJson r), ("vars", varsJson v),
         ("parts", jarr (parts.map (fun p => obj [("file", toJson p.file), ("path", strArr p.path), ("fresh", p.fresh)])))]
  | .json rs =>
    obj [("kind", "json"), ("reqs", jarr (rs.map (fun rv => obj [("req", toJson rv.1), ("vars", varsJson rv.2)])))]

/-- the client's tree after a step that selected `names` (`none`: all variables) -/
def afterStepSel (names : Option (List String)) (m : List (String × V)) : List (String × V) :=
  match names with
  | none => afterStep m
  | some ns => m.map (fun kv => if ns.contains kv.1 then (kv.1, afterStepV kv.2) else kv)

def selectVars (names : Option (List String)) (vars : Option (List (String × V))) : Option (List (String × V)) :=
  match names, vars with
  | some ns, some m => some (stepVars ns m)      -- getVariables builds a fresh (non-nil) map
  | some _, none => some []
  | none, some m => some m                       -- all variables, copied into a fresh map
  | none, none => some []

/-- steps run one after the other on the same client requests -/
def runSteps : List (Option (List String)) → List Req → List Nat → List Json
  | [], _, _ => []
  | names :: more, clients, consumed =>
    let s := sendStep facts (clients.map (fun r => selectVars names r.vars)) consumed
    let clients' := clients.map (fun r => { r with vars := r.vars.map (afterStepSel names) })
    jarr (s.1.map callJson) :: runSteps more clients' s.2

def allErr : List ErrClass :=
  [.onlyPost, .unknownContentType, .multipartForm, .parseBatch, .parseSingle, .missingQuery, .opsParseBatch,
   .opsParseSingle, .opsMissingQuery, .fileMapParse, .fileMapEmpty, .fileNotFound, .batchIndexSyntax,
   .missingVariablesKeyword, .invalidParts, .requestIndexOutOfBound, .keyNotFound, .expectedNumericIndex,
   .indexOutOfBound, .expectedNil]

def handle : Handler
  | "c07.parse", j =>
    let i := readInput j
    let (os, all) := orders (numberEntries 0 ((entryKeys i.payload).map (fun k => (k, ([] : List String)))))
    -- orders are expressed as permutations of entry numbers; `order` re-sorts the real entries
    let outcomes := os.map (fun o =>
      let order : List (Nat × String × List String) → List (Nat × String × List String) := fun es =>
        o.filterMap (fun x => es.find? (fun e => e.1 == x.1))
      outcomeJson (parse facts i.fits order i.method i.header i.payload))
    some (obj [("outcomes", jarr outcomes), ("allOrders", all), ("entries", strArr (entryKeys i.payload))])
  | "c07.respond", j =>
    let n := getNat j "n"
    let outs := getArr j "outcomes"
    let toErrs (o : Json) : List J := (getArr o "errs").map toJ
    let toData (o : Json) : Option (List (String × J)) := match o.getObjVal? "data" with
      | .ok d => match toJ d with
        | .obj m => some m
        | _ => none
      | .error _ => none
    let run : Req → Outcome := fun r =>
      match outs[r.query.toNat!]? with
      | none => .invalid []
      | some o => match getStr o "t" with
        | "invalid" => .invalid (toErrs o)
        | "intro" => .introspection ((toData o).getD [])
        | _ => .executed (toData o) (toErrs o)
    let reqs : List Req := (List.range n).map (fun k => { query := toString k, vars := none, opName := none })
    let p : Res (List Req × Bool) := match getStr j "kind" with
      | "ok" => .ok (reqs, getBool j "batch")
      | "err" => .err ((allErr.find? (fun e => e.name == getStr j "class")).getD .multipartForm)
      | _ => .panic .nilRequest
    some (match respond facts p run with
      | .ok r => obj [("kind", "ok"), ("status", toJson r.status), ("body", ofJ r.body)]
      | .err e => obj [("kind", "err"), ("class", .str e.name)]
      | .panic x => obj [("kind", "panic"), ("what", .str x.name)])
  | "c19.roundtrip", j =>
    let i := readInput j
    let steps : List (Option (List String)) := (getArr j "steps").map (fun s => match s with
      | .arr a => some (a.toList.map asStr)
      | _ => none)
    let p := parse facts i.fits id i.method i.header i.payload
    some (match p with
      | .ok (reqs, batch) =>
        obj [("kind", "ok"), ("batch", batch), ("requests", jarr (reqs.map reqJson)),
             ("entries", strArr (entryKeys i.payload)), ("steps", jarr (runSteps steps reqs []))]
      | other => outcomeJson other)
  | _, _ => none

end PebblesVerif.Driver.DParse
