import PebblesVerif.Driver.AstJson
import PebblesVerif.Spec.Eval
/-! Driver op `spec.eval`: the reference semantics (cross-checked against harness/fed/eval.go). -/
namespace PebblesVerif.Driver.DSpec
open Lean PebblesVerif.Driver PebblesVerif.Spec

def handle : Handler
  | "spec.eval", j =>
    let S := parseSchema ((getObj? j "schema").getD .null)
    let D := parseData ((getObj? j "data").getD .null)
    let op := parseOp ((getObj? j "operation").getD .null)
    let vars := parseVars j "variables"
    some (match eval S D op vars with
      | some d => obj [("data", ofJ d)]
      | none => obj [("data", Json.null)])
  | _, _ => none

end PebblesVerif.Driver.DSpec
