import PebblesVerif.Driver.Util
import PebblesVerif.Model.SubEntry
/-! Driver op `c17.frames`: which frames, in which order, under which id the per-event pipeline
writes for a history of upstream messages. Events are identified by their index `k` (carried as
the data / the error text of the marker response); the stitched content itself is compared
against the reference evaluator by the harness. -/
namespace PebblesVerif.Driver.DSubEntry
open Lean PebblesVerif.Driver PebblesVerif PebblesVerif.SubEntry

def parseMsg (j : Json) : UpMsg :=
  let k := toString (getNat j "k")
  match getStr j "kind" with
  | "data" =>
      let errs : List J := if getBool j "errors" then [.str k] else []
      let data : Option J := if getBool j "nodata" then none else some (.num k)
      .data ⟨data, errs⟩
  | "errlist" => .errorList [.str k]
  | "errobj" => .errorObj
  | "complete" => .complete
  | "other" => .other
  | _ => .garbage

def marker (r : Resp) : String :=
  match r.data, r.errors with
  | some (.num k), _ => k
  | _, (.str k) :: _ => k
  | _, _ => "?"

def frameJson (f : Frame) : Json :=
  obj [("id", f.id), ("k", marker f.payload), ("errors", decide (f.payload.errors ≠ [])),
       ("data", f.payload.data.isSome)]

def handle : Handler
  | "c17.frames", j =>
    let p : Pipeline := ⟨false, fun d => (some d, []), id⟩
    let entries := getArr j "entries"
    some (obj [("entries", jarr (entries.map (fun e =>
      obj [("id", getStr e "id"),
           ("frames", jarr ((framesOf (getStr e "id") p ((getArr e "msgs").map parseMsg)).map frameJson))])))])
  | _, _ => none

end PebblesVerif.Driver.DSubEntry
