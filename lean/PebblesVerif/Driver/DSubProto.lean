import Std.Data.HashMap
import PebblesVerif.Driver.Util
import PebblesVerif.Model.SubProto
import PebblesVerif.Model.SubProtoFixed
import PebblesVerif.Model.ConnWrite
import PebblesVerif.Model.SubInit
import PebblesVerif.Spec.SubProtoFacts
/-! Driver ops for the subscription teardown models (C18):
  `c18.facts`    which protocol the regenerated facts describe, and the knobs
  `c18.explore`  exhaustive BFS (states de-duplicated) over all interleavings of one entry's
                 teardown, with the shortest witness schedule for fatal / stuck / leak
  `c18.conn`     the same for the writers of one connection (`torn`)
  `c18.run`      run a schedule (list of labels) through the model: per-step positions of every
                 goroutine (= the hook point it must be at), fatal message — the expected
                 observations of a FORCED schedule, and trace acceptance
  `c18.paths`    all schedules up to a depth / seeded random maximal schedules (to be forced)
  `c18.accept`   free-running conformance: is there a run of the model whose per-goroutine
                 projections are the observed hook sequences?
  `c18.init.explore` / `c18.init.run` / `c18.init.accept`: the same for the establishment phase
                 of `Subscribe` (Model/SubInit.lean, variant from the regenerated facts):
                 `accept` = is there a MAXIMAL run whose projections on the reader and the closer
                 are the observed hook sequences and in whose last state exactly the observed
                 goroutines have exited?
-/
namespace PebblesVerif.Driver.DSubProto
open Lean PebblesVerif.Driver

/-! ## generic exploration -/

structure Sys (σ ε : Type) where
  init : σ
  enabled : σ → List ε
  step : σ → ε → Option σ

structure Found (ε : Type) where
  name : String
  schedule : List ε

/-- BFS with de-duplication; `preds` are (name, predicate); returns (#states, #transitions,
    depth reached, frontier exhausted?, first (= shortest) witness per predicate). -/
partial def bfs {σ ε : Type} [BEq σ] [Hashable σ] (sys : Sys σ ε) (preds : List (String × (σ → Bool)))
    (maxDepth maxStates : Nat) : Nat × Nat × Nat × Bool × List (String × List ε × σ) := Id.run do
  let mut parent : Std.HashMap σ (Option (σ × ε)) := {}
  parent := parent.insert sys.init none
  let mut frontier : Array σ := #[sys.init]
  let mut trans := 0
  let mut depth := 0
  let mut found : List (String × σ) := []
  for (n, p) in preds do
    if p sys.init then found := (n, sys.init) :: found
  while !frontier.isEmpty && depth < maxDepth && parent.size < maxStates do
    let mut next : Array σ := #[]
    for s in frontier do
      for e in sys.enabled s do
        match sys.step s e with
        | none => pure ()
        | some s' =>
          trans := trans + 1
          if !parent.contains s' then
            parent := parent.insert s' (some (s, e))
            next := next.push s'
            for (n, p) in preds do
              if p s' && !(found.any (·.1 == n)) then found := (n, s') :: found
    frontier := next
    depth := depth + 1
  -- reconstruct schedules
  let mut out : List (String × List ε × σ) := []
  for (n, s) in found do
    let mut path : List ε := []
    let mut cur := s
    let mut fuel := depth + 2
    while fuel > 0 do
      fuel := fuel - 1
      match parent.get? cur with
      | some (some (p, e)) => path := e :: path; cur := p
      | _ => fuel := 0
    out := (n, path, s) :: out
  return (parent.size, trans, depth, frontier.isEmpty, out)

/-- all schedules (paths from the initial state) of length ≤ depth that are maximal or have
    exactly length depth; at most `limit` -/
partial def pathsUpTo {σ ε : Type} (sys : Sys σ ε) (depth limit : Nat) : List (List ε) := Id.run do
  let mut out : Array (List ε) := #[]
  let mut stack : List (σ × List ε × Nat) := [(sys.init, [], 0)]
  while !stack.isEmpty && out.size < limit do
    match stack with
    | [] => pure ()
    | (s, path, d) :: rest =>
      stack := rest
      let en := sys.enabled s
      if en.isEmpty || d ≥ depth then
        out := out.push path.reverse
      else
        for e in en.reverse do
          match sys.step s e with
          | some s' => stack := (s', e :: path, d + 1) :: stack
          | none => pure ()
  return out.toList

def lcg (x : Nat) : Nat := (x * 6364136223846793005 + 1442695040888963407) % 18446744073709551616

/-- one seeded random maximal schedule (at most `maxLen` steps) -/
partial def randomWalk {σ ε : Type} (sys : Sys σ ε) (seed maxLen : Nat) : List ε := Id.run do
  let mut s := sys.init
  let mut rng := lcg (seed + 0x9e3779b9)
  let mut path : Array ε := #[]
  let mut n := 0
  let mut go := true
  while go && n < maxLen do
    let en := sys.enabled s
    match en with
    | [] => go := false
    | e0 :: _ =>
      rng := lcg rng
      let e := en.getD ((rng / 65536) % en.length) e0
      match sys.step s e with
      | some s' => s := s'; path := path.push e; n := n + 1
      | none => go := false
  return path.toList

/-! ## the protocol of the unchanged tree -/
section current
open PebblesVerif.SubProto

def curLabel : Ev → String
  | .upEvent => "upEvent" | .upEnd => "upEnd"
  | .clStop => "clStop" | .clTerminate => "clTerminate" | .clBad => "clBad" | .clGone => "clGone"
  | .spawnK => "spawnK"
  | .kTryLock i => s!"kTryLock:{i}" | .kReadClosed i => s!"kReadClosed:{i}"
  | .kUnlock i => s!"kUnlock:{i}" | .kSendC i => s!"kSendC:{i}"
  | .lRecv => "lRecv" | .lRecvNil => "lRecvNil" | .lWrite ok => s!"lWrite:{ok}"
  | .lSendQ => "lSendQ" | .lLock => "lLock" | .lCloseQ => "lCloseQ" | .lCloseC => "lCloseC"
  | .lCloseR => "lCloseR" | .lSetClosed => "lSetClosed" | .lUnlock => "lUnlock"
  | .cqRecv => "cqRecv" | .cqUpClose => "cqUpClose"
  | .rqReadErr => "rqReadErr" | .rqSendPanic => "rqSendPanic" | .rqUpClose => "rqUpClose"
  | .rqNilPanic => "rqNilPanic"
  | .hCloseFrame ok => s!"hCloseFrame:{ok}" | .hConnClose => "hConnClose" | .hCleanAll => "hCleanAll"

def splitLabel (s : String) : String × String :=
  match s.splitOn ":" with
  | [a, b] => (a, b)
  | _ => (s, "")

def curParse (s : String) : Option Ev :=
  let (a, b) := splitLabel s
  let n := b.toNat?.getD 0
  let bb := b == "true"
  match a with
  | "upEvent" => some .upEvent | "upEnd" => some .upEnd
  | "clStop" => some .clStop | "clTerminate" => some .clTerminate | "clBad" => some .clBad
  | "clGone" => some .clGone | "spawnK" => some .spawnK
  | "kTryLock" => some (.kTryLock n) | "kReadClosed" => some (.kReadClosed n)
  | "kUnlock" => some (.kUnlock n) | "kSendC" => some (.kSendC n)
  | "lRecv" => some .lRecv | "lRecvNil" => some .lRecvNil | "lWrite" => some (.lWrite bb)
  | "lSendQ" => some .lSendQ | "lLock" => some .lLock | "lCloseQ" => some .lCloseQ
  | "lCloseC" => some .lCloseC | "lCloseR" => some .lCloseR | "lSetClosed" => some .lSetClosed
  | "lUnlock" => some .lUnlock
  | "cqRecv" => some .cqRecv | "cqUpClose" => some .cqUpClose
  | "rqReadErr" => some .rqReadErr | "rqSendPanic" => some .rqSendPanic
  | "rqUpClose" => some .rqUpClose | "rqNilPanic" => some .rqNilPanic
  | "hCloseFrame" => some (.hCloseFrame bb) | "hConnClose" => some .hConnClose
  | "hCleanAll" => some .hCleanAll
  | _ => none

def cqPoint : CqPc → String
  | .recvQ => "Cq.recvQ" | .upClose => "Cq.upClose" | .done => "done"
def rqPoint : RqPc → String
  | .upRead => "Rq.upRead" | .sendR => "Rq.sendR" | .upClose => "Rq.upClose"
  | .sendNil => "Rq.sendNil" | .done => "done"
def hPoint : HPc → String
  | .serving => "H.read" | .closeFrame => "H.exit" | .connClose => "H.connClose"
  | .cleanAll => "H.cleanAll" | .done => "done"

def curKPoint : KPc → String
  | .tryLock => "K.tryLock" | .readClosed => "K.readClosed" | .unlock _ => "K.unlock"
  | .sendC => "K.sendC" | .done => "done"
def curLPoint : LPc → String
  | .sel => "L.sel" | .write => "L.write" | .sendQ => "L.sendQ" | .lock => "L.lock"
  | .closeQ => "L.closeQ" | .closeC => "L.closeC" | .closeR => "L.closeR"
  | .setClosed => "L.setClosed" | .unlock => "L.unlock" | .done => "done"

/-- goroutine name ↦ the hook point it is at (held there or parked inside that operation) -/
def curPos (s : St) : List (String × String) :=
  [("L", curLPoint s.l), ("Cq", cqPoint s.cq), ("Rq", rqPoint s.rq), ("H", hPoint s.h)]
  ++ (s.ks.zipIdx.map (fun (pc, i) => (s!"K{i}", curKPoint pc)))

def curSys (c : Cfg) : Sys St Ev := ⟨init c, enabled c, step? c⟩

end current

/-! ## the repaired protocol -/
section fixed
open PebblesVerif.SubProtoFixed
open PebblesVerif.SubProto (Cfg)

def fixLabel : Ev → String
  | .upEvent => "upEvent" | .upEnd => "upEnd"
  | .clStop => "clStop" | .clTerminate => "clTerminate" | .clBad => "clBad" | .clGone => "clGone"
  | .spawnK => "spawnK"
  | .hCloseFrame ok => s!"hCloseFrame:{ok}" | .hConnClose => "hConnClose" | .hCleanAll => "hCleanAll"
  | .k i => s!"k:{i}"
  | .lRecv => "lRecv" | .lRecvNil => "lRecvNil" | .lRecvClose => "lRecvClose"
  | .lWrite ok => s!"lWrite:{ok}" | .lJoin => "lJoin" | .lCloseQ => "lCloseQ"
  | .cqRecv => "cqRecv" | .cqUpClose => "cqUpClose"
  | .rqReadErr => "rqReadErr" | .rqAbort => "rqAbort" | .rqUpClose => "rqUpClose"
  | .rqNilAbort => "rqNilAbort"

def fixParse (s : String) : Option Ev :=
  let (a, b) := splitLabel s
  let n := b.toNat?.getD 0
  let bb := b == "true"
  match a with
  | "upEvent" => some .upEvent | "upEnd" => some .upEnd
  | "clStop" => some .clStop | "clTerminate" => some .clTerminate | "clBad" => some .clBad
  | "clGone" => some .clGone | "spawnK" => some .spawnK
  | "hCloseFrame" => some (.hCloseFrame bb) | "hConnClose" => some .hConnClose
  | "hCleanAll" => some .hCleanAll
  | "k" => some (.k n)
  | "lRecv" => some .lRecv | "lRecvNil" => some .lRecvNil | "lRecvClose" => some .lRecvClose
  | "lWrite" => some (.lWrite bb) | "lJoin" => some .lJoin | "lCloseQ" => some .lCloseQ
  | "cqRecv" => some .cqRecv | "cqUpClose" => some .cqUpClose
  | "rqReadErr" => some .rqReadErr | "rqAbort" => some .rqAbort | "rqUpClose" => some .rqUpClose
  | "rqNilAbort" => some .rqNilAbort
  | _ => none

def fixKPoint : KPc → String
  | .lock => "C.lock" | .check => "C.check" | .set => "C.set" | .closeC => "C.closeC"
  | .unlock _ => "C.unlock" | .setLate => "C.setLate" | .done => "done"

/-- the closer executed by `Listen` itself (its goroutine is then at that closer's point) -/
def lCloser (s : St) : Option Nat := match s.l with | .xclose i => some i | _ => none

def fixPos (s : St) : List (String × String) :=
  let lp : String := match s.l with
    | .sel => "L.sel" | .write => "L.write" | .closeQ => "L.closeQ" | .done => "done"
    | .xclose i => match s.ks[i]? with
      | some .done => "L.closeQ"       -- Close() has returned (lJoin is not observable)
      | some pc => fixKPoint pc
      | none => "?"
  [("L", lp), ("Cq", cqPoint s.cq), ("Rq", rqPoint s.rq), ("H", hPoint s.h)]
  ++ (s.ks.zipIdx.filterMap (fun (pc, i) =>
        if lCloser s == some i then none else some (s!"C{i}", fixKPoint pc)))

def fixSys (kn : Knobs) (c : Cfg) : Sys St Ev := ⟨init c, enabled kn c, step? kn c⟩

end fixed

/-! ## writers of one connection -/
section conn
open PebblesVerif.ConnWrite

def connLabel : Ev → String
  | .begin i => s!"begin:{i}" | .lock i => s!"lock:{i}" | .hdr i => s!"hdr:{i}"
  | .pay i => s!"pay:{i}" | .unlock i => s!"unlock:{i}"

def connParse (s : String) : Option Ev :=
  let (a, b) := splitLabel s
  let n := b.toNat?.getD 0
  match a with
  | "begin" => some (.begin n) | "lock" => some (.lock n) | "hdr" => some (.hdr n)
  | "pay" => some (.pay n) | "unlock" => some (.unlock n)
  | _ => none

def partJson : Part → Json
  | .hdr w f => jarr [Json.str "hdr", toJson w, toJson f]
  | .pay w f => jarr [Json.str "pay", toJson w, toJson f]

def connSys (c : ConnWrite.Cfg) : Sys ConnWrite.St ConnWrite.Ev := ⟨ConnWrite.init c, ConnWrite.enabled c, ConnWrite.step? c⟩

end conn

/-! ## request decoding -/

def getBoolD (j : Json) (k : String) (d : Bool) : Bool :=
  match j.getObjValAs? Bool k with | .ok b => b | _ => d

def cfgOf (j : Json) : SubProto.Cfg :=
  match getObj? j "cfg" with
  | some c => { evs := getNat c "evs", fin := getBoolD c "fin" true, extraK := getNat c "extraK",
                stop := getBoolD c "stop" true, terminate := getBoolD c "terminate" false,
                bad := getBoolD c "bad" false, gone := getBoolD c "gone" false }
  | none => { evs := 1, fin := true, extraK := 0, stop := true, terminate := false, bad := false, gone := false }

def factsKnobs : SubProtoFixed.Knobs := SubProtoFacts.knobsOf Gen.SubProto.facts

def knobsOf (j : Json) : SubProtoFixed.Knobs :=
  match getObj? j "knobs" with
  | some k => { guardSends := getBoolD k "guardSends" true, setInLock := getBoolD k "setInLock" true,
                exitAlways := getBoolD k "exitAlways" true }
  | none => factsKnobs

/-- "current" | "fixed": explicit, or from the regenerated facts -/
def protoOf (j : Json) : String :=
  match getStr j "proto" with
  | "current" => "current"
  | "fixed" => "fixed"
  | _ => if SubProtoFacts.isCurrent Gen.SubProto.facts then "current" else "fixed"

def knobsJson (k : SubProtoFixed.Knobs) : Json :=
  obj [("guardSends", k.guardSends), ("setInLock", k.setInLock), ("exitAlways", k.exitAlways)]

def posJson (p : List (String × String)) : Json := obj (p.map (fun (a, b) => (a, Json.str b)))

def witnessJson {ε σ : Type} (label : ε → String) (detail : σ → Json)
    (ws : List (String × List ε × σ)) : Json :=
  obj (ws.map (fun (n, sched, s) => (n, obj [("schedule", strArr (sched.map label)), ("state", detail s)])))

def optStr : Option String → Json
  | some s => Json.str s
  | none => Json.null

/-! run a schedule, reporting positions after each step -/

def runCur (c : SubProto.Cfg) (labels : List String) : Json := Id.run do
  let mut s := SubProto.init c
  let mut steps : Array Json := #[]
  let mut k : Nat := 0
  for l in labels do
    match curParse l with
    | none => return obj [("accepted", false), ("at", k), ("reason", "bad-label"), ("label", l), ("steps", Json.arr steps)]
    | some e =>
      match SubProto.step? c s e with
      | none => return obj [("accepted", false), ("at", k), ("reason", "not-enabled"), ("label", l),
                  ("pos", posJson (curPos s)), ("steps", Json.arr steps)]
      | some s' =>
        let spawned : Json := if s'.ks.length > s.ks.length then toJson s.ks.length else Json.null
        -- the sender of a rendez-vous is released by the harness only for its own step (until then it
        -- is held at its hook, not parked in the send): Listen's select never has two ready cases
        let amb : Bool := false
        s := s'
        steps := steps.push (obj [("label", l), ("pos", posJson (curPos s)), ("fatal", optStr s.fatal), ("spawned", spawned), ("ambiguous", amb)])
        k := k + 1
  return obj [("accepted", true), ("steps", Json.arr steps), ("pos", posJson (curPos s)), ("fatal", optStr s.fatal),
    ("final", SubProto.final s), ("live", SubProto.live s), ("terminal", SubProto.terminal c s),
    ("leak", SubProto.leak c s), ("stuck", SubProto.stuck c s), ("upClosed", s.upClosed),
    ("enabled", strArr ((SubProto.enabled c s).map curLabel))]

def runFix (kn : SubProtoFixed.Knobs) (c : SubProto.Cfg) (labels : List String) : Json := Id.run do
  let mut s := SubProtoFixed.init c
  let mut steps : Array Json := #[]
  let mut k : Nat := 0
  for l in labels do
    match fixParse l with
    | none => return obj [("accepted", false), ("at", k), ("reason", "bad-label"), ("label", l), ("steps", Json.arr steps)]
    | some e =>
      match SubProtoFixed.step? kn c s e with
      | none => return obj [("accepted", false), ("at", k), ("reason", "not-enabled"), ("label", l),
                  ("pos", posJson (fixPos s)), ("steps", Json.arr steps)]
      | some s' =>
        let spawned : Json := if s'.ks.length > s.ks.length then toJson s.ks.length else Json.null
        let byL : Bool := (lCloser s').isSome && (lCloser s).isNone
        -- closeCh CLOSED is a permanently ready case of Listen's select: when a sender on respCh is
        -- released as well Go picks at random, so a receive step cannot be forced once closeCh is closed
        let amb : Bool := (match e with | .lRecv | .lRecvNil => true | _ => false) && s.chC
        s := s'
        steps := steps.push (obj [("label", l), ("pos", posJson (fixPos s)), ("fatal", optStr s.fatal),
          ("spawned", spawned), ("spawnedByL", byL), ("ambiguous", amb)])
        k := k + 1
  return obj [("accepted", true), ("steps", Json.arr steps), ("pos", posJson (fixPos s)), ("fatal", optStr s.fatal),
    ("final", SubProtoFixed.final s), ("live", SubProtoFixed.live s), ("terminal", SubProtoFixed.terminal kn c s),
    ("leak", SubProtoFixed.leak kn c s), ("stuck", SubProtoFixed.stuck kn c s), ("upClosed", s.upClosed),
    ("enabled", strArr ((SubProtoFixed.enabled kn c s).map fixLabel))]

/-! free-running conformance: search for a run of the model whose projections on the goroutines
    are the observed sequences of hook points. `obs` maps goroutine name ↦ remaining points. -/

def advance (obs : List (String × List String)) (before after : List (String × String)) :
    Option (List (String × List String)) :=
  -- every goroutine whose position changed must find its new position next in its sequence
  after.foldlM (fun (o : List (String × List String)) (g, p) =>
    let old := (before.lookup g)
    if old == some p then some o
    else
      -- a new goroutine (spawned) starts at its first point; it must be the head as well
      match o.lookup g with
      | some (x :: rest) => if x == p then some (o.map (fun (g', l) => if g' == g then (g', rest) else (g', l))) else none
      | some [] => if p == "done" then some o else none     -- exits need not be observed
      | none => if p == "done" then some o else none) obs

partial def acceptSearch {σ ε : Type} [BEq σ] [Hashable σ] (sys : Sys σ ε) (pos : σ → List (String × String))
    (obs0 : List (String × List String)) (maxNodes : Nat) : Bool × Nat × List (String × List String) := Id.run do
  let remaining (o : List (String × List String)) : Nat := o.foldl (fun a (_, l) => a + l.length) 0
  let mut seen : Std.HashMap σ (List (List Nat)) := {}
  let mut stack : List (σ × List (String × List String)) := [(sys.init, obs0)]
  let mut nodes := 0
  let mut best := obs0
  while !stack.isEmpty && nodes < maxNodes do
    match stack with
    | [] => pure ()
    | (s, o) :: rest =>
      stack := rest
      nodes := nodes + 1
      if remaining o < remaining best then best := o
      if remaining o == 0 then return (true, nodes, o)
      let key := o.map (fun (_, l) => l.length)
      let olds := (seen.get? s).getD []
      if olds.contains key then pure () else
        seen := seen.insert s (key :: olds)
        for e in sys.enabled s do
          match sys.step s e with
          | none => pure ()
          | some s' =>
            match advance o (pos s) (pos s') with
            | some o' => stack := (s', o') :: stack
            | none => pure ()
  return (false, nodes, best)

def obsOf (j : Json) : List (String × List String) :=
  match getObj? j "obs" with
  | some (.obj kvs) => kvs.toList.map (fun (k, v) => (k, (asArr v).map asStr))
  | _ => []

/-! ## the establishment phase of Subscribe -/
section initphase
open PebblesVerif.SubInit

def initLabel : SubInit.Ev → String
  | .rqWrite ok => s!"rqWrite:{ok}" | .rqCloseF => "rqCloseF" | .rqSend => "rqSend"
  | .sCloseErr => "sCloseErr" | .cqRecv => "cqRecv" | .cqUpClose => "cqUpClose"
  | .rqUpClose => "rqUpClose" | .rqSel => "rqSel" | .rqNilAbort => "rqNilAbort"

def initParse (s : String) : Option SubInit.Ev :=
  let (a, b) := splitLabel s
  match a with
  | "rqWrite" => some (.rqWrite (b == "true")) | "rqCloseF" => some .rqCloseF | "rqSend" => some .rqSend
  | "sCloseErr" => some .sCloseErr | "cqRecv" => some .cqRecv | "cqUpClose" => some .cqUpClose
  | "rqUpClose" => some .rqUpClose | "rqSel" => some .rqSel | "rqNilAbort" => some .rqNilAbort
  | _ => none

/-- the hook point the reader is at: there is no hook between the start of the goroutine and its
    deferred block (`Rq.init` is not a hook: it is where an unobserved reader is), none between
    `Rq.upClose` and `Rq.sendNil` / `Rq.done` -/
def initRPoint : SubInit.RPc → String
  | .wInit | .wStart | .closeF _ | .sendErr _ | .sendOk => "Rq.init"
  | .est => "Rq.upRead"
  | .dUpClose | .dSel => "Rq.upClose"
  | .sendNil => "Rq.sendNil"
  | .done => "done"

/-- only the two goroutines: the caller of `Subscribe` passes no hook point -/
def initPos (s : SubInit.St) : List (String × String) :=
  [("Cq", cqPoint s.c), ("Rq", initRPoint s.r)]

def initSys (v : SubInit.Variant) : Sys SubInit.St SubInit.Ev := ⟨SubInit.init, SubInit.enabled v, SubInit.step? v⟩

def factsVariant : SubInit.Variant := SubProtoFacts.initVariant Gen.SubProto.facts

def variantStr : SubInit.Variant → String
  | .repaired => "repaired" | .preRepair => "preRepair"

def variantOf (j : Json) : SubInit.Variant :=
  match getStr j "variant" with
  | "repaired" => .repaired
  | "preRepair" => .preRepair
  | _ => factsVariant

def whichStr : SubInit.Which → String
  | .init => "init" | .start => "start"

def resultJson : Option (Option SubInit.Which) → Json
  | none => Json.null
  | some none => Json.str "nil"
  | some (some w) => Json.str ("error:" ++ whichStr w)

def initStateJson (v : SubInit.Variant) (s : SubInit.St) : Json :=
  obj [("pos", posJson (initPos s)), ("fatal", optStr s.fatal), ("result", resultJson s.result),
    ("terminal", SubInit.terminal v s), ("handedOver", SubInit.handedOver s), ("ended", SubInit.ended s),
    ("leak", SubInit.leak v s), ("upClosed", s.upClosed), ("wrote", s.wrote),
    ("enabled", strArr ((SubInit.enabled v s).map initLabel))]

def initRun (v : SubInit.Variant) (labels : List String) : Json := Id.run do
  let mut s := SubInit.init
  let mut k : Nat := 0
  for l in labels do
    match initParse l with
    | none => return obj [("accepted", false), ("at", k), ("reason", "bad-label"), ("label", l)]
    | some e =>
      match SubInit.step? v s e with
      | none => return obj [("accepted", false), ("at", k), ("reason", "not-enabled"), ("label", l), ("state", initStateJson v s)]
      | some s' => s := s'; k := k + 1
  return obj [("accepted", true), ("variant", variantStr v), ("state", initStateJson v s)]

/-- the goroutines that have exited in `s` -/
def initDone (s : SubInit.St) : List String :=
  (initPos s).filterMap (fun (g, p) => if p == "done" then some g else none)

/-- exhaustive search (the system has a few dozen states) for a MAXIMAL run with the observed
    projections whose last state has exactly the observed set of exited goroutines -/
partial def initAccept (v : SubInit.Variant) (obs0 : List (String × List String)) (done : List String) :
    Bool × Nat × Option SubInit.St := Id.run do
  let remaining (o : List (String × List String)) : Nat := o.foldl (fun a (_, l) => a + l.length) 0
  let mut stack : List (SubInit.St × List (String × List String)) := [(SubInit.init, obs0)]
  let mut nodes := 0
  let mut closest : Option SubInit.St := none
  while !stack.isEmpty && nodes < 100000 do
    match stack with
    | [] => pure ()
    | (s, o) :: rest =>
      stack := rest
      nodes := nodes + 1
      let en := SubInit.enabled v s
      if en.isEmpty then
        if remaining o == 0 then
          closest := some s
          let d := initDone s
          if d.all (done.contains ·) && done.all (d.contains ·) then return (true, nodes, some s)
      else
        for e in en do
          match SubInit.step? v s e with
          | none => pure ()
          | some s' =>
            match advance o (initPos s) (initPos s') with
            | some o' => stack := (s', o') :: stack
            | none => pure ()
  return (false, nodes, closest)

end initphase

def handle : Handler
  | "c18.facts", _ =>
    some (obj [("proto", protoOf (obj [])), ("knobs", knobsJson factsKnobs),
      ("writesLocked", SubProtoFacts.writesLocked Gen.SubProto.facts),
      ("isFixed", decide (Gen.SubProto.facts = Gen.SubProto.expectedFixed)),
      ("isCurrent", decide (Gen.SubProto.facts = Gen.SubProto.expectedCurrent)),
      ("recognised", Gen.SubProto.facts.recognised),
      ("initVariant", variantStr factsVariant),
      ("initRecognised", SubProtoFacts.initRecognised Gen.SubProto.facts)])
  | "c18.init.explore", j =>
    let v := variantOf j
    let (st, tr, d, complete, ws) := bfs (initSys v)
      [("fatal", SubInit.fatal), ("leak", SubInit.leak v), ("handedOver", SubInit.handedOver), ("ended", SubInit.ended)] 100 100000
    some (obj [("variant", variantStr v), ("states", st), ("transitions", tr), ("depth", d), ("complete", complete),
      ("witnesses", witnessJson initLabel (initStateJson v) ws)])
  | "c18.init.run", j =>
    some (initRun (variantOf j) ((getArr j "schedule").map asStr))
  | "c18.init.accept", j =>
    let v := variantOf j
    let (ok, nodes, last) := initAccept v (obsOf j) ((getArr j "done").map asStr)
    some (obj [("accepted", ok), ("nodes", nodes), ("variant", variantStr v),
      ("state", match last with | some s => initStateJson v s | none => Json.null)])
  | "c18.explore", j =>
    let c := cfgOf j
    let depth := if getNat j "depth" == 0 then 200 else getNat j "depth"
    let maxStates := if getNat j "maxStates" == 0 then 2000000 else getNat j "maxStates"
    if protoOf j == "current" then
      let (st, tr, d, complete, ws) := bfs (curSys c)
        [("fatal", SubProto.fatal), ("stuck", SubProto.stuck c), ("leak", SubProto.leak c)] depth maxStates
      some (obj [("proto", "current"), ("states", st), ("transitions", tr), ("depth", d), ("complete", complete),
        ("witnesses", witnessJson curLabel (fun s => obj [("pos", posJson (curPos s)), ("fatal", optStr s.fatal)]) ws)])
    else
      let kn := knobsOf j
      let (st, tr, d, complete, ws) := bfs (fixSys kn c)
        [("fatal", SubProtoFixed.fatal), ("stuck", SubProtoFixed.stuck kn c), ("leak", SubProtoFixed.leak kn c)] depth maxStates
      some (obj [("proto", "fixed"), ("knobs", knobsJson kn), ("states", st), ("transitions", tr), ("depth", d),
        ("complete", complete),
        ("witnesses", witnessJson fixLabel (fun s => obj [("pos", posJson (fixPos s)), ("fatal", optStr s.fatal)]) ws)])
  | "c18.conn", j =>
    let locked := match j.getObjValAs? Bool "locked" with
      | .ok b => b | _ => SubProtoFacts.writesLocked Gen.SubProto.facts
    let c : ConnWrite.Cfg := { locked := locked, frames := (getArr j "frames").map asNat }
    let depth := if getNat j "depth" == 0 then 200 else getNat j "depth"
    let (st, tr, d, complete, ws) := bfs (connSys c) [("torn", ConnWrite.torn)] depth 2000000
    some (obj [("locked", locked), ("states", st), ("transitions", tr), ("depth", d), ("complete", complete),
      ("witnesses", witnessJson connLabel (fun s => obj [("log", jarr (s.log.map partJson))]) ws)])
  | "c18.conn.run", j =>
    let locked := match j.getObjValAs? Bool "locked" with
      | .ok b => b | _ => SubProtoFacts.writesLocked Gen.SubProto.facts
    let c : ConnWrite.Cfg := { locked := locked, frames := (getArr j "frames").map asNat }
    let evs := (getArr j "schedule").map (fun x => connParse (asStr x))
    if evs.any Option.isNone then some (obj [("accepted", false), ("reason", "bad-label")]) else
    match ConnWrite.runEvents c (ConnWrite.init c) (evs.filterMap id) with
    | none => some (obj [("accepted", false), ("reason", "not-enabled")])
    | some s => some (obj [("accepted", true), ("torn", ConnWrite.torn s), ("log", jarr (s.log.map partJson))])
  | "c18.run", j =>
    let c := cfgOf j
    let labels := (getArr j "schedule").map asStr
    if protoOf j == "current" then some (runCur c labels) else some (runFix (knobsOf j) c labels)
  | "c18.paths", j =>
    let c := cfgOf j
    let depth := if getNat j "depth" == 0 then 8 else getNat j "depth"
    let limit := if getNat j "limit" == 0 then 100 else getNat j "limit"
    let walks := getNat j "walks"
    let seed := getNat j "seed"
    if protoOf j == "current" then
      let sys := curSys c
      let ps := if walks > 0 then (List.range walks).map (fun k => randomWalk sys (seed * 1000003 + k) 200)
                else pathsUpTo sys depth limit
      some (obj [("proto", "current"), ("paths", jarr (ps.map (fun p => strArr (p.map curLabel))))])
    else
      let sys := fixSys (knobsOf j) c
      let ps := if walks > 0 then (List.range walks).map (fun k => randomWalk sys (seed * 1000003 + k) 200)
                else pathsUpTo sys depth limit
      some (obj [("proto", "fixed"), ("paths", jarr (ps.map (fun p => strArr (p.map fixLabel))))])
  | "c18.accept", j =>
    let c := cfgOf j
    let obs := obsOf j
    let maxNodes := if getNat j "maxNodes" == 0 then 200000 else getNat j "maxNodes"
    if protoOf j == "current" then
      let (ok, nodes, rest) := acceptSearch (curSys c) curPos obs maxNodes
      some (obj [("accepted", ok), ("nodes", nodes), ("proto", "current"),
        ("unmatched", obj (rest.map (fun (g, l) => (g, strArr l))))])
    else
      let (ok, nodes, rest) := acceptSearch (fixSys (knobsOf j) c) fixPos obs maxNodes
      some (obj [("accepted", ok), ("nodes", nodes), ("proto", "fixed"),
        ("unmatched", obj (rest.map (fun (g, l) => (g, strArr l))))])
  | _, _ => none

end PebblesVerif.Driver.DSubProto
