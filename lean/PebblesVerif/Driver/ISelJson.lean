import PebblesVerif.Driver.Util
import PebblesVerif.Model.ISel
/-! Wire format of introspection selection sets (producer: harness/cmd/vh/c16_sel.go):
`{"k":"f","a":alias,"n":name,"args":[{"n":name,"v":V}],"s":[…]}` | `{"k":"i","s":[…]}` with
`V = {"t":"lit","j":json} | {"t":"var","n":name,"hd":bool,"d":json}`. -/
namespace PebblesVerif.Driver
open Lean

def parseIVal (j : Json) : IVal :=
  if getStr j "t" == "var" then
    .var (getStr j "n") (if getBool j "hd" then some (toJ ((getObj? j "d").getD .null)) else none)
  else .lit (toJ ((getObj? j "j").getD .null))

partial def parseISel (j : Json) : ISel :=
  if getStr j "k" == "i" then .inline ((getArr j "s").map parseISel)
  else .field (getStr j "a") (getStr j "n")
    ((getArr j "args").map (fun a => (getStr a "n", parseIVal ((getObj? a "v").getD .null))))
    ((getArr j "s").map parseISel)

def ivalOut : IVal → Json
  | .lit j => obj [("t", "lit"), ("j", ofJ j)]
  | .var n d => obj [("t", "var"), ("n", n), ("hd", d.isSome), ("d", match d with | some j => ofJ j | none => .null)]

partial def iselOut : ISel → Json
  | .inline sub => obj [("k", "i"), ("s", jarr (sub.map iselOut))]
  | .field a n args sub =>
    obj [("k", "f"), ("a", a), ("n", n), ("args", jarr (args.map (fun x => obj [("n", x.1), ("v", ivalOut x.2)]))),
         ("s", jarr (sub.map iselOut))]

def parseVarsI (j : Json) (k : String) : List (String × J) :=
  match toJ ((getObj? j k).getD .null) with
  | .obj kvs => kvs
  | _ => []

end PebblesVerif.Driver
