import PebblesVerif.Driver.Util
import PebblesVerif.Basic.Schema
/-! Wire format of schemas: produced by harness/hx/schemajson.go (`hx.SchemaToJSON`). -/
namespace PebblesVerif.Driver
open Lean

partial def parseTypeRef (j : Json) : TypeRef :=
  let base : TypeRef :=
    match getObj? j "elem" with
    | some (.null) | none => .named (getStr j "name")
    | some e => .list (parseTypeRef e)
  if getBool j "nonNull" then .nonNull base else base

def optStr (j : Json) (k : String) : Option String :=
  match getObj? j k with
  | some (.str s) => some s
  | _ => none

def parseDirUse (j : Json) : DirUse :=
  { name := getStr j "name", args := (getArr j "args").map (fun a => (getStr a "name", getStr a "value")) }

def parseArgDef (j : Json) : ArgDef :=
  { name := getStr j "name", type := parseTypeRef ((getObj? j "type").getD .null), default := optStr j "default",
    desc := getStr j "desc", directives := (getArr j "directives").map parseDirUse }

def parseFieldDef (j : Json) : FieldDef :=
  { name := getStr j "name", args := (getArr j "args").map parseArgDef,
    type := parseTypeRef ((getObj? j "type").getD .null), default := optStr j "default",
    desc := getStr j "desc", directives := (getArr j "directives").map parseDirUse }

def parseKind (s : String) : Kind :=
  match s with
  | "SCALAR" => .scalar | "OBJECT" => .object | "INTERFACE" => .interface
  | "UNION" => .union | "ENUM" => .enum | _ => .inputObject

def parseTypeDef (j : Json) : TypeDef :=
  { name := getStr j "name", kind := parseKind (getStr j "kind"),
    fields := (getArr j "fields").map parseFieldDef,
    interfaces := (getArr j "interfaces").map asStr, members := (getArr j "members").map asStr,
    enumValues := (getArr j "enumValues").map (fun e =>
      { name := getStr e "name", desc := getStr e "desc", directives := (getArr e "directives").map parseDirUse }),
    desc := getStr j "desc", directives := (getArr j "directives").map parseDirUse,
    builtIn := getBool j "builtIn" }

def parseDirDef (j : Json) : DirDef :=
  { name := getStr j "name", desc := getStr j "desc", args := (getArr j "args").map parseArgDef,
    locations := (getArr j "locations").map asStr, repeatable := getBool j "repeatable" }

def parseAssoc (j : Json) (k : String) : List (String × List String) :=
  (getArr j k).map (fun e => (getStr e "key", (getArr e "values").map asStr))

def parseSchema (j : Json) : Schema :=
  { types := (getArr j "types").map parseTypeDef, directives := (getArr j "directives").map parseDirDef,
    possible := parseAssoc j "possible", implements := parseAssoc j "implements",
    query := optStr j "query", mutation := optStr j "mutation", subscription := optStr j "subscription" }

end PebblesVerif.Driver
