import PebblesVerif.Driver.Util
import PebblesVerif.Basic.Schema
/-! Schema → wire JSON, the inverse of `parseSchema` (same format as `hx.SchemaToJSON`). -/
namespace PebblesVerif.Driver
open Lean

def typeRefOut : TypeRef → Json
  | .named n => obj [("name", n), ("elem", .null), ("nonNull", false)]
  | .list t => obj [("name", ""), ("elem", typeRefOut t), ("nonNull", false)]
  | .nonNull (.named n) => obj [("name", n), ("elem", .null), ("nonNull", true)]
  | .nonNull (.list t) => obj [("name", ""), ("elem", typeRefOut t), ("nonNull", true)]
  | .nonNull (.nonNull t) => typeRefOut (.nonNull t)

def optStrOut : Option String → Json
  | some s => .str s
  | none => .null

def dirUseOut (d : DirUse) : Json :=
  obj [("name", d.name), ("args", jarr (d.args.map (fun a => obj [("name", a.1), ("value", a.2)])))]

def argDefOut (a : ArgDef) : Json :=
  obj [("name", a.name), ("type", typeRefOut a.type), ("desc", a.desc), ("default", optStrOut a.default),
       ("directives", jarr (a.directives.map dirUseOut))]

def fieldDefOut (f : FieldDef) : Json :=
  obj [("name", f.name), ("args", jarr (f.args.map argDefOut)), ("type", typeRefOut f.type), ("desc", f.desc),
       ("default", optStrOut f.default), ("directives", jarr (f.directives.map dirUseOut))]

def typeDefOut (t : TypeDef) : Json :=
  obj [("name", t.name), ("kind", t.kind.toString), ("fields", jarr (t.fields.map fieldDefOut)),
       ("interfaces", strArr t.interfaces), ("members", strArr t.members),
       ("enumValues", jarr (t.enumValues.map (fun e =>
          obj [("name", e.name), ("desc", e.desc), ("directives", jarr (e.directives.map dirUseOut))]))),
       ("desc", t.desc), ("directives", jarr (t.directives.map dirUseOut)), ("builtIn", t.builtIn)]

def dirDefOut (d : DirDef) : Json :=
  obj [("name", d.name), ("desc", d.desc), ("args", jarr (d.args.map argDefOut)),
       ("locations", strArr d.locations), ("repeatable", d.repeatable)]

def assocOut (l : List (String × List String)) : Json :=
  jarr (l.map (fun kv => obj [("key", kv.1), ("values", strArr kv.2)]))

def schemaOut (s : Schema) : Json :=
  obj [("types", jarr (s.types.map typeDefOut)), ("directives", jarr (s.directives.map dirDefOut)),
       ("possible", assocOut s.possible), ("implements", assocOut s.implements),
       ("query", optStrOut s.query), ("mutation", optStrOut s.mutation), ("subscription", optStrOut s.subscription)]

end PebblesVerif.Driver
