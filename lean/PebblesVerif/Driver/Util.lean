import Lean.Data.Json
import PebblesVerif.Basic.J
/-! JSON helpers shared by the driver handlers (core Lean only). -/
namespace PebblesVerif.Driver
open Lean

abbrev Handler := String → Json → Option Json

def getStr (j : Json) (k : String) : String := (j.getObjValAs? String k).toOption.getD ""
def getNat (j : Json) (k : String) : Nat := (j.getObjValAs? Nat k).toOption.getD 0
def getInt (j : Json) (k : String) : Int := (j.getObjValAs? Int k).toOption.getD 0
def getBool (j : Json) (k : String) : Bool := (j.getObjValAs? Bool k).toOption.getD false
def getArr (j : Json) (k : String) : List Json :=
  match j.getObjVal? k with
  | .ok (.arr a) => a.toList
  | _ => []
def getObj? (j : Json) (k : String) : Option Json := (j.getObjVal? k).toOption
def asNat (j : Json) : Nat := (fromJson? j : Except String Nat).toOption.getD 0
def asStr (j : Json) : String := (fromJson? j : Except String String).toOption.getD ""
def asBool (j : Json) : Bool := (fromJson? j : Except String Bool).toOption.getD false
def asArr : Json → List Json
  | .arr a => a.toList
  | _ => []
def natArr (l : List Nat) : Json := Json.arr (l.map (fun (n : Nat) => (toJson n))).toArray
def strArr (l : List String) : Json := Json.arr (l.map Json.str).toArray
def jarr (l : List Json) : Json := Json.arr l.toArray
def obj (kvs : List (String × Json)) : Json := Json.mkObj kvs

/-- wire JSON → model value (numbers keep their textual form) -/
partial def toJ : Json → J
  | .null => .null
  | .bool b => .bool b
  | .num n => .num (toString n)
  | .str s => .str s
  | .arr a => .arr (a.toList.map toJ)
  | .obj kvs => .obj (kvs.toList.map (fun (k, v) => (k, toJ v)))

/-- model value → wire JSON (a numeral that does not parse is sent as a string) -/
partial def ofJ : J → Json
  | .null => .null
  | .bool b => .bool b
  | .num r => match Json.parse r with
    | .ok (.num n) => .num n
    | _ => .str r
  | .str s => .str s
  | .arr xs => .arr (xs.map ofJ).toArray
  | .obj kvs => Json.mkObj (kvs.map (fun (k, v) => (k, ofJ v)))

end PebblesVerif.Driver
