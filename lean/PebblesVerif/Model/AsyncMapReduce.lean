/-
Model of `common.AsyncMapReduce` (common/helpers.go:24-79).

One goroutine per payload item (worker), one reducer goroutine, the caller ("main").
Three unbuffered channels (resChan, errChan, doneChan): a send is a rendez-vous with the
reducer's `select`, so a worker's send and the reducer's receive are ONE joint step.
`wg.Done()` is called by the *reducer*, after `reduceFunc`/`ExtendErrorList`.
The deferred `close`s run when main returns; a worker that is not yet done when the channels
are closed panics (send on closed channel) — modelled as `fault`.

Items are identified by their index; `cfg.ok[i]` says whether `mapFunc` succeeds on item i.
`acc` / `errs` record, in order, which indices were reduced / reported as errors, so the real
accumulator is `acc.foldl (fun a i => reduceFunc a (res i)) acc₀`.
-/
namespace PebblesVerif.AMR

inductive W | idle | mapping | ready | done
  deriving DecidableEq, Repr, Inhabited

inductive R | sel | reducing (i : Nat) | exited
  deriving DecidableEq, Repr, Inhabited

inductive M | waiting | passed | sent | returned
  deriving DecidableEq, Repr, Inhabited

structure Cfg where
  ok : List Bool
  deriving Repr

def Cfg.n (c : Cfg) : Nat := c.ok.length

structure St where
  ws     : List W
  red    : R
  main   : M
  wg     : Nat
  acc    : List Nat
  errs   : List Nat
  mapped : List Nat
  fault  : Bool
  deriving Repr

inductive Ev
  | mapBegin (i : Nat)      -- worker i enters mapFunc
  | mapEnd (i : Nat)        -- mapFunc returned; worker i now blocks on its send
  | reduceBegin (i : Nat)   -- rendez-vous on resChan with worker i; reducer enters reduceFunc
  | reduceEnd (i : Nat)     -- reduceFunc returned; wg.Done()
  | errRecv (i : Nat)       -- rendez-vous on errChan with worker i; ExtendErrorList; wg.Done()
  | waitPass                -- wg.Wait() returns in main
  | doneSend                -- rendez-vous on doneChan; reducer returns
  | ret                     -- main returns; deferred closes run
  deriving DecidableEq, Repr

def init (c : Cfg) : St :=
  { ws := List.replicate c.n .idle, red := .sel, main := .waiting, wg := c.n,
    acc := [], errs := [], mapped := [], fault := false }

/-- Executable transition function: `none` = event not enabled. -/
def step? (c : Cfg) (s : St) : Ev → Option St
  | .mapBegin i =>
      if s.ws[i]? = some .idle then
        some { s with ws := s.ws.set i .mapping, mapped := s.mapped ++ [i] }
      else none
  | .mapEnd i =>
      if s.ws[i]? = some .mapping then some { s with ws := s.ws.set i .ready } else none
  | .reduceBegin i =>
      if s.ws[i]? = some .ready ∧ c.ok[i]? = some true ∧ s.red = .sel then
        some { s with ws := s.ws.set i .done, red := .reducing i }
      else none
  | .reduceEnd i =>
      if s.red = .reducing i then
        some { s with red := .sel, acc := s.acc ++ [i], wg := s.wg - 1,
                      fault := s.fault || (s.wg == 0) }     -- negative WaitGroup counter panics
      else none
  | .errRecv i =>
      if s.ws[i]? = some .ready ∧ c.ok[i]? = some false ∧ s.red = .sel then
        some { s with ws := s.ws.set i .done, errs := s.errs ++ [i], wg := s.wg - 1,
                      fault := s.fault || (s.wg == 0) }
      else none
  | .waitPass =>
      if s.main = .waiting ∧ s.wg = 0 then some { s with main := .passed } else none
  | .doneSend =>
      if s.main = .passed ∧ s.red = .sel then some { s with main := .sent, red := .exited } else none
  | .ret =>
      if s.main = .sent then
        -- close(doneChan); close(errChan); close(resChan): any worker that has not completed its
        -- send will (now or later) send on a closed channel
        some { s with main := .returned, fault := s.fault || s.ws.any (· ≠ .done) }
      else none

def Step (c : Cfg) (s : St) (e : Ev) (s' : St) : Prop := step? c s e = some s'

inductive Reach (c : Cfg) : St → Prop
  | init : Reach c (init c)
  | step {s e s'} : Reach c s → Step c s e s' → Reach c s'

/-- A run: the list of events taken from the initial state, with the state reached. -/
inductive Run (c : Cfg) : List Ev → St → Prop
  | nil : Run c [] (init c)
  | snoc {tr s e s'} : Run c tr s → Step c s e s' → Run c (tr ++ [e]) s'

theorem Run.reach {c tr s} (h : Run c tr s) : Reach c s := by
  induction h with
  | nil => exact .init
  | snoc _ hs ih => exact .step ih hs

theorem Reach.run {c s} (h : Reach c s) : ∃ tr, Run c tr s := by
  induction h with
  | init => exact ⟨[], .nil⟩
  | step _ hs ih => obtain ⟨tr, htr⟩ := ih; exact ⟨_, .snoc htr hs⟩

def Final (s : St) : Prop := s.main = .returned

/-- executable run of a whole event list -/
def runEvents (c : Cfg) : St → List Ev → Option St
  | s, [] => some s
  | s, e :: es => match step? c s e with
    | some s' => runEvents c s' es
    | none => none

/-- All events that could possibly be enabled in a state (finite candidate list). -/
def candidates (c : Cfg) : List Ev :=
  (List.range c.n).flatMap (fun i => [.mapBegin i, .mapEnd i, .reduceBegin i, .reduceEnd i, .errRecv i])
    ++ [.waitPass, .doneSend, .ret]

def enabled (c : Cfg) (s : St) : List Ev := (candidates c).filter (fun e => (step? c s e).isSome)

/-- termination measure -/
def wWeight : W → Nat
  | .idle => 4 | .mapping => 3 | .ready => 2 | .done => 0

def mWeight : M → Nat
  | .waiting => 3 | .passed => 2 | .sent => 1 | .returned => 0

def rWeight : R → Nat
  | .reducing _ => 1 | _ => 0

def measure (s : St) : Nat := (s.ws.map wWeight).sum + rWeight s.red + mWeight s.main

end PebblesVerif.AMR
