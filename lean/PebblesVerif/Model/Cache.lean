import PebblesVerif.Spec.AbstractCache
/-!
# Model of `planner.CachedPlanner` (planner/cached_planner.go), sequential view

State = the two Go maps `cache : hashKey → *QueryPlan` and `cacheTimers : hashKey → time.Time`.
They are only ever written together (under `Lock`), so one association list of
`(key, plan, expiry)` with at most one entry per key carries both.

`Plan(ctx)`:
```
hk := cp.hash(ctx)
cp.clean()                       -- ttlnow := time.Now(); delete every entry with v.Before(ttlnow)
if res, ok := cp.cache[hk]; ok { return res }            -- hit
res, err := cp.executor.Plan(ctx); if err != nil { return nil, err }   -- errors are NOT cached
cp.cache[hk] = res; cp.cacheTimers[hk] = time.Now().Add(cp.TTL)       -- second clock read
```
`v.Before(ttlnow)` is the strict `expiry < now`; the expiry is computed from a clock reading
taken AFTER planning.

The cache stores a *pointer*: the object handed to the consumer is the cached object. A
consumer that writes through it (today: `newSubscriptionEntry`, `rs.Then = nil`) changes the
cache entry; `Req.write` is that write, applied to the entry under the request's key.
-/
namespace PebblesVerif.Cache

structure Entry (Key Plan : Type) where
  key : Key
  plan : Plan
  expiry : Nat
  deriving Repr, DecidableEq

abbrev St (Key Plan : Type) := List (Entry Key Plan)

variable {Op Plan Key E : Type} [DecidableEq Key]

/-- `clean`: drop every entry whose expiry lies strictly before `now`. -/
def clean (now : Nat) (st : St Key Plan) : St Key Plan :=
  st.filter (fun e => !decide (e.expiry < now))

/-- map lookup -/
def lookup (k : Key) (st : St Key Plan) : Option Plan :=
  (st.find? (fun e => decide (e.key = k))).map (·.plan)

/-- map assignment (overwrites) -/
def insert (k : Key) (p : Plan) (x : Nat) (st : St Key Plan) : St Key Plan :=
  ⟨k, p, x⟩ :: st.filter (fun e => !decide (e.key = k))

/-- the consumer's in-place write reaches the cached object under `k` -/
def touch (k : Key) (f : Plan → Plan) (st : St Key Plan) : St Key Plan :=
  st.map (fun e => if e.key = k then { e with plan := f e.plan } else e)

structure Out (Plan E : Type) where
  res : Except E Plan
  hit : Bool

/-- One call of `CachedPlanner.Plan` followed by the consumer's use of the result. -/
def request (S : Sys Op Plan Key E) (ttl : Nat) (r : Req Op Plan) (st : St Key Plan) :
    Out Plan E × St Key Plan :=
  let k := S.key r.op
  let st1 := clean r.t1 st
  match lookup k st1 with
  | some p => (⟨.ok p, true⟩, touch k r.write st1)
  | none =>
    match S.plain r.op with
    | .error e => (⟨.error e, false⟩, st1)
    | .ok p => (⟨.ok p, false⟩, touch k r.write (insert k p (r.t2 + ttl) st1))

/-- A whole history from a given cache state: outputs with their hit/miss flags. -/
def runFrom (S : Sys Op Plan Key E) (ttl : Nat) : List (Req Op Plan) → St Key Plan → List (Out Plan E)
  | [], _ => []
  | r :: rs, st =>
    let (o, st') := request S ttl r st
    o :: runFrom S ttl rs st'

/-- A whole history on a fresh `NewCachedPlanner(ttl)`. -/
def runCached (S : Sys Op Plan Key E) (ttl : Nat) (hist : List (Req Op Plan)) : List (Except E Plan) :=
  (runFrom S ttl hist []).map (·.res)

def hits (S : Sys Op Plan Key E) (ttl : Nat) (hist : List (Req Op Plan)) : List Bool :=
  (runFrom S ttl hist []).map (·.hit)

end PebblesVerif.Cache
