import PebblesVerif.Model.Cache
/-!
# Lock-level transition system for k concurrent calls of `CachedPlanner.Plan`

One process per request; the shared state is the cache (the two maps) and the `sync.RWMutex`
(`readers` = number of holders of the read lock, `writer` = the write lock is held).
`RLock` is enabled iff no writer holds the lock; `Lock` iff nobody holds it. (Go additionally
blocks new readers while a writer waits — that only removes schedules; every real schedule is
a schedule of this system.)

Per process, following the source line by line:
```
hk := cp.hash(ctx)                                       hash
clean: ttlnow := time.Now(); cp.RLock()                  rlockScan now
       range cacheTimers → toDelete; cp.RUnlock()        scanDone        (toDelete = [] ⇒ clean returns)
       cp.Lock()                                         lockDelete
       delete … ; cp.Unlock()                            deleteDone
cp.RLock()                                               rlockLookup
res, ok := cp.cache[hk]; cp.RUnlock()                    lookupDone      (hit ⇒ return res)
res, err := cp.executor.Plan(ctx)                        plan            (error ⇒ return err)
cp.Lock()                                                lockInsert
cache[hk] = res; timers[hk] = time.Now()+TTL; Unlock     insertDone now
```
The maps are read/written at the `…Done` event of a critical section. That is exact: by
`C14_conc_mutex` no writer is inside its section while any other process is inside one, so the
maps are constant throughout a read section and a write section is alone. Clock readings are
arbitrary naturals carried by the events ("any clock").
-/
namespace PebblesVerif.Cache.Conc
open PebblesVerif.Cache

inductive PC (Plan Key E : Type)
  | start
  | hashed
  | scanning (now : Nat)
  | scanned (del : List Key)
  | deleting (del : List Key)
  | cleaned
  | looking
  | missed
  | planned (p : Plan)
  | inserting (p : Plan)
  | done (r : Except E Plan) (hit : Bool)

structure St (Plan Key E : Type) where
  pcs : List (PC Plan Key E)
  cache : Cache.St Key Plan
  readers : Nat
  writer : Bool

inductive Ev
  | hash (i : Nat)
  | rlockScan (i : Nat) (now : Nat)
  | scanDone (i : Nat)
  | lockDelete (i : Nat)
  | deleteDone (i : Nat)
  | rlockLookup (i : Nat)
  | lookupDone (i : Nat)
  | plan (i : Nat)
  | lockInsert (i : Nat)
  | insertDone (i : Nat) (now : Nat)
  deriving Repr, DecidableEq

/-- configuration: the planner, the TTL, and the operation of each concurrent request -/
structure Cfg (Op Plan Key E : Type) where
  sys : Sys Op Plan Key E
  ttl : Nat
  ops : List Op

variable {Op Plan Key E : Type} [DecidableEq Key]

def init (c : Cfg Op Plan Key E) (cache : Cache.St Key Plan) : St Plan Key E :=
  { pcs := c.ops.map (fun _ => .start), cache := cache, readers := 0, writer := false }

/-- keys whose timer lies strictly before `now` (`v.Before(ttlnow)`) -/
def expired (now : Nat) (cache : Cache.St Key Plan) : List Key :=
  (cache.filter (fun e => decide (e.expiry < now))).map (·.key)

/-- `delete(cp.cache, hk); delete(cp.cacheTimers, hk)` for every collected key — whatever the
    entry under that key is by now -/
def deleteKeys (del : List Key) (cache : Cache.St Key Plan) : Cache.St Key Plan :=
  cache.filter (fun e => !decide (e.key ∈ del))

/-- Executable transition function: `none` = event not enabled. -/
def step? (c : Cfg Op Plan Key E) (s : St Plan Key E) : Ev → Option (St Plan Key E)
  | .hash i =>
    match s.pcs[i]? with
    | some .start => some { s with pcs := s.pcs.set i .hashed }
    | _ => none
  | .rlockScan i now =>
    match s.pcs[i]? with
    | some .hashed =>
      if s.writer = false then some { s with pcs := s.pcs.set i (.scanning now), readers := s.readers + 1 }
      else none
    | _ => none
  | .scanDone i =>
    match s.pcs[i]? with
    | some (.scanning now) =>
      let del := expired now s.cache
      some { s with pcs := s.pcs.set i (if del.isEmpty then .cleaned else .scanned del),
                    readers := s.readers - 1 }
    | _ => none
  | .lockDelete i =>
    match s.pcs[i]? with
    | some (.scanned del) =>
      if s.writer = false ∧ s.readers = 0 then some { s with pcs := s.pcs.set i (.deleting del), writer := true }
      else none
    | _ => none
  | .deleteDone i =>
    match s.pcs[i]? with
    | some (.deleting del) =>
      some { s with pcs := s.pcs.set i .cleaned, cache := deleteKeys del s.cache, writer := false }
    | _ => none
  | .rlockLookup i =>
    match s.pcs[i]? with
    | some .cleaned =>
      if s.writer = false then some { s with pcs := s.pcs.set i .looking, readers := s.readers + 1 }
      else none
    | _ => none
  | .lookupDone i =>
    match s.pcs[i]?, c.ops[i]? with
    | some .looking, some op =>
      match lookup (c.sys.key op) s.cache with
      | some p => some { s with pcs := s.pcs.set i (.done (.ok p) true), readers := s.readers - 1 }
      | none => some { s with pcs := s.pcs.set i .missed, readers := s.readers - 1 }
    | _, _ => none
  | .plan i =>
    match s.pcs[i]?, c.ops[i]? with
    | some .missed, some op =>
      match c.sys.plain op with
      | .ok p => some { s with pcs := s.pcs.set i (.planned p) }
      | .error e => some { s with pcs := s.pcs.set i (.done (.error e) false) }
    | _, _ => none
  | .lockInsert i =>
    match s.pcs[i]? with
    | some (.planned p) =>
      if s.writer = false ∧ s.readers = 0 then some { s with pcs := s.pcs.set i (.inserting p), writer := true }
      else none
    | _ => none
  | .insertDone i now =>
    match s.pcs[i]?, c.ops[i]? with
    | some (.inserting p), some op =>
      some { s with pcs := s.pcs.set i (.done (.ok p) false),
                    cache := insert (c.sys.key op) p (now + c.ttl) s.cache, writer := false }
    | _, _ => none

def Step (c : Cfg Op Plan Key E) (s : St Plan Key E) (e : Ev) (s' : St Plan Key E) : Prop :=
  step? c s e = some s'

/-- states reachable from `init c cache₀` by any interleaving of the processes' steps -/
inductive Reach (c : Cfg Op Plan Key E) (cache₀ : Cache.St Key Plan) : St Plan Key E → Prop
  | init : Reach c cache₀ (init c cache₀)
  | step {s e s'} : Reach c cache₀ s → Step c s e s' → Reach c cache₀ s'

def runEvents (c : Cfg Op Plan Key E) : St Plan Key E → List Ev → Option (St Plan Key E)
  | s, [] => some s
  | s, e :: es => match step? c s e with
    | some s' => runEvents c s' es
    | none => none

/-- a process is inside a read-locked / write-locked section -/
def rd : PC Plan Key E → Nat
  | .scanning _ => 1 | .looking => 1 | _ => 0
def wr : PC Plan Key E → Nat
  | .deleting _ => 1 | .inserting _ => 1 | _ => 0

def isDone : PC Plan Key E → Bool
  | .done _ _ => true | _ => false

def Final (s : St Plan Key E) : Prop := ∀ pc ∈ s.pcs, isDone pc = true

/-- termination measure: remaining program steps -/
def weight : PC Plan Key E → Nat
  | .start => 10 | .hashed => 9 | .scanning _ => 8 | .scanned _ => 7 | .deleting _ => 6
  | .cleaned => 5 | .looking => 4 | .missed => 3 | .planned _ => 2 | .inserting _ => 1 | .done _ _ => 0

def measure (s : St Plan Key E) : Nat := (s.pcs.map weight).sum

end PebblesVerif.Cache.Conc
