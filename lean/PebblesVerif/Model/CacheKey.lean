import PebblesVerif.Spec.AbstractCache
/-!
# What the cache key covers, and what a plan depends on

A concrete reading of `Op` for the key question. The planning context of one request is
`(Operation, Request, Schema, TypeURLMap)`; schema and routing table are fixed per gateway, the
planner package never reads `ctx.Request` (regenerated fact `plannerReadsRequest = false`), so
what varies is the operation: its type, its name, its variable definitions and its selection
set, the latter with every named fragment already resolved by gqlparser
(`FragmentSpread.Definition`).

`Sel` keeps exactly the distinction that matters: what `format.FormatSelectionSet` prints of a
selection (`label`: alias, name, arguments, directives for a field; `on T` and directives for an
inline fragment; the spread NAME and directives for a fragment spread — followed in all cases by
the formatted sub-selection, for a spread the fragment body) and what it does not print: the
type condition of a spread fragment (`formatFragmentSpread`). The printed text is modelled by
the erased tree (`erase`), i.e. the printer is assumed injective on what it prints and SHA-1
injective on the strings compared (DESIGN §8).
-/
namespace PebblesVerif.CacheKey

inductive OpType | query | mutation | subscription
  deriving DecidableEq, Repr

inductive Sel where
  | field (label : String) (sub : List Sel)
  | inline (label : String) (sub : List Sel)
  | spread (label : String) (cond : String) (sub : List Sel)
  deriving Repr

mutual
def Sel.beq : Sel → Sel → Bool
  | .field l s, .field l' s' => l == l' && Sel.beqL s s'
  | .inline l s, .inline l' s' => l == l' && Sel.beqL s s'
  | .spread l c s, .spread l' c' s' => l == l' && c == c' && Sel.beqL s s'
  | _, _ => false
def Sel.beqL : List Sel → List Sel → Bool
  | [], [] => true
  | a :: as, b :: bs => Sel.beq a b && Sel.beqL as bs
  | _, _ => false
end

structure COp where
  type : OpType
  name : String
  varDefs : List (String × String)
  sel : List Sel
  deriving Repr

mutual
/-- what `FormatSelectionSet` prints: everything but the type condition of spreads -/
def erase : Sel → Sel
  | .field l sub => .field l (eraseL sub)
  | .inline l sub => .inline l (eraseL sub)
  | .spread l _ sub => .spread l "" (eraseL sub)
def eraseL : List Sel → List Sel
  | [] => []
  | s :: ss => erase s :: eraseL ss
end

mutual
/-- `writeFragmentTypeConditions`: the type conditions of the spreads, in traversal order -/
def conds : Sel → List String
  | .field _ sub => condsL sub
  | .inline _ sub => condsL sub
  | .spread _ c sub => c :: condsL sub
def condsL : List Sel → List String
  | [] => []
  | s :: ss => conds s ++ condsL ss
end

/-- Which parts of the operation reach the hash (regenerated: `Gen.CacheKey.facts`). -/
structure KeySpec where
  opType : Bool
  opName : Bool
  selection : Bool
  fragmentConds : Bool
  deriving DecidableEq, Repr

/-- the hashed material, as a structured value (field separators `\0` in the code) -/
structure Key where
  opType : Option OpType
  opName : Option String
  printed : Option (List Sel)
  conds : Option (List String)

def keyOf (k : KeySpec) (o : COp) : Key :=
  { opType := if k.opType then some o.type else none,
    opName := if k.opName then some o.name else none,
    printed := if k.selection then some (eraseL o.sel) else none,
    conds := if k.fragmentConds then some (condsL o.sel) else none }

/-- What the wrapped planner can see of an operation: the fields of `ctx.Operation` it reads
    (regenerated: `plannerReads = [Name, Operation, SelectionSet]`) — NOT the variable
    definitions. Any planner is a function of this view. -/
structure View where
  type : OpType
  name : String
  sel : List Sel

def view (o : COp) : View := ⟨o.type, o.name, o.sel⟩

/-- The header logic of the real planner (`QueryPlanStep.SetComputedValues` + the sanitiser's
    spread → inline-fragment rewriting), small enough to evaluate: operation keyword, operation
    name and the selection with spreads replaced by `... on cond`. Used for the collision
    witnesses. -/
structure Header where
  keyword : OpType
  name : String
  body : List Sel
  deriving Repr

mutual
def inlineSpreads : Sel → Sel
  | .field l sub => .field l (inlineSpreadsL sub)
  | .inline l sub => .inline l (inlineSpreadsL sub)
  | .spread _ c sub => .inline ("on " ++ c) (inlineSpreadsL sub)
def inlineSpreadsL : List Sel → List Sel
  | [] => []
  | s :: ss => inlineSpreads s :: inlineSpreadsL ss
end

def headerPlan (v : View) : Header := ⟨v.type, v.name, inlineSpreadsL v.sel⟩

def Header.beq (a b : Header) : Bool :=
  decide (a.keyword = b.keyword) && a.name == b.name && Sel.beqL a.body b.body

/-- the cached planner instantiated with a key spec and an arbitrary planner over the view -/
def sys {Plan E : Type} (k : KeySpec) (planner : View → Except E Plan) : Cache.Sys COp Plan Key E :=
  { key := keyOf k, plain := fun o => planner (view o) }

end PebblesVerif.CacheKey
