import PebblesVerif.Gen.Chunk
/-!
Model of `MultiOpQueryer.Query` (queryer/multiop_queryer.go:68-116): splitting `inputs` into
chunks of at most `maxBatchSize`, and the reducer that splices each chunk's answers back into
the accumulator. All integer expressions come from `Gen/Chunk.lean` (regenerated from the Go
source on every run). Go slice expressions panic when out of range: modelled by `Option`.
-/
namespace PebblesVerif.Chunk
open PebblesVerif.Gen.Chunk

/-- Go `xs[lo:hi]` (panics unless `lo ≤ hi ≤ len`; the slices involved have cap = len) -/
def slice? (xs : List α) (lo hi : Nat) : Option (List α) :=
  if lo ≤ hi ∧ hi ≤ xs.length then some ((xs.take hi).drop lo) else none

/-- Go `xs[lo:]` -/
def sliceFrom? (xs : List α) (lo : Nat) : Option (List α) :=
  if lo ≤ xs.length then some (xs.drop lo) else none

/-- the map closure's `inputsSlice` for chunk `i` -/
def chunkOf? (xs : List α) (m i : Nat) : Option (List α) :=
  let N := xs.length
  if mapTail N m i then sliceFrom? xs (mapLoOpen N m i) else slice? xs (mapLo N m i) (mapHi N m i)

/-- the reduce closure: `tail := resp (++ acc[(i+1)m:])`, `acc = append(acc[0:im], tail...)` -/
def splice? (N m : Nat) (acc : List β) (i : Nat) (resp : List β) : Option (List β) :=
  let tail? := if redHasTail N m i then (sliceFrom? acc (redTailFrom N m i)).map (resp ++ ·) else some resp
  match tail?, slice? acc (redHeadFrom N m i) (redHeadTo N m i) with
  | some tail, some head => some (head ++ tail)
  | _, _ => none

/-- specification-level chunk: requests `[i·m, i·m+m) ∩ [0, N)` -/
def specChunk (xs : List α) (m i : Nat) : List α := (xs.drop (i * m)).take m

/-- specification-level splice: overwrite positions `[i·m, i·m+m)` -/
def specSplice (m : Nat) (acc : List β) (i : Nat) (r : List β) : List β :=
  acc.take (i * m) ++ r ++ acc.drop (i * m + m)

/-- HTTP calls made by `queryBatch` on a chunk: one multipart call per request carrying files,
    one JSON call for all the others if there is at least one (multiop_queryer.go:119-163). -/
def callsOf (hasFiles : List Bool) : Nat :=
  (hasFiles.filter id).length + (if (hasFiles.filter (!·)).isEmpty then 0 else 1)

/-- the reducer applied to chunk results arriving in `order` (a Go panic is `none`) -/
def spliceAll (N m : Nat) (resp : Nat → List β) (acc0 : List β) (order : List Nat) : Option (List β) :=
  order.foldl (fun acc i => acc.bind (fun a => splice? N m a i (resp i))) (some acc0)

/-- Executable whole-function model used by the driver. `answer c` = the downstream's answer for
    chunk `c` (`none` = the call failed); `order` = the order in which the reducer receives the chunk
    results. Result: `(chunks sent, outcome)`; outcome `none` = error returned to the caller,
    `some none` = Go would panic (slice out of range), `some (some rs)` = results. -/
def query (m : Nat) (xs : List α) (answer : List α → Option (List β)) (dflt : β) (order : List Nat) :
    List (List α) × Option (Option (List β)) :=
  let N := xs.length
  if direct N m then
    ([xs], (answer xs).map some)
  else
    let k := numChunks N m
    let chunks := (List.range k).map (fun i => (chunkOf? xs m i))
    if chunks.any Option.isNone then ([], some none) else
    let cs := chunks.map (·.getD [])
    let resps := cs.map answer
    if resps.any Option.isNone then (cs, none) else
    (cs, some (spliceAll N m (fun i => (resps[i]?.getD none).getD []) (List.replicate N dflt) order))

end PebblesVerif.Chunk
