/-
Writers sharing one websocket connection (every `Listen`, the heartbeat, the handler's ack and
close frame). gobwas writes a frame as TWO `Write` calls on the connection: the header, then the
payload (`ws.WriteFrame`). The byte-level write log is the list of these parts in the order the
connection saw them.

`locked = false`: the unchanged tree (`wsutil.WriteServerText(conn, …)` straight on the
net.Conn). `locked = true`: the repaired tree (`wsConn.writeText`: Lock · header · payload ·
Unlock).
-/
namespace PebblesVerif.ConnWrite

/-- one `Write` call: the header or the payload of frame `f` of writer `w` -/
inductive Part | hdr (w f : Nat) | pay (w f : Nat)
  deriving DecidableEq, Repr, Inhabited, BEq, Hashable

inductive WPc | idle | wantLock | hdr | pay | unlock
  deriving DecidableEq, Repr, Inhabited, BEq, Hashable

structure W where
  pc : WPc
  f : Nat       -- index of the frame being (or next to be) written
  left : Nat    -- frames still to write
  deriving DecidableEq, Repr, Inhabited, BEq, Hashable

structure Cfg where
  locked : Bool
  frames : List Nat     -- number of frames each writer writes
  deriving DecidableEq, Repr, Inhabited

structure St where
  ws : List W
  mutex : Option Nat
  log : List Part
  deriving DecidableEq, Repr, Inhabited, BEq, Hashable

inductive Ev | begin (i : Nat) | lock (i : Nat) | hdr (i : Nat) | pay (i : Nat) | unlock (i : Nat)
  deriving DecidableEq, Repr, Inhabited, BEq, Hashable

def init (c : Cfg) : St := { ws := c.frames.map (fun n => ⟨.idle, 0, n⟩), mutex := none, log := [] }

def step? (c : Cfg) (s : St) : Ev → Option St
  | .begin i =>
      match s.ws[i]? with
      | some w => if w.pc = .idle ∧ w.left > 0 then
          some { s with ws := s.ws.set i { w with pc := (if c.locked then WPc.wantLock else WPc.hdr) } } else none
      | none => none
  | .lock i =>
      match s.ws[i]? with
      | some w => if w.pc = .wantLock ∧ s.mutex = none then
          some { s with ws := s.ws.set i { w with pc := .hdr }, mutex := some i } else none
      | none => none
  | .hdr i =>
      match s.ws[i]? with
      | some w => if w.pc = .hdr then
          some { s with ws := s.ws.set i { w with pc := .pay }, log := s.log ++ [.hdr i w.f] } else none
      | none => none
  | .pay i =>
      match s.ws[i]? with
      | some w => if w.pc = .pay then
          (if c.locked then some { s with ws := s.ws.set i { w with pc := .unlock }, log := s.log ++ [.pay i w.f] }
           else some { s with ws := s.ws.set i ⟨.idle, w.f + 1, w.left - 1⟩, log := s.log ++ [.pay i w.f] })
        else none
      | none => none
  | .unlock i =>
      match s.ws[i]? with
      | some w => if w.pc = .unlock then
          some { s with ws := s.ws.set i ⟨.idle, w.f + 1, w.left - 1⟩, mutex := none } else none
      | none => none

def Step (c : Cfg) (s : St) (e : Ev) (s' : St) : Prop := step? c s e = some s'

inductive Reach (c : Cfg) : St → Prop
  | init : Reach c (init c)
  | step {s e s'} : Reach c s → Step c s e s' → Reach c s'

def runEvents (c : Cfg) : St → List Ev → Option St
  | s, [] => some s
  | s, e :: es => match step? c s e with
    | some s' => runEvents c s' es
    | none => none

theorem reach_of_run {c : Cfg} {s s' : St} {es : List Ev} (h : Reach c s)
    (hr : runEvents c s es = some s') : Reach c s' := by
  induction es generalizing s with
  | nil => simp [runEvents] at hr; subst hr; exact h
  | cons e es ih =>
    simp only [runEvents] at hr
    cases hs : step? c s e with
    | none => simp [hs] at hr
    | some s1 => rw [hs] at hr; exact ih (.step h hs) hr

def candidates (s : St) : List Ev :=
  (List.range s.ws.length).flatMap (fun i => [.begin i, .lock i, .hdr i, .pay i, .unlock i])

def enabled (c : Cfg) (s : St) : List Ev := (candidates s).filter (fun e => (step? c s e).isSome)

/-- the bytes of one whole frame -/
def frame (wf : Nat × Nat) : List Part := [.hdr wf.1 wf.2, .pay wf.1 wf.2]

/-- the log is a concatenation of whole frames -/
def Whole (log : List Part) : Prop := ∃ fs : List (Nat × Nat), log = fs.flatMap frame

/-- executable: a concatenation of whole frames, possibly followed by the header of a frame
    whose payload has not been written yet -/
def okLog : List Part → Bool
  | [] => true
  | [.hdr _ _] => true
  | .hdr w f :: .pay w' f' :: rest => w == w' && f == f' && okLog rest
  | _ => false

/-- what a reader of the connection sees is NOT a sequence of frames -/
def torn (s : St) : Bool := !okLog s.log

end PebblesVerif.ConnWrite
