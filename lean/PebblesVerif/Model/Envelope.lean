import PebblesVerif.Basic.J
import PebblesVerif.Model.Parse
/-!
# Model of the response envelope of `gateway.queryHandler` (C07)

`gateway.go:160-180` (`Result`, `Results.Emit`), `:187-300` (`queryHandler`), `:340-350`
(`emitError`). What one request does between decode and envelope (validate, plan, execute,
scrub) is a parameter `run : Req → Outcome` — those stages belong to other models; here only the
three shapes `queryHandler` can build a `Result` from matter. Core Lean only.
-/
namespace PebblesVerif.Envelope
open PebblesVerif PebblesVerif.Upload PebblesVerif.Parse
open PebblesVerif.Gen.Requests (Facts)

/-- `pebbles.Result`: `Errors ErrorList json:"errors,omitempty"`, `Data map json:"data"` -/
structure Result where
  errors : List J
  /-- `none`: nil map, marshalled as `null` -/
  data : Option (List (String × J))

/-- `json.Marshal(result)`: struct fields in declaration order, `errors` omitted when empty -/
def encodeResult (r : Result) : J :=
  .obj ((if r.errors.isEmpty then [] else [("errors", .arr r.errors)]) ++
        [("data", match r.data with | some m => .obj m | none => .null)])

/-- the three ways `queryHandler`'s map function builds a `Result` -/
inductive Outcome where
  /-- `LoadQuery` failed, no operation selected, or planning failed: `Errors: …, Data: nil` -/
  | invalid (errs : List J)
  /-- `parseIntrospectionQuery` answered -/
  | introspection (data : List (String × J))
  /-- executed and scrubbed: `Errors: FormatError(err), Data: result` (`result` may be nil) -/
  | executed (data : Option (List (String × J))) (errs : List J)

def resultOf : Outcome → Result
  | .invalid errs => { errors := errs, data := none }
  | .introspection d => { errors := [], data := some d }
  | .executed d errs => { errors := errs, data := d }

structure Response where
  status : Nat
  body : J

/-- `gqlerrors.FormatError(err)` of a plain error: one `Error{Extensions:{code: UNDEFINED_ERROR}, Message}` -/
def formatPlainError (e : ErrClass) : J :=
  .obj [("extensions", .obj [("code", .str "UNDEFINED_ERROR")]), ("message", .str e.name)]

/-- `queryHandler`: decode failure ⇒ `emitError(w, <decodeFailStatus>, err)` (a map, so keys come
out sorted: data, errors); otherwise every request is run (through `AsyncMapReduce`, results
placed by index: C20/C08) and `Results.Emit` writes `<okStatus>` and the array, or `rs[0]`. -/
def respond (F : Facts) (p : Res (List Req × Bool)) (run : Req → Outcome) : Res Response :=
  match p with
  | .panic x => .panic x
  | .err e => .ok { status := F.decodeFailStatus, body := .obj [("data", .null), ("errors", .arr [formatPlainError e])] }
  | .ok (reqs, batch) =>
    if batch then .ok { status := F.okStatus, body := .arr (reqs.map (fun r => encodeResult (resultOf (run r)))) }
    else match reqs with
      | r :: _ => .ok { status := F.okStatus, body := encodeResult (resultOf (run r)) }
      | [] => .panic .emitIndex

/-! ## the property's shape predicates -/

/-- `{data, errors?}`: an object whose members are among `data`/`errors`, with `data` present and
`errors`, when present, a non-empty array -/
def isEnvelope : J → Bool
  | .obj kvs =>
    kvs.all (fun kv => kv.1 == "data" || kv.1 == "errors") &&
    (J.lookup "data" kvs).isSome &&
    (match J.lookup "errors" kvs with
      | none => true
      | some (.arr (_ :: _)) => true
      | some _ => false)
  | _ => false

/-- errors present and `data: null` -/
def isErrorEnvelope : J → Bool
  | .obj kvs =>
    isEnvelope (.obj kvs) &&
    (match J.lookup "errors" kvs with | some (.arr (_ :: _)) => true | _ => false) &&
    (match J.lookup "data" kvs with | some .null => true | _ => false)
  | _ => false

/-- body of a response to a request that had `n` operations -/
def wellFormedBody (batch : Bool) (n : Nat) : J → Bool
  | .arr xs => batch && xs.length == n && xs.all isEnvelope
  | j => !batch && isEnvelope j

end PebblesVerif.Envelope
